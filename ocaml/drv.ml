(* Generic correspondence driver.  Reads lines "c1 c2 ... | o1 o2 ..." (decimal
   integers; the case on the left, what the implementation did on the right),
   evaluates the extracted Coq functions
     vp_run     : case -> obs          (the model)
     vp_check   : case -> obs -> bool  (the property, on the implementation's obs)
     vp_nontriv : case -> obs -> bool  (non-triviality rule, for the evidence)
   and reports every disagreement.  Trusted: int <-> Z conversion and parsing. *)
open Model

let rec pos_of_int n =
  if n = 1 then XH
  else if n land 1 = 0 then XO (pos_of_int (n lsr 1))
  else XI (pos_of_int (n lsr 1))
let z_of_int n = if n = 0 then Z0 else if n > 0 then Zpos (pos_of_int n) else Zneg (pos_of_int (- n))
let rec int_of_pos = function XH -> 1 | XO p -> 2 * int_of_pos p | XI p -> 2 * int_of_pos p + 1
let int_of_z = function Z0 -> 0 | Zpos p -> int_of_pos p | Zneg p -> - (int_of_pos p)

let parse_ints (s : string) : z list =
  let n = String.length s in
  let rec go i acc =
    if i >= n then List.rev acc
    else if s.[i] = ' ' then go (i + 1) acc
    else begin
      let j = ref i in
      while !j < n && s.[!j] <> ' ' do incr j done;
      go !j (z_of_int (int_of_string (String.sub s i (!j - i))) :: acc)
    end in
  go 0 []

let show_ints (l : z list) = String.concat " " (List.map (fun z -> string_of_int (int_of_z z)) l)

(* positions the model marks WILD (-999999999999: results of libm / nalgebra float code that it
   does not predict) match any observation; they are judged by vp_check alone *)
let wild = z_of_int (-999999999999)
let rec matches (m : z list) (o : z list) = match m, o with
  | [], [] -> true
  | a :: m', b :: o' -> (a = b || a = wild) && matches m' o'
  | _, _ -> false

let () =
  let n = ref 0 and nontriv = ref 0 and mism = ref 0 and specfail = ref 0 and bad = ref 0 in
  let seen : (int, unit) Hashtbl.t = Hashtbl.create 65536 in
  let distinct = ref 0 in
  let samples = ref 0 in
  let maxrep = 25 in
  (* input distribution for the evidence: cases by leading integer (the kind / first field) and by length *)
  let firsts : (int, int ref) Hashtbl.t = Hashtbl.create 64 in
  let lens = Array.make 6 0 in
  (try
    while true do
      let line = input_line stdin in
      if String.length line > 0 && line.[0] <> '#' then begin
        match String.index_opt line '|' with
        | None -> incr bad; if !bad <= maxrep then Printf.printf "BADLINE %s\n" line
        | Some k ->
          let cs = String.trim (String.sub line 0 k) in
          let rest = String.sub line (k + 1) (String.length line - k - 1) in
          let os, comment = match String.index_opt rest '#' with
            | None -> String.trim rest, ""
            | Some h -> String.trim (String.sub rest 0 h), String.sub rest h (String.length rest - h) in
          let c = parse_ints cs and o = parse_ints os in
          incr n;
          (match c with
           | z :: _ -> let k = int_of_z z in
               (match Hashtbl.find_opt firsts k with Some r -> incr r
                | None -> if Hashtbl.length firsts < 17 then Hashtbl.add firsts k (ref 1)
                          else (match Hashtbl.find_opt firsts min_int with Some r -> incr r | None -> Hashtbl.add firsts min_int (ref 1)))
           | [] -> ());
          (let l = List.length c in
           let b = if l <= 4 then 0 else if l <= 16 then 1 else if l <= 64 then 2 else if l <= 256 then 3 else if l <= 1024 then 4 else 5 in
           lens.(b) <- lens.(b) + 1);
          let m = vp_run c in
          if not (matches m o) then begin
            incr mism;
            if !mism <= maxrep then Printf.printf "MISMATCH %s | %s | %s %s\n" cs os (show_ints m) comment
          end;
          if not (vp_check c o) then begin
            incr specfail;
            if !specfail <= maxrep then Printf.printf "SPECFAIL %s | %s %s\n" cs os comment
          end;
          if vp_nontriv c o then begin
            incr nontriv;
            let h = Hashtbl.hash cs in
            let h2 = Hashtbl.seeded_hash 77 cs in
            let key = h * 1073741827 + h2 in
            if not (Hashtbl.mem seen key) then begin
              Hashtbl.add seen key (); incr distinct;
              if !samples < 4 && (!distinct = 1 || !distinct mod 997 = 0) then begin
                incr samples; Printf.printf "SAMPLE %s | %s %s\n" cs os comment end
            end
          end
      end
    done
  with End_of_file -> ());
  Printf.printf "DIST first=%s len=%s\n"
    (if Hashtbl.mem firsts min_int then "many-values"
     else String.concat "," (List.map (fun (k, r) -> string_of_int k ^ ":" ^ string_of_int !r)
                          (List.sort compare (Hashtbl.fold (fun k r acc -> (k, r) :: acc) firsts []))))
    (String.concat "," (List.mapi (fun i v -> string_of_int i ^ ":" ^ string_of_int v) (Array.to_list lens)));
  Printf.printf "STATS n=%d nontriv=%d distinct_nontriv=%d mismatch=%d specfail=%d badlines=%d\n"
    !n !nontriv !distinct !mism !specfail !bad
