// The unit-level rigs read `NetDriverContext::rx_count()` to see whether a frame was credited to a unit. That accessor is
// not part of what any property is about: if a change to Glonax removes it, the harness still has to build so that the
// properties are judged on behaviour (the unit-level observation then carries -7 in its place and disagrees with the model,
// which is reported with the case - not as a build failure).
fn main() {
    let p = "/repo/glonax-runtime/src/runtime/j1939.rs";
    println!("cargo:rerun-if-changed={}", p);
    println!("cargo:rustc-check-cfg=cfg(has_rx_count)");
    let s = std::fs::read_to_string(p).unwrap_or_default();
    if s.contains("pub fn rx_count(") { println!("cargo:rustc-cfg=has_rx_count"); }
}
