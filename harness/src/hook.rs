//! A hook on the implementation's own log records: lets the harness run ANOTHER task's step in the middle of a driver
//! call (after the call has read the shared context, before it emits) - an interleaving of the real tasks that no
//! sequential stepping produces. The hook fires once, on the first record whose target contains the given text.
use std::cell::RefCell;

type Action = Box<dyn FnOnce() -> Vec<j1939::Frame>>;
thread_local! {
    static HOOK: RefCell<Option<(&'static str, Action)>> = RefCell::new(None);
    static HOOK_OUT: RefCell<Option<Vec<j1939::Frame>>> = RefCell::new(None);
}
struct HookLog;
impl log::Log for HookLog {
    fn enabled(&self, _: &log::Metadata) -> bool { true }
    fn log(&self, r: &log::Record) {
        let fire = HOOK.with(|h| h.borrow().as_ref().map(|(t, _)| r.target().contains(*t)).unwrap_or(false));
        if fire {
            let f = HOOK.with(|h| h.borrow_mut().take());
            if let Some((_, f)) = f { let out = f(); HOOK_OUT.with(|o| *o.borrow_mut() = Some(out)); }
        }
    }
    fn flush(&self) {}
}
static HOOKLOG: HookLog = HookLog;

pub fn arm_hook(target: &'static str, f: Action) {
    static ONCE: std::sync::Once = std::sync::Once::new();
    ONCE.call_once(|| { let _ = log::set_logger(&HOOKLOG); });
    log::set_max_level(log::LevelFilter::Trace);
    HOOK.with(|h| *h.borrow_mut() = Some((target, f)));
}

/// (what the hooked action produced if it fired, the action itself if it did not)
pub fn disarm_hook() -> (Option<Vec<j1939::Frame>>, Option<Action>) {
    log::set_max_level(log::LevelFilter::Off);
    (HOOK_OUT.with(|o| o.borrow_mut().take()), HOOK.with(|h| h.borrow_mut().take().map(|(_, f)| f)))
}
