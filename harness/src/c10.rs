//! C10: module status over histories of {frame from unit, frame from another unit, cycle, silence
//! longer than the timeout} for timeouts absent / never / already expired / 150 ms, through the
//! real NetworkAuthority on the emulated bus.
use crate::{util::*, Opts};
pub fn exec(c: &[i64]) -> Vec<i64> { if c[0] == 2000 { crate::authrig::exec(&c[1..]) } else { crate::authrig::exec(c) } }

pub const NAME: [i64; 7] = [0, 2, 1, 255, 5, 5, 3];

/// a frame the given unit kind accepts (marks alive or yields a signal), from address `da`
pub fn frame_from(key: i64, da: i64, rng: &mut Rng) -> Vec<i64> {
    let id = |pgn: u32, ps: u32| -> i64 { (crate::units::id_of(6, pgn, ps, da as u32) | 0x8000_0000) as i64 };
    match key {
        1 => if rng.chance(1, 2) { vec![1, id(65288, 0), 8, 0x14, 255, rng.below(2) as i64, 255, 0, 0, 0, 0] } else { vec![1, id(60928, 255), 8, 1, 2, 3, 4, 5, 6, 7, 8] },
        2 => vec![1, id(65288, 0), 8, *rng.pick(&[0x14i64, 0xfa]), 255, 0, 255, 0, 0, 0, 0],
        3 => vec![1, id(65242, 0), 8, 1, 1, 2, 3, 42, 255, 255, 255],
        4 => vec![1, id(65450, 0), 8, rng.byte() as i64, rng.below(20) as i64, 0, 0, 0, 0, if rng.chance(1, 5) { 1 } else { 0 }, if rng.chance(1, 5) { 0xee } else { 0 }],
        5 => vec![1, id(65451, 0), 8, rng.byte() as i64, 0, rng.byte() as i64, 0, 0, 0, 0, 0],
        6 | 7 => if rng.chance(1, 2) { vec![1, id(61444, 0), 8, 0xf1, 130, 130, 0x40, 0x1f, 255, 0xf0 | rng.below(16) as i64, 255] } else { vec![1, id(65262, 0), 8, 1, 2, 3, 4, 5, 6, 7, 8] },
        _ => vec![1, id(65280, 0), 8, 0, 0, 0, 0, 0, 0, 0, 0],
    }
}

pub fn foreign(rng: &mut Rng) -> Vec<i64> {
    let src = *rng.pick(&[0x99i64, 0xfe, 0x27, 0x33]);
    let pgn = *rng.pick(&[65288u32, 65450, 65451, 61444, 0, 60928, 59904, 65242]);
    let ps = if (pgn >> 8) & 0xff < 240 { *rng.pick(&[0xffu32, 0x27, 0x4a]) } else { 0 };
    let mut v = vec![1, (crate::units::id_of(6, pgn, ps, src as u32) | 0x8000_0000) as i64, 8];
    for _ in 0..8 { v.push(rng.byte() as i64); }
    v
}

pub fn config(drivers: &[(i64, i64, Option<i64>, i64)]) -> Vec<i64> {
    let mut c = vec![0x27]; c.extend(NAME); c.push(drivers.len() as i64);
    for (key, da, sa, tk) in drivers { c.extend([*key, *da, sa.is_some() as i64, sa.unwrap_or(0), *tk]); }
    c
}

pub fn gen(o: &Opts, sink: &mut dyn FnMut(Vec<i64>, String)) {
    let mut k: u64 = 0;
    // single unit, every timeout class without real waits: all histories of length <= 5 (quick) / 6 over {from unit, other, cycle}
    let depth = if o.tier_thorough { 6 } else { 5 };
    for (key, da) in [(4i64, 0x6ai64), (1, 0x4a), (7, 0x00), (2, 0x12)] {
        for tk in [0i64, 1, 2] {
            for d in 1..=depth { for h in 0..3u64.pow(d) {
                k += 1; if !mine(o, k) { continue; }
                if !o.tier_thorough && key != 4 && h % 3 != 0 { continue; }
                let mut rng = Rng::new(o.seed, 900 + k);
                let mut c = config(&[(key, da, None, tk)]);
                let mut x = h;
                for _ in 0..d { match x % 3 { 0 => c.push(2), 1 => c.extend(frame_from(key, da, &mut rng)), _ => c.extend(foreign(&mut rng)) } x /= 3; }
                c.push(2);
                sink(c, String::new());
            } }
        }
    }
    // cycle counts crossing 10 and 20, several units (incl. the shipped lists), random histories
    let shipped1: Vec<(i64, i64, Option<i64>, i64)> = vec![(4, 0x6a, None, 1), (4, 0x6b, None, 1), (4, 0x6c, None, 1), (4, 0x6d, None, 1), (5, 0x7a, None, 1)];
    let shipped2: Vec<(i64, i64, Option<i64>, i64)> = vec![(7, 0x00, Some(0x11), 1), (2, 0x12, None, 1), (1, 0x4a, None, 1)];
    let n = if o.tier_thorough { 6_000 } else { 700 };
    for j in 0..n {
        k += 1; if !mine(o, k) { continue; }
        let mut rng = Rng::new(o.seed, 9_100_000 + j);
        let drivers = match j % 4 {
            0 => shipped1.clone(), 1 => shipped2.clone(),
            2 => vec![(4, 0x6a, None, 0), (0, 0x55, None, 0), (4, 0x6b, None, 2)],
            _ => vec![(1, 0x4a, None, *rng.pick(&[0i64, 1, 2])), (3, 0x20, None, 0)],
        };
        let mut c = config(&drivers);
        let len = 8 + rng.below(40);
        for _ in 0..len {
            match rng.below(5) {
                0 | 1 | 2 => c.push(2),
                3 => { let d = *rng.pick(&drivers); c.extend(frame_from(d.0, d.1, &mut rng)); }
                _ => c.extend(foreign(&mut rng)),
            }
        }
        sink(c, String::new());
    }
    // timed histories: 150 ms timeout, silences of 250 ms
    let nt = if o.tier_thorough { 400 } else { 48 };
    for j in 0..nt {
        k += 1; if !mine(o, k) { continue; }
        let mut rng = Rng::new(o.seed, 9_200_000 + j);
        let drivers: Vec<(i64, i64, Option<i64>, i64)> = if j % 2 == 0 { vec![(4, 0x6a, None, 3)] } else { vec![(1, 0x4a, None, 3), (5, 0x7a, None, 3), (4, 0x6b, None, 0)] };
        let mut c = config(&drivers);
        let len = 3 + rng.below(5);
        let mut waits = 0;
        for _ in 0..len {
            match rng.below(6) {
                0 | 1 => c.push(2),
                2 | 3 => { let d = *rng.pick(&drivers); c.extend(frame_from(d.0, d.1, &mut rng)); }
                4 => if waits < 2 { c.extend([4, 250]); waits += 1; } else { c.push(2); },
                _ => c.extend(foreign(&mut rng)),
            }
            c.push(2);
        }
        sink(c, String::new());
    }
    // cycles during which the interface refuses every write (event 10): the statuses of ALL units are still
    // derived and published in that cycle - several units, the transmitting ones first; with and without timeouts
    let nf = if o.tier_thorough { 1_500 } else { 150 };
    for j in 0..nf {
        k += 1; if !mine(o, k) { continue; }
        let mut rng = Rng::new(o.seed, 9_400_000 + j);
        let timed = j % 10 == 3;
        let tk = if timed { 3 } else { *rng.pick(&[0i64, 1, 2]) };
        let drivers: Vec<(i64, i64, Option<i64>, i64)> = match j % 3 {
            0 => vec![(1, 0x4a, None, tk), (4, 0x6a, None, tk), (5, 0x7a, None, tk)],
            1 => vec![(7, 0x00, Some(0x11), tk), (2, 0x12, None, tk), (1, 0x4a, None, tk)],
            _ => vec![(2, 0x12, None, 0), (4, 0x6b, None, tk)],
        };
        let mut c = vec![2000]; c.extend(config(&drivers));
        let len = if timed { 4 + rng.below(4) } else { 6 + rng.below(30) };
        let mut waits = 0;
        for _ in 0..len {
            match rng.below(8) {
                0 | 1 => c.push(2),
                2 | 3 => c.push(10),
                4 | 5 => { let d = *rng.pick(&drivers); c.extend(frame_from(d.0, d.1, &mut rng)); if rng.chance(1, 2) { c.push(10); } }
                6 => if timed && waits < 2 { c.extend([4, 250]); waits += 1; c.push(10); } else { c.push(10); },
                _ => c.extend(foreign(&mut rng)),
            }
        }
        c.push(if rng.chance(1, 2) { 10 } else { 2 });
        sink(c, String::new());
    }
    // a unit that keeps repeating the SAME frame every 60 ms against a 150 ms timeout must stay healthy
    // (identical frames are messages too), for every unit kind
    let nr = if o.tier_thorough { 60 } else { 12 };
    for j in 0..nr {
        k += 1; if !mine(o, k) { continue; }
        let mut rng = Rng::new(o.seed, 9_300_000 + j);
        let (key, da) = [(1i64, 0x4ai64), (4, 0x6a), (5, 0x7a), (2, 0x12), (7, 0x00), (3, 0x20)][(j % 6) as usize];
        let mut c = config(&[(key, da, None, 3)]);
        let f = frame_from(key, da, &mut rng);
        c.push(2);
        for _ in 0..(4 + rng.below(3)) { c.extend(f.iter()); c.push(2); c.extend([4, 60]); }
        c.push(2);
        sink(c, String::new());
    }
}
