use std::io::Write;

/// splitmix64: the single PRNG every random choice derives from.
pub struct Rng(pub u64);
impl Rng {
    pub fn new(seed: u64, stream: u64) -> Self {
        let mut r = Rng(seed ^ stream.wrapping_mul(0x9E3779B97F4A7C15) ^ 0xD1B54A32D192ED03);
        r.next(); r
    }
    pub fn next(&mut self) -> u64 {
        self.0 = self.0.wrapping_add(0x9E3779B97F4A7C15);
        let mut z = self.0;
        z = (z ^ (z >> 30)).wrapping_mul(0xBF58476D1CE4E5B9);
        z = (z ^ (z >> 27)).wrapping_mul(0x94D049BB133111EB);
        z ^ (z >> 31)
    }
    pub fn below(&mut self, n: u64) -> u64 { if n == 0 { 0 } else { self.next() % n } }
    pub fn range(&mut self, lo: i64, hi: i64) -> i64 { lo + self.below((hi - lo + 1) as u64) as i64 }
    pub fn pick<'a, T>(&mut self, xs: &'a [T]) -> &'a T { &xs[self.below(xs.len() as u64) as usize] }
    pub fn chance(&mut self, num: u64, den: u64) -> bool { self.below(den) < num }
    pub fn byte(&mut self) -> u8 { self.next() as u8 }
}

pub fn quiet_panics() {
    std::panic::set_hook(Box::new(|_| {}));
}

pub fn ints<I: IntoIterator<Item = i64>>(xs: I) -> String {
    let mut s = String::new();
    for (k, x) in xs.into_iter().enumerate() {
        if k > 0 { s.push(' '); }
        s.push_str(&x.to_string());
    }
    s
}

pub fn emit(out: &mut dyn Write, case: &[i64], obs: &[i64]) {
    let _ = writeln!(out, "{} | {}", ints(case.iter().copied()), ints(obs.iter().copied()));
}

pub fn emit_c(out: &mut dyn Write, case: &[i64], obs: &[i64], comment: &str) {
    let _ = writeln!(out, "{} | {} # {}", ints(case.iter().copied()), ints(obs.iter().copied()), comment);
}

pub fn parse_ints(s: &str) -> Vec<i64> {
    s.split_whitespace().filter_map(|t| t.parse().ok()).collect()
}

/// Does global case number `k` belong to this shard?
pub fn mine(o: &crate::Opts, k: u64) -> bool { (k % o.nshards as u64) as usize == o.shard }
