//! c06: see units.rs
pub use crate::units::exec;
pub fn gen(o: &crate::Opts, sink: &mut dyn FnMut(Vec<i64>, String)) { crate::units::gen_mode(o, 1, sink) }
