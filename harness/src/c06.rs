//! c06: driver level see units.rs; authority level (cases prefixed with 100): ANY frame - every PDU format,
//! destination class, source and boundary data - through the real NetworkAuthority::recv on the emulated bus
use crate::{c10, util::*, Opts};
pub fn exec(c: &[i64]) -> Vec<i64> { if c[0] == 100 { crate::authrig::exec(&c[1..]) } else { crate::units::exec(c) } }
pub fn gen(o: &Opts, sink: &mut dyn FnMut(Vec<i64>, String)) {
    crate::units::gen_mode(o, 1, sink);
    // every field sweep of the decoding property as well (all status / state / error words of every driver): no value of any field panics
    crate::units::gen_mode(o, 2, sink);
    let mut k: u64 = 0;
    let mut rng = Rng::new(o.seed, 6_100);
    let confs: [Vec<(i64, i64, Option<i64>, i64)>; 3] = [
        vec![(1, 0x4a, None, 0), (4, 0x6a, None, 0), (5, 0x7a, None, 0)],
        vec![(7, 0x00, Some(0x11), 1), (2, 0x12, None, 1), (1, 0x4a, None, 1)],
        vec![(3, 0x20, None, 0), (6, 0x01, None, 2)],
    ];
    // all 256 PDU formats x destination / group-extension classes x sources (each configured unit, the daemon, a stranger, the null address 0xFE, 0xFF, 0x00)
    // x data with a boundary value in the first byte; 32 frames per authority instance
    let mut batch: Vec<i64> = Vec::new(); let mut nb = 0; let mut ci = 0usize;
    let mut flush = |batch: &mut Vec<i64>, ci: usize, k: &mut u64, sink: &mut dyn FnMut(Vec<i64>, String)| {
        if batch.is_empty() { return; }
        *k += 1;
        if mine(o, *k) { let mut c = vec![100]; c.extend(c10::config(&confs[ci % 3])); c.push(5); c.push(2); c.extend(batch.iter()); c.push(2); sink(c, String::new()); }
        batch.clear();
    };
    let first_bytes: &[i64] = if o.tier_thorough { &[0, 1, 2, 16, 17, 19, 20, 32, 127, 128, 254, 255] } else { &[0, 1, 16, 32, 255] };
    for pf in 0..256u32 {
        for ps in [0xffu32, 0x27, 0x00, 0x4a] {
            let srcs: Vec<i64> = { let mut v: Vec<i64> = confs[ci % 3].iter().map(|d| d.1).collect(); v.push(0x27); v.push(0x99); v.push(0xfe); v.push(0xff); v.push(0x00); v };
            for src in srcs {
                if !o.tier_thorough && (pf as i64 + ps as i64 + src) % 3 != 0 && !(232..=238).contains(&pf) { continue; }
                for b0 in first_bytes {
                    let id = ((rng.below(8) as u32) << 26) | (pf << 16) | (ps << 8) | src as u32 | 0x8000_0000;
                    let dlc = if rng.chance(1, 6) { rng.below(8) as i64 } else { 8 };
                    batch.extend([1, id as i64, dlc, *b0]);
                    for _ in 0..7 { batch.push(match rng.below(4) { 0 => 0, 1 => 255, _ => rng.byte() as i64 }); }
                    nb += 1;
                    if nb % 32 == 0 { flush(&mut batch, ci, &mut k, sink); ci += 1; }
                }
            }
        }
    }
    flush(&mut batch, ci, &mut k, sink);
}
