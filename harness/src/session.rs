//! Real `UnixServer` sessions over a real Unix socket, in-process, on a current-thread tokio
//! runtime (deterministic: after every write / publication the harness sleeps one timer tick so
//! the session task runs to quiescence).  Shared by C03, C04, C05 (and C14).
//!
//! case = [kind, bystander, ...]
//!   kind 0 (script): nframes (type len bytes..)* tail(0 | 1 type len bytes.. k) ncuts cuts.. nsigs sigs.. endmode
//!   kind 1 (raw):    nchunks (len bytes..)* nsigs sigs.. endmode
//! obs  = [crashed, ended, bystander_ok, ncmds, (type len payload..)*]
use glonax::core::{Engine, EngineState, Instance, MachineType, Object};
use glonax::protocol::Packetize;
use glonax::runtime::Service;
use glonax::service::{UnixServer, UnixServerConfig};
use std::cell::RefCell;
use std::io::{Read, Write};
use std::os::unix::net::UnixStream as StdUnix;
use std::sync::atomic::{AtomicUsize, Ordering};
use std::time::Duration;
use tokio::sync::broadcast;

pub static PANICS: AtomicUsize = AtomicUsize::new(0);

pub struct Rig {
    pub rt: tokio::runtime::Runtime,
    pub server: UnixServer,
    pub path: std::path::PathBuf,
    pub command_tx: broadcast::Sender<Object>,
    pub command_rx: broadcast::Receiver<Object>,
    pub signal_tx: broadcast::Sender<Object>,
    _keep: broadcast::Receiver<Object>,
}

pub fn the_instance() -> Instance {
    Instance::new("d55bcd75-8d30-49af-ac18-ee7cbce7822f", "verif-model", MachineType::Excavator, (3, 5, 13), "V.00001")
}

pub fn install_panic_counter() {
    std::panic::set_hook(Box::new(|_| { PANICS.fetch_add(1, Ordering::SeqCst); }));
}

impl Rig {
    pub fn new() -> Rig {
        install_panic_counter();
        let rt = tokio::runtime::Builder::new_current_thread().enable_all().build().unwrap();
        let dir = std::env::temp_dir().join(format!("vh-{}-{:?}", std::process::id(), std::thread::current().id()));
        let _ = std::fs::create_dir_all(&dir);
        let path = dir.join("s.sock");
        let _ = std::panic::catch_unwind(|| glonax::global::set_instance(the_instance()));
        let server = {
            let _g = rt.enter();
            UnixServer::new(UnixServerConfig { path: path.clone() })
        };
        let (command_tx, command_rx) = broadcast::channel(8192);
        let (signal_tx, keep) = broadcast::channel(16);
        Rig { rt, server, path, command_tx, command_rx, signal_tx, _keep: keep }
    }
}

thread_local! { pub static RIG: RefCell<Option<Rig>> = RefCell::new(None); }

pub fn object_packet(o: &Object) -> Vec<i64> {
    let (t, mut b) = match o {
        Object::Engine(e) => (Engine::MESSAGE_TYPE, e.to_bytes()),
        Object::Motion(m) => (glonax::core::Motion::MESSAGE_TYPE, m.to_bytes()),
        Object::Control(c) => (glonax::core::Control::MESSAGE_TYPE, c.to_bytes()),
        Object::Target(t) => {
            // the orientation is re-parameterised (euler -> quaternion -> euler): not compared
            let mut b = t.to_bytes();
            for x in b[12..24].iter_mut() { *x = 0; }
            (glonax::core::Target::MESSAGE_TYPE, b)
        }
        Object::Rotator(r) => (glonax::core::Rotator::MESSAGE_TYPE, r.to_bytes()),
        Object::ModuleStatus(s) => (glonax::core::ModuleStatus::MESSAGE_TYPE, s.to_bytes()),
    };
    let mut v = vec![t as i64, b.len() as i64];
    v.extend(b.drain(..).map(|x| x as i64));
    v
}

pub fn header(t: u8, n: usize) -> Vec<u8> {
    vec![b'L', b'X', b'R', 3, t, (n >> 8) as u8, (n & 0xff) as u8, 0, 0, 0]
}

pub struct Plan { pub chunks: Vec<Vec<u8>>, pub sigs: Vec<i64>, pub endmode: i64, pub bystander: bool }

pub fn parse_case(c: &[i64]) -> Option<Plan> {
    let kind = *c.first()?; let bystander = *c.get(1)? != 0;
    let mut i = 2usize;
    let mut next = |i: &mut usize| -> Option<i64> { let v = *c.get(*i)?; *i += 1; Some(v) };
    let mut chunks: Vec<Vec<u8>> = Vec::new();
    if kind == 0 {
        let nf = next(&mut i)?;
        let mut stream: Vec<u8> = Vec::new();
        for _ in 0..nf {
            let t = next(&mut i)? as u8; let len = next(&mut i)? as usize;
            stream.extend(header(t, len));
            for _ in 0..len { stream.push(next(&mut i)? as u8); }
        }
        if next(&mut i)? == 1 {
            let t = next(&mut i)? as u8; let len = next(&mut i)? as usize;
            let mut f = header(t, len);
            for _ in 0..len { f.push(next(&mut i)? as u8); }
            let k = next(&mut i)? as usize;
            stream.extend(&f[..k.min(f.len())]);
        }
        let nc = next(&mut i)?;
        let mut rest: &[u8] = &stream;
        for _ in 0..nc {
            let cut = (next(&mut i)? as usize).min(rest.len());
            chunks.push(rest[..cut].to_vec()); rest = &rest[cut..];
        }
        chunks.push(rest.to_vec());
    } else {
        let nch = next(&mut i)?;
        for _ in 0..nch {
            let len = next(&mut i)? as usize;
            let mut ch = Vec::new();
            for _ in 0..len { ch.push(next(&mut i)? as u8); }
            chunks.push(ch);
        }
    }
    let ns = next(&mut i)?;
    let mut sigs = Vec::new();
    for _ in 0..ns { sigs.push(next(&mut i)?); }
    let endmode = next(&mut i)?;
    Some(Plan { chunks, sigs, endmode, bystander })
}

pub fn the_signal() -> Object {
    Object::Engine(Engine { driver_demand: 1, actual_engine: 2, rpm: 1500, state: EngineState::Request })
}

fn drain_cmds(rx: &mut broadcast::Receiver<Object>, out: &mut Vec<Object>) {
    loop {
        match rx.try_recv() {
            Ok(o) => out.push(o),
            Err(broadcast::error::TryRecvError::Lagged(_)) => continue,
            Err(_) => break,
        }
    }
}

pub fn exec(c: &[i64]) -> Vec<i64> {
    let Some(plan) = parse_case(c) else { return vec![-2] };
    RIG.with(|cell| {
        let mut g = cell.borrow_mut();
        if g.is_none() { *g = Some(Rig::new()); }
        let rig = g.as_mut().unwrap();
        run_plan(rig, &plan)
    })
}

fn run_plan(rig: &mut Rig, plan: &Plan) -> Vec<i64> {
    let Rig { rt, server, path, command_tx, command_rx, signal_tx, .. } = rig;
    let panics0 = PANICS.load(Ordering::SeqCst);
    let tick = Duration::from_millis(1);
    let base = signal_tx.receiver_count();
    let mut cmds: Vec<Object> = Vec::new();
    drain_cmds(command_rx, &mut cmds); cmds.clear();
    let (ended, by_ok) = rt.block_on(async {
        // optional bystander session (no failsafe)
        let mut by = None;
        if plan.bystander {
            let s = StdUnix::connect(&*path).unwrap();
            server.wait_io_sub(command_tx.clone(), signal_tx.subscribe()).await;
            by = Some(s);
        }
        let base2 = signal_tx.receiver_count();
        let mut cl = StdUnix::connect(&*path).unwrap();
        if plan.endmode == 3 {
            // the client says everything and is gone before the daemon has even accepted the connection
            // (it sits in the listen backlog): replies can no longer be delivered, what it said still counts
            use std::io::Write as _;
            for ch in plan.chunks.iter() { let _ = cl.write_all(ch); }
            drop(cl);
            cl = StdUnix::connect(&*path).unwrap();          // an idle placeholder so the code below has a socket to close
            server.wait_io_sub(command_tx.clone(), signal_tx.subscribe()).await;     // accepts the finished client
            for _ in 0..400 { tokio::time::sleep(tick).await; if signal_tx.receiver_count() <= base2 { break; } }
        }
        cl.set_nonblocking(true).ok();
        server.wait_io_sub(command_tx.clone(), signal_tx.subscribe()).await;
        tokio::time::sleep(tick).await;
        for (i, ch) in plan.chunks.iter().enumerate() {
            if plan.endmode == 3 { break; }
            if !ch.is_empty() {
                // the socket buffer is large enough for any chunk we send (<= ~8 kB)
                let mut off = 0;
                while off < ch.len() {
                    match cl.write(&ch[off..]) {
                        Ok(n) => off += n,
                        Err(e) if e.kind() == std::io::ErrorKind::WouldBlock => { tokio::time::sleep(tick).await; }
                        Err(_) => break,
                    }
                }
            }
            tokio::time::sleep(tick).await;
            // one signal per occurrence of the chunk index: a repeated index is a burst published while
            // the session is (possibly) in the middle of a frame - more than 16 overrun its signal queue
            let burst = plan.sigs.iter().filter(|x| **x == i as i64).count();
            if burst > 0 {
                for _ in 0..burst { let _ = signal_tx.send(the_signal()); }
                tokio::time::sleep(tick).await;
            }
            // an entry 1000+i: the peer goes quiet for more than a second after write i (a stalled or
            // suspended client, a congested link); the stream means the same whenever its bytes arrive
            if plan.sigs.iter().any(|x| *x == 1000 + i as i64) {
                tokio::time::sleep(Duration::from_millis(1200)).await;
            }
        }
        match plan.endmode {
            0 => { drop(cl); }
            1 => { /* leave whatever the server sent unread: close => ECONNRESET at the peer */ drop(cl); }
            _ => { let _ = cl.shutdown(std::net::Shutdown::Both); drop(cl); }
        }
        let mut ended = false;
        for _ in 0..400 {
            tokio::time::sleep(tick).await;
            if signal_tx.receiver_count() <= base2 { ended = true; break; }
        }
        // bystander must still be served
        let mut by_ok = true;
        if let Some(mut b) = by {
            drain_cmds(command_rx, &mut cmds);
            let before = cmds.len();
            let e = Engine { driver_demand: 0, actual_engine: 0, rpm: 777, state: EngineState::Request };
            let mut f = header(Engine::MESSAGE_TYPE, 5); f.extend(e.to_bytes());
            by_ok = b.write_all(&f).is_ok();
            tokio::time::sleep(tick).await; tokio::time::sleep(tick).await;
            drain_cmds(command_rx, &mut cmds);
            by_ok = by_ok && cmds.len() == before + 1 && cmds.last() == Some(&Object::Engine(e));
            if cmds.len() > before { cmds.truncate(before); }
            drop(b);
            for _ in 0..400 { tokio::time::sleep(tick).await; if signal_tx.receiver_count() <= base { break; } }
        }
        (ended, by_ok)
    });
    drain_cmds(command_rx, &mut cmds);
    let crashed = PANICS.load(Ordering::SeqCst) != panics0;
    let mut out = vec![crashed as i64, ended as i64, by_ok as i64, cmds.len() as i64];
    for o in &cmds { out.extend(object_packet(o)); }
    out
}

#[allow(unused)]
fn _unused(_: &mut dyn Read) {}
