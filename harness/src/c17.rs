//! C17: Filter::matches against a reference predicate; raw can_frame marshalling through the seam.
use crate::{bus::*, util::*, Opts};
use glonax::net::{ControlNetwork, Filter, FilterItem};
use j1939::Id;
use std::cell::RefCell;

struct Rig { rt: tokio::runtime::Runtime, bus: Bus, a: ControlNetwork }
thread_local! { static RIG: RefCell<Option<Rig>> = RefCell::new(None); }

fn with_rig<R>(f: impl FnOnce(&mut Rig) -> R) -> R {
    RIG.with(|c| {
        let mut g = c.borrow_mut();
        if g.is_none() {
            let rt = tokio::runtime::Builder::new_current_thread().enable_all().build().unwrap();
            let iface = format!("c17t{:?}", std::thread::current().id()).replace(['(', ')'], "");
            let bus = Bus::new(&iface);
            let a = { let _g = rt.enter(); ControlNetwork::bind(&iface, &j_name()).unwrap() };
            *g = Some(Rig { rt, bus, a });
        }
        f(g.as_mut().unwrap())
    })
}

pub fn exec(c: &[i64]) -> Vec<i64> {
    match c[0] {
        1 => {
            let accept = c[1] != 0; let n = c[2] as usize;
            let mut f = if accept { Filter::accept() } else { Filter::reject() };
            for k in 0..n {
                let b = 3 + 8 * k;
                let o = |p: i64, v: i64| if p == 0 { None } else { Some(v) };
                f.push(FilterItem {
                    priority: o(c[b], c[b + 1]).map(|v| v as u8), pgn: o(c[b + 2], c[b + 3]).map(|v| v as u32),
                    source_address: o(c[b + 4], c[b + 5]).map(|v| v as u8), destination_address: o(c[b + 6], c[b + 7]).map(|v| v as u8) });
            }
            let id = Id::new(c[3 + 8 * n] as u32);
            vec![f.matches(&id) as i64]
        }
        4 => {
            // the filter installed the way a user installs it - ControlNetwork::bind(..).with_filter(f) - and asked
            // through recv: a frame that passes is delivered, one that does not is never seen
            let accept = c[1] != 0; let n = c[2] as usize;
            let mut f = if accept { Filter::accept() } else { Filter::reject() };
            for k in 0..n {
                let b = 3 + 8 * k;
                let o = |p: i64, v: i64| if p == 0 { None } else { Some(v) };
                f.push(FilterItem {
                    priority: o(c[b], c[b + 1]).map(|v| v as u8), pgn: o(c[b + 2], c[b + 3]).map(|v| v as u32),
                    source_address: o(c[b + 4], c[b + 5]).map(|v| v as u8), destination_address: o(c[b + 6], c[b + 7]).map(|v| v as u8) });
            }
            let id = c[3 + 8 * n] as u32;
            static NEXT: std::sync::atomic::AtomicU64 = std::sync::atomic::AtomicU64::new(0);
            let rt = tokio::runtime::Builder::new_current_thread().enable_all().build().unwrap();
            let iface = format!("c17f{}t{:?}", NEXT.fetch_add(1, std::sync::atomic::Ordering::SeqCst), std::thread::current().id()).replace(['(', ')', 'T', 'h', 'r', 'e', 'a', 'd', 'I'], "");
            let bus = Bus::new(&iface);
            let mut net = { let _g = rt.enter(); ControlNetwork::bind(&iface, &j_name()).unwrap().with_filter(f) };
            bus.inject(&raw_frame(id | 0x8000_0000, 8, &[1, 2, 3, 4, 5, 6, 7, 8]));
            let got = rt.block_on(async { matches!(tokio::time::timeout(std::time::Duration::from_millis(40), net.recv()).await, Ok(Ok(_))) });
            let right = got && net.frame().map(|fr| fr.id().as_raw() == id).unwrap_or(false);
            vec![if got { right as i64 } else { 0 }]
        }
        2 => with_rig(|r| {
            let data: Vec<u8> = c[3..].iter().map(|x| *x as u8).collect();
            let frame = crate::wire::mk_frame(c[1] as u32, &data);
            r.bus.pump();
            let Rig { rt, bus, a } = r;
            rt.block_on(async { a.send(&frame).await.unwrap(); });
            let got = bus.pump();
            if got.len() != 1 { return vec![-3, got.len() as i64]; }
            got[0].iter().map(|x| *x as i64).collect()
        }),
        3 => with_rig(|r| {
            let mut raw = [0u8; 16];
            for (i, b) in c[1..17].iter().enumerate() { raw[i] = *b as u8; }
            let Rig { rt, bus, a } = r;
            bus.inject(&raw);
            let res = rt.block_on(async {
                match tokio::time::timeout(std::time::Duration::from_millis(500), a.recv()).await { Ok(Ok(_)) => true, _ => false }
            });
            if !res { return vec![-3]; }
            let f = a.frame().unwrap();
            let mut o = vec![f.id().as_raw() as i64, f.pdu().len() as i64];
            o.extend(f.pdu().iter().map(|x| *x as i64)); o
        }),
        _ => vec![-2],
    }
}

pub fn gen(o: &Opts, sink: &mut dyn FnMut(Vec<i64>, String)) {
    let mut k: u64 = 0;
    macro_rules! put { ($c:expr) => {{ k += 1; if mine(o, k) { sink($c, String::new()); } }}; }
    // identifiers covering PDU1 / PDU2, priorities, addresses
    let mut ids: Vec<u32> = vec![];
    for prio in [0u32, 3, 6, 7] { for pf in [0x00u32, 0xB2, 0xEA, 0xEE, 0xEF, 0xF0, 0xFE, 0xFF] { for (ps, sa) in [(0x4Au32, 0x27u32), (0xFF, 0x00)] {
        ids.push((prio << 26) | (pf << 16) | (ps << 8) | sa);
    } } }
    ids.push(0x1FFFFFFF); ids.push(0); ids.push(0x1DFE_CA27); ids.push(0x0100_0000 | 0x00EA_4A27);
    // ---- filters: all lists of <= 2 items over 16 specified-field combinations x hit/miss values (exhaustive in thorough for <=2,
    // sampled 3-item lists); values chosen relative to a probe identifier so that each field hits or misses
    let mut rng = Rng::new(o.seed, 17);
    let item_for = |id: u32, mask: u32, hit: u32, rng: &mut Rng| -> Vec<i64> {
        let i = Id::new(id);
        let mut v = Vec::new();
        let prio = i.priority() as i64; let pgn = i.pgn_raw() as i64; let sa = i.source_address() as i64;
        let da = i.destination_address().map(|d| d as i64).unwrap_or((id >> 8 & 0xff) as i64);
        let pick = |bit: u32, good: i64, modn: i64, rng: &mut Rng| -> (i64, i64) {
            if mask & (1 << bit) == 0 { (0, 0) } else if hit & (1 << bit) != 0 { (1, good) } else { (1, (good + 1 + rng.below(3) as i64) % modn) }
        };
        let (p, pv) = pick(0, prio, 8, rng); v.extend([p, pv]);
        let (g, gv) = pick(1, pgn, 262144, rng); v.extend([g, gv]);
        let (s, sv) = pick(2, sa, 256, rng); v.extend([s, sv]);
        let (d, dv) = pick(3, da, 256, rng); v.extend([d, dv]);
        v
    };
    for acc in [1i64, 0] {
        for id in &ids { put!(vec![1, acc, 0, *id as i64]); }
        for id in &ids {
            for mask in 0..16u32 { for hit in 0..16u32 { if hit & !mask != 0 { continue; }
                let it = item_for(*id, mask, hit, &mut rng);
                put!({ let mut c = vec![1, acc, 1]; c.extend(&it); c.push(*id as i64); c });
            } }
        }
        // the same lists installed with ControlNetwork::with_filter and asked through recv (kind 4)
        let n4 = if o.tier_thorough { 3_000 } else { 240 };
        for j in 0..n4 {
            let id = *rng.pick(&ids);
            let n = if j % 8 == 0 { 0 } else { 1 + rng.below(3) as i64 };
            let mut c = vec![4, acc, n];
            for _ in 0..n { let mask = rng.below(16) as u32; let hit = if rng.chance(2, 3) { mask } else { (rng.below(16) as u32) & mask };
                c.extend(item_for(id, mask, hit, &mut rng)); }
            c.push(id as i64);
            put!(c);
        }
        let n2 = if o.tier_thorough { 400_000 } else { 30_000 };
        for _ in 0..n2 {
            let id = *rng.pick(&ids);
            let n = 2 + rng.below(2) as i64;
            let mut c = vec![1, acc, n];
            for _ in 0..n { let mask = rng.below(16) as u32; let hit = (rng.below(16) as u32) & mask;
                // bias: mostly-hitting items so that "some entry matches in all its fields" is frequent
                let hit = if rng.chance(1, 2) { mask } else { hit };
                c.extend(item_for(id, mask, hit, &mut rng)); }
            c.push(id as i64);
            put!(c);
        }
    }
    // ---- marshalling: tx for all lengths and id-bit classes; rx for all DLC and can_id bit classes (bit 29/30/31 set)
    let nt = if o.tier_thorough { 20_000 } else { 2_000 };
    for j in 0..nt {
        let id = if j < ids.len() as u64 { ids[j as usize] } else { (rng.next() as u32) & 0x1FFFFFFF };
        let len = (j % 9) as usize;
        let mut c = vec![2, id as i64, len as i64];
        for _ in 0..len { c.push(rng.byte() as i64); }
        put!(c);
    }
    for j in 0..nt {
        let base = if j < ids.len() as u64 { ids[j as usize] } else { rng.next() as u32 & 0x1FFFFFFF };
        let can_id = base | match j % 8 { 0 => 0x8000_0000u32, 1 => 0, 2 => 0xC000_0000, 3 => 0xA000_0000, 4 => 0xE000_0000, _ => 0x8000_0000 };
        let dlc = ((j / 8) % 9) as u8;
        let data: Vec<u8> = (0..8).map(|_| match rng.below(4) { 0 => 0, 1 => 0xff, _ => rng.byte() }).collect();
        let raw = raw_frame(can_id, dlc, &data);
        let mut c = vec![3]; c.extend(raw.iter().map(|x| *x as i64)); put!(c);
    }
}
