//! C08: the real VolvoD7E stepped through histories of EEC1 status frames, engine commands, other
//! commands, ticks and waits (real clock); observation = frames emitted by each event.
use crate::{util::*, wire::*, Opts};
use glonax::core::{Engine, EngineState, Object};
use glonax::driver::VolvoD7E;
use glonax::runtime::{J1939Unit, NetDriverContext};

pub fn exec(c: &[i64]) -> Vec<i64> {
    let (da, sa) = (c[0] as u8, c[1] as u8);
    let evs = c[2..].to_vec();
    let r = std::panic::catch_unwind(move || {
        let unit = VolvoD7E::new("vcan0", da, sa);
        let mut ctx = NetDriverContext::default();
        let mut out: Vec<i64> = Vec::new();
        let (mut n, mut i) = (0i64, 0usize);
        while i < evs.len() {
            let mut tx = Vec::new();
            match evs[i] {
                0 => { let _ = unit.tick(&mut ctx, &mut tx); i += 1; }
                1 => {
                    let data: Vec<u8> = evs[i + 1..i + 9].iter().map(|b| *b as u8).collect();
                    let id = (3u32 << 26) | (61444 << 8) | da as u32;
                    let mut rx = Vec::new();
                    let _ = unit.try_recv(&mut ctx, &mk_frame(id, &data), &mut rx);
                    i += 9;
                }
                2 => {
                    let Ok(st) = EngineState::try_from(evs[i + 4] as u8) else { return vec![-2] };
                    let e = Engine { driver_demand: evs[i + 1] as u8, actual_engine: evs[i + 2] as u8, rpm: evs[i + 3] as u16, state: st };
                    let _ = unit.trigger(&mut ctx, &mut tx, &Object::Engine(e));
                    i += 5;
                }
                5 | 6 => {
                    // an engine command (5) or a status frame (6) handled by the other task while tick is between reading
                    // the shared context and emitting its frame
                    let kind = evs[i];
                    let shared = ctx.clone();
                    let (used, action): (usize, Box<dyn FnOnce() -> Vec<j1939::Frame>>) = if kind == 5 {
                        let Ok(st) = EngineState::try_from(evs[i + 4] as u8) else { return vec![-2] };
                        let e = Engine { driver_demand: evs[i + 1] as u8, actual_engine: evs[i + 2] as u8, rpm: evs[i + 3] as u16, state: st };
                        (5, Box::new(move || { let u2 = VolvoD7E::new("vcan0", da, sa); let mut c2 = shared; let mut t2 = Vec::new(); let _ = u2.trigger(&mut c2, &mut t2, &Object::Engine(e)); t2 }))
                    } else {
                        let data: Vec<u8> = evs[i + 1..i + 9].iter().map(|b| *b as u8).collect();
                        let id = (3u32 << 26) | (61444 << 8) | da as u32;
                        (9, Box::new(move || { let u2 = VolvoD7E::new("vcan0", da, sa); let mut c2 = shared; let mut rx = Vec::new(); let _ = u2.try_recv(&mut c2, &mk_frame(id, &data), &mut rx); Vec::new() }))
                    };
                    crate::hook::arm_hook("volvo_ems", action);
                    let _ = unit.tick(&mut ctx, &mut tx);
                    let (done, pending) = crate::hook::disarm_hook();
                    let tx2 = match (done, pending) { (Some(t), _) => t, (None, Some(f)) => f(), _ => Vec::new() };
                    n += 1; enc_frames(&mut out, &tx);
                    tx = tx2;
                    i += used;
                }
                3 => { let _ = unit.trigger(&mut ctx, &mut tx, &other_object(evs[i + 1])); i += 2; }
                4 => { std::thread::sleep(std::time::Duration::from_millis(evs[i + 1] as u64)); i += 2; }
                _ => return vec![-2],
            }
            n += 1;
            enc_frames(&mut out, &tx);
        }
        let mut o = vec![n]; o.extend(out); o
    });
    r.unwrap_or_else(|_| vec![-1])
}

/// EEC1 data for a status class: rpm, starter nibble (15 = not available)
fn status(rpm: u32, nib: i64, out: &mut Vec<i64>) {
    let raw = if rpm == 0xffff { 0xffffu32 } else { rpm * 8 };
    out.extend([1, 0xf1, 130, 140, (raw & 0xff) as i64, ((raw >> 8) & 0xff) as i64, 0xff, 0xf0 | nib, 0xff]);
}

fn letter(l: u64, rng: &mut Rng, out: &mut Vec<i64>) {
    match l {
        0 => out.push(0),
        1 => status(*rng.pick(&[0u32, 0, 0xffff]), 15, out) /* stopped, or nothing available at all (ECU powering down) */, 2 => status(300, 15, out), 3 => status(800, 15, out), 4 => status(3000, 15, out),
        5 => status(*rng.pick(&[0u32, 300, 900]), *rng.pick(&[1i64, 2]), out),        // starter active
        6 => status(*rng.pick(&[0u32, 1000, 0xffff]), 3, out),                          // start finished
        7 => status(*rng.pick(&[0u32, 700, 1500, 0xffff]), *rng.pick(&[0i64, 4, 8, 12, 9, 13, 14, 10]), out),
        8 => { let rpm = *rng.pick(&[0i64, 500, 1500, 5000]); let st = *rng.pick(&[0i64, 1, 2, 16]); out.extend([2, rng.byte() as i64, rng.byte() as i64, rpm, st]); }
        9 => out.extend([2, 0, 0, 0, *rng.pick(&[0i64, 16])]),                         // shutdown command
        10 => out.extend([2, 0, 0, rng.range(1, 3000), 16]),
        _ => out.extend([3, *rng.pick(&[3i64, 4, 5, 6])]),
    }
}

pub fn gen(o: &Opts, sink: &mut dyn FnMut(Vec<i64>, String)) {
    let mut k: u64 = 0;
    // all histories up to depth 3 (quick) / 4 (thorough) over the 12-letter alphabet, a tick appended
    let depth = if o.tier_thorough { 4 } else { 3 };
    for d in 1..=depth {
        for h in 0..12u64.pow(d) {
            k += 1; if !mine(o, k) { continue; }
            let mut rng = Rng::new(o.seed, 800 + k);
            let mut c = vec![0x00, 0x27];
            let mut x = h;
            for _ in 0..d { letter(x % 12, &mut rng, &mut c); x /= 12; }
            c.push(0);
            sink(c, String::new());
        }
    }
    // random longer histories without waits
    let n = if o.tier_thorough { 40_000 } else { 4_000 };
    for j in 0..n {
        k += 1; if !mine(o, k) { continue; }
        let mut rng = Rng::new(o.seed, 8_000_000 + j);
        let mut c = vec![*rng.pick(&[0x00i64, 0x11, 0xee]), *rng.pick(&[0x27i64, 0x00, 0xfe])];
        let len = 4 + rng.below(56);
        for _ in 0..len { let l = if rng.chance(1, 3) { 0 } else { rng.below(12) }; letter(l, &mut rng, &mut c); }
        sink(c, String::new());
    }
    // commands and status frames handled in the MIDDLE of a cycle (between the cycle's reads of the shared context and its
    // emission): what was accepted / reported is what the following cycles act upon
    let nm = if o.tier_thorough { 4_000 } else { 400 };
    for j in 0..nm {
        k += 1; if !mine(o, k) { continue; }
        let mut rng = Rng::new(o.seed, 8_600_000 + j);
        let mut c = vec![0x00i64, 0x27];
        let len = 3 + rng.below(10);
        for _ in 0..len {
            let mut m = Vec::new();
            match rng.below(5) {
                0 => c.push(0),
                1 => { letter(1 + rng.below(7), &mut rng, &mut m); c.extend(&m); }
                2 => { letter(8 + rng.below(3), &mut rng, &mut m); c.extend(&m); }
                3 => { letter(8 + rng.below(3), &mut rng, &mut m); if m[0] == 2 { c.push(5); c.extend(&m[1..]); } else { c.extend(&m); } }
                _ => { letter(1 + rng.below(7), &mut rng, &mut m); if m[0] == 1 { c.push(6); c.extend(&m[1..]); } else { c.extend(&m); } }
            }
        }
        c.push(0); c.push(0);
        sink(c, String::new());
    }
    // timed histories: a wait past the transition timeout in one position
    let nt = if o.tier_thorough { 600 } else { 48 };
    for j in 0..nt {
        k += 1; if !mine(o, k) { continue; }
        let mut rng = Rng::new(o.seed, 8_500_000 + j);
        let mut c = vec![0x00, 0x27];
        let pre = 1 + rng.below(4); let post = 1 + rng.below(4);
        // (statuses of every class incl. a running engine before the silence; waits on both sides of
        //  the 2000 ms transition timeout and long enough to outlive any sub-second staleness rule)
        let mut last_cmd: Option<Vec<i64>> = None;
        for _ in 0..pre {
            let l = *rng.pick(&[1u64, 2, 3, 4, 3, 5, 6, 8, 9, 10, 10, 0]);
            let at = c.len(); letter(l, &mut rng, &mut c);
            if c[at] == 2 { last_cmd = Some(c[at..].to_vec()); }
        }
        c.extend([4, *rng.pick(&[2100i64, 2100, 1200, 600])]);
        // after the silence: cycles, statuses, and commands again - in particular the SAME command
        // re-issued (a client repeating its request must restart the transition timeout)
        for _ in 0..post {
            match rng.below(8) {
                0 | 1 => { if let Some(lc) = &last_cmd { c.extend(lc.iter()); } else { letter(10, &mut rng, &mut c); } c.push(0); }
                2 => { letter(10, &mut rng, &mut c); c.push(0); }
                _ => { let l = *rng.pick(&[0u64, 0, 2, 5, 1, 11]); letter(l, &mut rng, &mut c); }
            }
        }
        c.push(0);
        sink(c, String::new());
    }
    // timed, systematic: every (status class before) x (command class) x (status class after the silence), the command
    // older than the transition timeout when the cycles run: a shutdown stays a shutdown on an engine that still turns
    // or cranks, cranking ends, a running engine keeps running
    for pre in [1u64, 2, 3, 5] {
        for cmd in [9u64, 10, 8] {
            for post in [0u64, 1, 2, 3, 5] {
                if !o.tier_thorough && cmd == 8 && post % 2 == 1 { continue; }
                k += 1; if !mine(o, k) { continue; }
                let mut rng = Rng::new(o.seed, 8_700_000 + k);
                let mut c = vec![0x00, 0x27];
                letter(pre, &mut rng, &mut c);
                let at = c.len(); letter(cmd, &mut rng, &mut c); let again = c[at..].to_vec(); c.push(0);
                c.extend([4, 2100]);
                if post != 0 { letter(post, &mut rng, &mut c); }
                c.push(0); c.push(0);
                // the SAME command once more after the expired attempt has been acted upon: it counts from its own
                // acceptance again and means on the following cycles what it meant when accepted
                c.extend(&again); c.push(0); c.push(0);
                sink(c, String::new());
            }
        }
    }
    // the speed byte for every commanded rpm (engine reported running)
    let step = if o.tier_thorough { 1 } else { 7 };
    for rpm in (0..=65535i64).step_by(step) {
        k += 1; if !mine(o, k) { continue; }
        let mut c = vec![0x00, 0x27]; status(1200, 15, &mut c); c.extend([2, 0, 0, rpm, 16, 0]);
        sink(c, String::new());
    }
}
