//! C03: failsafe. Scripts whose client dies at every byte offset of the frame it was writing,
//! for every flag class and termination mode, with signals published concurrently.
use crate::{sessgen::*, util::*, Opts};
pub use crate::session::exec;

pub fn gen(o: &Opts, sink: &mut dyn FnMut(Vec<i64>, String)) {
    let mut k: u64 = 0;
    // 1. every truncation offset of a tail frame, after a session frame with each flag class
    let pools = if o.tier_thorough { 60 } else { 8 };
    for j in 0..pools {
        let mut rng = Rng::new(o.seed, 300 + j);
        let flags = match j % 6 { 0 => 0x10u8, 1 => 0x11, 2 => 0x00, 3 => 0x01, 4 => 0x1f, _ => rng.byte() & 0x1f };
        let mut frames = vec![session_frame(&mut rng, Some(flags))];
        let extra = rng.below(4);
        for _ in 0..extra { frames.push(any_frame(&mut rng)); }
        // sometimes a later upgrade attempt that fails validation (must not change the arming)
        if j % 3 == 1 { frames.push((0x10, vec![0xe0 | (rng.byte() & 0x1f), b'x'])); }
        let mut tail = any_frame(&mut rng);
        if tail.1.len() > 60 { tail.1.truncate(60); }
        for kk in 0..frame_len(&tail) {
            k += 1;
            if !mine(o, k) { continue; }
            let total: usize = frames.iter().map(frame_len).sum::<usize>() + kk;
            let cuts = if kk % 2 == 0 { vec![] } else { random_cuts(&mut rng, total) };
            let sigs = if kk % 3 == 0 { vec![0] } else { vec![] };
            sink(script_case(false, &frames, Some((&tail, kk)), &cuts, &sigs, (kk % 3) as i64), String::new());
        }
    }
    // 2. all 32 valid flag bytes and a sample of invalid ones, orderly close after a command
    for fl in 0..=255u32 {
        if fl >= 32 && fl % 7 != 0 { continue; }
        for endmode in 0..4 {
            k += 1;
            if !mine(o, k) { continue; }
            let frames: Vec<F> = vec![(0x10, vec![fl as u8, b'v']), (0x20, vec![1])];
            sink(script_case(false, &frames, None, &[], &[], endmode), String::new());
        }
    }
    // 3. random scripts with re-registration (upgrade / downgrade / failed upgrade) sequences
    let n = if o.tier_thorough { 60_000 } else { 6_000 };
    for j in 0..n {
        k += 1;
        if !mine(o, k) { continue; }
        let mut rng = Rng::new(o.seed, 2_000_000 + j);
        let nf = 1 + rng.below(6) as usize;
        let mut frames: Vec<F> = Vec::new();
        for _ in 0..nf { frames.push(if rng.chance(2, 5) { session_frame(&mut rng, None) } else { any_frame(&mut rng) }); }
        let tail = if rng.chance(1, 2) { Some(any_frame(&mut rng)) } else { None };
        let tk = tail.as_ref().map(|t| rng.below(frame_len(t) as u64) as usize);
        let total: usize = frames.iter().map(frame_len).sum::<usize>() + tk.unwrap_or(0);
        let cuts = random_cuts(&mut rng, total);
        let mut sigs = vec![];
        for i in 0..=cuts.len() { if rng.chance(1, 3) { sigs.push(i as i64); } }
        let endmode = rng.below(4) as i64;
        sink(script_case(false, &frames, tail.as_ref().map(|t| (t, tk.unwrap())), &cuts, &sigs, endmode), String::new());
    }
}
