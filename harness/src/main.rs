//! Correspondence harness: runs the real Glonax code on generated cases and
//! prints one line per case: "<case ints> | <observation ints> [# comment]".
//! The same lines are evaluated by the extracted Coq model (ocaml/drv.ml).
#![allow(dead_code)]
use std::io::Write;

pub mod util;
#[path = "/repo/glonax-input/src/joystick.rs"]
pub mod joystick;
#[path = "/repo/glonax-input/src/gamepad.rs"]
pub mod gamepad;
#[path = "/repo/glonax-input/src/input.rs"]
pub mod input;
pub mod wire;
pub mod bus;
pub mod authrig;
pub mod session;
pub mod sessgen;
mod c03;
mod c04;
mod c05;
mod c01;
mod c02;
mod c06;
mod c07;
mod c08;
mod c09;
mod c10;
mod c11;
mod c12;
pub mod units;
pub mod c13;
mod c14;
mod c15;
mod c16;
pub mod c17;
mod c18;
mod c19;
mod c20;

pub struct Opts {
    pub tier_thorough: bool,
    pub seed: u64,
    pub shard: usize,
    pub nshards: usize,
    pub replay: Option<String>,
}

fn main() {
    let args: Vec<String> = std::env::args().collect();
    if args.len() < 2 {
        eprintln!("usage: vharness <prop> [--tier quick|thorough] [--seed N] [--shard i/n] [--replay 'ints']");
        std::process::exit(2);
    }
    let prop = args[1].to_lowercase();
    let mut o = Opts { tier_thorough: false, seed: 0, shard: 0, nshards: 1, replay: None };
    let mut i = 2;
    while i < args.len() {
        match args[i].as_str() {
            "--tier" => { o.tier_thorough = args[i + 1] == "thorough"; i += 2; }
            "--seed" => { o.seed = args[i + 1].parse().unwrap_or(0); i += 2; }
            "--shard" => {
                let (a, b) = args[i + 1].split_once('/').unwrap();
                o.shard = a.parse().unwrap(); o.nshards = b.parse().unwrap(); i += 2;
            }
            "--replay" => { o.replay = Some(args[i + 1].clone()); i += 2; }
            _ => { eprintln!("unknown arg {}", args[i]); std::process::exit(2); }
        }
    }
    util::quiet_panics();
    let stdout = std::io::stdout();
    let mut out = std::io::BufWriter::with_capacity(1 << 20, stdout.lock());
    // every property module offers  gen(opts, sink)  enumerating/generating cases (already
    // restricted to this shard) and  exec(case) -> observation  running the real code.
    type Gen = fn(&Opts, &mut dyn FnMut(Vec<i64>, String));
    type Exec = fn(&[i64]) -> Vec<i64>;
    let (gen, exec): (Gen, Exec) = match prop.as_str() {
        "c01" => (c01::gen, c01::exec),
        "c02" => (c02::gen, c02::exec),
        "c03" => (c03::gen, c03::exec),
        "c04" => (c04::gen, c04::exec),
        "c05" => (c05::gen, c05::exec),
        "c06" => (c06::gen, c06::exec),
        "c07" => (c07::gen, c07::exec),
        "c08" => (c08::gen, c08::exec),
        "c09" => (c09::gen, c09::exec),
        "c10" => (c10::gen, c10::exec),
        "c11" => (c11::gen, c11::exec),
        "c12" => (c12::gen, c12::exec),
        "c13" => (c13::gen, c13::exec),
        "c14" => (c14::gen, c14::exec),
        "c15" => (c15::gen, c15::exec),
        "c16" => (c16::gen, c16::exec),
        "c17" => (c17::gen, c17::exec),
        "c18" => (c18::gen, c18::exec),
        "c19" => (c19::gen, c19::exec),
        "c20" => (c20::gen, c20::exec),
        _ => { eprintln!("unknown property {}", prop); std::process::exit(2); }
    };
    if let Some(path) = &o.replay {
        // replay / corpus: a file of case lines (anything after '|' is ignored)
        let text = std::fs::read_to_string(path).unwrap_or_else(|_| path.clone());
        for line in text.lines() {
            let line = line.trim();
            if line.is_empty() || line.starts_with('#') { continue; }
            let (c, comment) = match line.split_once('#') { Some((a, b)) => (a, b.trim()), None => (line, "") };
            let c = c.split('|').next().unwrap();
            let case = util::parse_ints(c);
            let obs = exec(&case);
            util::emit_c(&mut out, &case, &obs, comment);
        }
    } else {
        let mut sink = |case: Vec<i64>, comment: String| {
            let obs = exec(&case);
            if comment.is_empty() { util::emit(&mut out, &case, &obs) } else { util::emit_c(&mut out, &case, &obs, &comment) }
        };
        gen(&o, &mut sink);
    }
    out.flush().unwrap();
}
