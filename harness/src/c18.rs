//! C18: (1) the input daemon's pipeline stage by stage on the real modules (included by #[path]):
//! js_event record -> joystick::Event -> gamepad map -> InputState::try_from, from any interlock state;
//! (2) the real `glonaxctl` against a stub daemon; (3) the real `glonax-input` fed through a FIFO.
use crate::gamepad::{InputDevice, LogitechJoystick, XboxController};
use crate::input::InputState;
use crate::joystick::Event;
use crate::{util::*, Opts};
use glonax::core::{Instance, MachineType, Object};
use glonax::protocol::Packetize;
use std::io::{Read, Write};
use std::os::unix::net::UnixListener;
use std::time::{Duration, Instant};

fn record(ty: u8, num: u8, value: i16) -> [u8; 8] {
    let mut b = [0u8; 8]; b[4..6].copy_from_slice(&value.to_le_bytes()); b[6] = ty; b[7] = num; b
}

fn enc_object(o: &Option<Object>, out: &mut Vec<i64>) {
    match o {
        None => out.push(0),
        Some(Object::Motion(m)) => { out.push(1); crate::wire::enc_motion(out, m); }
        Some(Object::Engine(e)) => out.extend([2, e.rpm as i64, (e.state == glonax::core::EngineState::Request) as i64]),
        Some(_) => out.push(9),
    }
}

fn step(c: &[i64]) -> Vec<i64> {
    let (mode, dl, ml, lm, rpm, rl, rr, ty, num, v) = (c[1], c[2] != 0, c[3] != 0, c[4] != 0, c[5] as u16, c[6] != 0, c[7] != 0, c[8] as u8, c[9] as u8, c[10] as i16);
    let r = std::panic::catch_unwind(|| {
        let mut dev: Box<dyn InputDevice> = match mode { 0 => Box::<XboxController>::default(), 1 => Box::new(LogitechJoystick::solo_mode()), 2 => Box::new(LogitechJoystick::left_mode()), _ => Box::new(LogitechJoystick::right_mode()) };
        // the Xbox map's internal flags are set the way the device sets them: by button events
        if rl { dev.map(&Event::from(&record(1, 4, 1)[..])); }
        if rr { dev.map(&Event::from(&record(1, 5, 1)[..])); }
        let mut st = InputState { drive_lock: dl, motion_lock: ml, limit_motion: lm, engine_rpm: rpm };
        let ev = Event::from(&record(ty, num, v)[..]);
        let out = dev.map(&ev).and_then(|code| st.try_from(code));
        let mut o = vec![st.drive_lock as i64, st.motion_lock as i64, st.limit_motion as i64, st.engine_rpm as i64];
        enc_object(&out, &mut o); o
    });
    r.unwrap_or_else(|_| vec![-1])
}

// ---------------------------------------------------------------- stub daemon
fn instance_frame(version: (u8, u8, u8)) -> Vec<u8> {
    let i = Instance::new("d55bcd75-8d30-49af-ac18-ee7cbce7822f", "stub", MachineType::Excavator, version, "S1");
    let p = i.to_bytes(); let mut f = crate::session::header(0x15, p.len()); f.extend(p); f
}

/// accept one client, answer its session frame with an identity of the given version, then collect what it sends
fn stub(listener: UnixListener, version: (u8, u8, u8)) -> std::thread::JoinHandle<(i64, Vec<(u8, Vec<u8>)>)> {
    std::thread::spawn(move || {
        listener.set_nonblocking(true).ok();
        let t0 = Instant::now();
        let mut s = loop { match listener.accept() { Ok((s, _)) => break s, Err(_) => { if t0.elapsed() > Duration::from_secs(8) { return (-1, vec![]); } std::thread::sleep(Duration::from_millis(2)); } } };
        s.set_nonblocking(false).ok(); s.set_read_timeout(Some(Duration::from_secs(6))).ok();
        let mut h = [0u8; 10];
        if s.read_exact(&mut h).is_err() { return (-1, vec![]); }
        let n = ((h[5] as usize) << 8) | h[6] as usize; let mut p = vec![0u8; n];
        if s.read_exact(&mut p).is_err() { return (-1, vec![]); }
        let flags = p[0] as i64;
        let _ = s.write_all(&instance_frame(version));
        let mut frames = vec![];
        loop {
            let mut h = [0u8; 10];
            if s.read_exact(&mut h).is_err() { break; }
            let n = ((h[5] as usize) << 8) | h[6] as usize; let mut p = vec![0u8; n];
            if s.read_exact(&mut p).is_err() { break; }
            frames.push((h[4], p));
        }
        (flags, frames)
    })
}

fn workdir() -> std::path::PathBuf {
    let d = std::env::temp_dir().join(format!("c18-{}-{:?}", std::process::id(), std::thread::current().id()).replace(['(', ')'], ""));
    let _ = std::fs::create_dir_all(&d); d
}

const SUBS: [(i64, &str); 12] = [(0, "motion-lock"), (5, "hydraulic-quick-disconnect"), (6, "hydraulic-lock"), (7, "hydraulic-boost"), (8, "hydraulic-boom-conflux"),
    (9, "hydraulic-arm-conflux"), (10, "hydraulic-boom-float"), (0x1c, "illumination"), (0x2d, "lights"), (0x1e, "horn"), (0x1f, "strobe-light"), (0x20, "travel-alarm")];

fn cli(c: &[i64]) -> Vec<i64> {
    let sub = c[1]; let compat = c[2];
    let word: String = c[3..].iter().map(|b| *b as u8 as char).collect();
    let Some((_, name)) = SUBS.iter().find(|(k, _)| *k == sub) else { return vec![-2] };
    let w = workdir(); let sock = w.join("s.sock"); let _ = std::fs::remove_file(&sock);
    let cfg = w.join("c.conf"); std::fs::write(&cfg, format!("[unix_listener]\npath = \"{}\"\n", sock.display())).unwrap();
    let listener = UnixListener::bind(&sock).unwrap();
    let version = if compat == 0 { (env_version().0, env_version().1, 99) } else if compat == 1 { (env_version().0 + 1, env_version().1, 0) } else { (env_version().0, env_version().1 * 10, 0) };
    let h = stub(listener, version);
    let st = std::process::Command::new("/verif/.build/cargo-repo/debug/glonaxctl").arg("-c").arg(&cfg).arg(name).arg(&word)
        .stdout(std::process::Stdio::null()).stderr(std::process::Stdio::null()).status();
    let (_flags, frames) = h.join().unwrap_or((-1, vec![]));
    let _ = std::fs::remove_dir_all(&w);
    let mut o = vec![(st.map(|s| s.success()).unwrap_or(false) && !frames.is_empty()) as i64, frames.len() as i64];
    for (t, p) in frames { o.push(t as i64); o.push(p.len() as i64); o.extend(p.iter().map(|b| *b as i64)); }
    o
}

/// sub-commands without an on/off word: 100 engine <rpm>, 101 engine-shutdown, 102 machine-shutdown
fn cli_plain(c: &[i64]) -> Vec<i64> {
    let (sub, compat, arg) = (c[1], c[2], c[3]);
    let w = workdir(); let sock = w.join("s.sock"); let _ = std::fs::remove_file(&sock);
    let cfg = w.join("c.conf"); std::fs::write(&cfg, format!("[unix_listener]\npath = \"{}\"\n", sock.display())).unwrap();
    let listener = UnixListener::bind(&sock).unwrap();
    let version = if compat == 0 { (env_version().0, env_version().1, 99) } else if compat == 1 { (env_version().0 + 1, env_version().1, 0) } else { (env_version().0, env_version().1 * 10, 0) };
    let h = stub(listener, version);
    let mut cmd = std::process::Command::new("/verif/.build/cargo-repo/debug/glonaxctl");
    cmd.arg("-c").arg(&cfg);
    match sub { 100 => { cmd.arg("engine").arg(arg.to_string()); } 101 => { cmd.arg("engine-shutdown"); } 102 => { cmd.arg("machine-shutdown"); } _ => return vec![-2] }
    let st = cmd.stdout(std::process::Stdio::null()).stderr(std::process::Stdio::null()).status();
    let (_flags, frames) = h.join().unwrap_or((-1, vec![]));
    let _ = std::fs::remove_dir_all(&w);
    let mut o = vec![(st.map(|s| s.success()).unwrap_or(false) && !frames.is_empty()) as i64, frames.len() as i64];
    for (t, p) in frames { o.push(t as i64); o.push(p.len() as i64); o.extend(p.iter().map(|b| *b as i64)); }
    o
}

fn env_version() -> (u8, u8) {
    let ma: u8 = glonax::consts::VERSION_MAJOR.parse().unwrap_or(0); let mi: u8 = glonax::consts::VERSION_MINOR.parse().unwrap_or(0); (ma, mi)
}

fn input_bin(c: &[i64]) -> Vec<i64> {
    let (mode, full, _failsafe) = (c[1], c[2] != 0, c[3] != 0);
    let w = workdir(); let sock = w.join("s.sock"); let _ = std::fs::remove_file(&sock);
    let cfg = w.join("c.conf"); std::fs::write(&cfg, format!("[unix_listener]\npath = \"{}\"\n", sock.display())).unwrap();
    let fifo = w.join("js0"); let _ = std::fs::remove_file(&fifo);
    let cpath = std::ffi::CString::new(fifo.to_string_lossy().as_bytes()).unwrap();
    unsafe { libc::mkfifo(cpath.as_ptr(), 0o600); }
    let listener = UnixListener::bind(&sock).unwrap();
    let h = stub(listener, (env_version().0, env_version().1, 0));
    let mname = ["xbox", "logitech-solo", "logitech-left", "logitech-right"][(mode as usize).min(3)];
    let mut cmd = std::process::Command::new("/verif/.build/cargo-repo/debug/glonax-input");
    cmd.arg("-c").arg(&cfg).arg("--mode").arg(mname).arg("--quiet");
    if full { cmd.arg("--full-motion"); }
    cmd.arg(&fifo).stdout(std::process::Stdio::null()).stderr(std::process::Stdio::null());
    let Ok(mut child) = cmd.spawn() else { return vec![-2] };
    // opening the FIFO for writing blocks until the daemon has opened it for reading
    let mut f = std::fs::OpenOptions::new().write(true).open(&fifo).unwrap();
    std::thread::sleep(Duration::from_millis(60));
    for r in c[4..].chunks(3) { if r.len() == 3 { let _ = f.write_all(&record(r[0] as u8, r[1] as u8, r[2] as i16)); } }
    std::thread::sleep(Duration::from_millis(60));
    drop(f);
    let t0 = Instant::now();
    while t0.elapsed() < Duration::from_secs(5) { if let Ok(Some(_)) = child.try_wait() { break; } std::thread::sleep(Duration::from_millis(5)); }
    let _ = child.kill(); let _ = child.wait();
    let (flags, frames) = h.join().unwrap_or((-1, vec![]));
    let _ = std::fs::remove_dir_all(&w);
    let mut o = vec![flags & 0x10, frames.len() as i64];
    for (t, p) in frames { o.push(t as i64); o.push(p.len() as i64); o.extend(p.iter().map(|b| *b as i64)); }
    o
}

pub fn exec(c: &[i64]) -> Vec<i64> {
    match c[0] { 1 => step(c), 2 => cli(c), 3 => input_bin(c), 4 => cli_plain(c), _ => vec![-2] }
}

pub fn gen(o: &Opts, sink: &mut dyn FnMut(Vec<i64>, String)) {
    let mut k: u64 = 0;
    macro_rules! put { ($c:expr) => {{ k += 1; if mine(o, k) { sink($c, String::new()); } }}; }
    let vals: Vec<i64> = if o.tier_thorough { (-32768..=32767).collect() } else {
        let mut v: Vec<i64> = (-32768..=32767).step_by(61).collect();
        for t in [0i64, 1000, 1500, 1750, 2000, 3500, 4000, 16383, 16384, 32767] { for d in -2..=2 { for s in [1i64, -1, 2, -2] { let x = (t * s.signum() * (s.abs())).clamp(-32768, 32767) + d; if (-32768..=32767).contains(&x) { v.push(x); } } } }
        v.push(-32768); v.push(32767); v.sort(); v.dedup(); v };
    // every reachable interlock state x every event class x the value range
    let rpms = [0i64, 900, 1000, 2000, 2100];
    for mode in 0..4i64 {
        let nums: Vec<i64> = if mode == 0 { vec![0, 1, 2, 3, 4, 5, 7] } else { vec![0, 1] };
        for st in 0..8i64 {
            let (dl, ml, lm) = (st & 1, (st >> 1) & 1, (st >> 2) & 1);
            for (ri, rpm) in rpms.iter().enumerate() {
                if !o.tier_thorough && ri > 1 && st % 3 != 0 { continue; }
                for rev in 0..(if mode == 0 { 4 } else { 1 }) {
                    for num in &nums { for v in &vals {
                        if !o.tier_thorough && (v.rem_euclid(7) != (st + rev) % 7) && v.abs() < 32000 && ![1000i64, 1500, 1750, 2000, 3500, 4000, 16383, 16384].iter().any(|t| (v.abs() - t).abs() <= 4 || (v.abs() - 2 * t).abs() <= 4) { continue; }
                        put!(vec![1, mode, dl, ml, lm, *rpm, rev & 1, rev >> 1, 2, *num, *v]);
                    } }
                    // buttons: every number 0..12 and 255, values 0/1/2/-1; init records; axis-init
                    for num in (0..=12i64).chain([255]) { for v in [0i64, 1, 2, -1, -32768] {
                        put!(vec![1, mode, dl, ml, lm, *rpm, rev & 1, rev >> 1, 1, num, v]);
                        if rev == 0 { put!(vec![1, mode, dl, ml, lm, *rpm, 0, 0, 129, num, v]); put!(vec![1, mode, dl, ml, lm, *rpm, 0, 0, 130, num, v]); }
                    } }
                }
            }
        }
    }
    // the command-line client against a stub daemon
    let words: [&str; 18] = ["1", "on", "true", "0", "off", "false", "ON", "On", "TRUE", "True", "OFF", "Off", "FALSE", "False", "tRuE", "oFf", "yes", "2"];
    let extra: [&str; 6] = ["", "enable", "onn", "of", "01", " on"];
    let mut j = 0u64;
    for (sub, _) in SUBS {
        for (wi, w) in words.iter().chain(extra.iter()).enumerate() {
            j += 1;
            if !o.tier_thorough && !(wi < 6 && (sub + wi as i64) % 2 == 0) && j % 5 != 0 { continue; }
            for compat in [0i64, 1, 2] {
                if compat > 0 && (j + compat as u64) % 4 != 0 { continue; }
                put!({ let mut c = vec![2, sub, compat]; c.extend(w.bytes().map(|b| b as i64)); c });
            }
        }
    }
    // sub-commands without a word: engine <rpm> over the whole u16 range (boundaries of every speed limit in the system),
    // engine-shutdown, machine-shutdown; compatible and incompatible daemons
    let rpms: Vec<i64> = if o.tier_thorough { (0..=65535i64).step_by(257).chain([0, 1, 799, 800, 801, 899, 900, 901, 2099, 2100, 2101, 2199, 2200, 2201, 8031, 8032, 32767, 32768, 65534, 65535]).collect() }
                         else { vec![0, 1, 800, 899, 900, 901, 1500, 2100, 2101, 2200, 8032, 32768, 65535] };
    for (i, rpm) in rpms.iter().enumerate() { put!(vec![4, 100, if i % 7 == 3 { 1 } else { 0 }, *rpm]); }
    for compat in [0i64, 1, 2] { put!(vec![4, 101, compat, 0]); put!(vec![4, 102, compat, 0]); }
    // the real glonax-input binary: start-up lock, failsafe registration, only Motion/Engine on the wire
    let mut rng = Rng::new(o.seed, 18);
    let nb = if o.tier_thorough { 200 } else { 12 };
    for jj in 0..nb {
        let mode = (jj % 4) as i64;
        let mut c = vec![3, mode, (jj / 4 % 2) as i64, 1];
        let len = 3 + rng.below(25);
        for _ in 0..len {
            match rng.below(6) {
                0 => c.extend([1, 1, rng.below(2) as i64]),                                   // abort press / release
                1 => c.extend([1, rng.below(6) as i64, rng.below(2) as i64]),
                2 => c.extend([2, 7, *rng.pick(&[-32767i64, 32767, 0])]),                   // engine up / down
                _ => c.extend([2, rng.below(6) as i64, *rng.pick(&[-32768i64, -20000, -3000, -500, 0, 500, 3000, 20000, 32767])]),
            }
        }
        put!(c);
    }
}
