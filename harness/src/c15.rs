//! C15: the real `Runtime::schedule_net_service` command task with a recording mock
//! `NetworkService` whose `on_command` is gated (a slow consumer), and producers scheduled as
//! `Service`s that hand their `CommandSender` to the harness. Current-thread runtime: tasks only
//! run when the harness yields, so every schedule of {send, grant, run-until-blocked} is exact.
//! case = [nnets, ops...]: 1 x (send) | 2 k (grant network k one completion) | 3 (run) | 4 (drain)
//! obs  = per network: count, processed values
use crate::{util::*, Opts};
use glonax::core::{Motion, Object};
use glonax::runtime::{CommandSender, NetworkService, NullConfig, Service, SignalReceiver, SignalSender};
use glonax::Runtime;
use std::sync::{Arc, Mutex};
use tokio::sync::Semaphore;

#[derive(Clone)]
struct Shared { gates: Vec<Arc<Semaphore>>, logs: Vec<Arc<Mutex<Vec<i64>>>>, tx: Arc<Mutex<Option<CommandSender>>> }

thread_local! { static SHARED: std::cell::RefCell<Option<Shared>> = std::cell::RefCell::new(None); }
fn shared() -> Shared { SHARED.with(|s| s.borrow().clone().unwrap()) }

#[derive(Clone)]
struct MockCfg { id: usize, sh: Shared }
#[derive(Clone)]
struct Mock { id: usize, sh: Shared }

impl NetworkService<MockCfg> for Mock {
    fn new(c: MockCfg) -> Self { Mock { id: c.id, sh: c.sh } }
    async fn recv(&mut self, _signal_tx: SignalSender) { std::future::pending::<()>().await }
    async fn on_tick(&mut self, _signal_tx: SignalSender) {}
    async fn on_command(&mut self, object: &Object) {
        self.sh.gates[self.id].acquire().await.unwrap().forget();
        let v = match object { Object::Motion(Motion::StraightDrive(v)) => *v as i64, Object::Motion(Motion::StopAll) => -1, _ => -2 };
        self.sh.logs[self.id].lock().unwrap().push(v);
    }
}

struct Producer;
impl Service<NullConfig> for Producer {
    fn new(_: NullConfig) -> Self { Producer }
    async fn wait_io_sub(&mut self, command_tx: CommandSender, _signal_rx: SignalReceiver) {
        *shared().tx.lock().unwrap() = Some(command_tx);
        std::future::pending::<()>().await
    }
}

pub fn exec(c: &[i64]) -> Vec<i64> {
    if c[0] == 300 { return crate::session::exec(&c[1..]); }
    if c[0] == 1000 { return crate::authrig::exec(&c[1..]); }
    let nn = c[0] as usize;
    let sh = Shared { gates: (0..nn).map(|_| Arc::new(Semaphore::new(0))).collect(), logs: (0..nn).map(|_| Arc::new(Mutex::new(vec![]))).collect(), tx: Arc::new(Mutex::new(None)) };
    SHARED.with(|s| *s.borrow_mut() = Some(sh.clone()));
    let ops = c[1..].to_vec();
    let rt = tokio::runtime::Builder::new_current_thread().enable_all().build().unwrap();
    let sh2 = sh.clone();
    rt.block_on(async move {
        let mut runtime = Runtime::default();
        // as glonaxd does: producers first, then the networks. The producer is up (and has handed out its
        // CommandSender) before the networks are scheduled, and the script starts IMMEDIATELY after
        // schedule_net_service returns: commands published before the command tasks have been polled
        // for the first time must not be lost (the receiver exists from scheduling time on)
        runtime.schedule_io_sub_service::<Producer, NullConfig>(NullConfig);
        let settle = || async { for _ in 0..200 { tokio::task::yield_now().await; } };
        settle().await;
        let tx = sh2.tx.lock().unwrap().clone().expect("producer did not start");
        for id in 0..nn { runtime.schedule_net_service::<Mock, MockCfg>(MockCfg { id, sh: sh2.clone() }, std::time::Duration::from_secs(3600)); }
        let mut i = 0usize;
        while i < ops.len() {
            match ops[i] {
                1 => { let v = ops[i + 1]; let o = if v == -1 { Object::Motion(Motion::StopAll) } else { Object::Motion(Motion::StraightDrive(v as i16)) }; let _ = tx.send(o); i += 2; }
                2 => { sh2.gates[ops[i + 1] as usize].add_permits(1); i += 2; }
                3 => { settle().await; i += 1; }
                4 => { for g in &sh2.gates { g.add_permits(100_000); } settle().await; settle().await; i += 1; }
                _ => break,
            }
        }
        drop(runtime);
    });
    let mut out = Vec::new();
    for l in &sh.logs { let v = l.lock().unwrap(); out.push(v.len() as i64); out.extend(v.iter()); }
    out
}

pub fn gen(o: &Opts, sink: &mut dyn FnMut(Vec<i64>, String)) {
    let mut k: u64 = 0;
    macro_rules! put { ($c:expr) => {{ k += 1; if mine(o, k) { sink($c, String::new()); } }}; }
    // bursts of every size around the capacity, with the handler blocked inside on_command or idle, 1-2 networks
    for nn in [1i64, 2] {
        for burst in [1usize, 2, 15, 16, 17, 18, 31, 32, 33, 40, 100, 1000] {
            for pre in [0usize, 1, 2] {            // commands already taken / in hand before the burst
                for grant in [0usize, 1, 5] {
                    let mut c = vec![nn];
                    let mut v = 100i64;
                    for _ in 0..pre { c.extend([1, v]); v += 1; }
                    if pre > 0 { c.push(3); }
                    for _ in 0..burst { c.extend([1, v]); v += 1; }
                    c.extend([1, -1]);              // the final stop-all
                    for g in 0..grant { c.extend([2, (g as i64) % nn]); }
                    c.push(3); c.push(4);
                    put!(c);
                }
            }
        }
    }
    // MANY overruns on one runtime (9..14 bursts beyond the capacity, the handler running in between): every overrun is
    // survived like the first, the closing stop-all is processed
    for nn in [1i64, 2] {
        for nbursts in [9usize, 10, 14] {
            for size in [17usize, 40] {
                let mut c = vec![nn];
                let mut v = 100i64;
                c.push(4);                               // the handlers run freely
                for _ in 0..nbursts { for _ in 0..size { c.extend([1, v]); v += 1; } c.push(3); }
                c.extend([1, -1]); c.push(3); c.push(4);
                put!(c);
            }
        }
    }
    // a client session as producer: long bursts of accepted commands ending in stop-all all reach the bus
    for burst in [15usize, 16, 17, 40, 100] {
        let mut frames: Vec<crate::sessgen::F> = vec![(0x10, vec![0x00, b'c'])];
        for j in 0..burst { let v = (100 + j as u16).to_be_bytes(); frames.push(if j % 3 == 0 { (0x20, vec![5, v[0], v[1]]) } else if j % 3 == 1 { (0x45, vec![0x1e, (j % 2) as u8]) } else { (0x43, vec![0, 0, v[0], v[1], 0x10]) }); }
        frames.push((0x20, vec![0]));
        let mut c = vec![300]; c.extend(crate::sessgen::script_case(false, &frames, None, &[], &[], 0));
        put!(c);
    }
    // the last hop: accepted commands leave through the real NetworkAuthority; a bus that stalls for 60 ms
    // while a command (in particular the final stop-all) is being written loses nothing
    for j in 0..(if o.tier_thorough { 120u64 } else { 16 }) {
        let mut rng = Rng::new(o.seed, 15_500 + j);
        let mut c = vec![1000]; c.extend(crate::c10::config(&[(1, 0x4a, None, 0)]));
        c.push(5); c.push(2);
        for q in 0..(2 + rng.below(4)) { c.push(if rng.chance(1, 2) { 9 } else { 3 }); c.extend([5, 100 + q as i64]); }
        c.push(9); c.push(0);           // the closing stop-all arrives during a stall
        c.push(2);
        put!(c);
    }
    // ... nor does what the unit last reported about itself: a locked / unlocked status frame from the unit before and
    // between the commands; resume, changes and the closing stop-all still all go out
    for j in 0..(if o.tier_thorough { 200u64 } else { 24 }) {
        let mut rng = Rng::new(o.seed, 15_600 + j);
        let mut c = vec![1000]; c.extend(crate::c10::config(&[(1, 0x4a, None, 0)]));
        c.push(5); c.push(2);
        let status = |locked: i64| -> Vec<i64> { vec![1, (crate::units::id_of(6, 65288, 0, 0x4a) | 0x8000_0000) as i64, 8, 0x14, 255, locked, 255, 0, 0, 0, 0] };
        c.extend(status((j % 2) as i64));
        if rng.chance(1, 2) { c.push(2); }
        c.extend([3, 1]);                                   // resume-all
        for q in 0..(1 + rng.below(3)) { c.extend([3, 5, 100 + q as i64]); if rng.chance(1, 3) { c.extend(status(rng.below(2) as i64)); } }
        c.extend([3, 0]);                                   // the closing stop-all
        c.push(2);
        put!(c);
    }
    // ... nor do extreme command values: full reverse (-32768), full forward, -1 and change sets mixing them are commands like any
    // other - the handler survives them and the commands behind them, the closing stop-all above all, still go out
    for j in 0..(if o.tier_thorough { 200u64 } else { 24 }) {
        let mut rng = Rng::new(o.seed, 15_800 + j);
        let mut c = vec![1000]; c.extend(crate::c10::config(&[(1, 0x4a, None, 0)]));
        c.push(5); c.push(2);
        let ext = |rng: &mut Rng| *rng.pick(&[-32768i64, -32767, -1, 0, 1, 32767]);
        for _ in 0..(2 + rng.below(4)) {
            if rng.chance(1, 2) { let v = ext(&mut rng); c.extend([3, 5, v]); }
            else { let n = 1 + rng.below(6) as i64; c.extend([3, 16, n]); for _ in 0..n { let a = rng.below(6) as i64; let v = ext(&mut rng); c.extend([a, v]); } }
        }
        c.extend([3, 0]);
        c.push(2);
        put!(c);
    }
    // ... and neither does a unit that has been silent for longer than its receive timeout (150 ms): commands
    // accepted while the unit is considered offline still go out, the stop-all above all
    for j in 0..(if o.tier_thorough { 60u64 } else { 8 }) {
        let mut rng = Rng::new(o.seed, 15_700 + j);
        let mut c = vec![1000]; c.extend(crate::c10::config(&[(1, 0x4a, None, 3)]));
        c.push(5); c.push(2);
        if rng.chance(1, 2) { c.extend([3, 5, 90]); }
        c.extend([4, 250]);
        if rng.chance(1, 2) { c.push(2); }
        for q in 0..(1 + rng.below(3)) { c.extend([3, 5, 100 + q as i64]); }
        c.extend([3, 0]);               // stop-all while the unit is silent
        c.push(2);
        put!(c);
    }
    // random schedules: any relative speed of producers and handlers
    let mut rng = Rng::new(o.seed, 15);
    let n = if o.tier_thorough { 30_000 } else { 3_000 };
    for _ in 0..n {
        let nn = 1 + rng.below(2) as i64;
        let len = 5 + rng.below(120);
        let mut c = vec![nn]; let mut v = 1i64;
        let speed = rng.below(4);       // how often the handlers get to run
        for _ in 0..len {
            match rng.below(6 + speed) {
                0 | 1 | 2 | 3 => { c.extend([1, v]); v += 1; }
                4 => c.push(3),
                _ => { c.extend([2, rng.below(nn as u64) as i64]); if rng.chance(1, 2) { c.push(3); } }
            }
        }
        if rng.chance(4, 5) { c.extend([1, -1]); c.push(4); } else { c.push(3); }
        put!(c);
    }
}
