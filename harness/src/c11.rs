//! C11: driver-level attribution sweep (units.rs, mode 0) plus authority-level multi-driver
//! configurations over the bus (cases prefixed with 100).
use crate::{c10, util::*, Opts};
pub fn exec(c: &[i64]) -> Vec<i64> { if c[0] == 100 { crate::authrig::exec(&c[1..]) } else { crate::units::exec(c) } }
pub fn gen(o: &Opts, sink: &mut dyn FnMut(Vec<i64>, String)) {
    crate::units::gen_mode(o, 0, sink);
    // multi-driver configurations incl. the shipped ones: frames from each unit (also with device
    // error codes), from unconfigured sources, requests; a cycle after each to see who was credited
    let lists: [Vec<(i64, i64, Option<i64>, i64)>; 4] = [
        vec![(4, 0x6a, None, 1), (4, 0x6b, None, 1), (4, 0x6c, None, 1), (4, 0x6d, None, 1), (5, 0x7a, None, 1)],
        vec![(7, 0x00, Some(0x11), 1), (2, 0x12, None, 1), (1, 0x4a, None, 1)],
        vec![(1, 0x4a, None, 0), (6, 0x00, None, 0), (3, 0x20, None, 0), (5, 0x7a, None, 0)],
        vec![(4, 0x6a, None, 0), (0, 0x55, None, 0), (4, 0x6b, None, 0), (2, 0x12, None, 0)],
    ];
    let n = if o.tier_thorough { 8_000 } else { 800 };
    let mut k: u64 = 0;
    for j in 0..n {
        k += 1; if !mine(o, k + 7) { continue; }
        let mut rng = Rng::new(o.seed, 11_000_000 + j);
        let drivers = &lists[(j % 4) as usize];
        let mut c = vec![100]; c.extend(c10::config(drivers));
        let len = 2 + rng.below(8);
        for _ in 0..len {
            match rng.below(6) {
                0 => c.extend(c10::foreign(&mut rng)),
                1 => { // a frame from a configured address but of another unit's kind
                    let d = *rng.pick(drivers); let e = *rng.pick(drivers);
                    c.extend(c10::frame_from(e.0, d.1, &mut rng)); }
                _ => { let d = *rng.pick(drivers);
                    let mut f = c10::frame_from(d.0, d.1, &mut rng);
                    // device error codes in the payload (encoder state word, inclinometer status, vecraft state)
                    if rng.chance(1, 3) { match d.0 { 4 => { f[9] = 0x00; f[10] = 0xee; } 5 => { f[9] = 0xe0; } 1 | 2 => { f[3] = 0xfa; } _ => {} } }
                    c.extend(f); }
            }
            c.push(2);
            // now and then a remote-transmission-request / error-flagged frame from somebody else right after
            // (flags in can_id bits 30 / 29): it must be handled like any other foreign frame, not replay the last one
            if rng.chance(1, 5) { let mut f = c10::foreign(&mut rng); f[1] |= if rng.chance(2, 3) { 0x4000_0000 } else { 0x2000_0000 }; c.extend(f); c.push(2); }
        }
        sink(c, String::new());
    }
}
