//! Generators of client frames and session scripts shared by C03, C04, C05, C14.
use crate::util::Rng;

pub type F = (u8, Vec<u8>); // (type code, payload)

fn f32be(x: f32) -> [u8; 4] { x.to_bits().to_be_bytes() }

pub fn session_frame(rng: &mut Rng, force_flags: Option<u8>) -> F {
    let flags = force_flags.unwrap_or_else(|| match rng.below(10) {
        0 => 0x10, 1 => 0x11, 2 => 0x00, 3 => 0x01, 4 => 0x20 | rng.byte(), 5 => 0x80, 6 => 0xff,
        _ => rng.byte() & 0x1f,
    });
    let mut p = vec![flags];
    match rng.below(9) {
        0 => {}
        1 => p.extend(b"glonax-input/1.0"),
        2 => { for _ in 0..64 { p.push(b'a'); } }
        3 => { for _ in 0..63 { p.push(b'b'); } p.extend("é".as_bytes()); p.extend(b"tail"); } // 2-byte char straddles byte 64
        4 => { for _ in 0..62 { p.push(b'c'); } p.extend("€".as_bytes()); p.extend(b"xyz"); }  // 3-byte char straddles
        5 => { for _ in 0..(20 + rng.below(30)) { p.push(0xff); } }                                // invalid UTF-8, expands x3
        6 => { for _ in 0..(65 + rng.below(200)) { p.push(b'A' + (rng.below(26) as u8)); } }
        7 => { let n = rng.below(90); for _ in 0..n { p.push(rng.byte()); } }
        _ => { p.extend("ünïcödé-sessiön".as_bytes()); }
    }
    (0x10, p)
}

pub fn engine_frame(rng: &mut Rng) -> F {
    let st = match rng.below(8) { 0 => 0x00, 1 => 0x01, 2 => 0x02, 3 | 4 => 0x10, 5 => 0x03, 6 => 0xff, _ => rng.byte() };
    let rpm = match rng.below(4) { 0 => 0u16, 1 => 65535, _ => rng.below(3000) as u16 };
    let mut p = vec![rng.byte(), rng.byte(), (rpm >> 8) as u8, rpm as u8, st];
    match rng.below(12) { 0 => { p.pop(); } 1 => p.push(0), 2 => p.extend([1, 2, 3]), _ => {} }
    (0x43, p)
}

pub fn motion_frame(rng: &mut Rng) -> F {
    let mut p = Vec::new();
    match rng.below(12) {
        0 => p.push(0), 1 => p.push(1), 2 => p.push(2),
        3 => { p.push(rng.below(3) as u8); for _ in 0..(1 + rng.below(4)) { p.push(rng.byte()); } } // trailing bytes after a tag-only motion
        4 | 5 => { p.push(5); let v = rng.next() as u16; p.extend(v.to_be_bytes()); if rng.chance(1, 6) { p.push(0); } if rng.chance(1, 10) { p.pop(); p.pop(); } }
        6 | 7 | 8 | 9 => {
            let n = match rng.below(6) { 0 => 0, 1 => 32, 2 => 33, _ => rng.below(8) } as usize;
            p.push(0x10); p.push(n as u8);
            for _ in 0..n {
                let a: u16 = if rng.chance(1, 12) { 6 + rng.below(300) as u16 } else { rng.below(6) as u16 };
                p.extend(a.to_be_bytes());
                let v: u16 = match rng.below(5) { 0 => 0xffff, 1 => 0x8000, 2 => 0x7fff, _ => rng.next() as u16 };
                p.extend(v.to_be_bytes());
            }
            match rng.below(10) { 0 => { for _ in 0..(1 + rng.below(3)) { p.push(rng.below(6) as u8); } } 1 => { p.pop(); } _ => {} }
        }
        10 => { p.push(0x10); }               // change tag without a count
        _ => { p.push(rng.byte()); let n = rng.below(6); for _ in 0..n { p.push(rng.byte()); } }
    }
    (0x20, p)
}

pub fn target_frame(rng: &mut Rng) -> F {
    let mut p = Vec::new();
    for _ in 0..3 { p.extend(f32be((rng.range(-5000, 5000) as f32) / 7.0)); }
    for _ in 0..3 { p.extend(f32be((rng.range(-3000, 3000) as f32) / 1000.0)); }
    p.push(match rng.below(8) { 0 => 0, 1 => 1, 2 => 2, 3 => 20, 4 => 21, 5 => 22, 6 => 9, _ => rng.byte() });
    match rng.below(12) { 0 => { p.pop(); } 1 => p.push(0), _ => {} }
    (0x44, p)
}

pub fn control_frame(rng: &mut Rng) -> F {
    const K: [u8; 13] = [0x5, 0x6, 0x7, 0x8, 0x9, 0xA, 0xB, 0x1B, 0x1C, 0x2D, 0x1E, 0x1F, 0x20];
    let k = if rng.chance(1, 8) { rng.byte() } else { *rng.pick(&K) };
    let on = match rng.below(5) { 0 => 0, 1 | 2 => 1, 3 => 2, _ => rng.byte() };
    let mut p = vec![k, on];
    match rng.below(12) { 0 => { p.pop(); } 1 => p.push(1), _ => {} }
    (0x45, p)
}

/// a complete, valid stop-all frame as bytes (used as hostile payload content)
pub fn stop_all_bytes() -> Vec<u8> { let mut v = crate::session::header(0x20, 1); v.push(0); v }

pub fn other_frame(rng: &mut Rng) -> F {
    // unknown type codes and known non-command types, with payloads that try to confuse framing
    const KNOWN_OTHER: [u8; 7] = [0x00, 0x12, 0x15, 0x16, 0x42, 0x46, 0x69];
    let t = if rng.chance(1, 2) { *rng.pick(&KNOWN_OTHER) } else {
        loop { let t = rng.byte(); if ![0x10u8, 0x43, 0x20, 0x44, 0x45].contains(&t) { break t; } }
    };
    let mut p = Vec::new();
    match rng.below(6) {
        0 => { p.extend(stop_all_bytes()); }
        1 => { p.extend(stop_all_bytes()); p.extend(stop_all_bytes()); p.push(7); }
        2 => { let n = [1usize, 2, 5, 25, 1024][rng.below(5) as usize]; for _ in 0..n { p.push(rng.byte()); } }
        3 => { p.extend(b"LXR"); p.push(3); p.push(0x20); p.extend([0, 1, 0, 0, 0, 1]); }   // embedded resume-all
        // a payload whose length is a whole number of blocks of a round size, with a complete resume-all frame
        // sitting exactly one block before its end (whatever is skipped block-wise must skip all of it)
        4 => { let c = *rng.pick(&[10usize, 16, 20, 32, 50, 64, 100, 100, 100, 128, 200, 250, 256, 500, 512]);
               let m = 1 + rng.below((1024 / c) as u64) as usize; let l = c * m;
               for _ in 0..l { p.push(if rng.chance(1, 2) { 0 } else { rng.byte() }); }
               let fr: [u8; 11] = [b'L', b'X', b'R', 3, 0x20, 0, 1, 0, 0, 0, 1];
               if l >= 11 { let at = l - c.max(11); p[at..at + 11].copy_from_slice(&fr); }
               // ... as an unknown type or as an ill-sized engine / target / control frame
               let t2 = *rng.pick(&[t, t, 0x43, 0x44, 0x45]);
               let bad_size = match t2 { 0x43 => l != 5, 0x44 => l != 25, 0x45 => l != 2, _ => true };
               if bad_size { return (t2, p); } }
        _ => { let n = 1 + rng.below(40); for _ in 0..n { p.push(rng.byte()); } }
    }
    (t, p)
}

pub fn any_frame(rng: &mut Rng) -> F {
    let mut f = match rng.below(12) {
        0 | 1 => session_frame(rng, None),
        2 | 3 => engine_frame(rng),
        4 | 5 | 6 => motion_frame(rng),
        7 => target_frame(rng),
        8 | 9 => control_frame(rng),
        _ => other_frame(rng),
    };
    if f.1.is_empty() { f.1.push(0); }
    if f.1.len() > 1024 { f.1.truncate(1024); }
    f
}

pub fn push_frame(c: &mut Vec<i64>, f: &F) {
    c.push(f.0 as i64); c.push(f.1.len() as i64);
    for b in &f.1 { c.push(*b as i64); }
}

pub fn frame_len(f: &F) -> usize { 10 + f.1.len() }

/// random cut sizes for a stream of `total` bytes
pub fn random_cuts(rng: &mut Rng, total: usize) -> Vec<i64> {
    let n = rng.below(5);
    let mut v = Vec::new();
    for _ in 0..n { v.push(match rng.below(4) { 0 => rng.below(12) as i64, 1 => 10, _ => rng.below(total as u64 + 1) as i64 }); }
    v
}

/// script case: [0, bystander, nframes, frames.., tail, ncuts, cuts.., nsigs, sigs.., endmode]
pub fn script_case(bystander: bool, frames: &[F], tail: Option<(&F, usize)>, cuts: &[i64], sigs: &[i64], endmode: i64) -> Vec<i64> {
    let mut c = vec![0, bystander as i64, frames.len() as i64];
    for f in frames { push_frame(&mut c, f); }
    match tail { None => c.push(0), Some((f, k)) => { c.push(1); push_frame(&mut c, f); c.push(k as i64); } }
    c.push(cuts.len() as i64); c.extend(cuts);
    c.push(sigs.len() as i64); c.extend(sigs);
    c.push(endmode);
    c
}

pub fn raw_case(bystander: bool, chunks: &[Vec<u8>], sigs: &[i64], endmode: i64) -> Vec<i64> {
    let mut c = vec![1, bystander as i64, chunks.len() as i64];
    for ch in chunks { c.push(ch.len() as i64); for b in ch { c.push(*b as i64); } }
    c.push(sigs.len() as i64); c.extend(sigs);
    c.push(endmode);
    c
}

pub fn frame_bytes(f: &F) -> Vec<u8> { let mut v = crate::session::header(f.0, f.1.len()); v.extend(&f.1); v }
