//! Shared int-list encodings (mirror coq/Model/IO.v).
use glonax::core::{Actuator, Motion, Object};
use glonax::core::{Control, Engine, EngineState};
use j1939::{Frame, FrameBuilder, Id};

pub fn enc_frames(out: &mut Vec<i64>, frames: &[Frame]) {
    out.push(frames.len() as i64);
    for f in frames {
        out.push(f.id().as_raw() as i64);
        out.push(f.pdu().len() as i64);
        for b in f.pdu() { out.push(*b as i64); }
    }
}

pub fn mk_frame(id: u32, data: &[u8]) -> Frame {
    FrameBuilder::new(Id::new(id)).copy_from_slice(data).build()
}

pub fn actuator_of(a: i64) -> Option<Actuator> { Actuator::try_from(a as u16).ok() }

/// decode a motion from the front of `c`; returns (motion, consumed)
pub fn dec_motion(c: &[i64]) -> Option<(Motion, usize)> {
    match c.first()? {
        0 => Some((Motion::StopAll, 1)),
        1 => Some((Motion::ResumeAll, 1)),
        2 => Some((Motion::ResetAll, 1)),
        5 => Some((Motion::StraightDrive(*c.get(1)? as i16), 2)),
        16 => {
            let n = *c.get(1)? as usize;
            let mut cs = Vec::new();
            for k in 0..n {
                let a = actuator_of(*c.get(2 + 2 * k)?)?;
                let v = *c.get(3 + 2 * k)? as i16;
                cs.push((a, v));
            }
            Some((Motion::from_iter(cs), 2 + 2 * n))
        }
        _ => None,
    }
}

pub fn enc_motion(out: &mut Vec<i64>, m: &Motion) {
    match m {
        Motion::StopAll => out.push(0),
        Motion::ResumeAll => out.push(1),
        Motion::ResetAll => out.push(2),
        Motion::StraightDrive(v) => { out.push(5); out.push(*v as i64); }
        Motion::Change(cs) => {
            out.push(16); out.push(cs.len() as i64);
            for c in cs { out.push(c.actuator as i64); out.push(c.value as i64); }
        }
    }
}

/// representative non-motion objects (mirror `other_object` in coq/Model/C01_io.v)
pub fn other_object(k: i64) -> Object {
    use nalgebra::Rotation3;
    match k {
        2 => Object::Engine(Engine { rpm: 1500, state: EngineState::Request, ..Default::default() }),
        3 => Object::Control(Control::HydraulicLock(true)),
        4 => Object::Target(glonax::core::Target::from_point(1.0, 2.0, 3.0)),
        5 => Object::Rotator(glonax::core::Rotator::relative(0x6A, Rotation3::identity())),
        _ => Object::ModuleStatus(glonax::core::ModuleStatus::healthy("x".to_string())),
    }
}
