//! C05: hostile byte streams. For each accepted message type: every single-byte substitution of a
//! valid encoding (boundary values), every truncation, declared lengths around the real one;
//! random garbage; always with a failsafe registration first in half of the cases and a bystander
//! session that must keep working.
use crate::{sessgen::*, util::*, Opts};
pub use crate::session::exec;

fn valid_frames() -> Vec<F> {
    let mut t = vec![0u8; 24]; t.extend([2u8]);
    vec![
        (0x10, { let mut p = vec![0x10u8]; p.extend(b"hostile"); p }),
        (0x43, vec![10, 20, 0x05, 0xdc, 0x10]),
        (0x20, vec![0x10, 2, 0, 0, 0x12, 0x34, 0, 5, 0xff, 0xfe]),
        (0x20, vec![5, 0x80, 0x00]),
        (0x44, t),
        (0x45, vec![0x06, 1]),
    ]
}

pub fn gen(o: &Opts, sink: &mut dyn FnMut(Vec<i64>, String)) {
    let mut k: u64 = 0;
    let arm = crate::sessgen::frame_bytes(&(0x10, vec![0x10, b'a']));
    let vals: Vec<u8> = if o.tier_thorough { (0..=255u8).collect() } else { vec![0, 1, 2, 3, 5, 6, 9, 0x10, 0x11, 0x20, 0x21, 0x7f, 0x80, 0xfe, 0xff] };
    for (fi, f) in valid_frames().iter().enumerate() {
        let bytes = frame_bytes(f);
        // every single-byte substitution at every offset (header and payload)
        for off in 0..bytes.len() {
            for v in &vals {
                k += 1;
                if !mine(o, k) { continue; }
                let mut b = bytes.clone(); b[off] = *v;
                let mut stream = if (off + fi) % 2 == 0 { arm.clone() } else { vec![] };
                stream.extend(b);
                stream.extend(stop_all_bytes());
                sink(raw_case(k % 4 == 0, &[stream], &[], (k % 3) as i64), String::new());
            }
        }
        // every truncation
        for cut in 0..bytes.len() {
            k += 1;
            if !mine(o, k) { continue; }
            let mut stream = arm.clone(); stream.extend(&bytes[..cut]);
            sink(raw_case(false, &[stream], &[], (cut % 3) as i64), String::new());
        }
        // declared length 0..64 and 1023..1025 with the payload that is really there
        for dl in (0..=64usize).chain(1023..=1025) {
            k += 1;
            if !mine(o, k) { continue; }
            let mut b = crate::session::header(f.0, dl); b.extend(&f.1);
            let mut stream = arm.clone(); stream.extend(b); stream.extend(stop_all_bytes());
            sink(raw_case(k % 5 == 0, &[stream], &[0], 0), String::new());
        }
    }
    // structured hostile frames (well-formed headers, hostile payloads) for every accepted type
    let n1 = if o.tier_thorough { 100_000 } else { 8_000 };
    for j in 0..n1 {
        k += 1;
        if !mine(o, k) { continue; }
        let mut rng = Rng::new(o.seed, 3_000_000 + j);
        let mut stream = if rng.chance(1, 2) { arm.clone() } else { vec![] };
        let nf = 1 + rng.below(5);
        for _ in 0..nf { stream.extend(frame_bytes(&any_frame(&mut rng))); }
        let cutoff = if rng.chance(1, 3) { rng.below(stream.len() as u64 + 1) as usize } else { stream.len() };
        stream.truncate(cutoff);
        // split into up to three chunks
        let a = rng.below(stream.len() as u64 + 1) as usize;
        let chunks = vec![stream[..a].to_vec(), stream[a..].to_vec()];
        let sigs = if rng.chance(1, 3) { vec![0] } else { vec![] };
        sink(raw_case(rng.chance(1, 6), &chunks, &sigs, rng.below(3) as i64), String::new());
    }
    // random garbage
    let n2 = if o.tier_thorough { 100_000 } else { 4_000 };
    for j in 0..n2 {
        k += 1;
        if !mine(o, k) { continue; }
        let mut rng = Rng::new(o.seed, 4_000_000 + j);
        let cap = if rng.chance(1, 20) { 3000 } else { 120 };
        let len = rng.below(cap) as usize;
        let mut stream = if rng.chance(1, 3) { arm.clone() } else { vec![] };
        for _ in 0..len {
            // bias towards bytes that look like the protocol
            stream.push(match rng.below(6) { 0 => *rng.pick(&[b'L', b'X', b'R', 3, 0, 0x10, 0x20, 0x43, 0x44, 0x45]), _ => rng.byte() });
        }
        sink(raw_case(rng.chance(1, 6), &[stream], &[], rng.below(3) as i64), String::new());
    }
}
