//! C02: frames emitted by the real HydraulicControlUnit for a motion command, through
//! `trigger` and (after storing it) through `tick`; both must agree.
use crate::{util::*, wire::*, Opts};
use glonax::core::Object;
use glonax::driver::HydraulicControlUnit;
use glonax::runtime::{J1939Unit, NetDriverContext};

/// case = [da, sa, motion...]
pub fn exec(c: &[i64]) -> Vec<i64> {
    if c[0] == 1000 { return crate::authrig::exec(&c[1..]); }
    let (da, sa) = (c[0] as u8, c[1] as u8);
    let Some((m, _)) = dec_motion(&c[2..]) else { return vec![-2] };
    let r = std::panic::catch_unwind(|| {
        let hcu = HydraulicControlUnit::new("vcan0", da, sa);
        let mut ctx = NetDriverContext::default();
        let mut tx = Vec::new();
        hcu.trigger(&mut ctx, &mut tx, &Object::Motion(m.clone())).unwrap();
        let mut tx2 = Vec::new();
        hcu.tick(&mut ctx, &mut tx2).unwrap();
        (tx, tx2)
    });
    match r {
        Ok((tx, tx2)) => {
            let mut a = Vec::new(); enc_frames(&mut a, &tx);
            let mut b = Vec::new(); enc_frames(&mut b, &tx2);
            if a != b { let mut o = vec![-3]; o.extend(a); o.extend(b); return o; } // trigger/tick disagree
            a
        }
        Err(_) => vec![-1],
    }
}

const ACT: [i64; 6] = [0, 1, 2, 3, 4, 5];

pub fn gen(o: &Opts, sink: &mut dyn FnMut(Vec<i64>, String)) {
    let mut k: u64 = 0;
    let mut put = |case: Vec<i64>, sink: &mut dyn FnMut(Vec<i64>, String)| { k += 1; if mine(o, k) { sink(case, String::new()); } };
    let pairs: [(i64, i64); 6] = [(0x4A, 0x27), (0, 0), (255, 255), (0x27, 0x4A), (0xEF, 0xF0), (0xF0, 0xEF)];
    // 1. every (da, sa) pair x 5 motion shapes  (327 680 cases)
    let step = if o.tier_thorough { 1 } else { 1 };
    for da in (0..256i64).step_by(step) {
        for sa in 0..256i64 {
            if !o.tier_thorough && (da * 256 + sa) % 4 != 0 && !pairs.contains(&(da, sa)) { continue; }
            put(vec![da, sa, 0], sink); put(vec![da, sa, 1], sink); put(vec![da, sa, 2], sink);
            put(vec![da, sa, 5, ((da * 257 + sa * 3) % 65536) - 32768], sink);
            put(vec![da, sa, 16, 2, da % 6, (da * 131 + sa) - 20000, sa % 6, -(sa * 97) - 1], sink);
        }
    }
    // 2. every actuator x every i16 value as a single change; every straight-drive value
    let (da, sa) = pairs[0];
    let vstep = if o.tier_thorough { 1 } else { 8 };
    for v in (-32768..32768i64).step_by(vstep) {
        for a in ACT { put(vec![da, sa, 16, 1, a, v], sink); }
        put(vec![da, sa, 5, v], sink);
    }
    for v in [-32768i64, -32767, -2, -1, 0, 1, 254, 255, 256, 32766, 32767, -256, -257] {
        for a in ACT { put(vec![da, sa, 16, 1, a, v], sink); }
        put(vec![da, sa, 5, v], sink);
    }
    // 3. every ordered subset of the six actuators (1957), distinct values
    fn rec(prefix: &mut Vec<i64>, used: u32, emit: &mut dyn FnMut(&Vec<i64>)) {
        emit(prefix);
        for a in 0..6 { if used & (1 << a) == 0 { prefix.push(a); rec(prefix, used | (1 << a), emit); prefix.pop(); } }
    }
    let mut subsets = Vec::new();
    rec(&mut Vec::new(), 0, &mut |p| subsets.push(p.clone()));
    for (i, s) in subsets.iter().enumerate() {
        let mut c = vec![da, sa, 16, s.len() as i64];
        for (j, a) in s.iter().enumerate() { c.push(*a); c.push(((i * 37 + j * 1009) as i64 % 65536) - 32768); }
        put(c, sink);
    }
    // 4. random change lists of length 0..32 with duplicates (last must win), random addresses
    let mut rng = Rng::new(o.seed, 2);
    let n = if o.tier_thorough { 200_000 } else { 20_000 };
    for _ in 0..n {
        let (da, sa) = if rng.chance(1, 2) { *rng.pick(&pairs) } else { (rng.below(256) as i64, rng.below(256) as i64) };
        let len = if rng.chance(1, 10) { 32 } else { rng.below(33) as i64 };
        let mut c = vec![da, sa, 16, len];
        for _ in 0..len {
            c.push(rng.below(6) as i64);
            let v = match rng.below(8) { 0 => -1, 1 => -32768, 2 => 32767, 3 => 0, _ => rng.range(-32768, 32767) };
            c.push(v);
        }
        put(c, sink);
    }
    // the same commands through the real NetworkAuthority (command and tick handles are clones of the
    // instance, as in the runtime), with and without a per-driver source address override
    let n = if o.tier_thorough { 3_000 } else { 300 };
    for j in 0..n {
        let mut rng = Rng::new(o.seed, 2_900_000 + j);
        let (da, sa): (i64, Option<i64>) = match rng.below(4) { 0 => (0x4A, Some(0x31)), 1 => (0x4A, Some(0x11)), 2 => (0x01, Some(0xFE)), _ => (0x4A, None) };
        let mut c = vec![1000]; c.extend(crate::c10::config(&[(1, da, sa, 0)]));
        c.push(5); c.push(2);
        for _ in 0..(2 + rng.below(6)) {
            c.push(3);
            match rng.below(5) {
                0 => c.push(0), 1 => c.push(1),
                2 => { c.push(5); c.push(rng.range(-32768, 32767)); }
                _ => { let len = 1 + rng.below(6) as i64; c.extend([16, len]); for _ in 0..len { c.push(rng.below(6) as i64); c.push(rng.range(-32768, 32767)); } }
            }
            if rng.chance(1, 2) { c.push(2); }
        }
        c.push(2);
        put(c, sink);
    }
}
