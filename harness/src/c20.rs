//! C20: identity and configuration fidelity through the real NetworkAuthority on the emulated bus.
use crate::{util::*, Opts};
pub use crate::authrig::exec;

fn request(to: i64, from: i64, pgn: u32, dlc: i64) -> Vec<i64> {
    let id = ((6u32 << 26) | (59904 << 8) | ((to as u32) << 8) | from as u32 | 0x8000_0000) as i64;
    vec![1, id, dlc, (pgn & 0xff) as i64, ((pgn >> 8) & 0xff) as i64, ((pgn >> 16) & 0xff) as i64, 0xff, 0xff, 0xff, 0xff, 0xff]
}

pub fn gen(o: &Opts, sink: &mut dyn FnMut(Vec<i64>, String)) {
    let mut k: u64 = 0;
    // the shipped example configuration: both networks load, start and answer
    for net in 0..2i64 {
        k += 1; if mine(o, k) {
            let mut c = vec![-20, net, 5];
            c.extend(request(0x27, 0xf9, 60928, 3)); c.push(2); c.extend(request(0x27, 0xf9, 65242, 3)); c.push(2);
            sink(c, String::new());
        }
    }
    // a configured kübler:encoder entry at each possible unit address (known finding outside 0x6A..0x6D)
    for da in [0x00i64, 0x20, 0x69, 0x6a, 0x6b, 0x6c, 0x6d, 0x6e, 0xff] { k += 1; if mine(o, k) { sink(vec![-21, da], String::new()); } }
    let n = if o.tier_thorough { 12_000 } else { 1_200 };
    for j in 0..n {
        k += 1; if !mine(o, k) { continue; }
        let mut rng = Rng::new(o.seed, 20_000_000 + j);
        // NAME fields: boundaries and random; vehicle_system differs from its instance in most cases
        // one value in five lies beyond the width of its NAME field (the configuration types are u16 / u8): only the field's bits reach the wire
        let f = |rng: &mut Rng, max: i64| -> i64 { let tmax = if max > 255 { 65535 } else { 255 }; match rng.below(5) { 0 => 0, 1 => max, 2 if max < tmax => { let r = rng.range(max + 1, tmax); *rng.pick(&[max + 1, tmax, r]) } _ => rng.range(0, max) } };
        let addr = if j < 256 { j as i64 } else { rng.below(256) as i64 };
        let mut c = vec![addr, f(&mut rng, 2047), f(&mut rng, 31), f(&mut rng, 7), f(&mut rng, 255), f(&mut rng, 127), f(&mut rng, 15), f(&mut rng, 7)];
        // driver list from known and unknown pairs, with and without sa / timeout
        let nd = rng.below(6) as usize;
        let mut ds: Vec<[i64; 5]> = Vec::new();
        let mut used: Vec<i64> = vec![];
        for _ in 0..nd {
            let key = *rng.pick(&[0i64, 0, 1, 2, 3, 4, 5, 6, 7]);
            // one entry in four shares its unit address with an earlier entry of ANOTHER (vendor, product) pair - known or
            // unknown: every known entry is driven all the same
            let share: Vec<i64> = ds.iter().filter(|d| d[0] != key && (key != 4 || (0x6a..=0x6d).contains(&d[1]))).map(|d| d[1]).collect();
            let da = if key != 0 && !share.is_empty() && rng.chance(1, 4) { *rng.pick(&share) } else {
                loop { let d = if key == 4 { 0x6a + rng.below(4) as i64 } else { rng.below(256) as i64 }; if !used.contains(&d) || key == 0 { break d; } if used.len() > 3 && key == 4 { break -1; } } };
            if da < 0 { continue; }
            used.push(da);
            let has_sa = rng.chance(1, 3) as i64;
            ds.push([key, da, has_sa, rng.below(256) as i64, *rng.pick(&[0i64, 1])]);
        }
        c.push(ds.len() as i64); for d in &ds { c.extend(d); }
        // events: start-up claim, first cycle (delayed setup), requests of every kind, another cycle
        c.push(5); c.push(2);
        let nreq = 1 + rng.below(5);
        for _ in 0..nreq {
            // to the daemon, to everybody, to a neighbour, to a unit it drives, to a source address one of its drivers uses
            let sas: Vec<i64> = ds.iter().filter(|d| d[2] != 0).map(|d| d[3]).collect();
            let das: Vec<i64> = ds.iter().map(|d| d[1]).collect();
            let to = match rng.below(7) { 0 => 0xff, 1 => (addr + 1) % 256,
                2 if !sas.is_empty() => *rng.pick(&sas), 3 if !das.is_empty() => *rng.pick(&das), _ => addr };
            let pgn = *rng.pick(&[60928u32, 65242, 65254, 65259, 0, 61444, 0x3ffff, 0xee00 + 0x10000]);
            let dlc = if rng.chance(1, 6) { rng.below(3) as i64 } else { *rng.pick(&[3i64, 8]) };
            c.extend(request(to, rng.below(256) as i64, pgn, dlc));
        }
        c.push(2);
        sink(c, String::new());
    }
}
