//! C07: real `Governor::next_state` on (idle, max, reported, requested, rpm, age).
use crate::{util::*, Opts};
use glonax::core::{Engine, EngineState};
use glonax::driver::Governor;
use std::time::{Duration, Instant};

const STATES: [u8; 4] = [0x00, 0x01, 0x02, 0x10];

/// case = [idle, max, reported state, requested state, requested rpm, age]
/// age 0: no instant; 1: young (now, 1 h timeout); 2: old (50 ms ago, 1 ms timeout)
pub fn exec(c: &[i64]) -> Vec<i64> {
    let (idle, max, rpm, age) = (c[0] as u16, c[1] as u16, c[4] as u16, c[5]);
    let (sig, cmd) = match (EngineState::try_from(c[2] as u8), EngineState::try_from(c[3] as u8)) {
        (Ok(a), Ok(b)) => (a, b),
        _ => return vec![-2],
    };
    let (timeout, inst) = match age {
        0 => (Duration::from_millis(2000), None),
        1 => (Duration::from_secs(3600), Some(Instant::now())),
        _ => (Duration::from_millis(1), Some(Instant::now() - Duration::from_millis(50))),
    };
    let r = std::panic::catch_unwind(|| {
        let g = Governor::new(idle, max, timeout);
        // the fields the decision must not depend on are set to arbitrary non-zero values
        let signal = Engine { state: sig, rpm: 1234, driver_demand: 7, actual_engine: 9 };
        let command = Engine { state: cmd, rpm, driver_demand: 11, actual_engine: 13 };
        g.next_state(&signal, &command, inst)
    });
    match r {
        Ok(e) => vec![e.state as u8 as i64, e.rpm as i64, e.driver_demand as i64, e.actual_engine as i64],
        Err(_) => vec![-1],
    }
}

pub fn gen(o: &Opts, sink: &mut dyn FnMut(Vec<i64>, String)) {
    // the shipped setting completely; the others completely in thorough, on a grid in quick;
    // the last setting (max < idle) is outside the property's domain: clamp asserts there.
    let settings: [(u16, u16); 5] = [(800, 2100), (0, 65535), (1000, 1000), (900, 2000), (2100, 800)];
    let mut k: u64 = 0;
    for (si, (idle, max)) in settings.iter().enumerate() {
        let full = si == 0 || o.tier_thorough;
        for sig in STATES {
            for cmd in STATES {
                for age in 0..3i64 {
                    k += 1;
                    if !mine(o, k) { continue; }
                    for rpm in 0..=65535i64 {
                        let near = |b: u16| (rpm - b as i64).abs() <= 2;
                        if full || rpm % 16 == 0 || near(*idle) || near(*max) || rpm >= 65533 {
                            sink(vec![*idle as i64, *max as i64, sig as i64, cmd as i64, rpm, age], String::new());
                        }
                    }
                }
            }
        }
    }
}
