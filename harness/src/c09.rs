//! C09: the real Director through Service::wait_io_sub on a current-thread runtime: publish a
//! signal, let the director run to quiescence, drain the command channel.
//! case events: 1 rpm | 2 src roll pitch yaw0flag (centi-degrees; yaw0flag 1 = yaw exactly 0) | 3 k
use crate::{util::*, Opts};
use glonax::core::{Control, Engine, EngineState, Motion, Object, Rotator};
use glonax::runtime::{NullConfig, Service};
use glonax::service::Director;
use nalgebra::Rotation3;
use tokio::sync::broadcast;

fn enc_cmd(o: &Object, out: &mut Vec<i64>) {
    match o {
        Object::Control(c) => { let b = glonax::protocol::Packetize::to_bytes(c); out.extend([4, b[0] as i64, b[1] as i64]); }
        Object::Motion(Motion::StopAll) => out.extend([3, 0]),
        Object::Motion(m) => { out.push(3); crate::wire::enc_motion(out, m); }
        Object::Engine(e) => out.extend([2, e.driver_demand as i64, e.actual_engine as i64, e.rpm as i64, e.state as u8 as i64]),
        _ => out.push(9),
    }
}

fn signal_of(c: &[i64], i: &mut usize) -> Option<Object> {
    match c[*i] {
        1 => { let rpm = c[*i + 1] as u16; *i += 2;
               // the state of the reading must not matter; vary it with the value
               let st = [EngineState::Request, EngineState::NoRequest, EngineState::Starting, EngineState::Stopping][(rpm % 4) as usize];
               Some(Object::Engine(Engine { driver_demand: (rpm % 100) as u8, actual_engine: 3, rpm, state: st })) }
        2 => { let (src, r, p, y0) = (c[*i + 1] as u8, c[*i + 2] as f32 / 100.0, c[*i + 3] as f32 / 100.0, c[*i + 4]); *i += 5;
               let yaw = if y0 != 0 { 0.0f32 } else { 0.4 };
               let rot = Rotation3::from_euler_angles(r.to_radians(), p.to_radians(), yaw);
               Some(Object::Rotator(if src % 2 == 0 { Rotator::absolute(src, rot) } else { Rotator::relative(src, rot) })) }
        3 => { let k = c[*i + 1]; *i += 2;
               Some(match k { 0 => Object::Motion(Motion::StopAll), 1 => Object::Motion(Motion::StraightDrive(100)),
                              2 => Object::Control(Control::HydraulicLock(false)), 3 => Object::Target(glonax::core::Target::from_point(300.0, 20.0, 100.0)),
                              // module status reports of the units whose readings the director judges - faulty and healthy: a status
                              // report is not a reading and changes no verdict
                              5 => Object::ModuleStatus(glonax::core::ModuleStatus::faulty("volvo:d7e:0x0:0x27".into(), glonax::core::ModuleError::CommunicationTimeout)),
                              6 => Object::ModuleStatus(glonax::core::ModuleStatus::faulty("k\u{fc}bler:inclinometer:0x7A:0x27".into(), glonax::core::ModuleError::CommunicationTimeout)),
                              7 => Object::ModuleStatus(glonax::core::ModuleStatus::faulty("k\u{fc}bler:encoder:0x6A:0x27".into(), glonax::core::ModuleError::GenericCommunicationError)),
                              8 => Object::ModuleStatus(glonax::core::ModuleStatus::faulty("j1939:ecm:0x0:0x27".into(), glonax::core::ModuleError::IOError)),
                              9 => Object::ModuleStatus(glonax::core::ModuleStatus::healthy("volvo:d7e:0x0:0x27".into())),
                              _ => Object::ModuleStatus(glonax::core::ModuleStatus::healthy("x:y:0x1:0x2".into())) }) }
        _ => None,
    }
}

pub fn exec(c: &[i64]) -> Vec<i64> {
    let cv = c.to_vec();
    let r = std::panic::catch_unwind(move || {
        let rt = tokio::runtime::Builder::new_current_thread().enable_all().build().unwrap();
        rt.block_on(async move {
            let (command_tx, mut command_rx) = broadcast::channel::<Object>(4096);
            // 501 g ...: as the runtime schedules it - capacity 16, wait_io_sub re-entered with a fresh subscription whenever it returns
            let looped = cv.first() == Some(&501);
            let (signal_tx, signal_rx) = broadcast::channel::<Object>(if looped { 16 } else { 64 });
            let mut director = Director::new(NullConfig);
            let task = if looped {
                tokio::spawn(async move { loop { director.wait_io_sub(command_tx.clone(), signal_rx.resubscribe()).await; tokio::task::yield_now().await; } })
            } else {
                tokio::spawn(async move { director.wait_io_sub(command_tx, signal_rx).await; })
            };
            for _ in 0..4 { tokio::task::yield_now().await; }
            let mut out: Vec<i64> = Vec::new(); let mut n = 0i64; let mut i = 0usize;
            // 500 g ...: the signals are published g at a time; the director only runs after each group
            let group = if cv.first() == Some(&500) || looped { i = 2; (cv[1].max(1) as usize).min(60) } else { 1 };
            let mut gi = 0usize;
            while i < cv.len() {
                // 501: the groups alternate in size 3, g, 3, g, ...
                let group = if looped { gi += 1; if gi % 2 == 1 { 3 } else { group } } else { group };
                for _ in 0..group {
                    if i >= cv.len() { break; }
                    let Some(sig) = signal_of(&cv, &mut i) else { return vec![-2] };
                    signal_tx.send(sig).unwrap();
                }
                for _ in 0..(8 + 4 * group) { tokio::task::yield_now().await; }
                let mut cmds: Vec<i64> = Vec::new(); let mut k = 0i64;
                while let Ok(o) = command_rx.try_recv() { enc_cmd(&o, &mut cmds); k += 1; }
                out.push(k); out.extend(cmds); n += 1;
            }
            drop(signal_tx);
            if looped { task.abort(); }
            let _ = task.await;
            let mut o = vec![n]; o.extend(out); o
        })
    });
    r.unwrap_or_else(|_| vec![-1])
}

/// angles in centi-degrees on a 0.5 degree grid over (-89, 89), never within 0.05 degree of a threshold
fn angle(rng: &mut Rng) -> i64 {
    let a = match rng.below(6) { 0 => 0, 1 => *rng.pick(&[3450i64, 3550, 4450, 4550, 5950, 6050, -4450, -4550, -3950, -4050, 8850, -8850]), _ => rng.range(-177, 177) * 50 };
    if [3500i64, 4500, 6000, -4500, -4000].contains(&a) { a + 50 } else { a }
}

/// a roll reading: one in four beyond the quarter turn (machine on its side / back), either direction
fn roll_angle(rng: &mut Rng) -> i64 {
    if rng.chance(1, 4) { let a = 9050 + rng.below(177) as i64 * 50; if rng.chance(2, 3) { a } else { -a } } else { angle(rng) }
}

pub fn gen(o: &Opts, sink: &mut dyn FnMut(Vec<i64>, String)) {
    let mut k: u64 = 0;
    macro_rules! put { ($c:expr) => {{ k += 1; if mine(o, k) { sink($c, String::new()); } }}; }
    // bursts: signals queue up on the director's channel (2, 3, 5, 16 at a time) - every queued reading still gets
    // its own decision: an overspeed / tilt reading followed by a normal one in the same burst is not swallowed
    {
        let mut rng = Rng::new(o.seed, 9_500);
        let nb = if o.tier_thorough { 20_000 } else { 2_000 };
        for j in 0..nb {
            let g = *rng.pick(&[2i64, 2, 3, 5, 16]);
            let mut c = vec![500, g];
            let len = 2 + rng.below(12);
            for _ in 0..len {
                match rng.below(7) {
                    0 | 1 => c.extend([1, *rng.pick(&[800i64, 1500, 2199, 2201, 2500, 3000, 0, 65535])]),
                    2 => c.extend([1, rng.below(4000) as i64]),
                    3 | 4 => { let (r, p) = if rng.chance(1, 2) { (roll_angle(&mut rng), 0) } else { (roll_angle(&mut rng), angle(&mut rng)) }; c.extend([2, *rng.pick(&[0x7ai64, 0x6a, 0x6b]), r, p, 1]); }
                    5 => c.extend([2, 0x7a, 0, 0, 1]),
                    _ => c.extend([3, rng.below(10) as i64]),
                }
            }
            let _ = j;
            put!(c);
        }
    }
    // the director scheduled as the runtime schedules it (prefix 501): groups of up to 16 are processed, larger groups make it
    // lag and re-enter - the verdicts elected before must survive that (an overspeed before the lag is still pending after it)
    {
        let mut rng = Rng::new(o.seed, 9_600);
        let nb = if o.tier_thorough { 10_000 } else { 1_000 };
        for _ in 0..nb {
            let g = *rng.pick(&[17i64, 18, 20, 16, 3]);
            let mut c = vec![501, g];
            let sig = |rng: &mut Rng, c: &mut Vec<i64>| match rng.below(6) {
                0 | 1 => c.extend([1, *rng.pick(&[800i64, 1500, 2201, 2500, 3000])]),
                2 => c.extend([1, rng.below(4000) as i64]),
                3 => { let a = roll_angle(rng); c.extend([2, 0x7a, a, 0, 1]); }
                4 => c.extend([2, *rng.pick(&[0x6ai64, 0x6b]), angle(rng), 0, 1]),
                _ => c.extend([3, rng.below(10) as i64]),
            };
            let groups = 2 + rng.below(4);
            for gi in 0..groups { for _ in 0..(if gi % 2 == 0 { 3 } else { g }) { sig(&mut rng, &mut c); } }
            for _ in 0..rng.below(4) { sig(&mut rng, &mut c); }
            put!(c);
        }
    }
    // every rpm value after each of 6 prior verdict states
    let priors: [Vec<i64>; 6] = [vec![], vec![1, 1000], vec![1, 2300], vec![2, 0x7a, 5000, 0, 1], vec![2, 0x7a, 1000, 0, 1], vec![2, 0x6b, 0, 7000, 1]];
    let step = if o.tier_thorough { 1 } else { 13 };
    for (pi, p) in priors.iter().enumerate() {
        for rpm in (0..=65535i64).step_by(step).chain([899, 900, 901, 2199, 2200, 2201, 65535]) {
            if !o.tier_thorough && pi > 0 && rpm % 3 != 0 && !(2190..2210).contains(&rpm) { continue; }
            put!({ let mut c = p.clone(); c.extend([1, rpm, 3, rpm % 10]); c });
        }
    }
    // rotation readings from every source x roll/pitch grid x yaw class, followed by another signal
    let mut rng = Rng::new(o.seed, 9);
    for src in [0x6ai64, 0x6b, 0x6c, 0x6d, 0x7a, 0x00, 0xff] {
        let g = if o.tier_thorough { 1 } else { 4 };
        // roll over the whole circle (a machine on its side or on its back still reads "more than 45 degrees"), pitch inside the quarter turn
        for r in (-357..=357i64).step_by(g) { for p in (-177..=177i64).step_by(if o.tier_thorough { 3 } else { 12 }) {
            let (mut rr, mut pp) = (r * 50, p * 50);
            for t in [3500i64, 4500, 6000, -4500, -4000] { if rr == t { rr += 50; } if pp == t { pp += 50; } }
            put!(vec![2, src, rr, pp, if (r + p) % 7 == 0 { 0 } else { 1 }, 3, rng.below(10) as i64]);
        } }
    }
    // all histories of length <= 3 over 12 classes; random histories up to length 100
    let class = |l: u64, rng: &mut Rng| -> Vec<i64> { match l {
        0 => vec![1, 500], 1 => vec![1, 1500], 2 => vec![1, 2201 + rng.below(3000) as i64],
        3 => vec![2, 0x7a, 4600 + rng.below(130) as i64 * 100, angle(rng).min(8800), 1], 4 => vec![2, 0x7a, angle(rng).min(4400), angle(rng).min(4400), 1],
        5 => vec![2, 0x7a, roll_angle(rng), 5000, 1], 6 => vec![2, 0x6b, 0, 7000, 1], 7 => vec![2, 0x6c, 0, angle(rng), 1],
        8 => vec![2, rng.below(256) as i64, 6000 + rng.below(20) as i64 * 100, 0, 1], 9 => vec![2, 0x7a, 6000, 6000, 0],
        10 => vec![3, rng.below(10) as i64], _ => vec![2, 0x6a, 0, 0, 1] } };
    let depth = 3;
    for d in 1..=depth { for h in 0..12u64.pow(d) {
        let mut c = Vec::new(); let mut x = h;
        for _ in 0..d { c.extend(class(x % 12, &mut rng)); x /= 12; }
        put!(c);
    } }
    let n = if o.tier_thorough { 20_000 } else { 2_000 };
    for _ in 0..n {
        let cap = if rng.chance(1, 10) { 97 } else { 20 };
        let len = 4 + rng.below(cap);
        let mut c = Vec::new();
        for _ in 0..len { let l = rng.below(12); c.extend(class(l, &mut rng)); }
        put!(c);
    }
}
