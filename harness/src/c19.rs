//! C19: the real maths helpers, motion profiles, ActuatorState, Actor::world_location and the
//! Actor byte round trip.  Floats cross the boundary as their bit patterns (every NaN as
//! 0x7FC00000).  The harness only calls the functions and reports what they returned; range,
//! congruence, monotonicity, tolerance and product checks are all done by the extracted model.
use crate::{util::*, Opts};
use glonax::core::Actuator;
use glonax::driver::ActuatorState;
use glonax::math::{law_of_cosines, lerp, linear_motion, shortest_rotation, Linear};
use glonax::world::{Actor, ActorBuilder, ActorSegment};
use nalgebra::{Matrix3, Rotation3, Vector3};

const NAN: i64 = 0x7FC0_0000;
fn fb(x: f32) -> i64 { if x.is_nan() { NAN } else { x.to_bits() as i64 } }
fn bf(b: i64) -> f32 { f32::from_bits(b as u32) }
/// -0.0 and +0.0 are the same observation where the sign of a zero depends on summation order
fn fbz(x: f32) -> i64 { if x == 0.0 { 0 } else { fb(x) } }

pub fn seg_name(id: i64) -> String {
    match id {
        0..=25 => format!("seg{}", (b'a' + id as u8) as char),
        26 => "root".to_string(),
        50 => String::new(),
        101..=140 => "\u{e9}".repeat((id - 100) as usize),
        // names are compared as they are: capitals and surrounding blanks are part of the name
        200..=225 => format!("Seg{}", (b'A' + (id - 200) as u8) as char),
        230..=255 => format!(" seg{} ", (b'a' + (id - 230) as u8) as char),
        _ => format!("n{}", id),
    }
}

fn actuator_of(k: i64) -> Actuator {
    match k { 0 => Actuator::Boom, 4 => Actuator::Arm, 5 => Actuator::Attachment, 1 => Actuator::Slew,
              3 => Actuator::LimpLeft, _ => Actuator::LimpRight }
}

fn build_float_actor(name: i64, segs: &[i64]) -> Actor {
    let mut b = ActorBuilder::new(seg_name(name));
    for s in segs.chunks(7) {
        let mut seg = ActorSegment::new(Vector3::new(bf(s[1]), bf(s[2]), bf(s[3])));
        seg.set_rotation(Rotation3::from_euler_angles(bf(s[4]), bf(s[5]), bf(s[6])));
        b = b.attach_segment(seg_name(s[0]), seg);
    }
    b.build()
}

pub fn exec(c: &[i64]) -> Vec<i64> {
    if c.is_empty() { return vec![-2]; }
    match c[0] {
        1 if c.len() == 2 => vec![fb(shortest_rotation(bf(c[1])))],
        2 | 12 if c.len() == 4 => {
            let r = law_of_cosines(bf(c[1]), bf(c[2]), bf(c[3]));
            vec![r.is_nan() as i64, fb(r)]
        }
        3 if c.len() >= 6 && c.len() == 6 + c[5] as usize => {
            let (lb, off, sc, inv) = (bf(c[1]), bf(c[2]), bf(c[3]), c[4] != 0);
            let mut o = Vec::new();
            for &d in &c[6..] {
                match std::panic::catch_unwind(|| linear_motion(bf(d), lb, off, sc, inv)) {
                    Ok(None) => o.push(0),
                    Ok(Some(v)) => { o.push(1); o.push(v as i64); }
                    Err(_) => o.push(-1),
                }
            }
            o
        }
        4 if c.len() >= 5 && c.len() == 5 + c[4] as usize => {
            let (kp, off, inv) = (bf(c[1]), bf(c[2]), c[3] != 0);
            let mut o = Vec::new();
            for &e in &c[5..] {
                match std::panic::catch_unwind(|| Linear::new(kp, off, inv).update(bf(e))) {
                    Ok(v) => o.push(fb(v)),
                    Err(_) => o.push(-1),
                }
            }
            o
        }
        5 if c.len() >= 6 && c.len() == 6 + 2 * c[5] as usize => {
            let (kp, off, inv) = (bf(c[1]), bf(c[2]), c[3] != 0);
            let steps: Vec<(bool, f32)> = c[6..].chunks(2).map(|p| (p[0] != 0, bf(p[1]))).collect();
            let act = actuator_of(c[4]);
            let mut o = Vec::new();
            let r = std::panic::catch_unwind(std::panic::AssertUnwindSafe(|| {
                let mut st = ActuatorState::bind(act, Linear::new(kp, off, inv));
                let mut o = Vec::new();
                for (some, e) in &steps {
                    match st.update(if *some { Some(*e) } else { None }) {
                        None => o.push(0),
                        Some(ev) => { o.push(1); o.push(ev.actuator as i64); o.push(fb(ev.error)); o.push(ev.value as i64); }
                    }
                }
                o
            }));
            match r { Ok(v) => o.extend(v), Err(_) => o.push(-1) }
            o
        }
        6 if c.len() == 4 => vec![fb(lerp(bf(c[1]), bf(c[2]), bf(c[3])))],
        7 if c.len() >= 3 && c.len() == 3 + 13 * c[2] as usize => {
            let mut b = ActorBuilder::new("m");
            for s in c[3..].chunks(13) {
                let mut seg = ActorSegment::new(Vector3::new(s[1] as f32, s[2] as f32, s[3] as f32));
                let m = Matrix3::new(s[4] as f32, s[5] as f32, s[6] as f32, s[7] as f32, s[8] as f32,
                                     s[9] as f32, s[10] as f32, s[11] as f32, s[12] as f32);
                seg.set_rotation(Rotation3::from_matrix_unchecked(m));
                b = b.attach_segment(seg_name(s[0]), seg);
            }
            let p = b.build().world_location(seg_name(c[1]));
            vec![fbz(p.x), fbz(p.y), fbz(p.z)]
        }
        8 if c.len() >= 3 && c.len() == 3 + 7 * c[2] as usize => {
            // the segment transforms as the implementation reports them, then the world location
            let mut o = Vec::new();
            for s in c[3..].chunks(7) {
                let mut seg = ActorSegment::new(Vector3::new(bf(s[1]), bf(s[2]), bf(s[3])));
                seg.set_rotation(Rotation3::from_euler_angles(bf(s[4]), bf(s[5]), bf(s[6])));
                let t = seg.transformation();
                for r in 0..4 { for k in 0..4 { o.push(fb(t[(r, k)])); } }
            }
            let p = build_float_actor(0, &c[3..]).world_location(seg_name(c[1]));
            o.extend([fb(p.x), fb(p.y), fb(p.z)]);
            o
        }
        9 if c.len() >= 3 && c.len() == 3 + 7 * c[2] as usize => {
            let actor = build_float_actor(c[1], &c[3..]);
            let bytes = actor.to_bytes();
            let mut o = vec![bytes.len() as i64];
            o.extend(bytes.iter().map(|b| *b as i64));
            match std::panic::catch_unwind(|| Actor::try_from(bytes.clone())) {
                Err(_) => o.push(-1),
                Ok(Err(_)) => o.push(0),
                Ok(Ok(back)) => {
                    o.push(1);
                    let nb = back.name().as_bytes();
                    o.push(nb.len() as i64);
                    o.extend(nb.iter().map(|b| *b as i64));
                    for s in c[3..].chunks(7) {
                        let nm = seg_name(s[0]);
                        match back.segment_location(&nm) {
                            None => o.push(0),
                            Some(l) => { o.push(1); o.extend([fb(l.x), fb(l.y), fb(l.z)]); }
                        }
                        let (w0, w1) = (actor.world_location(&nm), back.world_location(&nm));
                        o.extend([fb(w0.x), fb(w0.y), fb(w0.z), fb(w1.x), fb(w1.y), fb(w1.z)]);
                        // the segment alone: rotation matrix before and after its own round trip
                        let mut seg = ActorSegment::new(Vector3::new(bf(s[1]), bf(s[2]), bf(s[3])));
                        seg.set_rotation(Rotation3::from_euler_angles(bf(s[4]), bf(s[5]), bf(s[6])));
                        let seg2 = ActorSegment::try_from(&seg.to_bytes()[..]).unwrap();
                        let (r0, r1) = (seg.rotation(), seg2.rotation());
                        for r in 0..3 { for k in 0..3 { o.push(fb(r0[(r, k)])); } }
                        for r in 0..3 { for k in 0..3 { o.push(fb(r1[(r, k)])); } }
                    }
                }
            }
            o
        }
        _ => vec![-2],
    }
}

// ------------------------------------------------------------------ generation
const PI_B: u32 = 0x40490FDB;
fn ulps(x: f32, k: i32) -> f32 {
    // k representable steps away from x (through zero if need be)
    if x.is_nan() || x.is_infinite() { return x; }
    let b = x.to_bits();
    let ord: i64 = if b & 0x8000_0000 != 0 { -((b & 0x7FFF_FFFF) as i64) } else { b as i64 };
    let o2 = (ord + k as i64).clamp(-(0x7F7F_FFFF as i64), 0x7F7F_FFFF as i64);
    if o2 < 0 { f32::from_bits((-o2) as u32 | 0x8000_0000) } else { f32::from_bits(o2 as u32) }
}
const SPECIAL: [u32; 22] = [
    0, 0x8000_0000, 1, 0x8000_0001, 0x007F_FFFF, 0x0080_0000, 0x8080_0000, 0x3F80_0000, 0xBF80_0000,
    0x7F7F_FFFF, 0xFF7F_FFFF, 0x7F80_0000, 0xFF80_0000, 0x7FC0_0000, 0xFFC0_0000, 0x7F80_0001,
    0x4049_0FDB, 0xC049_0FDB, 0x40C9_0FDB, 0xC0C9_0FDB, 0x46FF_FE00, 0xC700_0000,
];
fn rand_f32(rng: &mut Rng) -> f32 {
    match rng.below(10) {
        0 => f32::from_bits(*rng.pick(&SPECIAL)),
        1 => f32::from_bits(rng.next() as u32),
        2 => ulps(f32::from_bits(*rng.pick(&SPECIAL)), rng.range(-3, 3) as i32),
        3 | 4 => (rng.range(-4_000_000, 4_000_000) as f32) / 1_000_000.0,
        5 => (rng.range(-100_000, 100_000) as f32) / 16.0,
        6 => (rng.range(-1000, 1000) as f32) * 1e-7,
        7 => f32::from_bits(PI_B) * (rng.range(-64, 192) as f32) / 32.0,
        _ => (rng.range(-70_000, 70_000) as f32) / 10_000.0,
    }
}
fn rand_angle(rng: &mut Rng) -> f32 {
    let pi = f32::from_bits(PI_B);
    match rng.below(8) {
        0 => ulps(pi * (rng.range(-8, 8) as f32) / 4.0, rng.range(-2, 2) as i32),
        1 => 0.0,
        2 => ulps(pi / 2.0, rng.range(-3, 3) as i32) * if rng.chance(1, 2) { -1.0 } else { 1.0 },
        _ => (rng.range(-3_141_592, 3_141_592) as f32) / 1_000_000.0,
    }
}
fn rand_coord(rng: &mut Rng) -> f32 {
    match rng.below(6) {
        0 => 0.0,
        1 => rng.range(-20, 20) as f32,
        2 => (rng.range(-1_000_000, 1_000_000) as f32) / 1000.0,
        _ => (rng.range(-10_000, 10_000) as f32) / 1000.0,
    }
}
/// the 24 rotations of the cube as signed permutation matrices (row-major), plus other small matrices
fn rand_imat(rng: &mut Rng) -> [i64; 9] {
    let perms = [[0usize, 1, 2], [0, 2, 1], [1, 0, 2], [1, 2, 0], [2, 0, 1], [2, 1, 0]];
    let mut m = [0i64; 9];
    match rng.below(10) {
        0 | 1 => { m[0] = 1; m[4] = 1; m[8] = 1; }                                  // identity
        9 => { for x in m.iter_mut() { *x = rng.range(-1, 1); } }                    // any small matrix
        _ => {
            let p = rng.pick(&perms);
            for r in 0..3 { m[r * 3 + p[r]] = if rng.chance(1, 2) { 1 } else { -1 }; }
        }
    }
    m
}
fn rand_name(rng: &mut Rng, n: usize) -> i64 {
    match rng.below(16) { 0 => 26, 1 => 50, 14 => 200 + rng.below((n + 2) as u64).min(25) as i64, 15 => 230 + rng.below((n + 2) as u64).min(25) as i64, 2 => 101 + rng.below(5) as i64, 3 => 128 + rng.below(13) as i64 /* 56..80 bytes */, _ => rng.below((n + 2) as u64) as i64 }
}

pub fn gen(o: &Opts, sink: &mut dyn FnMut(Vec<i64>, String)) {
    let mut k: u64 = 0;
    let mut put = |case: Vec<i64>, sink: &mut dyn FnMut(Vec<i64>, String)| { k += 1; if mine(o, k) { sink(case, String::new()); } };
    let t = o.tier_thorough;
    let pi = f32::from_bits(PI_B);
    let fbits = |x: f32| x.to_bits() as i64;

    // ---- 1. shortest_rotation: a stride through ALL bit patterns, the wrap points +-ulps, a dense grid
    let stride: u64 = if t { 1 << 9 } else { 1 << 14 };
    let mut b: u64 = (o.seed * 7919) % stride;
    while b < (1u64 << 32) { put(vec![1, b as i64], sink); b += stride; }
    for m in -16..=48 {
        let x = pi * (m as f32) / 8.0;
        for u in -4..=4 { put(vec![1, fbits(ulps(x, u))], sink); }
    }
    for s in SPECIAL { for u in -2..=2 { put(vec![1, fbits(ulps(f32::from_bits(s), u))], sink); } }
    let g = if t { 200_000 } else { 20_000 };
    for i in 0..=g { put(vec![1, fbits(-2.0 * pi + (8.0 * pi) * (i as f32) / (g as f32))], sink); }
    let mut rng = Rng::new(o.seed, 191);
    for _ in 0..(if t { 400_000 } else { 30_000 }) { put(vec![1, fbits(rand_f32(&mut rng))], sink); }

    // ---- 2. law_of_cosines
    let mut rng = Rng::new(o.seed, 192);
    for _ in 0..(if t { 600_000 } else { 60_000 }) {
        let side = |rng: &mut Rng| -> f32 {
            match rng.below(6) {
                0 => (rng.range(1, 100_000) as f32) / 1000.0,
                1 => (rng.range(1, 1000) as f32) / 100.0,
                2 => f32::from_bits(0x3000_0000 + rng.below(0x2000_0000) as u32),     // 2^-31 .. 2^33, log-uniform
                3 => *rng.pick(&[6.0f32, 2.97, 1.0, 0.5, 10.0, 3.0, 4.0, 5.0]),
                _ => (rng.range(100, 10_000) as f32) / 1000.0,
            }
        };
        let (a, b) = (side(&mut rng), side(&mut rng));
        let c = match rng.below(10) {
            0 => side(&mut rng),
            1 => ulps(a + b, rng.range(-3, 3) as i32),
            2 => ulps((a - b).abs(), rng.range(-3, 3) as i32),
            3 => (a * a + b * b).sqrt(),
            4 => a,
            5 => rand_f32(&mut rng),
            _ => { let lo = (a - b).abs(); lo + (a + b - lo) * (rng.range(0, 10_000) as f32) / 10_000.0 }
        };
        let (a, b) = if rng.chance(1, 40) { (rand_f32(&mut rng), b) } else if rng.chance(1, 40) { (a, rand_f32(&mut rng)) } else { (a, b) };
        put(vec![2, fbits(a), fbits(b), fbits(c)], sink);
    }
    // exactly degenerate and exactly representable triangles: small integer sides over a common power of two with
    // a + b = c or |a - b| = c (and their neighbours): every intermediate is exact, so the angle is PI or 0, never NaN
    let ne = if t { 60_000 } else { 6_000 };
    for _ in 0..ne {
        let (x, y) = (1 + rng.below(1000) as i32, 1 + rng.below(1000) as i32);
        let scale = (2.0f32).powi(rng.range(-8, 8) as i32);
        let z = match rng.below(4) { 0 => x + y, 1 => (x - y).abs().max(1), 2 => x + y - 1, _ => (x - y).abs() + 1 };
        let (a, b, c) = (x as f32 * scale, y as f32 * scale, z as f32 * scale);
        put(vec![2, fbits(a), fbits(b), fbits(c)], sink);
    }
    // near-degenerate real triangles, checked under the strict reading (kind 12, emitted last: known
    // finding K03) and the margin one (kind 2)
    let mut strict: Vec<Vec<i64>> = Vec::new();
    for _ in 0..(if t { 100_000 } else { 10_000 }) {
        let a = (rng.range(1000, 1_000_000) as f32) / 997.0;
        let b = (rng.range(1000, 1_000_000) as f32) / 1009.0;
        let c = if rng.chance(1, 2) { ulps(a + b, -(rng.range(0, 2) as i32)) } else { ulps((a - b).abs(), rng.range(0, 2) as i32) };
        put(vec![2, fbits(a), fbits(b), fbits(c)], sink);
        strict.push(vec![12, fbits(a), fbits(b), fbits(c)]);
    }

    // ---- 3/4/5. motion profiles
    let mut rng = Rng::new(o.seed, 193);
    let errs = |rng: &mut Rng, n: usize| -> Vec<i64> {
        let mut v = Vec::new();
        let scale = *rng.pick(&[1.0f32, 0.01, 4.0, 1e-4, 100.0, 1e30, 1e-38]);
        for _ in 0..n {
            let e = match rng.below(12) {
                0 => f32::from_bits(*rng.pick(&SPECIAL)),
                1 => rand_f32(rng),
                2 => ulps(0.0, rng.range(-3, 3) as i32),
                _ => scale * (rng.range(-4000, 4000) as f32) / 1000.0,
            };
            v.push(e.to_bits() as i64);
        }
        v
    };
    let gain = |rng: &mut Rng| -> f32 {
        match rng.below(8) {
            0 => 7_000.0, 1 | 2 => 15_000.0, 3 => 0.0, 4 => (rng.range(0, 100_000) as f32) / 3.0,
            5 => *rng.pick(&[1e30f32, 1e-30, 3.4e38, 1.0, 32767.0]), 6 => rand_f32(rng),
            _ => rng.range(1, 40_000) as f32,
        }
    };
    let offset = |rng: &mut Rng| -> f32 {
        match rng.below(10) {
            0 | 1 | 2 => 12_000.0, 3 => 0.0, 4 => 32_767.0, 5 => (rng.range(0, 32_767_000) as f32) / 1000.0,
            6 => *rng.pick(&[32_767.5f32, 32_768.0, 40_000.0, -1.0, -12_000.0, -40_000.0, 65_535.0]),
            7 => rand_f32(rng),
            _ => rng.range(0, 32_767) as f32,
        }
    };
    for _ in 0..(if t { 60_000 } else { 6_000 }) {
        let n = 1 + rng.below(24) as usize;
        let (kp, off, inv) = (gain(&mut rng), offset(&mut rng), rng.below(2) as i64);
        let lb = match rng.below(6) { 0 => 0.01f32, 1 => 0.05, 2 => 0.005, 3 => 0.0, 4 => rand_f32(&mut rng), _ => (rng.range(0, 2000) as f32) / 1000.0 };
        let mut c3 = vec![3, fbits(lb), fbits(off), fbits(kp), inv, n as i64]; c3.extend(errs(&mut rng, n)); put(c3, sink);
        let mut c4 = vec![4, fbits(kp), fbits(off), inv, n as i64]; c4.extend(errs(&mut rng, n)); put(c4, sink);
        let mut c5 = vec![5, fbits(kp), fbits(off), inv, rng.below(6) as i64, n as i64];
        for e in errs(&mut rng, n) { c5.push(if rng.chance(2, 3) { 1 } else { 0 }); c5.push(e); }
        put(c5, sink);
    }
    // the shipped profiles on a dense error grid (director.rs: 7000/15000 gain, 12000 offset)
    let dense = if t { 40_000 } else { 4_000 };
    for (kp, inv) in [(7_000.0f32, 0i64), (15_000.0, 0), (15_000.0, 1)] {
        let mut i = 0;
        while i < dense {
            let n = 40.min(dense - i);
            let es: Vec<i64> = (i..i + n).map(|j| fbits(-3.2 + 6.4 * (j as f32) / (dense as f32))).collect();
            let mut c4 = vec![4, fbits(kp), fbits(12_000.0), inv, n as i64]; c4.extend(es.iter()); put(c4, sink);
            let mut c3 = vec![3, fbits(0.01), fbits(12_000.0), fbits(kp), inv, n as i64]; c3.extend(es.iter()); put(c3, sink);
            let mut c5 = vec![5, fbits(kp), fbits(12_000.0), inv, 0, n as i64];
            for e in &es { c5.push(1); c5.push(*e); }
            put(c5, sink);
            i += n;
        }
    }
    // ---- 6. lerp
    for _ in 0..(if t { 100_000 } else { 10_000 }) {
        put(vec![6, fbits(rand_f32(&mut rng)), fbits(rand_f32(&mut rng)), fbits(rand_f32(&mut rng))], sink);
    }

    // ---- 7. exact integer chains;  8. float chains;  9. Actor round trip
    let mut rng = Rng::new(o.seed, 197);
    for _ in 0..(if t { 200_000 } else { 20_000 }) {
        let maxn = if rng.chance(1, 8) { 8 } else { 6 };
        let n = if rng.chance(1, 30) { 0 } else { 1 + rng.below(maxn) as usize };
        let mut c = vec![7, 0, n as i64];
        for _ in 0..n {
            c.push(rand_name(&mut rng, n));
            for _ in 0..3 { c.push(if rng.chance(1, 5) { 0 } else { rng.range(-50, 50) }); }
            c.extend(rand_imat(&mut rng));
        }
        c[1] = if n > 0 && rng.chance(3, 4) { c[3 + 13 * rng.below(n as u64) as usize] } else { rand_name(&mut rng, n) };
        put(c, sink);
    }
    for kind in [8i64, 9] {
        for _ in 0..(if t { 60_000 } else { 6_000 }) {
            let n = if rng.chance(1, 30) { 0 } else { 1 + rng.below(6) as usize };
            let mut c = vec![kind, 0, n as i64];
            for _ in 0..n {
                c.push(rand_name(&mut rng, n));
                for _ in 0..3 { c.push(fbits(rand_coord(&mut rng))); }
                for _ in 0..3 { c.push(fbits(if rng.chance(1, 3) { 0.0 } else { rand_angle(&mut rng) })); }
            }
            c[1] = if n > 0 && rng.chance(3, 4) { c[3 + 7 * rng.below(n as u64) as usize] } else { rand_name(&mut rng, n) };
            put(c, sink);
        }
    }
    for c in strict { put(c, sink); }
}
