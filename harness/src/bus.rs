//! Emulated CAN bus for the `verif` seam (glonax-runtime/src/can.rs `bind_verif`): a hub over
//! Unix datagram sockets. Every endpoint of an interface binds `<dir>/<iface>.<pid>.<n>.ep` and is
//! connected to `<dir>/<iface>.hub`. A helper thread owns the hub socket: it forwards each 16-byte
//! `can_frame` to every OTHER endpoint (Linux loopback semantics: a socket does not hear itself,
//! siblings do) and reports it; `pump()` synchronises with that thread (a 1-byte marker datagram
//! travels through the same FIFO queue) and returns the frames seen since the last call.
use std::os::unix::net::UnixDatagram;
use std::path::PathBuf;
use std::sync::mpsc;

use std::sync::atomic::{AtomicBool, Ordering};
use std::sync::Arc;

enum Msg { Frame(String, [u8; 16]), Sync }

pub struct Bus {
    pub dir: PathBuf,
    pub iface: String,
    ctl: UnixDatagram,
    inj: UnixDatagram,
    rx: mpsc::Receiver<Msg>,
    pub log: Vec<(String, [u8; 16])>,
    paused: Arc<AtomicBool>,
    forward: Arc<AtomicBool>,
    hub2: UnixDatagram,
    _dummy: UnixDatagram,
    dummy_path: PathBuf,
}

pub fn bus_dir() -> PathBuf {
    let d = std::env::temp_dir().join(format!("vbus-{}", std::process::id()));
    let _ = std::fs::create_dir_all(&d);
    std::env::set_var("GLONAX_VERIF_BUS", &d);
    d
}

fn endpoints_of(dir: &PathBuf, iface: &str) -> Vec<PathBuf> {
    let mut v = Vec::new();
    if let Ok(rd) = std::fs::read_dir(dir) {
        for e in rd.flatten() {
            let n = e.file_name().to_string_lossy().to_string();
            if n.starts_with(&format!("{}.", iface)) && n.ends_with(".ep") { v.push(e.path()); }
        }
    }
    v.sort();
    v
}

impl Bus {
    pub fn new(iface: &str) -> Bus {
        let dir = bus_dir();
        if let Ok(rd) = std::fs::read_dir(&dir) {
            for e in rd.flatten() {
                let n = e.file_name().to_string_lossy().to_string();
                if n.starts_with(&format!("{}.", iface)) { let _ = std::fs::remove_file(e.path()); }
            }
        }
        let hp = dir.join(format!("{}.hub", iface));
        let hub = UnixDatagram::bind(&hp).unwrap();
        let hub2 = hub.try_clone().unwrap();
        let dummy_path = dir.join(format!("{}.dummy", iface));
        let _ = std::fs::remove_file(&dummy_path);
        let _dummy = UnixDatagram::bind(&dummy_path).unwrap();
        let (tx, rx) = mpsc::channel();
        let (d2, i2) = (dir.clone(), iface.to_string());
        let paused = Arc::new(AtomicBool::new(false));
        let p2 = paused.clone();
        let forward = Arc::new(AtomicBool::new(true));
        let fw2 = forward.clone();
        std::thread::spawn(move || {
            let mut buf = [0u8; 64];
            loop {
                while p2.load(Ordering::SeqCst) { std::thread::sleep(std::time::Duration::from_millis(1)); }
                let Ok((n, addr)) = hub.recv_from(&mut buf) else { break };
                if n == 16 {
                    let mut raw = [0u8; 16];
                    raw.copy_from_slice(&buf[..16]);
                    let from = addr.as_pathname().map(|p| p.to_string_lossy().to_string()).unwrap_or_default();
                    if fw2.load(Ordering::SeqCst) {
                        for ep in endpoints_of(&d2, &i2) {
                            if ep.to_string_lossy() != from { let _ = hub.send_to(&raw, &ep); }
                        }
                    }
                    if tx.send(Msg::Frame(from, raw)).is_err() { break; }
                } else if n == 17 {
                    // injection request from the harness: a frame from "somewhere else on the bus",
                    // delivered (from the hub, the endpoints' connected peer) to every endpoint
                    let mut raw = [0u8; 16];
                    raw.copy_from_slice(&buf[1..17]);
                    for ep in endpoints_of(&d2, &i2) { let _ = hub.send_to(&raw, &ep); }
                } else if n == 1 {
                    if tx.send(Msg::Sync).is_err() { break; }
                } else if n == 2 {
                    break;
                }
            }
        });
        let ctl = UnixDatagram::unbound().unwrap();
        ctl.connect(&hp).unwrap();
        let inj = UnixDatagram::unbound().unwrap();
        Bus { dir, iface: iface.to_string(), ctl, inj, rx, log: Vec::new(), paused, forward, hub2, _dummy, dummy_path }
    }

    pub fn endpoints(&self) -> Vec<PathBuf> { endpoints_of(&self.dir, &self.iface) }

    /// frames put on the bus since the last call (all of them have been forwarded to the siblings)
    pub fn pump(&mut self) -> Vec<[u8; 16]> {
        let mut out = Vec::new();
        if self.ctl.send(&[0u8]).is_err() { return out; }
        while let Ok(m) = self.rx.recv_timeout(std::time::Duration::from_secs(5)) {
            match m {
                Msg::Sync => break,
                Msg::Frame(from, raw) => { self.log.push((from, raw)); out.push(raw); }
            }
        }
        out
    }

    /// a congested bus: the hub stops reading and its receive queue is filled, so senders block
    pub fn congest(&self) {
        self.paused.store(true, Ordering::SeqCst);
        std::thread::sleep(std::time::Duration::from_millis(5));
        let _ = self.ctl.set_nonblocking(true);
        for _ in 0..64 { if self.ctl.send(&[9u8, 9, 9]).is_err() { break; } }
        let _ = self.ctl.set_nonblocking(false);
    }
    pub fn release(&self) { self.paused.store(false, Ordering::SeqCst); }

    /// ONE receive error (ECONNRESET) on the first socket an endpoint process opened on this interface (the receive
    /// socket of a NetworkAuthority; its clones bind later): a datagram socket that dissolves its association while
    /// data is pending in its own queue resets its peer - the emulated counterpart of ENETDOWN on SocketCAN
    pub fn rx_error_on_first_endpoint(&self) -> bool {
        let mut eps: Vec<(u64, PathBuf)> = self.endpoints().into_iter().filter_map(|p| {
            let n = p.file_name()?.to_string_lossy().to_string();
            let parts: Vec<&str> = n.split('.').collect();
            let k: u64 = parts.get(parts.len().checked_sub(2)?)?.parse().ok()?;
            Some((k, p)) }).collect();
        eps.sort();
        let Some((_, ep)) = eps.first().cloned() else { return false };
        self.congest();                       // the hub stops reading; junk stays pending in its queue
        let ok = self.hub2.connect(&ep).is_ok();
        let mut unspec: libc::sockaddr = unsafe { std::mem::zeroed() };
        unspec.sa_family = libc::AF_UNSPEC as libc::sa_family_t;
        use std::os::fd::AsRawFd;
        let rc = unsafe { libc::connect(self.hub2.as_raw_fd(), &unspec, std::mem::size_of::<libc::sockaddr>() as libc::socklen_t) };
        self.release();
        ok && rc == 0
    }
    /// the flag `release` clears, for a helper thread that ends a stall after a delay
    pub fn pause_flag(&self) -> Arc<AtomicBool> { self.paused.clone() }

    /// whether frames are looped back to the sibling sockets of the same interface (SocketCAN does);
    /// the step-by-step authority rig switches it off so that the receive handle only ever sees
    /// the frames the script injects
    pub fn set_forward(&self, on: bool) { self.forward.store(on, Ordering::SeqCst); }

    /// every write to the bus fails (EPERM) until `unfail_sends`: the hub socket is connect()ed to a
    /// dummy peer, so datagrams from every other socket are refused — what a downed interface or a
    /// full transmit queue (ENOBUFS) looks like to `CANSocket::send`
    pub fn fail_sends(&self) { let _ = self.hub2.connect(&self.dummy_path); }
    pub fn unfail_sends(&self) {
        use std::os::fd::AsRawFd;
        let mut addr: libc::sockaddr = unsafe { std::mem::zeroed() };
        addr.sa_family = libc::AF_UNSPEC as libc::sa_family_t;
        unsafe { libc::connect(self.hub2.as_raw_fd(), &addr, std::mem::size_of::<libc::sockaddr>() as libc::socklen_t); }
    }

    /// a frame from "somewhere else on the bus": delivered to every endpoint
    pub fn inject(&self, raw: &[u8; 16]) {
        let mut m = [1u8; 17];
        m[1..].copy_from_slice(raw);
        let _ = self.ctl.send(&m);
        let _ = &self.inj;
    }
}

impl Drop for Bus {
    fn drop(&mut self) { let _ = self.ctl.send(&[0u8, 0u8]); }
}

pub fn raw_frame(can_id: u32, dlc: u8, data: &[u8]) -> [u8; 16] {
    let mut r = [0u8; 16];
    r[..4].copy_from_slice(&can_id.to_le_bytes());
    r[4] = dlc;
    for (i, b) in data.iter().take(8).enumerate() { r[8 + i] = *b; }
    r
}

pub fn j_name() -> j1939::Name { j1939::NameBuilder::default().identity_number(1).build() }
