//! Emulated CAN bus for the `verif` seam (glonax-runtime/src/can.rs `bind_verif`): a hub over
//! Unix datagram sockets. Every endpoint of an interface binds `<dir>/<iface>.<pid>.<n>.ep` and is
//! connected to `<dir>/<iface>.hub`. The hub forwards each 16-byte `can_frame` to every OTHER
//! endpoint (Linux loopback semantics: a socket does not hear itself, siblings do), records it,
//! and can inject arbitrary raw frames.
use std::os::unix::net::UnixDatagram;
use std::path::PathBuf;

pub struct Bus { pub dir: PathBuf, pub iface: String, hub: UnixDatagram, pub log: Vec<(String, [u8; 16])> }

pub fn bus_dir() -> PathBuf {
    let d = std::env::temp_dir().join(format!("vbus-{}", std::process::id()));
    let _ = std::fs::create_dir_all(&d);
    std::env::set_var("GLONAX_VERIF_BUS", &d);
    d
}

impl Bus {
    pub fn new(iface: &str) -> Bus {
        let dir = bus_dir();
        // forget endpoints of earlier cases
        if let Ok(rd) = std::fs::read_dir(&dir) {
            for e in rd.flatten() {
                let n = e.file_name().to_string_lossy().to_string();
                if n.starts_with(&format!("{}.", iface)) { let _ = std::fs::remove_file(e.path()); }
            }
        }
        let hp = dir.join(format!("{}.hub", iface));
        let _ = std::fs::remove_file(&hp);
        let hub = UnixDatagram::bind(&hp).unwrap();
        hub.set_nonblocking(true).unwrap();
        Bus { dir, iface: iface.to_string(), hub, log: Vec::new() }
    }
    pub fn endpoints(&self) -> Vec<PathBuf> {
        let mut v = Vec::new();
        if let Ok(rd) = std::fs::read_dir(&self.dir) {
            for e in rd.flatten() {
                let n = e.file_name().to_string_lossy().to_string();
                if n.starts_with(&format!("{}.", self.iface)) && n.ends_with(".ep") { v.push(e.path()); }
            }
        }
        v.sort(); v
    }
    /// move every pending frame: record it and forward it to all other endpoints; returns them
    pub fn pump(&mut self) -> Vec<[u8; 16]> {
        let mut out = Vec::new();
        let mut buf = [0u8; 64];
        loop {
            match self.hub.recv_from(&mut buf) {
                Ok((n, addr)) => {
                    if n != 16 { continue; }
                    let mut raw = [0u8; 16]; raw.copy_from_slice(&buf[..16]);
                    let from = addr.as_pathname().map(|p| p.to_string_lossy().to_string()).unwrap_or_default();
                    for ep in self.endpoints() {
                        if ep.to_string_lossy() != from { let _ = self.hub.send_to(&raw, &ep); }
                    }
                    self.log.push((from, raw)); out.push(raw);
                }
                Err(_) => break,
            }
        }
        out
    }
    /// a frame from "somewhere else on the bus": delivered to every endpoint
    pub fn inject(&self, raw: &[u8; 16]) { for ep in self.endpoints() { let _ = self.hub.send_to(raw, &ep); } }
}

pub fn raw_frame(can_id: u32, dlc: u8, data: &[u8]) -> [u8; 16] {
    let mut r = [0u8; 16];
    r[..4].copy_from_slice(&can_id.to_le_bytes()); r[4] = dlc;
    for (i, b) in data.iter().take(8).enumerate() { r[8 + i] = *b; }
    r
}

pub fn j_name() -> j1939::Name { j1939::NameBuilder::default().identity_number(1).build() }
