//! C01: the real HydraulicControlUnit stepped through histories of commands, ticks and
//! received frames; observation = frames emitted by each event.
use crate::{util::*, wire::*, Opts};
use glonax::core::Object;
use glonax::driver::HydraulicControlUnit;
use glonax::runtime::{J1939Unit, NetDriverContext};

use crate::hook::{arm_hook, disarm_hook};

pub fn exec(c: &[i64]) -> Vec<i64> {
    if c[0] == 1000 { return crate::authrig::exec(&c[1..]); }
    if c[0] == 3000 { return crate::c01r::exec(&c[1..]); }
    let (da, sa) = (c[0] as u8, c[1] as u8);
    let evs = c[2..].to_vec();
    let r = std::panic::catch_unwind(move || {
        let hcu = HydraulicControlUnit::new("vcan0", da, sa);
        let mut ctx = NetDriverContext::default();
        let mut out: Vec<i64> = Vec::new();
        let mut n = 0i64;
        let mut i = 0usize;
        while i < evs.len() {
            let mut tx = Vec::new();
            match evs[i] {
                0 => { let _ = hcu.tick(&mut ctx, &mut tx); i += 1; }
                1 => {
                    let Some((m, used)) = dec_motion(&evs[i + 1..]) else { return vec![-2] };
                    let _ = hcu.trigger(&mut ctx, &mut tx, &Object::Motion(m));
                    i += 1 + used;
                }
                4 => {
                    // the command task's trigger while another task is inside the shared context (holds its
                    // lock for 30 ms): the store must wait for the lock, not be skipped
                    let Some((m, used)) = dec_motion(&evs[i + 1..]) else { return vec![-2] };
                    let other = ctx.clone();
                    let (tx_ready, rx_ready) = std::sync::mpsc::channel::<()>();
                    let h = std::thread::spawn(move || { let g = other.inner(); let _ = tx_ready.send(()); std::thread::sleep(std::time::Duration::from_millis(30)); drop(g); });
                    let _ = rx_ready.recv();
                    let _ = hcu.trigger(&mut ctx, &mut tx, &Object::Motion(m));
                    let _ = h.join();
                    i += 1 + used;
                }
                5 => {
                    // the command arrives while tick is between reading the context and emitting its frames
                    let Some((m, used)) = dec_motion(&evs[i + 1..]) else { return vec![-2] };
                    let shared = ctx.clone();
                    arm_hook("hydraulic", Box::new(move || {
                        let unit = HydraulicControlUnit::new("vcan0", da, sa);
                        let mut c2 = shared; let mut tx2 = Vec::new();
                        let _ = unit.trigger(&mut c2, &mut tx2, &Object::Motion(m));
                        tx2
                    }));
                    let _ = hcu.tick(&mut ctx, &mut tx);
                    let (done, pending) = disarm_hook();
                    // a tick that logs nothing gives the hook no chance: the command then simply follows the tick
                    let tx2 = match (done, pending) { (Some(t), _) => t, (None, Some(f)) => f(), _ => Vec::new() };
                    n += 1; enc_frames(&mut out, &tx);
                    tx = tx2;
                    i += 1 + used;
                }
                2 => { let _ = hcu.trigger(&mut ctx, &mut tx, &other_object(evs[i + 1])); i += 2; }
                3 => {
                    if i + 10 > evs.len() { return vec![-2]; }
                    let data: Vec<u8> = evs[i + 2..i + 10].iter().map(|b| *b as u8).collect();
                    let f = mk_frame(evs[i + 1] as u32, &data);
                    let mut rx = Vec::new();
                    let _ = hcu.try_recv(&mut ctx, &f, &mut rx);
                    i += 10;
                }
                _ => return vec![-2],
            }
            n += 1;
            enc_frames(&mut out, &tx);
        }
        let mut o = vec![n]; o.extend(out); o
    });
    r.unwrap_or_else(|_| vec![-1])
}

fn id(prio: u32, pgn: u32, ps: u32, sa: u32) -> i64 {
    // PDU1 when PF < 240: PS is the destination; PDU2: pgn already contains PS
    if (pgn >> 8) & 0xff < 240 { ((prio << 26) | (pgn << 8) | (ps << 8) | sa) as i64 } else { ((prio << 26) | (pgn << 8) | sa) as i64 }
}

/// one letter of the 14-letter alphabet, with values drawn from `rng`
fn letter(l: u64, da: i64, sa: i64, rng: &mut Rng, out: &mut Vec<i64>) {
    let v = |rng: &mut Rng| match rng.below(6) { 0 => -1i64, 1 => 32767, 2 => -32768, 3 => 0, _ => rng.range(-32768, 32767) };
    match l {
        0 => out.push(0),
        1 => out.extend([1, 0]), 2 => out.extend([1, 1]), 3 => out.extend([1, 2]),
        4 => { let x = v(rng); out.extend([1, 5, x]); }
        5 => {
            let n = rng.below(5) as i64; out.extend([1, 16, n]);
            for _ in 0..n { out.push(rng.below(6) as i64); let x = v(rng); out.push(x); }
        }
        6 => out.extend([2, 2]), 7 => out.extend([2, 3]), 8 => out.extend([2, 4]), 9 => out.extend([2, 6]),
        10 => { // status frame from the unit: locked / unlocked, state byte nominal
            let locked = rng.below(2) as i64;
            out.extend([3, id(6, 65288, 0, da as u32), 0x14, 0xff, locked, 0xff, 1, 2, 3, 4]);
        }
        11 => { // address claimed / software id from the unit
            if rng.chance(1, 2) { out.extend([3, id(6, 60928, 0xff, da as u32), 1, 2, 3, 4, 5, 6, 7, 8]); }
            else { out.extend([3, id(6, 65242, 0, da as u32), 1, 3, 2, 1, 42, 0xff, 0xff, 0xff]); }
        }
        12 => { // motion-config / actuator frame addressed to the unit from the daemon itself or a stranger
            let pgn = *rng.pick(&[45824u32, 40960, 41216, 45312]);
            let src = if rng.chance(1, 2) { sa as u32 } else { rng.below(256) as u32 };
            out.push(3); out.push(id(3, pgn, da as u32, src));
            out.extend([90, 67, 255, rng.below(2) as i64, 255, 255, 255, 255]);
        }
        _ => { // foreign traffic
            out.push(3); out.push((rng.next() & 0x1fffffff) as i64);
            for _ in 0..8 { out.push(rng.byte() as i64); }
        }
    }
}

pub fn gen(o: &Opts, sink: &mut dyn FnMut(Vec<i64>, String)) {
    let cfgs: [(i64, i64); 3] = [(0x4A, 0x27), (0x01, 0xFE), (0xEE, 0x00)];
    let mut k: u64 = 0;
    // all histories up to depth D over the 14-letter alphabet
    let depth = if o.tier_thorough { 4 } else { 3 };
    for d in 1..=depth {
        let total = 14u64.pow(d);
        for h in 0..total {
            k += 1;
            if !mine(o, k) { continue; }
            let (da, sa) = cfgs[(h % 3) as usize];
            let mut rng = Rng::new(o.seed, 1000 + k);
            let mut c = vec![da, sa];
            let mut x = h;
            for _ in 0..d { letter(x % 14, da, sa, &mut rng, &mut c); x /= 14; }
            sink(c, String::new());
        }
    }
    // random longer histories
    let n = if o.tier_thorough { 50_000 } else { 3_000 };
    for j in 0..n {
        k += 1;
        if !mine(o, k) { continue; }
        let mut rng = Rng::new(o.seed, 5_000_000 + j);
        let (da, sa) = if rng.chance(2, 3) { *rng.pick(&cfgs) } else { (rng.below(256) as i64, rng.below(256) as i64) };
        let cap = if rng.chance(1, 10) { 200 } else { 40 };
        let len = 5 + rng.below(cap);
        let mut c = vec![da, sa];
        for _ in 0..len {
            // ticks and motions are frequent
            let l = match rng.below(10) { 0 | 1 | 2 => 0, 3 | 4 => 1 + rng.below(5), _ => rng.below(14) };
            letter(l, da, sa, &mut rng, &mut c);
        }
        sink(c, String::new());
    }
    // commands accepted under lock contention (another task inside the shared context), then cycles
    for j in 0..(if o.tier_thorough { 200u64 } else { 24 }) {
        k += 1;
        if !mine(o, k) { continue; }
        let mut rng = Rng::new(o.seed, 8_000_000 + j);
        let (da, sa) = cfgs[(j % 3) as usize];
        let mut c = vec![da, sa];
        let mut m = Vec::new();
        letter(4 + rng.below(2), da, sa, &mut rng, &mut m); c.extend(&m); c.push(0);        // a drive command, a cycle
        m.clear(); letter(1 + rng.below(5), da, sa, &mut rng, &mut m); c.push(4); c.extend(&m[1..]);   // contended accept
        c.push(0); c.push(0);
        if rng.chance(1, 2) { c.push(4); c.push(0); c.push(0); }                                  // contended stop-all
        sink(c, String::new());
    }
    // commands accepted in the MIDDLE of a cycle (between the cycle's read of the shared context and its emission):
    // the accepted command is what the following cycles assert, whatever the cycle in flight was sending
    for j in 0..(if o.tier_thorough { 3_000u64 } else { 300 }) {
        k += 1;
        if !mine(o, k) { continue; }
        let mut rng = Rng::new(o.seed, 8_500_000 + j);
        let (da, sa) = cfgs[(j % 3) as usize];
        let mut c = vec![da, sa];
        let mut m = Vec::new();
        for _ in 0..(1 + rng.below(6)) {
            match rng.below(4) {
                0 => c.push(0),
                1 => { m.clear(); letter(1 + rng.below(5), da, sa, &mut rng, &mut m); c.extend(&m); }
                _ => { m.clear(); letter(1 + rng.below(5), da, sa, &mut rng, &mut m); c.push(5); c.extend(&m[1..]); }
            }
        }
        c.push(5); c.push(0);          // a stop-all arriving mid-cycle
        c.push(0); c.push(0);
        sink(c, String::new());
    }
    // the same property through the real NetworkAuthority on the emulated bus (command, tick and
    // receive paths sharing the driver context), incl. commands whose socket write FAILS
    let n = if o.tier_thorough { 6_000 } else { 600 };
    for j in 0..n {
        k += 1;
        if !mine(o, k) { continue; }
        let mut rng = Rng::new(o.seed, 9_000_000 + j);
        let (da, sa): (i64, Option<i64>) = match rng.below(4) { 0 => (0x4A, Some(0x31)), 1 => (0x01, None), _ => (0x4A, None) };
        // one script in twelve: the unit has a 150 ms receive timeout and falls silent for 250 ms
        // somewhere in the history (commands accepted while the unit is considered offline)
        let timed = j % 12 == 5;
        let mut c = vec![1000]; c.extend(crate::c10::config(&[(1, da, sa, if timed { 3 } else { 0 })]));
        if rng.chance(3, 4) { c.push(5); }
        c.push(2);
        let len = 3 + rng.below(14);
        let silent_at = rng.below(len);
        for step in 0..len {
            if timed && step == silent_at { c.extend([4, 250]); }
            let mut m = Vec::new();
            match rng.below(12) {
                0 | 1 | 2 => c.push(2),
                3 | 4 => { letter(1 + rng.below(5), da, sa.unwrap_or(0x27), &mut rng, &mut m); c.push(3); c.extend(&m[1..]); }
                5 | 6 | 7 => { // accepted, but nothing leaves the socket
                    let l = if rng.chance(1, 2) { 1 } else { 1 + rng.below(5) };
                    letter(l, da, sa.unwrap_or(0x27), &mut rng, &mut m); c.push(8); c.extend(&m[1..]); }
                8 => { c.push(7); c.push(*rng.pick(&[2i64, 3, 4, 6])); }
                9 => { letter(10 + rng.below(2), da, sa.unwrap_or(0x27), &mut rng, &mut m);
                       c.push(1); c.push(m[1]); c.push(8); c.extend(&m[2..]); }
                _ => c.push(2),
            }
        }
        c.push(2);
        sink(c, String::new());
    }
    // the same property through the real Runtime::schedule_net_service (the three tasks as glonaxd schedules them),
    // commands published on the runtime command channel: single commands, bursts below and far above the
    // queue capacity (any object kinds) with the last motion command among the newest ones - in particular a
    // final stop-all -, then control cycles. An overrun only skips the oldest; the command task goes on.
    let n = if o.tier_thorough { 1_500 } else { 150 };
    for j in 0..n {
        k += 1;
        if !mine(o, k) { continue; }
        let mut rng = Rng::new(o.seed, 9_500_000 + j);
        let (da, sa): (i64, Option<i64>) = match rng.below(4) { 0 => (0x4A, Some(0x31)), 1 => (0x01, None), _ => (0x4A, None) };
        let mut c = vec![3000]; c.extend(crate::c10::config(&[(1, da, sa, 1)]));
        let mut m = Vec::new();
        let rounds = 1 + rng.below(4);
        for r in 0..rounds {
            // a drive command is in force
            letter(4 + rng.below(2), da, sa.unwrap_or(0x27), &mut rng, &mut m); c.extend(&m); m.clear();
            c.push(3); for _ in 0..rng.below(3) { c.push(0); }
            // the burst
            let burst = match (j + r) % 6 { 0 => rng.below(4), 1 => 14 + rng.below(4), 2 => 17 + rng.below(20), 3 => 100 + rng.below(200), 4 => 16, _ => rng.below(40) } as usize;
            let tail = rng.below(15) as usize;        // non-motion objects after the last motion command: it stays among the newest 16
            for _ in 0..burst {
                if rng.chance(1, 2) { c.push(7); c.push(*rng.pick(&[2i64, 3, 4, 6])); }
                else { letter(1 + rng.below(5), da, sa.unwrap_or(0x27), &mut rng, &mut m); c.extend(&m); m.clear(); }
            }
            if rng.chance(3, 4) { c.extend([1, 0]); } else { letter(1 + rng.below(5), da, sa.unwrap_or(0x27), &mut rng, &mut m); c.extend(&m); m.clear(); }
            for _ in 0..tail { c.push(7); c.push(*rng.pick(&[2i64, 3, 4, 6])); }
            c.push(3); c.push(0); c.push(0);
            if rng.chance(1, 3) { c.push(0); }
        }
        sink(c, String::new());
    }
}
