//! C01 at the runtime level: the real `Runtime::schedule_net_service::<NetworkAuthority, NetworkConfig>`
//! (setup/receive task, cycle task and command task, as glonaxd schedules them) over the emulated bus,
//! commands published on the runtime's command channel by a producer `Service`. Current-thread runtime
//! with paused time: tasks only run when the harness yields and a cycle only happens when the harness
//! advances the clock by the cycle period, so every history is exact.
//! case = [<authority header>, events...]: 1 <motion> (publish) | 7 k (publish a non-motion object)
//!        | 3 (run until blocked) | 0 (run until blocked, then one control cycle)
//! obs  = [nsteps, frames of the start-up step, frames per 3/0 event]
use crate::{bus::*, wire::*};
use glonax::core::Object;
use glonax::runtime::{CommandSender, NullConfig, Service, SignalReceiver};
use glonax::service::{NetworkAuthority, NetworkConfig};
use glonax::Runtime;
use std::sync::atomic::{AtomicUsize, Ordering};
use std::sync::{Arc, Mutex};
use std::time::Duration;

static NEXT_IF: AtomicUsize = AtomicUsize::new(0);
thread_local! { static TX: std::cell::RefCell<Option<Arc<Mutex<Option<CommandSender>>>>> = std::cell::RefCell::new(None); }

struct Producer;
impl Service<NullConfig> for Producer {
    fn new(_: NullConfig) -> Self { Producer }
    async fn wait_io_sub(&mut self, command_tx: CommandSender, _signal_rx: SignalReceiver) {
        let slot = TX.with(|s| s.borrow().clone().unwrap());
        *slot.lock().unwrap() = Some(command_tx);
        std::future::pending::<()>().await
    }
}

const PERIOD: Duration = Duration::from_millis(10);

pub fn exec(c: &[i64]) -> Vec<i64> {
    let c = c.to_vec();
    std::panic::catch_unwind(move || run(&c)).unwrap_or_else(|_| vec![-1])
}

fn frames_of(bus: &mut Bus) -> Vec<j1939::Frame> {
    bus.pump().iter().map(|raw| {
        let id = u32::from_le_bytes([raw[0], raw[1], raw[2], raw[3]]) & 0x1fffffff;
        let d = raw[8..8 + (raw[4] as usize).min(8)].to_vec();
        mk_frame(id, &d)
    }).collect()
}

fn run(c: &[i64]) -> Vec<i64> {
    let iface = format!("r{}t{:?}", NEXT_IF.fetch_add(1, Ordering::SeqCst), std::thread::current().id()).replace(['(', ')', 'T', 'h', 'r', 'e', 'd', 'I'], "");
    let (toml_s, start) = crate::authrig::config_toml(&iface, c);
    let cfg: NetworkConfig = match toml::from_str(&toml_s) { Ok(c) => c, Err(_) => return vec![-2] };
    let slot: Arc<Mutex<Option<CommandSender>>> = Arc::new(Mutex::new(None));
    TX.with(|s| *s.borrow_mut() = Some(slot.clone()));
    let rt = tokio::runtime::Builder::new_current_thread().enable_all().start_paused(true).build().unwrap();
    let mut bus = Bus::new(&iface);
    bus.set_forward(false);
    let evs = c[start..].to_vec();
    let mut out: Vec<i64> = Vec::new();
    let mut n = 0i64;
    rt.block_on(async {
        let yields = || async { for _ in 0..300 { tokio::task::yield_now().await; } };
        let mut runtime = Runtime::default();
        runtime.schedule_io_sub_service::<Producer, NullConfig>(NullConfig);
        yields().await;
        let tx = slot.lock().unwrap().clone().expect("producer did not start");
        runtime.schedule_net_service::<NetworkAuthority, NetworkConfig>(cfg, PERIOD);
        // run until blocked: a task parked in a socket write (the hub thread is slow to drain under load) goes on
        // once the hub has drained, which `pump` waits for - so repeat until a whole round puts nothing on the bus
        macro_rules! settle { ($acc:expr) => {{ loop { yields().await; let f = frames_of(&mut bus); if f.is_empty() { break; } $acc.extend(f); } }}; }
        let mut acc: Vec<j1939::Frame> = Vec::new();
        settle!(acc);
        n += 1; enc_frames(&mut out, &acc);
        let mut i = 0usize;
        while i < evs.len() {
            match evs[i] {
                1 => { let Some((m, used)) = dec_motion(&evs[i + 1..]) else { break }; let _ = tx.send(Object::Motion(m)); i += 1 + used; }
                7 => { let _ = tx.send(other_object(evs[i + 1])); i += 2; }
                3 => { let mut acc = Vec::new(); settle!(acc); n += 1; enc_frames(&mut out, &acc); i += 1; }
                0 => {
                    let mut acc = Vec::new();
                    settle!(acc);
                    tokio::time::advance(PERIOD).await;
                    settle!(acc);
                    n += 1; enc_frames(&mut out, &acc); i += 1;
                }
                _ => break,
            }
        }
        drop(tx);
        drop(runtime);
    });
    let mut o = vec![n]; o.extend(out); o
}
