//! C13: wire codec. Kind 1: header parser; kind 2: packet reception of every type with arbitrary
//! payloads (value / error / never panic, bytes consumed); kind 3: encode/decode round trip of
//! objects through the real to_bytes / send_packet / TryFrom.
use crate::{sessgen, util::*, Opts};
use glonax::core::{Control, Engine, Gnss, Instance, ModuleStatus, Motion, Rotator, Target};
use glonax::protocol::frame::{Frame, FrameError, Request, Session, SessionError};
use glonax::protocol::{Packetize, Stream};
use glonax::world::Actor;

const T_ERROR: u8 = 0x00; const T_SESSION: u8 = 0x10; const T_REQUEST: u8 = 0x12; const T_INSTANCE: u8 = 0x15;
const T_STATUS: u8 = 0x16; const T_MOTION: u8 = 0x20; const T_GNSS: u8 = 0x42; const T_ENGINE: u8 = 0x43;
const T_TARGET: u8 = 0x44; const T_CONTROL: u8 = 0x45; const T_ROTATOR: u8 = 0x46; const T_ACTOR: u8 = 0x69;
pub const TYPES: [u8; 12] = [T_ERROR, T_SESSION, T_REQUEST, T_INSTANCE, T_STATUS, T_MOTION, T_GNSS, T_ENGINE, T_TARGET, T_CONTROL, T_ROTATOR, T_ACTOR];

fn rt() -> tokio::runtime::Runtime { tokio::runtime::Builder::new_current_thread().build().unwrap() }

/// comparable text: what came out of from_utf8_lossy unharmed (well-formed UTF-8 without U+FFFD); mirrors utf8_clean / utf8_take in coq/Model/Utf8.v
fn clean(s: &str) -> bool { !s.contains('\u{fffd}') }
fn clean_bytes(b: &[u8]) -> bool { std::str::from_utf8(b).map(clean).unwrap_or(false) }

/// canonical, comparable form of a decoded packet (mirrors canon_pkt in coq/Model/C13_io.v)
trait Canon { fn canon(&self) -> Option<Vec<u8>>; }
impl Canon for SessionError { fn canon(&self) -> Option<Vec<u8>> { Some(self.to_bytes()) } }
impl Canon for Request { fn canon(&self) -> Option<Vec<u8>> { Some(self.to_bytes()) } }
impl Canon for Session { fn canon(&self) -> Option<Vec<u8>> { if clean(self.name()) { Some(self.to_bytes()) } else { None } } }
impl Canon for Instance { fn canon(&self) -> Option<Vec<u8>> { if clean(self.model()) && clean(self.serial_number()) { Some(self.to_bytes()) } else { None } } }
impl Canon for ModuleStatus { fn canon(&self) -> Option<Vec<u8>> { if clean(&self.name) { Some(self.to_bytes()) } else { None } } }
impl Canon for Motion { fn canon(&self) -> Option<Vec<u8>> { Some(self.to_bytes()) } }
impl Canon for Gnss { fn canon(&self) -> Option<Vec<u8>> { Some(self.to_bytes()) } }
impl Canon for Engine { fn canon(&self) -> Option<Vec<u8>> { Some(self.to_bytes()) } }
impl Canon for Control { fn canon(&self) -> Option<Vec<u8>> { Some(self.to_bytes()) } }
impl Canon for Target { fn canon(&self) -> Option<Vec<u8>> { let mut b = self.to_bytes(); for x in b[12..24].iter_mut() { *x = 0; } Some(b) } }
impl Canon for Rotator { fn canon(&self) -> Option<Vec<u8>> { let mut b = self.to_bytes(); for x in b[1..13].iter_mut() { *x = 0; } Some(b) } }
impl Canon for Actor {
    fn canon(&self) -> Option<Vec<u8>> {
        let mut b = Packetize::to_bytes(self);
        // walk: u16 len, name, count, (u16 len, name, 24 bytes)*
        let mut i = 0usize;
        let l = ((b[0] as usize) << 8) | b[1] as usize; i += 2;
        if !clean_bytes(&b[i..i + l]) { return None; } i += l;
        let cnt = b[i] as usize; i += 1;
        for _ in 0..cnt {
            let l = ((b[i] as usize) << 8) | b[i + 1] as usize; i += 2;
            if !clean_bytes(&b[i..i + l]) { return None; } i += l;
            for x in b[i + 12..i + 24].iter_mut() { *x = 0; }
            i += 24;
        }
        Some(b)
    }
}

fn recv<P: Packetize + Canon>(t: u8, payload: &[u8]) -> Vec<i64> {
    let len = payload.len();
    // the stream has a history: a larger packet (a 65-byte session upgrade) was received on it before, and the bytes
    // after the payload under test are already there (sentinels) - neither may influence where this packet ends
    let mut prime = vec![0u8]; prime.extend([b'p'; 64]);
    let plen = prime.len();
    let mut data = prime;
    data.extend(payload);
    data.extend([0xA5u8; 16]); // sentinel bytes after the payload: must never be read
    let res = std::panic::catch_unwind(move || {
        rt().block_on(async move {
            let mut s = Stream::new(std::io::Cursor::new(data));
            let first = s.recv_packet::<Session>(plen).await;
            if first.is_err() || s.inner().position() as usize != plen { return (None, -1000); }
            let r = s.recv_packet::<P>(len).await;
            let pos = s.inner().position() as i64 - plen as i64;
            (r.ok().map(|p| p.canon()), pos)
        })
    });
    match res {
        Err(_) => vec![-1],
        Ok((None, pos)) => vec![1, pos],
        Ok((Some(None), pos)) => vec![0, -7, pos],
        Ok((Some(Some(b)), pos)) => { let mut o = vec![0, pos, t as i64]; o.extend(b.iter().map(|x| *x as i64)); o }
    }
}

fn recv_any(t: u8, payload: &[u8]) -> Vec<i64> {
    match t {
        T_ERROR => recv::<SessionError>(t, payload), T_SESSION => recv::<Session>(t, payload), T_REQUEST => recv::<Request>(t, payload),
        T_INSTANCE => recv::<Instance>(t, payload), T_STATUS => recv::<ModuleStatus>(t, payload), T_MOTION => recv::<Motion>(t, payload),
        T_GNSS => recv::<Gnss>(t, payload), T_ENGINE => recv::<Engine>(t, payload), T_TARGET => recv::<Target>(t, payload),
        T_CONTROL => recv::<Control>(t, payload), T_ROTATOR => recv::<Rotator>(t, payload), T_ACTOR => recv::<Actor>(t, payload),
        _ => vec![-2],
    }
}

/// positions of f32 fields that pass through an euler re-parameterisation: compared by tolerance
fn rot_ranges(t: u8, b: &[u8]) -> Vec<(usize, usize)> {
    match t {
        T_TARGET => vec![(12, 24)],
        T_ROTATOR => vec![(1, 13)],
        T_ACTOR => {
            let mut v = vec![]; let mut i = 0usize;
            let l = ((b[0] as usize) << 8) | b[1] as usize; i += 2 + l;
            let cnt = b[i] as usize; i += 1;
            for _ in 0..cnt { let l = ((b[i] as usize) << 8) | b[i + 1] as usize; i += 2 + l; v.push((i + 12, i + 24)); i += 24; }
            v
        }
        _ => vec![],
    }
}

fn same_outside_rotation(t: u8, a: &[u8], b: &[u8]) -> bool {
    if a.len() != b.len() { return false; }
    let rr = rot_ranges(t, a);
    (0..a.len()).all(|i| rr.iter().any(|(s, e)| i >= *s && i < *e) || a[i] == b[i])
}

fn same_mod_rotation(t: u8, a: &[u8], b: &[u8]) -> bool {
    if a.len() != b.len() { return false; }
    let rr = rot_ranges(t, a);
    let in_rot = |i: usize| rr.iter().any(|(s, e)| i >= *s && i < *e);
    for i in 0..a.len() { if !in_rot(i) && a[i] != b[i] { return false; } }
    for (s, e) in rr {
        for k in (s..e).step_by(4) {
            let x = f32::from_bits(u32::from_be_bytes([a[k], a[k + 1], a[k + 2], a[k + 3]]));
            let y = f32::from_bits(u32::from_be_bytes([b[k], b[k + 1], b[k + 2], b[k + 3]]));
            if !((x - y).abs() < 2e-4) { return false; }
        }
    }
    true
}

struct Dribble { buf: Vec<u8>, k: usize, calls: usize }
impl tokio::io::AsyncWrite for Dribble {
    fn poll_write(mut self: std::pin::Pin<&mut Self>, cx: &mut std::task::Context<'_>, b: &[u8]) -> std::task::Poll<std::io::Result<usize>> {
        self.calls += 1;
        if self.calls % 3 == 2 { cx.waker().wake_by_ref(); return std::task::Poll::Pending; }
        let n = b.len().min(self.k);
        self.buf.extend(&b[..n]);
        std::task::Poll::Ready(Ok(n))
    }
    fn poll_flush(self: std::pin::Pin<&mut Self>, _: &mut std::task::Context<'_>) -> std::task::Poll<std::io::Result<()>> { std::task::Poll::Ready(Ok(())) }
    fn poll_shutdown(self: std::pin::Pin<&mut Self>, _: &mut std::task::Context<'_>) -> std::task::Poll<std::io::Result<()>> { std::task::Poll::Ready(Ok(())) }
}

fn roundtrip<P: Packetize + PartialEq2>(t: u8, bytes0: &[u8]) -> Vec<i64> {
    let b0 = bytes0.to_vec();
    let res = std::panic::catch_unwind(move || {
        let o = P::try_from(b0.clone()).ok()?;
        let b2 = o.to_bytes();
        let o2 = P::try_from(b2.clone()).ok()?;
        // the decoded rotation is the one the wire angles (radians: roll, pitch, yaw about x, y, z, applied in that
        // order) describe - judged against an f64 reference, not against the implementation's own encoder
        let mut wire_ok = true;
        for ((s0, _), r) in rot_ranges(t, &b0).into_iter().zip(o.rots()) {
            let f = |k: usize| f32::from_bits(u32::from_be_bytes([b0[s0 + 4 * k], b0[s0 + 4 * k + 1], b0[s0 + 4 * k + 2], b0[s0 + 4 * k + 3]]));
            let (roll, pitch, yaw) = (f(0), f(1), f(2));
            if !(roll.is_finite() && pitch.is_finite() && yaw.is_finite()) { continue; }
            let (sr, cr) = (roll as f64).sin_cos(); let (sp, cp) = (pitch as f64).sin_cos(); let (sy, cy) = (yaw as f64).sin_cos();
            let m = [[cy * cp, cy * sp * sr - sy * cr, cy * sp * cr + sy * sr],
                     [sy * cp, sy * sp * sr + cy * cr, sy * sp * cr - cy * sr],
                     [-sp, cp * sr, cp * cr]];
            for i in 0..3 { for j in 0..3 { if !((r[(i, j)] as f64 - m[i][j]).abs() < 5e-4) { wire_ok = false; } } }
        }
        // lossless = the same orientation comes back: the angle words agree, or - where several angle triples describe one
        // orientation (pitch of exactly a quarter turn) - the decoded rotations agree
        let mats_same = o.rots().len() == o2.rots().len() && o.rots().iter().zip(o2.rots()).all(|(a, b)| (0..3).all(|i| (0..3).all(|j| (a[(i, j)] - b[(i, j)]).abs() < 5e-4)));
        let equiv = same_mod_rotation(t, &b0, &b2) || (same_outside_rotation(t, &b0, &b2) && mats_same);
        let b3 = o2.to_bytes();
        let again = o.same(&o2) || (same_outside_rotation(t, &b2, &b3) && mats_same);
        let ok = again && equiv && wire_ok;
        let frame: Vec<u8> = rt().block_on(async {
            // a transport that takes a few bytes per write and is not always ready (a socket with a nearly full
            // buffer): what arrives must still be the whole frame
            let mut s = Stream::new(Dribble { buf: Vec::new(), k: 1 + b0.len() % 13, calls: 0 });
            s.send_packet(&o).await.unwrap();
            s.inner().buf.clone()
        });
        Some((ok, frame, b2, equiv))
    });
    match res {
        Err(_) => vec![-1],
        Ok(None) => vec![0],
        Ok(Some((ok, frame, b2, equiv))) => {
            let mut o = vec![ok as i64];
            // the payload part is reported as the reference bytes when it equals them up to the
            // float tolerance of the rotation fields
            if frame.len() >= 10 && frame[10..] == b2[..] && equiv {
                o.extend(frame[..10].iter().map(|x| *x as i64)); o.extend(bytes0.iter().map(|x| *x as i64));
            } else { o.extend(frame.iter().map(|x| *x as i64)); }
            o
        }
    }
}

/// object equality with float tolerance where the implementation re-parameterises angles
trait PartialEq2 { fn same(&self, o: &Self) -> bool; fn rots(&self) -> Vec<nalgebra::Rotation3<f32>> { vec![] } }
macro_rules! eq_exact { ($($t:ty),*) => { $(impl PartialEq2 for $t { fn same(&self, o: &Self) -> bool { self.to_bytes() == o.to_bytes() } })* } }
eq_exact!(SessionError, Request, Session, Instance, ModuleStatus, Motion, Gnss, Engine, Control);
impl PartialEq2 for Target { fn same(&self, o: &Self) -> bool { same_mod_rotation(T_TARGET, &self.to_bytes(), &o.to_bytes()) }
    fn rots(&self) -> Vec<nalgebra::Rotation3<f32>> { vec![self.orientation.to_rotation_matrix()] } }
impl PartialEq2 for Rotator { fn same(&self, o: &Self) -> bool { same_mod_rotation(T_ROTATOR, &self.to_bytes(), &o.to_bytes()) }
    fn rots(&self) -> Vec<nalgebra::Rotation3<f32>> { vec![self.rotator] } }
impl PartialEq2 for Actor { fn same(&self, o: &Self) -> bool { same_mod_rotation(T_ACTOR, &Packetize::to_bytes(self), &Packetize::to_bytes(o)) } }

fn roundtrip_any(t: u8, b: &[u8]) -> Vec<i64> {
    match t {
        T_ERROR => roundtrip::<SessionError>(t, b), T_SESSION => roundtrip::<Session>(t, b), T_REQUEST => roundtrip::<Request>(t, b),
        T_INSTANCE => roundtrip::<Instance>(t, b), T_STATUS => roundtrip::<ModuleStatus>(t, b), T_MOTION => roundtrip::<Motion>(t, b),
        T_GNSS => roundtrip::<Gnss>(t, b), T_ENGINE => roundtrip::<Engine>(t, b), T_TARGET => roundtrip::<Target>(t, b),
        T_CONTROL => roundtrip::<Control>(t, b), T_ROTATOR => roundtrip::<Rotator>(t, b), T_ACTOR => roundtrip::<Actor>(t, b),
        _ => vec![-2],
    }
}

pub fn exec(c: &[i64]) -> Vec<i64> {
    match c[0] {
        1 => {
            let h: Vec<u8> = c[1..].iter().map(|x| *x as u8).collect();
            match std::panic::catch_unwind(|| Frame::try_from(&h[..]).map(|f| (f.message, f.payload_length))) {
                Err(_) => vec![-1],
                Ok(Ok((m, n))) => vec![0, m as i64, n as i64],
                Ok(Err(e)) => vec![1, match e {
                    FrameError::FrameTooSmall => 1, FrameError::InvalidHeader => 2, FrameError::VersionMismatch(_) => 3,
                    FrameError::PayloadEmpty => 4, FrameError::ExcessivePayloadLength(_) => 5, FrameError::InvalidPadding => 6,
                    _ => 9 }],
            }
        }
        2 => { let p: Vec<u8> = c[3..].iter().map(|x| *x as u8).collect(); recv_any(c[1] as u8, &p) }
        3 => { let p: Vec<u8> = c[3..].iter().map(|x| *x as u8).collect(); roundtrip_any(c[1] as u8, &p) }
        _ => vec![-2],
    }
}

// ---------------------------------------------------------------- reference encodings (generator side)
fn f32b(x: f32) -> [u8; 4] { x.to_bits().to_be_bytes() }
fn ang(rng: &mut Rng, lim: f32) -> f32 { (rng.range(-1000, 1000) as f32) / 1000.0 * lim }
/// a pitch word: mostly inside the open quarter turn, one in eight exactly a quarter turn up or down (several angle triples, one orientation)
fn pitch(rng: &mut Rng) -> f32 { if rng.chance(1, 8) { if rng.chance(1, 2) { std::f32::consts::FRAC_PI_2 } else { -std::f32::consts::FRAC_PI_2 } } else { ang(rng, 1.4) } }
fn name(rng: &mut Rng, max: usize) -> Vec<u8> {
    let n = match rng.below(6) { 0 => 0, 1 => max, 2 => max.min(64), _ => rng.below(max as u64 + 1) as usize };
    if rng.chance(1, 4) {
        // valid multi-byte UTF-8 (2-, 3- and 4-byte characters mixed with ASCII): byte length != character count
        let mut s = String::new();
        loop {
            let ch = match rng.below(5) { 0 => '\u{e9}', 1 => '\u{20ac}', 2 => '\u{1f600}', 3 => '\u{7ff}', _ => (b'a' + rng.below(26) as u8) as char };
            if s.len() + ch.len_utf8() > n { break; }
            s.push(ch);
        }
        return s.into_bytes();
    }
    // one name in eight carries control characters - NUL, tab, newline, escape, DEL: a name is any text, not a C string
    if rng.chance(1, 8) { return (0..n).map(|_| if rng.chance(1, 3) { *rng.pick(&[0u8, 0, 9, 10, 27, 127, 1]) } else { b' ' + rng.below(95) as u8 }).collect(); }
    (0..n).map(|_| b' ' + rng.below(95) as u8).collect()
}
fn str16(v: &mut Vec<u8>, s: &[u8]) { v.extend((s.len() as u16).to_be_bytes()); v.extend(s); }

pub fn valid_bytes(t: u8, rng: &mut Rng) -> Vec<u8> {
    let mut v = Vec::new();
    match t {
        T_ERROR => v.push(rng.below(4) as u8),
        T_SESSION => { v.push(rng.byte() & 0x1f); v.extend(name(rng, 64)); }
        T_REQUEST => v.push(rng.byte()),
        T_INSTANCE => {
            for _ in 0..16 { v.push(rng.byte()); }
            v.push(1 + rng.below(6) as u8); v.extend([rng.byte(), rng.byte(), rng.byte()]);
            let m = name(rng, 255); str16(&mut v, &m); let s = name(rng, 255); str16(&mut v, &s);
        }
        T_STATUS => {
            let n = name(rng, 255); str16(&mut v, &n); v.push(0xF8 + rng.below(4) as u8);
            if rng.chance(1, 2) { v.push(0); } else { v.push(1); v.push(rng.below(5) as u8); }
        }
        T_MOTION => match rng.below(5) {
            0 => v.push(0), 1 => v.push(1), 2 => v.push(2),
            3 => { v.push(5); v.extend((rng.next() as u16).to_be_bytes()); }
            _ => {
                let n = match rng.below(4) { 0 => 0, 1 => 32, _ => rng.below(33) } as usize;
                v.push(0x10); v.push(n as u8);
                for _ in 0..n { v.extend((rng.below(6) as u16).to_be_bytes()); v.extend((rng.next() as u16).to_be_bytes()); }
            }
        },
        T_GNSS => { for _ in 0..5 { v.extend(f32b(ang(rng, 180.0))); } v.push(rng.byte()); v.push(*rng.pick(&[0xffu8, 0, 1])); }
        T_ENGINE => { v.extend([rng.byte(), rng.byte()]); v.extend((rng.next() as u16).to_be_bytes()); v.push(*rng.pick(&[0u8, 1, 2, 0x10])); }
        T_TARGET => {
            for _ in 0..3 { v.extend(f32b(ang(rng, 900.0))); }
            // (the Target orientation is a quaternion: also pitches within a milliradian of the quarter turn, where a
            //  single-precision Euler extraction loses roll and yaw)
            let p = if rng.chance(1, 8) { let d = *rng.pick(&[2e-7f32, 1e-6, 1e-5, 1e-4, 1e-3]); if rng.chance(1, 2) { std::f32::consts::FRAC_PI_2 - d } else { d - std::f32::consts::FRAC_PI_2 } } else { pitch(rng) };
            v.extend(f32b(ang(rng, 3.0))); v.extend(f32b(p)); v.extend(f32b(ang(rng, 3.0)));
            v.push(*rng.pick(&[0u8, 1, 2, 20, 21, 22]));
        }
        T_CONTROL => {
            let k = *rng.pick(&[0x5u8, 0x6, 0x7, 0x8, 0x9, 0xA, 0xB, 0x1B, 0x1C, 0x2D, 0x1E, 0x1F, 0x20]);
            v.push(k); v.push(if k == 0xB || k == 0x1B { 1 } else { rng.below(2) as u8 });
        }
        T_ROTATOR => { v.push(rng.byte()); v.extend(f32b(ang(rng, 3.0))); v.extend(f32b(pitch(rng))); v.extend(f32b(ang(rng, 3.0))); v.push(rng.below(2) as u8); }
        _ => {
            let n = name(rng, 255); str16(&mut v, &n);
            let cnt = match rng.below(8) { 0 => 0, 1 => 2, 2 => 3, 3 => 4 + rng.below(30), _ => 1 + rng.below(3) } as usize;
            v.push(cnt as u8);
            for _ in 0..cnt {
                let sn = name(rng, if cnt > 4 { 12 } else { 255 }); str16(&mut v, &sn);
                for _ in 0..3 { v.extend(f32b(ang(rng, 700.0))); }
                v.extend(f32b(ang(rng, 3.0))); v.extend(f32b(pitch(rng))); v.extend(f32b(ang(rng, 3.0)));
            }
        }
    }
    v
}

fn case2(t: u8, p: &[u8]) -> Vec<i64> { let mut c = vec![2, t as i64, p.len() as i64]; c.extend(p.iter().map(|x| *x as i64)); c }
fn case3(t: u8, p: &[u8]) -> Vec<i64> { let mut c = vec![3, t as i64, p.len() as i64]; c.extend(p.iter().map(|x| *x as i64)); c }

pub fn gen(o: &Opts, sink: &mut dyn FnMut(Vec<i64>, String)) {
    let mut k: u64 = 0;
    macro_rules! put { ($c:expr) => {{ k += 1; if mine(o, k) { sink($c, String::new()); } }}; }
    // ---- kind 1: headers: all 256 types x boundary lengths; every single-byte corruption of valid headers; odd sizes
    for t in 0..=255u32 {
        for n in [0usize, 1, 2, 255, 256, 1023, 1024, 1025, 4096, 65535] {
            let h = crate::session::header(t as u8, n);
            put!({ let mut c = vec![1]; c.extend(h.iter().map(|x| *x as i64)); c });
        }
    }
    for (t, n) in [(0x20u8, 1usize), (0x43, 5), (0x10, 1024), (0x69, 700)] {
        let h = crate::session::header(t, n);
        for off in 0..10 { for v in 0..=255u32 {
            let mut b = h.clone(); b[off] = v as u8;
            put!({ let mut c = vec![1]; c.extend(b.iter().map(|x| *x as i64)); c });
        } }
        for cut in 0..10 { put!({ let mut c = vec![1]; c.extend(h[..cut].iter().map(|x| *x as i64)); c }); }
        put!({ let mut c = vec![1]; c.extend(h.iter().map(|x| *x as i64)); c.push(0); c });
    }
    // ---- kind 2 / 3 per type
    let per_type = if o.tier_thorough { 40_000 } else { 1_500 };
    for (ti, t) in TYPES.iter().enumerate() {
        // small exhaustive domains
        if *t == T_ENGINE { for st in 0..=255u32 { put!(case2(*t, &[1, 2, 3, 4, st as u8])); } }
        if *t == T_CONTROL { for kk in 0..=255u32 { for on in [0u8, 1, 2, 255] { put!(case2(*t, &[kk as u8, on])); } } }
        if *t == T_MOTION {
            for tag in 0..=255u32 { put!(case2(*t, &[tag as u8])); put!(case2(*t, &[tag as u8, 0, 0])); }
            let step = if o.tier_thorough { 1 } else { 16 };
            for v in (0..=65535u32).step_by(step) { put!(case2(*t, &[5, (v >> 8) as u8, v as u8])); }
        }
        if *t == T_SESSION { for fl in 0..=255u32 { put!(case2(*t, &[fl as u8, b'n'])); } }
        if *t == T_ERROR || *t == T_REQUEST { for b in 0..=255u32 { put!(case2(*t, &[b as u8])); } }
        if *t == T_TARGET { for cb in 0..=255u32 { let mut p = vec![0u8; 24]; p.push(cb as u8); put!(case2(*t, &p)); } }
        if *t == T_ROTATOR { for rb in 0..=255u32 { let mut p = vec![0u8; 13]; p.push(rb as u8); put!(case2(*t, &p)); } }
        for j in 0..per_type {
            let mut rng = Rng::new(o.seed, 7_000_000 + (ti as u64) * 1_000_000 + j);
            let valid = valid_bytes(*t, &mut rng);
            match j % 6 {
                0 => put!(case3(*t, &valid)),
                1 => { let cut = rng.below(valid.len() as u64 + 1) as usize; put!(case2(*t, &valid[..cut])); } // truncation
                2 => { let mut b = valid.clone(); if !b.is_empty() { let i = rng.below(b.len() as u64) as usize; b[i] = *rng.pick(&[0u8, 1, 2, 0x7f, 0x80, 0xfe, 0xff, 0x10, 0x20]); } put!(case2(*t, &b)); }
                3 => { let n = *rng.pick(&[0usize, 1, 2, 3, 5, 14, 22, 25, 64, 1023, 1024, 1025]); let p: Vec<u8> = (0..n).map(|_| rng.byte()).collect(); put!(case2(*t, &p)); }
                4 => { let mut b = valid.clone(); let ex = 1 + rng.below(4); for _ in 0..ex { b.push(rng.byte()); } put!(case2(*t, &b)); } // trailing bytes
                _ => put!(case2(*t, &valid)),
            }
        }
        // declared lengths 0..64 with random content
        for n in 0..=64usize { let mut rng = Rng::new(o.seed, 9_000_000 + n as u64 + (ti as u64) * 100); let p: Vec<u8> = (0..n).map(|_| rng.byte()).collect(); put!(case2(*t, &p)); }
        // every truncation and a byte sweep of one valid encoding
        let mut rng = Rng::new(o.seed, 9_500_000 + ti as u64);
        let mut valid = valid_bytes(*t, &mut rng);
        if valid.len() > 80 { valid = valid_bytes(*t, &mut Rng::new(o.seed, 9_600_000 + ti as u64)); }
        for cut in 0..=valid.len().min(200) { put!(case2(*t, &valid[..cut])); }
        let sweep: Vec<u8> = if o.tier_thorough { (0..=255).collect() } else { vec![0, 1, 0x7f, 0x80, 0xff] };
        for off in 0..valid.len().min(60) { for v in &sweep { let mut b = valid.clone(); b[off] = *v; put!(case2(*t, &b)); } }
    }
    let _ = sessgen::stop_all_bytes;
}
