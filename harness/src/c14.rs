//! C14: real UnixServer sessions with their signal receivers. Ops (only one input source is pending
//! whenever the session tasks run): 1 s len bytes (client s writes whole frames; run) |
//! 2 k (type len payload)*k (publish k signals back-to-back; run) | 3 s (client s closes) |
//! standalone case 9 major minor patch = glonax::is_compatibile.
//! obs = nops, per op per session: npackets, (type len payload-canonical)*
use crate::{session::*, sessgen, util::*, Opts};
use glonax::core::{Control, Engine, ModuleStatus, Motion, Object, Rotator, Target};
use glonax::runtime::Service;
use std::io::{Read, Write};
use std::os::unix::net::UnixStream as StdUnix;
use std::time::Duration;

fn object_of(t: u8, payload: &[u8]) -> Option<Object> {
    let v = payload.to_vec();
    Some(match t {
        0x43 => Object::Engine(Engine::try_from(v).ok()?), 0x20 => Object::Motion(Motion::try_from(v).ok()?),
        0x45 => Object::Control(Control::try_from(v).ok()?), 0x44 => Object::Target(Target::try_from(v).ok()?),
        0x46 => Object::Rotator(Rotator::try_from(v).ok()?), 0x16 => Object::ModuleStatus(ModuleStatus::try_from(v).ok()?),
        _ => return None })
}

fn canon(t: u8, p: &mut Vec<u8>) {
    match t { 0x44 => { for x in p[12..24].iter_mut() { *x = 0; } } 0x46 => { for x in p[1..13].iter_mut() { *x = 0; } } _ => {} }
}

/// split what a client received into frames; -3 if the bytes are not a sequence of whole frames
fn frames(buf: &[u8]) -> Option<Vec<(u8, Vec<u8>)>> {
    let mut out = vec![]; let mut i = 0;
    while i < buf.len() {
        if buf.len() - i < 10 || &buf[i..i + 4] != b"LXR\x03" || buf[i + 7..i + 10] != [0, 0, 0] { return None; }
        let n = ((buf[i + 5] as usize) << 8) | buf[i + 6] as usize;
        if n == 0 || buf.len() - i - 10 < n { return None; }
        out.push((buf[i + 4], buf[i + 10..i + 10 + n].to_vec())); i += 10 + n;
    }
    Some(out)
}

pub fn exec(c: &[i64]) -> Vec<i64> {
    if c[0] == 9 { return vec![glonax::is_compatibile((c[1] as u8, c[2] as u8, c[3] as u8)) as i64]; }
    RIG.with(|cell| {
        let mut g = cell.borrow_mut();
        if g.is_none() { *g = Some(Rig::new()); }
        let rig = g.as_mut().unwrap();
        run(rig, c)
    })
}

/// case 8 extra wait_ms: a streaming client stops reading until the daemon's side of the socket is full
/// and its session sits in a write; `extra` further signals are published (one by one), nobody reads
/// for wait_ms, then the client reads everything. It falls behind, so it may lose OVERWRITTEN signals
/// (the oldest extra-16 if extra > 16) and nothing else; frames stay whole; a second, reading session
/// gets every signal meanwhile.  obs = [lost_by_the_stalled_client, in_order, whole_frames, lost_by_the_other, other_in_order]
fn stalled(rig: &mut Rig, extra: usize, wait_ms: u64) -> Vec<i64> {
    let Rig { rt, server, path, command_tx, .. } = rig;
    let tick = Duration::from_millis(1);
    // the sessions' signal channel, capacity as in the runtime; only the two sessions subscribe
    let (stx, srx0) = tokio::sync::broadcast::channel::<Object>(16);
    drop(srx0);
    rt.block_on(async {
        let mut hello = header(0x10, 2); hello.extend([0x01, b'c']);
        let mut a = StdUnix::connect(&*path).unwrap(); a.set_nonblocking(true).ok();
        server.wait_io_sub(command_tx.clone(), stx.subscribe()).await;
        let mut b = StdUnix::connect(&*path).unwrap(); b.set_nonblocking(true).ok();
        server.wait_io_sub(command_tx.clone(), stx.subscribe()).await;
        let _ = a.write_all(&hello); let _ = b.write_all(&hello);
        for _ in 0..5 { tokio::time::sleep(tick).await; }
        let read_all = |s: &mut StdUnix, buf: &mut Vec<u8>| { let mut tmp = [0u8; 65536]; loop { match s.read(&mut tmp) { Ok(0) => break, Ok(n) => buf.extend(&tmp[..n]), Err(_) => break } } };
        let (mut got_a, mut got_b) = (Vec::new(), Vec::new());
        let publish = |i: usize| { let _ = stx.send(Object::Engine(glonax::core::Engine { driver_demand: 1, actual_engine: 2, rpm: (i % 60000) as u16, state: glonax::core::EngineState::Request })); };
        // until the stalled client's session no longer takes signals off the queue
        let mut n = 0usize;
        let mut blocked = false;
        while n < 40_000 {
            publish(n); n += 1;
            for _ in 0..6 { tokio::task::yield_now().await; }
            read_all(&mut b, &mut got_b);
            if stx.len() > 0 { tokio::time::sleep(tick).await; read_all(&mut b, &mut got_b); if stx.len() > 0 { blocked = true; break; } }
        }
        if !blocked { return vec![-5]; }
        // the queue holds 1 signal now; extra - 1 more
        for _ in 1..extra { publish(n); n += 1; for _ in 0..6 { tokio::task::yield_now().await; } tokio::time::sleep(tick).await; read_all(&mut b, &mut got_b); }
        tokio::time::sleep(Duration::from_millis(wait_ms)).await;
        // the client wakes up
        let mut quiet = 0;
        while quiet < 30 { let before = got_a.len(); read_all(&mut a, &mut got_a); read_all(&mut b, &mut got_b); if got_a.len() == before { quiet += 1; } else { quiet = 0; } tokio::time::sleep(tick).await; }
        let rpms = |buf: &[u8]| -> Option<Vec<usize>> { frames(buf).map(|fs| fs.iter().filter(|(t, _)| *t == 0x43).map(|(_, p)| ((p[2] as usize) << 8) | p[3] as usize).collect()) };
        let judge = |buf: &[u8]| -> (i64, i64, i64) {
            match rpms(buf) {
                None => (-1, 0, 0),
                Some(v) => { let inorder = v.windows(2).all(|w| w[0] < w[1]) as i64; (n as i64 - v.len() as i64, inorder, 1) }
            }
        };
        let (la, oa, wa) = judge(&got_a);
        let (lb, ob, _) = judge(&got_b);
        drop(a); drop(b);
        for _ in 0..400 { tokio::time::sleep(tick).await; if stx.receiver_count() == 0 { break; } }
        vec![la, oa, wa, lb, ob]
    })
}

fn run(rig: &mut Rig, c: &[i64]) -> Vec<i64> {
    if c[0] == 8 { return stalled(rig, c[1] as usize, c[2] as u64); }
    let Rig { rt, server, path, command_tx, signal_tx, .. } = rig;
    let ns = c[0] as usize;
    let tick = Duration::from_millis(1);
    let base = signal_tx.receiver_count();
    let mut out: Vec<i64> = Vec::new();
    let mut nops = 0i64;
    rt.block_on(async {
        let mut clients: Vec<Option<StdUnix>> = Vec::new();
        for _ in 0..ns {
            let s = StdUnix::connect(&*path).unwrap(); s.set_nonblocking(true).ok();
            server.wait_io_sub(command_tx.clone(), signal_tx.subscribe()).await;
            clients.push(Some(s));
        }
        tokio::time::sleep(tick).await;
        let mut i = 1usize;
        while i < c.len() {
            match c[i] {
                1 => { let s = c[i + 1] as usize; let len = c[i + 2] as usize;
                       let bytes: Vec<u8> = c[i + 3..i + 3 + len].iter().map(|b| *b as u8).collect();
                       if let Some(Some(cl)) = clients.get_mut(s) { let _ = cl.write_all(&bytes); }
                       i += 3 + len; }
                2 => { let k = c[i + 1] as usize; i += 2;
                       for _ in 0..k { let t = c[i] as u8; let len = c[i + 1] as usize;
                           let p: Vec<u8> = c[i + 2..i + 2 + len].iter().map(|b| *b as u8).collect();
                           if let Some(o) = object_of(t, &p) { let _ = signal_tx.send(o); }
                           i += 2 + len; } }
                3 => { let s = c[i + 1] as usize; if let Some(cl) = clients.get_mut(s) { *cl = None; } i += 2; }
                _ => break,
            }
            tokio::time::sleep(tick).await; tokio::time::sleep(tick).await;
            nops += 1;
            for cl in clients.iter_mut() {
                let mut buf = Vec::new();
                if let Some(s) = cl { let mut tmp = [0u8; 65536]; loop { match s.read(&mut tmp) { Ok(0) => break, Ok(n) => buf.extend(&tmp[..n]), Err(_) => break } } }
                match frames(&buf) {
                    None => out.push(-3),
                    Some(fs) => { out.push(fs.len() as i64);
                        for (t, mut p) in fs { canon(t, &mut p); out.push(t as i64); out.push(p.len() as i64); out.extend(p.iter().map(|b| *b as i64)); } }
                }
            }
        }
        drop(clients);
        for _ in 0..400 { tokio::time::sleep(tick).await; if signal_tx.receiver_count() <= base { break; } }
    });
    let mut o = vec![nops]; o.extend(out); o
}

fn sig(rng: &mut Rng, out: &mut Vec<i64>) {
    let t = *rng.pick(&[0x43u8, 0x20, 0x45, 0x44, 0x46, 0x16, 0x43, 0x46]);
    let p = crate::c13::valid_bytes(t, rng);
    // the payload as generated (valid by construction); the model canonicalises it with ITS codec, so the
    // expectation never depends on the implementation's encoder
    let p2 = p.clone();
    out.push(t as i64); out.push(p2.len() as i64); out.extend(p2.iter().map(|b| *b as i64));
}

fn object_packet_raw(o: &Object) -> Vec<u8> {
    use glonax::protocol::Packetize;
    match o { Object::Engine(e) => e.to_bytes(), Object::Motion(m) => m.to_bytes(), Object::Control(c) => c.to_bytes(),
              Object::Target(t) => t.to_bytes(), Object::Rotator(r) => r.to_bytes(), Object::ModuleStatus(s) => s.to_bytes() }
}

fn write_op(c: &mut Vec<i64>, s: usize, frames: &[sessgen::F]) {
    let mut b = Vec::new(); for f in frames { b.extend(sessgen::frame_bytes(f)); }
    c.push(1); c.push(s as i64); c.push(b.len() as i64); c.extend(b.iter().map(|x| *x as i64));
}

pub fn gen(o: &Opts, sink: &mut dyn FnMut(Vec<i64>, String)) {
    let mut k: u64 = 0;
    macro_rules! put { ($c:expr) => {{ k += 1; if mine(o, k) { sink($c, String::new()); } }}; }
    // compatibility: every (major, minor) pair, several patch levels
    for ma in 0..=255i64 { for mi in 0..=255i64 {
        if !o.tier_thorough && (ma * 256 + mi) % 5 != 0 && !(ma == 3 && (mi <= 6 || (48..=60).contains(&mi))) && !(mi == 5) { continue; }
        put!(vec![9, ma, mi, (ma + mi) % 256]);
    } }
    // a streaming client that stops reading for a while (socket full, session parked in a write) and then reads again
    let stalls: Vec<(i64, i64)> = if o.tier_thorough { vec![(1, 300), (2, 700), (3, 1200), (8, 600), (15, 400), (16, 900), (17, 300), (20, 600), (40, 300), (5, 2000), (16, 50), (1, 0)] }
                                  else { vec![(3, 700), (16, 350), (20, 300)] };
    for (extra, wait) in stalls { put!(vec![8, extra, wait]); }
    // all 32 flag combinations x names; bursts around the capacity; 1-4 sessions
    let mut rng = Rng::new(o.seed, 14);
    for flags in 0..32u8 {
        for burst in [1usize, 15, 16, 17, 40] {
            let mut c = vec![1i64];
            let mut f = sessgen::session_frame(&mut rng, Some(flags)); if f.1.len() > 70 { f.1.truncate(70); }
            write_op(&mut c, 0, &[f]);
            c.push(2); c.push(burst as i64); for _ in 0..burst { sig(&mut rng, &mut c); }
            c.push(2); c.push(1); sig(&mut rng, &mut c);
            put!(c);
        }
    }
    let n = if o.tier_thorough { 6_000 } else { 600 };
    for _ in 0..n {
        let ns = 1 + rng.below(4) as usize;
        let mut c = vec![ns as i64];
        let len = 2 + rng.below(10);
        for _ in 0..len {
            match rng.below(7) {
                0 | 1 => { let s = rng.below(ns as u64) as usize;
                    let ff = if rng.chance(2, 3) { Some(*rng.pick(&[0x01u8, 0x11, 0x00, 0x10, 0x03])) } else { None };
                    let mut fs = vec![sessgen::session_frame(&mut rng, ff)];
                    if rng.chance(1, 3) { fs.push(sessgen::any_frame(&mut rng)); }
                    if rng.chance(1, 4) { fs.insert(0, sessgen::motion_frame(&mut rng)); }
                    for f in fs.iter_mut() { if f.1.is_empty() { f.1.push(0); } }
                    write_op(&mut c, s, &fs); }
                2 => { let s = rng.below(ns as u64) as usize; write_op(&mut c, s, &[sessgen::any_frame(&mut rng)]); }
                3 => { if rng.chance(1, 3) { c.push(3); c.push(rng.below(ns as u64) as i64); } else { c.push(2); c.push(1); sig(&mut rng, &mut c); } }
                _ => { let b = *rng.pick(&[1usize, 2, 3, 15, 16, 17, 18, 33, 40]); c.push(2); c.push(b as i64); for _ in 0..b { sig(&mut rng, &mut c); } }
            }
        }
        put!(c);
    }
}
