//! C14: real UnixServer sessions with their signal receivers. Ops (only one input source is pending
//! whenever the session tasks run): 1 s len bytes (client s writes whole frames; run) |
//! 2 k (type len payload)*k (publish k signals back-to-back; run) | 3 s (client s closes) |
//! standalone case 9 major minor patch = glonax::is_compatibile.
//! obs = nops, per op per session: npackets, (type len payload-canonical)*
use crate::{session::*, sessgen, util::*, Opts};
use glonax::core::{Control, Engine, ModuleStatus, Motion, Object, Rotator, Target};
use glonax::runtime::Service;
use std::io::{Read, Write};
use std::os::unix::net::UnixStream as StdUnix;
use std::time::Duration;

fn object_of(t: u8, payload: &[u8]) -> Option<Object> {
    let v = payload.to_vec();
    Some(match t {
        0x43 => Object::Engine(Engine::try_from(v).ok()?), 0x20 => Object::Motion(Motion::try_from(v).ok()?),
        0x45 => Object::Control(Control::try_from(v).ok()?), 0x44 => Object::Target(Target::try_from(v).ok()?),
        0x46 => Object::Rotator(Rotator::try_from(v).ok()?), 0x16 => Object::ModuleStatus(ModuleStatus::try_from(v).ok()?),
        _ => return None })
}

fn canon(t: u8, p: &mut Vec<u8>) {
    match t { 0x44 => { for x in p[12..24].iter_mut() { *x = 0; } } 0x46 => { for x in p[1..13].iter_mut() { *x = 0; } } _ => {} }
}

/// split what a client received into frames; -3 if the bytes are not a sequence of whole frames
fn frames(buf: &[u8]) -> Option<Vec<(u8, Vec<u8>)>> {
    let mut out = vec![]; let mut i = 0;
    while i < buf.len() {
        if buf.len() - i < 10 || &buf[i..i + 4] != b"LXR\x03" || buf[i + 7..i + 10] != [0, 0, 0] { return None; }
        let n = ((buf[i + 5] as usize) << 8) | buf[i + 6] as usize;
        if n == 0 || buf.len() - i - 10 < n { return None; }
        out.push((buf[i + 4], buf[i + 10..i + 10 + n].to_vec())); i += 10 + n;
    }
    Some(out)
}

pub fn exec(c: &[i64]) -> Vec<i64> {
    if c[0] == 9 { return vec![glonax::is_compatibile((c[1] as u8, c[2] as u8, c[3] as u8)) as i64]; }
    RIG.with(|cell| {
        let mut g = cell.borrow_mut();
        if g.is_none() { *g = Some(Rig::new()); }
        let rig = g.as_mut().unwrap();
        run(rig, c)
    })
}

fn run(rig: &mut Rig, c: &[i64]) -> Vec<i64> {
    let Rig { rt, server, path, command_tx, signal_tx, .. } = rig;
    let ns = c[0] as usize;
    let tick = Duration::from_millis(1);
    let base = signal_tx.receiver_count();
    let mut out: Vec<i64> = Vec::new();
    let mut nops = 0i64;
    rt.block_on(async {
        let mut clients: Vec<Option<StdUnix>> = Vec::new();
        for _ in 0..ns {
            let s = StdUnix::connect(&*path).unwrap(); s.set_nonblocking(true).ok();
            server.wait_io_sub(command_tx.clone(), signal_tx.subscribe()).await;
            clients.push(Some(s));
        }
        tokio::time::sleep(tick).await;
        let mut i = 1usize;
        while i < c.len() {
            match c[i] {
                1 => { let s = c[i + 1] as usize; let len = c[i + 2] as usize;
                       let bytes: Vec<u8> = c[i + 3..i + 3 + len].iter().map(|b| *b as u8).collect();
                       if let Some(Some(cl)) = clients.get_mut(s) { let _ = cl.write_all(&bytes); }
                       i += 3 + len; }
                2 => { let k = c[i + 1] as usize; i += 2;
                       for _ in 0..k { let t = c[i] as u8; let len = c[i + 1] as usize;
                           let p: Vec<u8> = c[i + 2..i + 2 + len].iter().map(|b| *b as u8).collect();
                           if let Some(o) = object_of(t, &p) { let _ = signal_tx.send(o); }
                           i += 2 + len; } }
                3 => { let s = c[i + 1] as usize; if let Some(cl) = clients.get_mut(s) { *cl = None; } i += 2; }
                _ => break,
            }
            tokio::time::sleep(tick).await; tokio::time::sleep(tick).await;
            nops += 1;
            for cl in clients.iter_mut() {
                let mut buf = Vec::new();
                if let Some(s) = cl { let mut tmp = [0u8; 65536]; loop { match s.read(&mut tmp) { Ok(0) => break, Ok(n) => buf.extend(&tmp[..n]), Err(_) => break } } }
                match frames(&buf) {
                    None => out.push(-3),
                    Some(fs) => { out.push(fs.len() as i64);
                        for (t, mut p) in fs { canon(t, &mut p); out.push(t as i64); out.push(p.len() as i64); out.extend(p.iter().map(|b| *b as i64)); } }
                }
            }
        }
        drop(clients);
        for _ in 0..400 { tokio::time::sleep(tick).await; if signal_tx.receiver_count() <= base { break; } }
    });
    let mut o = vec![nops]; o.extend(out); o
}

fn sig(rng: &mut Rng, out: &mut Vec<i64>) {
    let t = *rng.pick(&[0x43u8, 0x20, 0x45, 0x44, 0x46, 0x16, 0x43, 0x46]);
    let p = crate::c13::valid_bytes(t, rng);
    // the payload as generated (valid by construction); the model canonicalises it with ITS codec, so the
    // expectation never depends on the implementation's encoder
    let p2 = p.clone();
    out.push(t as i64); out.push(p2.len() as i64); out.extend(p2.iter().map(|b| *b as i64));
}

fn object_packet_raw(o: &Object) -> Vec<u8> {
    use glonax::protocol::Packetize;
    match o { Object::Engine(e) => e.to_bytes(), Object::Motion(m) => m.to_bytes(), Object::Control(c) => c.to_bytes(),
              Object::Target(t) => t.to_bytes(), Object::Rotator(r) => r.to_bytes(), Object::ModuleStatus(s) => s.to_bytes() }
}

fn write_op(c: &mut Vec<i64>, s: usize, frames: &[sessgen::F]) {
    let mut b = Vec::new(); for f in frames { b.extend(sessgen::frame_bytes(f)); }
    c.push(1); c.push(s as i64); c.push(b.len() as i64); c.extend(b.iter().map(|x| *x as i64));
}

pub fn gen(o: &Opts, sink: &mut dyn FnMut(Vec<i64>, String)) {
    let mut k: u64 = 0;
    macro_rules! put { ($c:expr) => {{ k += 1; if mine(o, k) { sink($c, String::new()); } }}; }
    // compatibility: every (major, minor) pair, several patch levels
    for ma in 0..=255i64 { for mi in 0..=255i64 {
        if !o.tier_thorough && (ma * 256 + mi) % 5 != 0 && !(ma == 3 && (mi <= 6 || (48..=60).contains(&mi))) && !(mi == 5) { continue; }
        put!(vec![9, ma, mi, (ma + mi) % 256]);
    } }
    // all 32 flag combinations x names; bursts around the capacity; 1-4 sessions
    let mut rng = Rng::new(o.seed, 14);
    for flags in 0..32u8 {
        for burst in [1usize, 15, 16, 17, 40] {
            let mut c = vec![1i64];
            let mut f = sessgen::session_frame(&mut rng, Some(flags)); if f.1.len() > 70 { f.1.truncate(70); }
            write_op(&mut c, 0, &[f]);
            c.push(2); c.push(burst as i64); for _ in 0..burst { sig(&mut rng, &mut c); }
            c.push(2); c.push(1); sig(&mut rng, &mut c);
            put!(c);
        }
    }
    let n = if o.tier_thorough { 6_000 } else { 600 };
    for _ in 0..n {
        let ns = 1 + rng.below(4) as usize;
        let mut c = vec![ns as i64];
        let len = 2 + rng.below(10);
        for _ in 0..len {
            match rng.below(7) {
                0 | 1 => { let s = rng.below(ns as u64) as usize;
                    let ff = if rng.chance(2, 3) { Some(*rng.pick(&[0x01u8, 0x11, 0x00, 0x10, 0x03])) } else { None };
                    let mut fs = vec![sessgen::session_frame(&mut rng, ff)];
                    if rng.chance(1, 3) { fs.push(sessgen::any_frame(&mut rng)); }
                    if rng.chance(1, 4) { fs.insert(0, sessgen::motion_frame(&mut rng)); }
                    for f in fs.iter_mut() { if f.1.is_empty() { f.1.push(0); } }
                    write_op(&mut c, s, &fs); }
                2 => { let s = rng.below(ns as u64) as usize; write_op(&mut c, s, &[sessgen::any_frame(&mut rng)]); }
                3 => { if rng.chance(1, 3) { c.push(3); c.push(rng.below(ns as u64) as i64); } else { c.push(2); c.push(1); sig(&mut rng, &mut c); } }
                _ => { let b = *rng.pick(&[1usize, 2, 3, 15, 16, 17, 18, 33, 40]); c.push(2); c.push(b as i64); for _ in 0..b { sig(&mut rng, &mut c); } }
            }
        }
        put!(c);
    }
}
