//! C04: framing. Complete streams of well-formed frames, all segmentations of short streams,
//! random segmentations and signal placements otherwise.
use crate::{sessgen::*, util::*, Opts};
pub use crate::session::exec;

pub fn gen(o: &Opts, sink: &mut dyn FnMut(Vec<i64>, String)) {
    let mut k: u64 = 0;
    // 1. short streams (two or three small frames): every segmentation into <= 3 writes, with and without a signal
    let n_short = if o.tier_thorough { 12 } else { 3 };
    for j in 0..n_short {
        let mut rng = Rng::new(o.seed, 100 + j);
        let mut frames: Vec<F> = vec![];
        frames.push(if j % 3 == 0 { (0x77, stop_all_bytes()[..11].to_vec()) } else { control_frame(&mut rng) });
        frames.push((0x20, vec![0]));
        if j % 2 == 0 { frames.insert(0, (0x43, vec![0, 0, 3, 232, 0x10])); }
        let total: usize = frames.iter().map(frame_len).sum();
        for a in 0..=total {
            for b in 0..=(total - a) {
                k += 1;
                if !mine(o, k) { continue; }
                let sigs: Vec<i64> = match (a + b) % 3 { 0 => vec![], 1 => vec![0], _ => vec![0, 1] };
                sink(script_case(false, &frames, None, &[a as i64, b as i64], &sigs, 0), String::new());
            }
        }
    }
    // 1b. EVERY type code (the five command types included, with a payload size they do not accept): a 4-byte frame of that
    // type followed by a resume-all, the stream cut right after the header / inside the payload / at the frame boundary, a
    // signal published between the writes: whatever a type means, its payload is consumed as a whole and once
    for t in 0..=255u32 {
        for cut in [10i64, 12, 14] {
            k += 1;
            if !mine(o, k) { continue; }
            let frames: Vec<F> = vec![(t as u8, vec![0x4c, 0x58, 0x52, 3]), (0x20, vec![0])];
            sink(script_case(false, &frames, None, &[cut, 25 - cut], &[0, 1], 0), String::new());
        }
    }
    // 2. random frame lists, random segmentation, signals between writes
    let n = if o.tier_thorough { 120_000 } else { 12_000 };
    for j in 0..n {
        k += 1;
        if !mine(o, k) { continue; }
        let mut rng = Rng::new(o.seed, 1_000_000 + j);
        let nf = rng.below(7) as usize;
        let frames: Vec<F> = (0..nf).map(|_| any_frame(&mut rng)).collect();
        let total: usize = frames.iter().map(frame_len).sum();
        let cuts = random_cuts(&mut rng, total);
        let mut sigs = vec![];
        for i in 0..=cuts.len() { if rng.chance(1, 3) { sigs.push(i as i64); } }
        // one case in eight: a burst of 17..40 signals after one of the writes (queue overrun mid-stream)
        if rng.chance(1, 8) && !cuts.is_empty() { let at = rng.below(cuts.len() as u64) as i64; for _ in 0..(17 + rng.below(24)) { sigs.push(at); } }
        // one case in 150: the peer stalls for 1.2 s between two of the writes
        if rng.chance(1, 150) && !cuts.is_empty() { sigs.push(1000 + rng.below(cuts.len() as u64) as i64); }
        let endmode = rng.below(3) as i64;
        sink(script_case(false, &frames, None, &cuts, &sigs, endmode), String::new());
    }
}
