//! The real `NetworkAuthority` over the emulated CAN bus (feature `verif`), driven step by step.
//! case = [addr, mfr, finst, ecu, func, vs, vsi, ig, ndrivers, (key da has_sa sa tkind)*, events...]
//!   key: 1 laixer/hcu 2 laixer/vcu 3 j1939/ecu 4 kübler/encoder 5 kübler/inclinometer 6 j1939/ecm 7 volvo/d7e 0 unknown
//!   tkind: 0 none | 1 never (u64::MAX) | 2 zero | 3 short (150 ms)
//!   events: 1 can_id dlc b0..b7 (inject + recv) | 2 (on_tick) | 3 <motion> | 7 k (on_command other) | 4 ms (wait) | 5 (setup) | 6 (teardown)
//!           | 8 <motion> (on_command while every socket write fails) | 9 <motion> (on_command while the bus is stalled for 60 ms)
//! obs  = [nevents, per event: frames.., nsignals, signals..]
use crate::{bus::*, wire::*};
use glonax::core::Object;
use glonax::runtime::NetworkService;
use glonax::service::{NetworkAuthority, NetworkConfig};
use std::sync::atomic::{AtomicUsize, Ordering};
use tokio::sync::broadcast;

static NEXT_IF: AtomicUsize = AtomicUsize::new(0);

pub const VENDOR_PRODUCT: [(&str, &str); 8] = [("acme", "widget"), ("laixer", "hcu"), ("laixer", "vcu"), ("j1939", "ecu"),
    ("kübler", "encoder"), ("kübler", "inclinometer"), ("j1939", "ecm"), ("volvo", "d7e")];
pub const SHORT_TIMEOUT_MS: u64 = 150;

pub fn config_toml(iface: &str, c: &[i64]) -> (String, usize) {
    let n = c[8] as usize;
    let mut s = format!("interface = \"{}\"\naddress = {}\ndriver = [\n", iface, c[0]);
    for k in 0..n {
        let b = 9 + 5 * k;
        let (v, p) = VENDOR_PRODUCT[(c[b] as usize).min(7)];
        s += &format!("  {{ da = {}, ", c[b + 1]);
        if c[b + 2] != 0 { s += &format!("sa = {}, ", c[b + 3]); }
        match c[b + 4] { 1 => s += &format!("timeout = {}, ", i64::MAX), 2 => s += "timeout = 0, ", 3 => s += &format!("timeout = {}, ", SHORT_TIMEOUT_MS), _ => {} }
        s += &format!("vendor = \"{}\", product = \"{}\" }},\n", v, p);
    }
    s += "]\n[name]\n";
    s += &format!("manufacturer_code = {}\nfunction_instance = {}\necu_instance = {}\nfunction = {}\nvehicle_system = {}\nvehicle_system_instance = {}\nindustry_group = {}\n",
        c[1], c[2], c[3], c[4], c[5], c[6], c[7]);
    (s, 9 + 5 * n)
}

pub fn enc_signal(o: &Object, out: &mut Vec<i64>) {
    match o {
        Object::ModuleStatus(s) => {
            out.push(7); out.push(s.name.len() as i64); out.extend(s.name.as_bytes().iter().map(|b| *b as i64));
            out.push(s.state as u8 as i64);
            use glonax::core::ModuleError::*;
            match s.error { None => { out.push(0); out.push(0); } Some(e) => { out.push(1); out.push(match e { InvalidConfiguration => 0, VersionMismatch => 1, CommunicationTimeout => 2, GenericCommunicationError => 3, IOError => 4 }); } }
        }
        Object::Motion(m) => { out.push(3); enc_motion(out, m); }
        Object::Engine(e) => out.extend([2, e.driver_demand as i64, e.actual_engine as i64, e.rpm as i64, e.state as u8 as i64]),
        Object::Rotator(r) => out.extend([5, r.source as i64, (r.reference == glonax::core::RotationReference::Relative) as i64, 1]),
        Object::Control(_) => out.push(4), Object::Target(_) => out.push(6),
    }
}

pub fn exec(c: &[i64]) -> Vec<i64> {
    let expanded: Vec<i64>;
    let c = if c[0] == -21 { expanded = vec![39, 0, 2, 1, 255, 5, 5, 3, 1, 4, c[1], 0, 0, 0, 5, 2]; &expanded[..] } else { c };
    // Scripts with the short (150 ms) receive timeout depend on the wall clock: if the machine stalls the harness for tens of
    // milliseconds inside a step that should take none (overload), the unit times out although the script says it has not
    // been silent. Such a run says nothing about the code: it is repeated (up to four times) before its observation is used.
    let has_short = { let n = c.get(8).copied().unwrap_or(0).max(0) as usize; (0..n).any(|k| c.get(9 + 5 * k + 4) == Some(&3)) };
    let mut last = vec![-1];
    for _attempt in 0..4 {
        OVERRUN.with(|o| o.set(false));
        let r = std::panic::catch_unwind(|| run(c));
        last = r.unwrap_or_else(|_| vec![-1]);
        if !(has_short && OVERRUN.with(|o| o.get())) { break; }
    }
    last
}

thread_local! { static OVERRUN: std::cell::Cell<bool> = std::cell::Cell::new(false); }
/// a step that waits for nothing took longer than this: the harness was stalled
const STEP_SLACK: std::time::Duration = std::time::Duration::from_millis(40);

#[path = "/repo/glonax-server/src/config.rs"]
#[allow(dead_code)]
mod server_config;

/// the k-th [[j1939]] network of the shipped example configuration, loaded by the real
/// `glonax::from_file` into the server's real `Config`
pub fn shipped_network(k: usize) -> Option<NetworkConfig> {
    let cfg: server_config::Config = glonax::from_file("/repo/contrib/etc/glonax.conf").ok()?;
    cfg.j1939.get(k).cloned()
}

fn run(c: &[i64]) -> Vec<i64> {
    let (cfg, iface, mut i): (NetworkConfig, String, usize) = if c[0] == -20 {
        match shipped_network(c[1] as usize) { Some(n) => { let ifc = n.interface.clone(); (n, ifc, 2) } None => return vec![-2] }
    } else {
        let iface = format!("a{}t{:?}", NEXT_IF.fetch_add(1, Ordering::SeqCst), std::thread::current().id()).replace(['(', ')', 'T', 'h', 'r', 'e', 'd', 'I'], "");
        let (toml_s, i) = config_toml(&iface, c);
        match toml::from_str(&toml_s) { Ok(c) => (c, iface, i), Err(_) => return vec![-2] }
    };
    let rt = tokio::runtime::Builder::new_current_thread().enable_all().build().unwrap();
    let mut bus = Bus::new(&iface);
    bus.set_forward(false);
    // the three handles Runtime::schedule_net_service works with: the instance (setup, recv, teardown),
    // a clone for the tick task and a clone for the command task, sharing the driver contexts
    let (mut auth, mut auth_tick, mut auth_cmd) = {
        let _g = rt.enter();
        let a = NetworkAuthority::new(cfg);
        let t = a.clone();
        let c = a.clone();
        (a, t, c)
    };
    let (signal_tx, mut signal_rx) = broadcast::channel::<Object>(4096);
    let mut out: Vec<i64> = Vec::new();
    let mut n = 0i64;
    while i < c.len() {
        let ev = c[i];
        let t_ev = std::time::Instant::now();
        let mut intended = std::time::Duration::ZERO;
        rt.block_on(async {
            match ev {
                1 => {
                    let data: Vec<u8> = c[i + 3..i + 11].iter().map(|b| *b as u8).collect();
                    bus.inject(&raw_frame(c[i + 1] as u32, c[i + 2] as u8, &data));
                    if tokio::time::timeout(std::time::Duration::from_millis(300), auth.recv(signal_tx.clone())).await.is_err() { intended = std::time::Duration::from_millis(300); }
                    i += 11;
                }
                2 => { auth_tick.on_tick(signal_tx.clone()).await; i += 1; }
                10 => {
                    // a control cycle during which the interface refuses every write (link down, ENOBUFS)
                    bus.fail_sends();
                    auth_tick.on_tick(signal_tx.clone()).await;
                    bus.unfail_sends();
                    i += 1;
                }
                3 => { let (m, used) = dec_motion(&c[i + 1..]).unwrap(); auth_cmd.on_command(&Object::Motion(m)).await; i += 1 + used; }
                8 => {
                    // the command is accepted but every socket write fails
                    let (m, used) = dec_motion(&c[i + 1..]).unwrap();
                    bus.fail_sends();
                    auth_cmd.on_command(&Object::Motion(m)).await;
                    bus.unfail_sends();
                    i += 1 + used;
                }
                9 => {
                    // the bus stops draining, the command is accepted, 60 ms later the bus recovers: the
                    // writes wait for room and every frame arrives, in order
                    let (m, used) = dec_motion(&c[i + 1..]).unwrap();
                    bus.congest();
                    let flag = bus.pause_flag();
                    let h = std::thread::spawn(move || { std::thread::sleep(std::time::Duration::from_millis(60)); flag.store(false, std::sync::atomic::Ordering::SeqCst); });
                    auth_cmd.on_command(&Object::Motion(m)).await;
                    let _ = h.join();
                    intended = std::time::Duration::from_millis(60);
                    i += 1 + used;
                }
                7 => { auth_cmd.on_command(&other_object(c[i + 1])).await; i += 2; }
                4 => { intended = std::time::Duration::from_millis(c[i + 1] as u64); tokio::time::sleep(intended).await; i += 2; }
                5 => { auth.setup().await; i += 1; }
                6 => { auth.teardown().await; i += 1; }
                _ => { i = c.len(); }
            }
        });
        if t_ev.elapsed() > intended + STEP_SLACK { OVERRUN.with(|o| o.set(true)); }
        n += 1;
        let frames: Vec<j1939::Frame> = bus.pump().iter().map(|raw| {
            let id = u32::from_le_bytes([raw[0], raw[1], raw[2], raw[3]]) & 0x1fffffff;
            let mut d = raw[8..8 + (raw[4] as usize).min(8)].to_vec();
            // the time/date reply carries the wall clock: its payload is not compared
            if (id >> 8) & 0xffff == 65254 { for x in d.iter_mut() { *x = 0; } }
            mk_frame(id, &d)
        }).collect();
        enc_frames(&mut out, &frames);
        let mut sigs: Vec<i64> = Vec::new(); let mut ns = 0i64;
        while let Ok(o) = signal_rx.try_recv() { enc_signal(&o, &mut sigs); ns += 1; }
        out.push(ns); out.extend(sigs);
    }
    let mut o = vec![n]; o.extend(out); o
}
