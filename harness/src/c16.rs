//! C16: the real `glonaxd` binary (built from /repo with `--features glonax/verif`) as a black box on
//! the emulated bus: SIGTERM / SIGINT at several moments, with clients attached and during a command
//! burst. case = [cfg, delay_ms, nclients, burst, signal]; obs = [exit_ok, within_5s, nhcu, hcu_reset.., frames_after_exit]
use crate::{bus::*, util::*, Opts};
use std::io::Write;
use std::os::unix::net::UnixStream;
use std::time::{Duration, Instant};

const GLONAXD: &str = "/verif/.build/cargo-repo/debug/glonaxd";

/// (interface index, drivers as (vendor, product, da)) per configuration kind
fn networks(cfg: i64) -> Vec<Vec<(&'static str, &'static str, u8)>> {
    match cfg {
        // cfg 8: the receive socket reports one receive error (after a frame has been received) before the request arrives
        0 | 8 | 10 => vec![vec![("laixer", "hcu", 0x4a)]],
        1 => vec![vec![("kübler", "encoder", 0x6a), ("kübler", "encoder", 0x6b), ("kübler", "encoder", 0x6c), ("kübler", "encoder", 0x6d), ("kübler", "inclinometer", 0x7a)],
                  vec![("volvo", "d7e", 0x00), ("laixer", "vcu", 0x12), ("laixer", "hcu", 0x4a)]],
        // cfg 7: the same network, but the interface is dead (every write fails) from just before the termination request on
        2 | 7 => vec![vec![("laixer", "hcu", 0x4a), ("kübler", "encoder", 0x6a), ("laixer", "hcu", 0x4b)]],
        3 => vec![vec![("kübler", "inclinometer", 0x7a), ("j1939", "ecu", 0x20)]],
        // cfg 9: the engine's network stops draining for good before the request (a cycle is parked in a write); the
        // hydraulic unit's network is healthy: the parked cycle is abandoned, the hydraulic unit gets its reset, exit in time
        9 => vec![vec![("laixer", "hcu", 0x4a)], vec![("volvo", "d7e", 0x00)]],
        _ => vec![vec![("laixer", "hcu", 0x4a), ("laixer", "vcu", 0x12)]],   // cfg 4: with 100 ms timeouts (silent units); cfg 5: congested bus at start-up; cfg 6: bus stalled for 300 ms right at the signal
    }
}

struct Idle;
impl glonax::runtime::Service<glonax::runtime::NullConfig> for Idle {
    fn new(_: glonax::runtime::NullConfig) -> Self { Idle }
    async fn wait_io_sub(&mut self, _command_tx: glonax::runtime::CommandSender, _signal_rx: glonax::runtime::SignalReceiver) { std::future::pending::<()>().await }
}

/// cfg 12: the runtime as glonaxd assembles it, in-process, with the termination request arriving DURING start-up:
/// moment 0 = after the shutdown handler is registered and before any service is scheduled, 1 = between the services,
/// 2 = after all of them (the ordinary case). Whatever was started must be stopped, the wait must end, nothing may follow.
fn inproc(c: &[i64]) -> Vec<i64> {
    let moment = c.get(1).copied().unwrap_or(2);
    let iface = format!("q{}m{}", std::process::id(), moment);
    let mut bus = Bus::new(&iface);
    bus.set_forward(false);
    let toml_s = format!("interface = \"{}\"\naddress = 39\ndriver = [\n  {{ da = 74, vendor = \"laixer\", product = \"hcu\" }},\n]\n[name]\nmanufacturer_code = 0\nfunction_instance = 2\necu_instance = 1\nfunction = 255\nvehicle_system = 5\nvehicle_system_instance = 5\nindustry_group = 3\n", iface);
    let Ok(cfg) = toml::from_str::<glonax::service::NetworkConfig>(&toml_s) else { return vec![-2] };
    let rt = tokio::runtime::Builder::new_current_thread().enable_all().build().unwrap();
    let done = rt.block_on(async {
        // the process-wide handler exists before anything is raised (tokio installs it with the first listener)
        let _guard = tokio::signal::unix::signal(tokio::signal::unix::SignalKind::terminate()).unwrap();
        let settle = || async { for _ in 0..5 { for _ in 0..50 { tokio::task::yield_now().await; } tokio::time::sleep(Duration::from_millis(2)).await; } };
        let mut runtime = glonax::Runtime::default();
        runtime.register_shutdown_signal();
        settle().await;
        if moment == 0 { unsafe { libc::raise(libc::SIGTERM); } settle().await; }
        runtime.schedule_io_sub_service::<Idle, glonax::runtime::NullConfig>(glonax::runtime::NullConfig {});
        if moment == 1 { unsafe { libc::raise(libc::SIGTERM); } settle().await; }
        runtime.schedule_net_service::<glonax::service::NetworkAuthority, glonax::service::NetworkConfig>(cfg, Duration::from_millis(10));
        if moment >= 2 { tokio::time::sleep(Duration::from_millis(40)).await; unsafe { libc::raise(libc::SIGTERM); } }
        tokio::time::timeout(Duration::from_secs(3), async { runtime.wait_for_shutdown().await; runtime.wait_for_tasks().await; }).await.is_ok()
    });
    let frames = bus.pump();
    let n = frames.iter().filter(|r| { let id = u32::from_le_bytes([r[0], r[1], r[2], r[3]]) & 0x1fffffff;
        (id >> 8) & 0xffff == (45824 | 74) && r[4] == 5 && r[8..13] == [b'Z', b'C', 0xff, 0xff, 0x01] }).count();
    std::thread::sleep(Duration::from_millis(50));
    let late = bus.pump().len() as i64;
    drop(rt);
    vec![1, done as i64, 1, n.min(1) as i64, late]
}

pub fn exec(c: &[i64]) -> Vec<i64> {
    if c[0] == 12 { let c2 = c.to_vec(); return std::panic::catch_unwind(move || inproc(&c2)).unwrap_or_else(|_| vec![-1]); }
    let (cfg, delay, nclients, burst, sig) = (c[0], c[1] as u64, c[2] as usize, c[3] as usize, c[4] as i32);
    let nets = networks(cfg);
    let tag = format!("{}x{:?}", std::process::id(), std::thread::current().id()).replace(['(', ')', 'T', 'h', 'r', 'e', 'a', 'd', 'I'], "");
    let work = std::env::temp_dir().join(format!("c16-{}", tag)); let _ = std::fs::create_dir_all(&work);
    let sock = work.join("g.sock"); let _ = std::fs::remove_file(&sock);
    let mut buses: Vec<Bus> = Vec::new();
    let mut toml = format!("mode = \"normal\"\n[unix_listener]\npath = \"{}\"\n[machine]\nid = \"d55bcd75-8d30-49af-ac18-ee7cbce7822f\"\ntype = \"Excavator\"\nmodel = \"V\"\nserial = \"S\"\n", sock.display());
    for (i, net) in nets.iter().enumerate() {
        let iface = format!("z{}n{}", tag, i);
        buses.push(Bus::new(&iface));
        toml += &format!("[[j1939]]\ninterface = \"{}\"\naddress = 0x27\ndriver = [\n", iface);
        for (v, p, da) in net {
            if cfg == 4 { toml += &format!("  {{ da = {}, timeout = 100, vendor = \"{}\", product = \"{}\" }},\n", da, v, p); }
            else { toml += &format!("  {{ da = {}, vendor = \"{}\", product = \"{}\" }},\n", da, v, p); }
        }
        toml += "]\n[j1939.name]\nmanufacturer_code = 0\nfunction_instance = 2\necu_instance = 1\nfunction = 255\nvehicle_system = 5\nvehicle_system_instance = 5\nindustry_group = 3\n";
    }
    let cfgp = work.join("g.conf"); std::fs::write(&cfgp, toml).unwrap();
    let congested = cfg == 5;
    if congested { for b in &buses { b.congest(); } }
    let mut child = match std::process::Command::new(GLONAXD).arg("-c").arg(&cfgp).arg("--quiet")
        .env("GLONAX_VERIF_BUS", bus_dir()).stdout(std::process::Stdio::null()).stderr(std::process::Stdio::null()).spawn() {
        Ok(c) => c, Err(_) => return vec![-2] };
    // up: the socket exists and every network has put its address claim on the bus
    let t_up = Instant::now();
    let mut seen = vec![false; buses.len()];
    while t_up.elapsed() < Duration::from_secs(5) {
        if congested { if sock.exists() { std::thread::sleep(Duration::from_millis(40)); break; } }
        else {
            for (i, b) in buses.iter_mut().enumerate() { if !b.pump().is_empty() { seen[i] = true; } }
            if sock.exists() && seen.iter().all(|x| *x) { break; }
        }
        std::thread::sleep(Duration::from_millis(2));
    }
    let mut clients: Vec<UnixStream> = Vec::new();
    for k in 0..nclients {
        if let Ok(mut s) = UnixStream::connect(&sock) {
            let mut f = crate::session::header(0x10, 2); f.extend([if k % 2 == 0 { 0x10 } else { 0x01 }, b'c']); let _ = s.write_all(&f);
            clients.push(s);
        }
    }
    // optional 6th field: what the hydraulic units report about themselves before the request arrives
    // (1 = motion locked, 2 = unlocked, 3 = locked with an error state): units that talk get their reset like silent ones
    let hst = c.get(5).copied().unwrap_or(0);
    if hst != 0 && !congested {
        for (i, net) in nets.iter().enumerate() { for (_, p, da) in net { if *p == "hcu" {
            let id = crate::units::id_of(6, 65288, 0, *da as u32) | 0x8000_0000;
            let data = [if hst == 3 { 0xfa } else { 0x14 }, 0xff, if hst == 2 { 0 } else { 1 }, 0xff, 0, 0, 0, 0];
            for _ in 0..2 { buses[i].inject(&raw_frame(id, 8, &data)); std::thread::sleep(Duration::from_millis(3)); }
        } } }
    }
    // optional 7th field: traffic from the ends of the address space before the request - a node without an address (0xFE) asking
    // who is there and announcing that it cannot claim one, frames from 0xFF and 0x00, a broadcast announce: none of it concerns
    // the teardown
    let foreign = c.get(6).copied().unwrap_or(0);
    if foreign != 0 && !congested {
        for (i, _) in nets.iter().enumerate() {
            for src in [0xfeu32, 0xff, 0x00] {
                let req = crate::units::id_of(6, 59904, 0xff, src) | 0x8000_0000;
                buses[i].inject(&raw_frame(req, 3, &[0x00, 0xee, 0x00]));
                let claim = crate::units::id_of(6, 60928, 0xff, src) | 0x8000_0000;
                buses[i].inject(&raw_frame(claim, 8, &[1, 2, 3, 4, 5, 6, 7, 8]));
                let bam = crate::units::id_of(7, 60416, 0xff, src) | 0x8000_0000;
                buses[i].inject(&raw_frame(bam, 8, &[32, 9, 0, 2, 0xff, 0xeb, 0xfe, 0]));
                let pdu2 = crate::units::id_of(6, 65226, 0, src) | 0x8000_0000;
                buses[i].inject(&raw_frame(pdu2, 8, &[0; 8]));
                std::thread::sleep(Duration::from_millis(2));
            }
        }
    }
    std::thread::sleep(Duration::from_millis(delay));
    if burst > 0 { if let Some(s) = clients.first_mut() {
        for j in 0..burst { let mut f = crate::session::header(0x20, 3); let v = (j as u16).to_be_bytes(); f.extend([5, v[0], v[1]]); let _ = s.write_all(&f); }
    } }
    if !congested { for b in buses.iter_mut() { b.pump(); } }
    // cfg 6: the bus stops draining just before the termination request and recovers 300 ms later - far
    // inside the stop budget; the teardown frames must still arrive
    let stalled = cfg == 6;
    if stalled { for b in &buses { b.congest(); } std::thread::sleep(Duration::from_millis(30)); }
    // cfg 8: a frame from the unit, then ONE receive error on the receive socket, then the request: the receive task
    // logs the error and lives on, teardown happens as always
    if cfg == 8 {
        let id = crate::units::id_of(6, 65288, 0, 0x4a) | 0x8000_0000;
        buses[0].inject(&raw_frame(id, 8, &[0x14, 0xff, 0, 0xff, 0, 0, 0, 0]));
        std::thread::sleep(Duration::from_millis(20));
        let _ = buses[0].rx_error_on_first_endpoint();
        std::thread::sleep(Duration::from_millis(30));
        buses[0].pump();
    }
    // cfg 9: network 1 stops draining and never recovers
    if cfg == 9 { buses[1].congest(); std::thread::sleep(Duration::from_millis(150)); }
    if cfg == 10 { buses[0].congest(); std::thread::sleep(Duration::from_millis(150)); }
    // cfg 7: the interface goes away for good (what BindsTo=...can0.device stops the unit for): nothing can be
    // delivered any more, the daemon still has to stop cleanly inside the budget
    if cfg == 7 { for b in &buses { b.fail_sends(); } std::thread::sleep(Duration::from_millis(20)); }
    let t0 = Instant::now();
    unsafe { libc::kill(child.id() as i32, sig); }
    if stalled { std::thread::sleep(Duration::from_millis(300)); for b in &buses { b.release(); } }
    // a bus that was congested while the daemon started (the tasks are still inside setup) drains shortly after the signal
    if congested { std::thread::sleep(Duration::from_millis(150)); for b in &buses { b.release(); } }
    let mut status = None;
    while t0.elapsed() < Duration::from_secs(6) {
        if let Ok(Some(st)) = child.try_wait() { status = Some(st); break; }
        std::thread::sleep(Duration::from_millis(3));
    }
    let took = t0.elapsed();
    if cfg == 9 { buses[1].release(); std::thread::sleep(Duration::from_millis(20)); }
    if cfg == 10 { buses[0].release(); std::thread::sleep(Duration::from_millis(20)); }
    if status.is_none() { let _ = child.kill(); let _ = child.wait(); }
    // frames after the signal: one motion reset (PGN 45824, 'Z' 'C' FF FF 01) per hydraulic unit
    let mut out = vec![status.map(|s| s.success()).unwrap_or(false) as i64, (status.is_some() && took < Duration::from_secs(5)) as i64];
    let mut resets: Vec<i64> = Vec::new();
    for (i, net) in nets.iter().enumerate() {
        let frames = buses[i].pump();
        if std::env::var("C16_DEBUG").is_ok() { for r in &frames { eprintln!("after-signal frame: {:02x?}", r); } }
        for (_, p, da) in net { if *p == "hcu" {
            let n = frames.iter().filter(|r| { let id = u32::from_le_bytes([r[0], r[1], r[2], r[3]]) & 0x1fffffff;
                (id >> 8) & 0xffff == (45824 | *da as u32) && r[4] == 5 && r[8..13] == [b'Z', b'C', 0xff, 0xff, 0x01] }).count();
            resets.push(n.min(1) as i64);
        } }
    }
    out.push(resets.len() as i64); out.extend(resets);
    std::thread::sleep(Duration::from_millis(40));
    let mut late = 0i64; for b in buses.iter_mut() { late += b.pump().len() as i64; }
    out.push(late);
    drop(clients); let _ = std::fs::remove_dir_all(&work);
    out
}

pub fn gen(o: &Opts, sink: &mut dyn FnMut(Vec<i64>, String)) {
    let mut k: u64 = 0;
    let mut rng = Rng::new(o.seed, 16);
    // the request during start-up (in-process runtime): before any service, between the services, after all of them
    for moment in [0i64, 1, 2] { k += 1; if mine(o, k) { sink(vec![12, moment], String::new()); } }
    let n = if o.tier_thorough { 300 } else { 30 };
    for j in 0..n {
        k += 1; if !mine(o, k) { continue; }
        let cfg = (j % 10) as i64;
        let delay = *rng.pick(&[0i64, 5, 50, 500, 12, 27]);
        let delay = if !o.tier_thorough && delay == 500 && j % 8 != 0 { 50 } else { delay };
        let delay = if cfg == 4 { 300 } else { delay };     // silent units: longer than their timeout
        let nclients = (j / 4 % 4) as i64;
        let burst = if nclients > 0 && j % 3 == 0 { *rng.pick(&[10i64, 40, 200]) } else { 0 };
        let sig = if j % 5 == 4 { 2 } else { 15 };
        let hst = [0i64, 1, 2, 1, 3][(j % 5) as usize];
        let foreign = (j % 3 == 1) as i64;
        sink(vec![cfg, delay, nclients, burst, sig, hst, foreign], String::new());
    }
}
