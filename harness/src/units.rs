//! C06 / C11 / C12 (driver level): every driver kind stepped through J1939Unit::try_recv with a
//! fresh NetDriverContext on one 8-byte frame.
//! case = [kind, da, sa, id, b0..b7]; kinds: 1 hcu 2 vcu 3 ecu 4 encoder 5 inclinometer 6 ems 7 volvo d7e
//! obs  = [-1] | [err, rx_count, rx_last(0 | 1 obj), nsigs, objs...]
use crate::{util::*, wire::*, Opts};
use glonax::core::{Object, RotationReference, Rotator};
use glonax::driver::net::ecu::ElectronicControlUnit;
use glonax::driver::{EngineManagementSystem, HydraulicControlUnit, KueblerEncoder, KueblerInclinometer, VehicleControlUnit, VolvoD7E};
use glonax::runtime::{J1939Unit, J1939UnitError, NetDriverContext};

pub fn make(kind: i64, da: u8, sa: u8) -> Option<Box<dyn J1939Unit>> {
    Some(match kind {
        1 => Box::new(HydraulicControlUnit::new("vcan0", da, sa)),
        2 => Box::new(VehicleControlUnit::new("vcan0", da, sa)),
        3 => Box::new(ElectronicControlUnit::new("vcan0", da, sa)),
        4 => { if !(0x6a..=0x6d).contains(&da) { return None; } Box::new(KueblerEncoder::new("vcan0", da, sa)) }
        5 => Box::new(KueblerInclinometer::new("vcan0", da, sa)),
        6 => Box::new(EngineManagementSystem::new("vcan0", da, sa)),
        7 => Box::new(VolvoD7E::new("vcan0", da, sa)),
        _ => return None,
    })
}

pub fn err_code(r: &Result<(), J1939UnitError>) -> i64 {
    match r {
        Ok(()) => 0,
        Err(J1939UnitError::MessageTimeout) => 1, Err(J1939UnitError::InvalidConfiguration) => 2,
        Err(J1939UnitError::VersionMismatch) => 3, Err(J1939UnitError::BusError) => 4,
        Err(J1939UnitError::SensorError) => 5, Err(J1939UnitError::HardwareError) => 6,
        Err(J1939UnitError::UnknownState) => 7, Err(J1939UnitError::IOError(_)) => 8,
    }
}

fn mat_close(r: &nalgebra::Rotation3<f32>, m: [[f64; 3]; 3], tol: f64) -> bool {
    for i in 0..3 { for j in 0..3 { if !((r[(i, j)] as f64 - m[i][j]).abs() < tol) { return false; } } }
    true
}

/// reference rotation of a sensor frame, per the device protocol (property C12), in f64
fn rotation_ok(kind: i64, da: u8, data: &[u8], rot: &Rotator) -> bool {
    match kind {
        4 => {
            let p = if data[0..4] == [0xff; 4] { 0u32 } else { u32::from_le_bytes([data[0], data[1], data[2], data[3]]) };
            // -(p/1000 - offset): the implementation evaluates this scalar in f32; the same IEEE operations
            // are used here, the trigonometry is done in f64
            let offset: f32 = if da == 0x6b { 60_f32.to_radians() } else { 0.0 };
            let a = (((p as f32) / 1000.0) - offset) * -1.0;
            let exact = -((p as f64) / 1000.0 - if da == 0x6b { std::f64::consts::PI / 3.0 } else { 0.0 });
            // the f32 scalar is within the IEEE rounding bound of the exact value (no false alarm for huge positions)
            if (a as f64 - exact).abs() > 4.0 * f32::EPSILON as f64 * exact.abs().max(1.0) { return false; }
            let (s, c) = (a as f64).sin_cos();
            let m = if da == 0x6a { [[c, -s, 0.0], [s, c, 0.0], [0.0, 0.0, 1.0]] } else { [[c, 0.0, s], [0.0, 1.0, 0.0], [-s, 0.0, c]] };
            rot.reference == RotationReference::Relative && mat_close(&rot.rotator, m, 2e-4)
        }
        5 => {
            let sl = |lo: u8, hi: u8| -> f64 { if lo == 0xff && hi == 0xff { 0.0 } else { (i16::from_le_bytes([lo, hi]) as f64) / 10.0 } };
            let roll = sl(data[0], data[1]).to_radians(); let pitch = sl(data[2], data[3]).to_radians();
            let (sr, cr) = roll.sin_cos(); let (sp, cp) = pitch.sin_cos();
            // Rz(0) * Ry(pitch) * Rx(roll)
            let m = [[cp, sp * sr, sp * cr], [0.0, cr, -sr], [-sp, cp * sr, cp * cr]];
            rot.reference == RotationReference::Absolute && mat_close(&rot.rotator, m, 2e-4)
        }
        _ => false,
    }
}

pub fn enc_object(o: &Object, kind: i64, da: u8, data: &[u8], out: &mut Vec<i64>) {
    match o {
        Object::Motion(m) => { out.push(3); enc_motion(out, m); }
        Object::Engine(e) => out.extend([2, e.driver_demand as i64, e.actual_engine as i64, e.rpm as i64, e.state as u8 as i64]),
        Object::Rotator(r) => out.extend([5, r.source as i64, (r.reference == RotationReference::Relative) as i64, rotation_ok(kind, da, data, r) as i64]),
        Object::Control(_) => out.push(4), Object::Target(_) => out.push(6), Object::ModuleStatus(_) => out.push(7),
    }
}

pub fn exec(c: &[i64]) -> Vec<i64> {
    if c[0] == 200 { return crate::c17::exec(&c[1..]); }
    // 300 kind da sa id1 d1[8] id2 d2..: the SAME driver context sees frame 1, then frame 2; what is reported is frame 2's
    let (first, c) = if c[0] == 300 && c.len() >= 13 {
        let mut rest = c[1..4].to_vec(); rest.extend(&c[13..]);
        (Some((c[4] as u32, c[5..13].iter().map(|x| *x as u8).collect::<Vec<u8>>())), rest)
    } else { (None, c.to_vec()) };
    let c = &c[..];
    if c.len() < 4 { return vec![-2]; }
    let (kind, da, sa, id) = (c[0], c[1] as u8, c[2] as u8, c[3] as u32);
    let data: Vec<u8> = c[4..].iter().map(|x| *x as u8).collect();
    let r = std::panic::catch_unwind(|| {
        let unit = make(kind, da, sa)?;
        let mut ctx = NetDriverContext::default();
        if let Some((id1, d1)) = &first {
            let mut rx1 = Vec::new();
            let _ = unit.try_recv(&mut ctx, &mk_frame(*id1, d1), &mut rx1);
        }
        let frame = mk_frame(id, &data);
        let mut rx = Vec::new();
        let res = unit.try_recv(&mut ctx, &frame, &mut rx);
        #[cfg(has_rx_count)] let credited = ctx.rx_count() as i64;
        #[cfg(not(has_rx_count))] let credited = -7i64;
        let mut out = vec![err_code(&res), credited];
        match ctx.rx_last_message() { None => out.push(0), Some(m) => {
            out.push(1);
            let mut a = Vec::new(); enc_object(&m.object, kind, da, &data, &mut a);
            // in a history the last accepted object may stem from the first frame (the second one was not for this driver)
            if let (Some((_, d1)), Some(0), Some(5)) = (&first, a.last().copied(), a.first().copied()) {
                if res.is_ok() && rx.is_empty() { a.clear(); enc_object(&m.object, kind, da, d1, &mut a); }
            }
            out.extend(a);
        } }
        out.push(rx.len() as i64);
        for o in &rx { enc_object(o, kind, da, &data, &mut out); }
        Some(out)
    });
    match r { Ok(Some(o)) => o, Ok(None) => vec![-2], Err(_) => vec![-1] }
}

pub fn id_of(prio: u32, pgn: u32, ps: u32, sa: u32) -> u32 {
    if (pgn >> 8) & 0xff < 240 { (prio << 26) | ((pgn & 0x3ff00) << 8) | (ps << 8) | sa } else { (prio << 26) | (pgn << 8) | sa }
}

/// every parameter group some driver inspects, plus foreign PDU1 / PDU2 ones
pub const PGNS: [u32; 34] = [0, 45312, 45568, 45824, 40960, 41216, 59904, 60928, 61184, 61441, 61443, 61444, 65110, 65213, 65242,
    65243, 65247, 65248, 65252, 65257, 65259, 65262, 65263, 65264, 65266, 65269, 65270, 65271, 65288, 65450, 65451, 65254, 0xEF00, 65535];

fn cfg_for(kind: i64, j: u64) -> (i64, i64) {
    match kind {
        4 => ([0x6a, 0x6b, 0x6c, 0x6d][(j % 4) as usize], if j % 3 == 0 { 0x27 } else { 0x11 }),
        _ => ([0x4a, 0x00, 0x7a, 0x12, 0xee, 0x27][(j % 6) as usize], [0x27, 0x4a, 0xfe, 0x00][(j % 4) as usize]),
    }
}

/// mode 0: attribution sweep (C11), 1: boundary data (C06), 2: field sweeps (C12)
pub fn gen_mode(o: &Opts, mode: u32, sink: &mut dyn FnMut(Vec<i64>, String)) {
    let mut k: u64 = 0;
    macro_rules! put { ($c:expr) => {{ k += 1; if mine(o, k) { sink($c, String::new()); } }}; }
    let kinds = [1i64, 2, 3, 4, 5, 6, 7];
    let mut rng = Rng::new(o.seed, 60 + mode as u64);
    let typical = |pgn: u32, rng: &mut Rng| -> Vec<i64> {
        match pgn {
            // software identification: the vecraft triple, or - one time in two - J1939-71 style text: a field count and
            // '*'-delimited ASCII fields in every arrangement (count above / below the fields present, a delimiter in the last byte,
            // empty fields, no padding at all)
            65242 if rng.chance(1, 2) => { let mut d = vec![rng.below(6) as i64];
                for _ in 0..7 { d.push(match rng.below(6) { 0 | 1 => 42, 2 => 255, _ => *rng.pick(&[0x31i64, 0x2e, 0x32, 0x61, 0x62, 0x20]) }); } d }
            65242 => vec![1, 3, 2, 1, 42, 255, 255, 255],
            65288 => vec![*rng.pick(&[0x14i64, 0x16, 0xfa, 0xfb, 0x15, 0xff]), 255, rng.below(2) as i64, 255, 1, 2, 3, 4],
            // well-formed vecraft configuration messages ('Z','C' header): motion config (lock / reset
            // flags) and identification config - what the daemon itself, or anybody else, may send to a unit
            45824 if rng.chance(3, 4) => vec![90, 67, 255, *rng.pick(&[0i64, 1, 255]), *rng.pick(&[0i64, 1, 255]), 255, 255, 255],
            45312 if rng.chance(3, 4) => vec![90, 67, *rng.pick(&[0i64, 1, 255]), *rng.pick(&[0i64, 1, 255]), 255, 255, 255, 255],
            _ => (0..8).map(|_| match rng.below(5) { 0 => 0, 1 => 255, _ => rng.byte() as i64 }).collect(),
        }
    };
    if mode == 0 || mode == 1 {
        // all 256 sources x destination classes x every inspected PGN x each driver kind
        let src_step = if o.tier_thorough || mode == 0 { 1 } else { 5 };
        for kind in kinds {
            for (ci, _) in (0..3).enumerate() {
                let (da, sa) = cfg_for(kind, ci as u64);
                for pgn in PGNS {
                    let dests: Vec<u32> = if (pgn >> 8) & 0xff < 240 { vec![da as u32, sa as u32, 0xff, 0x33, 0xfe, 0x00] } else { vec![0] };
                    for ps in dests {
                        for src in (0..256u32).step_by(src_step) {
                            if !(o.tier_thorough) && mode == 0 && ci > 0 && src % 4 != 0 && src as i64 != da && src as i64 != sa { continue; }
                            let mut c = vec![kind, da, sa, id_of(6, pgn, ps, src) as i64];
                            if mode == 1 {
                                // per-byte boundary data at one offset, the rest typical
                                let mut d = typical(pgn, &mut rng);
                                let off = rng.below(8) as usize; d[off] = *rng.pick(&[0i64, 1, 0x7f, 0x80, 0xfe, 0xff]);
                                c.extend(d);
                            } else { c.extend(typical(pgn, &mut rng)); }
                            put!(c);
                        }
                    }
                }
            }
        }
    }
    if mode == 0 {
        // EVERY PDU format, not only the parameter groups the drivers inspect today (a driver that starts to decode one more group must
        // attribute it like the others): destination classes x sources (the unit, the daemon, a stranger, the null address) x payloads
        // that carry the daemon's or the unit's address in the places acknowledgments, requests and claims carry addresses
        let pf_step = 1;
        for kind in kinds {
            let (da, sa) = cfg_for(kind, 0);
            for pf in (0..256u32).step_by(pf_step) {
                let pgns: Vec<u32> = if pf < 240 { vec![pf << 8] } else { vec![pf << 8, (pf << 8) | 0xff, (pf << 8) | (da as u32 & 0xff)] };
                for pgn in pgns {
                    let dests: Vec<u32> = if pf < 240 { vec![sa as u32, 0xff, da as u32] } else { vec![0] };
                    for ps in dests {
                        for src in [da as u32, 0x99, 0xfe, sa as u32] {
                            if !o.tier_thorough && (pf + ps + src) % 2 == 1 && !(230..=239).contains(&pf) { continue; }
                            for variant in 0..3 {
                                let who = [sa, 0xff, da][variant];
                                let d: Vec<i64> = match variant {
                                    0 | 1 => vec![rng.below(4) as i64, rng.byte() as i64, 0xff, 0xff, who, 0xeb, 0xfe, 0x00],
                                    _ => vec![who, who, who, who, who, who, who, who],
                                };
                                let mut c = vec![kind, da, sa, id_of(6, pgn, ps, src) as i64]; c.extend(d);
                                put!(c);
                            }
                        }
                    }
                }
            }
        }
    }
    if mode == 1 {
        // the socket path: raw can_frames with every DLC 0..8 through CANSocket::recv + ControlNetwork::recv
        let nraw = if o.tier_thorough { 9_000 } else { 900 };
        for j in 0..nraw {
            let can_id = (rng.next() as u32 & 0x1fffffff) | 0x8000_0000;
            let dlc = (j % 9) as u8;
            let data: Vec<u8> = (0..8).map(|_| match rng.below(3) { 0 => 0, 1 => 0xff, _ => rng.byte() }).collect();
            let raw = crate::bus::raw_frame(can_id, dlc, &data);
            put!({ let mut c = vec![200, 3]; c.extend(raw.iter().map(|x| *x as i64)); c });
        }
        // from the unit itself: boundary value at every offset for every inspected PGN; all-FF (a padded DLC-0 frame); random data
        for kind in kinds { for ci in 0..2u64 {
            let (da, sa) = cfg_for(kind, ci);
            for pgn in PGNS {
                let ps = if (pgn >> 8) & 0xff < 240 { 0xff } else { 0 };
                let id = id_of(3, pgn, ps, da as u32) as i64;
                put!({ let mut c = vec![kind, da, sa, id]; c.extend([255i64; 8]); c });
                put!({ let mut c = vec![kind, da, sa, id]; c.extend([0i64; 8]); c });
                for off in 0..8 { for v in [0i64, 1, 0x14, 0x16, 0x2a, 0x7f, 0x80, 0xfa, 0xfb, 0xfe, 0xff] {
                    let mut d = typical(pgn, &mut rng); d[off] = v;
                    put!({ let mut c = vec![kind, da, sa, id]; c.extend(d); c });
                } }
                let n = if o.tier_thorough { 3000 } else { 60 };
                for _ in 0..n { put!({ let mut c = vec![kind, da, sa, id]; c.extend((0..8).map(|_| rng.byte() as i64)); c }); }
            }
        } }
    }
    if mode == 2 {
        let full = o.tier_thorough;
        // inclinometer: every 16-bit value of each slope word; status / orientation bytes
        for w in 0..=65535u32 {
            if !full && w % 8 != 0 && !(w < 64 || w > 65471 || (32700..32840).contains(&w)) { continue; }
            let (lo, hi) = ((w & 0xff) as i64, (w >> 8) as i64);
            put!(vec![5, 0x7a, 0x27, id_of(6, 65451, 0, 0x7a) as i64, lo, hi, 10, 0, 0, 0, 0, 0]);
            put!(vec![5, 0x7a, 0x27, id_of(6, 65451, 0, 0x7a) as i64, 250, 255, lo, hi, 20, 1, 0, 0]);
        }
        for b in 0..=255i64 { put!(vec![5, 0x7a, 0x27, id_of(6, 65451, 0, 0x7a) as i64, 1, 0, 2, 0, 0, 0, b, rng.byte() as i64]); }
        // encoder: all four addresses; status word sweep; position boundaries + samples
        for da in [0x6ai64, 0x6b, 0x6c, 0x6d] {
            let id = id_of(6, 65450, 0, da as u32) as i64;
            for w in 0..=65535u32 {
                if !full && w % 16 != 0 && !((60920..60940).contains(&w) || w < 8 || w > 65527) { continue; }
                put!(vec![4, da, 0x27, id, 0x10, 0x27, 0, 0, 0, 0, (w & 0xff) as i64, (w >> 8) as i64]);
            }
            let mut positions: Vec<u32> = vec![0, 1, 999, 1000, 1047, 3141, 3142, 6283, 6284, (1 << 24) - 1, 1 << 24, (1 << 24) + 1, 1 << 31, u32::MAX - 1, u32::MAX];
            let n = if full { 250_000 } else { 6_000 };
            for _ in 0..n { positions.push(if rng.chance(3, 4) { rng.below(7000) as u32 } else { rng.next() as u32 }); }
            for p in positions { let b = p.to_le_bytes(); put!(vec![4, da, 0x27, id, b[0] as i64, b[1] as i64, b[2] as i64, b[3] as i64, 0, 0, 0, 0]); }
        }
        // EEC1: rpm word x 16 starter nibbles x absent/present torque/demand classes, both engine drivers
        for kind in [6i64, 7] {
            let id = id_of(3, 61444, 0, 0x00) as i64;
            for raw in 0..=65535u32 {
                if !full && raw % 32 != 0 && !(raw < 16 || raw > 65500 || (3990..4010).contains(&raw) || (64240..64270).contains(&raw)) { continue; }
                for nib in 0..16i64 {
                    if !full && kind == 7 && nib % 3 != 0 { continue; }
                    let cls = (raw as u64 + nib as u64) % 4;
                    let (tm, dd, ae) = match cls { 0 => (0xffi64, 0xffi64, 0xffi64), 1 => (0x01, 125 + (raw % 130) as i64, 0xff), 2 => (0xf0, 0, 254), _ => (0x0e, 200, 130) };
                    put!(vec![kind, 0x00, 0x27, id, tm, dd, ae, (raw & 0xff) as i64, (raw >> 8) as i64, 0xff, 0xf0 | nib, 0xff]);
                }
            }
        }
        // histories of two frames on one driver context: what frame 2 means does not depend on frame 1.
        // EEC1: every ordered pair of starter nibbles x rpm classes (0, idle-ish, running, absent)
        for kind in [6i64, 7] {
            let id = id_of(3, 61444, 0, 0x00) as i64;
            let rpms = [0u32, 3200, 8000, 65535];
            for n1 in 0..16i64 { for n2 in 0..16i64 { for r1 in rpms { for r2 in rpms {
                if !full && kind == 7 && (n1 + n2) % 2 != 0 { continue; }
                let mut c = vec![300, kind, 0x00, 0x27, id, 0xf0, 130, 140, (r1 & 0xff) as i64, (r1 >> 8) as i64, 0xff, 0xf0 | n1, 0xff];
                c.extend([id, 0xf0, 130, 140, (r2 & 0xff) as i64, (r2 >> 8) as i64, 0xff, 0xf0 | n2, 0xff]);
                put!(c);
            } } } }
        }
        // every driver: random ordered pairs of frames from the unit itself over the groups anybody inspects
        let npairs = if full { 60_000 } else { 6_000 };
        for j in 0..npairs {
            let kind = kinds[(j % 7) as usize];
            let (da, sa) = cfg_for(kind, rng.below(6));
            let mut c = vec![300, kind, da, sa];
            for _ in 0..2 {
                let pgn = match kind {
                    1 | 2 | 3 if rng.chance(1, 2) => *rng.pick(&[65288u32, 65242, 64258, 45824, 45312]),
                    4 if rng.chance(2, 3) => 65450, 5 if rng.chance(2, 3) => 65451, 6 | 7 if rng.chance(2, 3) => 61444,
                    _ => *rng.pick(&PGNS) };
                let ps = if (pgn >> 8) & 0xff < 240 { *rng.pick(&[da as u32, sa as u32, 0xff]) } else { 0 };
                c.push(id_of(6, pgn, ps, da as u32) as i64);
                c.extend(typical(pgn, &mut rng));
            }
            put!(c);
        }
        // the same measurement frames from OTHER senders (the neighbouring encoders, a second engine, a second
        // hydraulic unit, strangers): the joint / engine / bank is identified by the sender - no measurement from this unit
        {
            let nfo = if full { 40_000 } else { 4_000 };
            for j in 0..nfo {
                let kind = [4i64, 4, 5, 6, 7, 1][(j % 6) as usize];
                let (da, sa) = cfg_for(kind, rng.below(6));
                let pgn = match kind { 4 => 65450u32, 5 => 65451, 6 | 7 => 61444, _ => 65288 };
                let other = loop { let o = match rng.below(4) { 0 => 0x6a + rng.below(4) as i64, 1 => (da + 1) % 256, 2 => *rng.pick(&[0x00i64, 0x01, 0x4a, 0x4b, 0x7a, 0x7b, 0x27, 0xfe, 0xff]), _ => rng.below(256) as i64 }; if o != da { break o; } };
                let mut c = vec![kind, da, sa, id_of(*rng.pick(&[3u32, 6]), pgn, 0, other as u32) as i64];
                c.extend(typical(pgn, &mut rng));
                put!(c);
            }
        }
        // hydraulic status: every (state, lock) byte pair
        for st in 0..=255i64 { for lk in 0..=255i64 {
            if !full && lk > 3 && lk < 254 && (st + lk) % 16 != 0 { continue; }
            put!(vec![1, 0x4a, 0x27, id_of(6, 65288, 0, 0x4a) as i64, st, 255, lk, 255, 0, 0, 0, 0]);
        } }
    }
}
