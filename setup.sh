#!/bin/sh
# MANIFEST.setup_cmd: build the Coq development, the harness and the extracted drivers, offline.
cd "$(dirname "$0")" && exec ./check --setup
