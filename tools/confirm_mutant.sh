#!/bin/bash
# usage: tools/confirm_mutant.sh Cxx A|B   — confirm a seeded change in the scratch worktree /tmp/wt/Cxx
# (applies, builds, existing tests pass, demo fails with it and passes without); on success stores it under seeded/.
P=$1; V=$2; M=/tmp/mut/$P/$V; W=/tmp/wt/$P
export CARGO_NET_OFFLINE=true
log=/tmp/mut/$P/$V/confirm.log; : > $log
cd $W || exit 2
git checkout -q -- . ; git clean -qfd -e target
demo=$(ls $M/demo/*.rs | head -1); name=$(basename $demo .rs)
feat=""; grep -q -- "--features verif" $M/demo/README.md && feat="--features verif"
pkg="-p glonax"; tdir=glonax-runtime/tests
grep -q -- "-p glonax-input" $M/demo/README.md && { pkg="-p glonax-input"; tdir=glonax-input/tests; }
grep -q -- "-p glonax-control" $M/demo/README.md && { pkg="-p glonax-control"; tdir=glonax-control/tests; }
grep -q -- "-p glonax-server" $M/demo/README.md && { pkg="-p glonax-server"; tdir=glonax-server/tests; }
res() { echo "$1" | tee -a $log; }
git apply $M/patch.diff 2>>$log || { res "FAIL apply"; exit 1; }
cargo build --workspace --offline >>$log 2>&1 || { res "FAIL build"; git checkout -q -- .; exit 1; }
cargo test --workspace --offline >>$log 2>&1 || { res "FAIL existing tests"; git checkout -q -- .; exit 1; }
mkdir -p $tdir; cp $M/demo/*.rs $tdir/
if timeout 900 cargo test $pkg $feat --offline --test $name >>$log 2>&1; then res "FAIL demo passes with change"; bad=1; else res "ok demo fails with change"; fi
git checkout -q -- .
if timeout 900 cargo test $pkg $feat --offline --test $name >>$log 2>&1; then res "ok demo passes without change"; else res "FAIL demo fails without change"; bad=1; fi
git clean -qfd -e target
[ -n "$bad" ] && exit 1
S=/verif/seeded/$P-$V; mkdir -p $S/demo; cp $M/patch.diff $S/; cp -r $M/demo/. $S/demo/
python3 - "$M/meta.json" "$S/meta.json" "$P" "$pkg $feat --test $name" <<'PY'
import json,sys
try: m=json.load(open(sys.argv[1]))
except Exception: m={}
out={"property":sys.argv[3],"summary":m.get("summary",""),"needs_to_manifest":m.get("needs_to_manifest",""),
 "files_changed":m.get("files_changed",[]),
 "confirmed_by_me":{"worktree":"/tmp/wt/"+sys.argv[3],"ran":["git apply patch.diff","cargo build --workspace --offline","cargo test --workspace --offline (all pass)",
   "cargo test "+sys.argv[4]+" --offline  -> fails with the change","git checkout -- . ; same command -> passes without the change"]}}
json.dump(out,open(sys.argv[2],"w"),indent=1)
PY
res "CONFIRMED $P-$V"
