"""Per-property registry used by ./check (rules, budgets, extra trusted-base lines)."""
HOOK_COMMITS = ['d17a021']
NOT_YET = {}

REGISTRY = {
    'C07': {
        'level_text': 'Theorem C07 (and C07_envelope, C07_never_panics) proves the envelope for ALL idle<=max, ALL integer speeds and all 48 '
                      'state/age combinations about the Gallina model of Governor::next_state; the model is tied to the code by exhaustive '
                      'differential execution over the property\'s whole finite domain (thorough) so theorem + agreement cover the implementation.',
        'level_note': 'trusted: Coq kernel, ExtrOcamlBasic extraction, ocaml/drv.ml, harness; command age is exercised as none/young/old only '
                      '(the exact-timeout boundary is covered by the model alone).',
        'technique': 'Rocq proof (decision-table case analysis + lia) + exhaustive model/implementation correspondence',
        'rule': 'every (reported state, requested state, age) x requested rpm 0..65535 for the shipped setting (800,2100), '
                'and for (0,65535) (1000,1000) (900,2000) (2100,800: outside the domain, clamp asserts) on a 1/16 grid + boundaries in quick, '
                'completely in thorough; real Governor::next_state vs extracted model, property predicate evaluated on the real output; '
                'non-trivial = idle<=max and not (reported=NoRequest and requested=NoRequest); all cases distinct by construction',
        'exhaustive': {'quick': False, 'thorough': True},
        'explanation': 'theorem C07 (all idle<=max, all Z speeds, all 48 state/age combinations) + exhaustive agreement of the model with Governor::next_state',
        'assumptions': ['command age is observed only through `elapsed() > timeout`; Young/Old are produced with a 1 h timeout / a 50 ms old instant and 1 ms timeout',
                        'the boundary elapsed()==timeout cannot be produced in real time and is covered by the model only'],
        'trusted': ['modelled, not verified: Rust semantics of u16::clamp and of the match in Governor::next_state (tied by exhaustive execution)'],
    },
}
