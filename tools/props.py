"""Per-property registry used by ./check (rules, budgets, extra trusted-base lines)."""
HOOK_COMMITS = ['d17a021']
NOT_YET = {}

REGISTRY = {
    'C01': {
        'rule': 'real HydraulicControlUnit (J1939Unit trigger/tick/try_recv on a real NetDriverContext): all histories of length <=3 (quick) / <=4 (thorough) '
                'over a 14-letter alphabet {tick, 5 motion shapes, 4 non-motion commands, unit status frame, unit address-claim/software-id frame, '
                'config/actuator frame addressed to the unit, foreign frame} with values from the seeded PRNG, plus random histories of length 5..205; '
                'frames emitted by every event compared with the extracted model; C01 predicate (every tick re-sends exactly the latest motion, stop-all => only the lock frame) evaluated on the real frames; '
                'non-trivial = a movable motion command followed later by a tick; distinct by case text',
        'exhaustive': {'quick': False, 'thorough': False},
        'level_text': 'Theorems C01, C01_reassert (for ANY finite history the tick output is the encoding of the latest motion command, stop-all before any), '
                      'C01_inert (non-motion commands and every received frame leave the re-asserted command unchanged) are proved by induction over histories of '
                      'arbitrary length about the Gallina model of the HCU driver; the model is tied to the real driver by differential execution of enumerated and random histories.',
        'level_note': 'partial on schedules: every handler of the HCU driver makes exactly one access to the shared context (a mutex-protected critical section), so each interleaving '
                      'of the receive/tick/command tasks is equivalent to a sequential history ordered by those accesses; the theorem is over sequential histories and the real code is driven at handler granularity. '
                      'Trusted: Coq kernel, extraction, drv.ml, harness.',
        'technique': 'Rocq proof (invariant by induction over event histories) + model/implementation correspondence on enumerated and random histories',
        'explanation': 'C01 + C01_reassert + C01_inert; C02 predicate reused as the meaning of "exactly that motion command"',
        'assumptions': ['received frames are 8 bytes (normalised by the network layer, C06/C17)',
                        'interleavings below handler granularity are argued from the single-access shape of the handlers, not executed'],
        'trusted': ['modelled, not verified: Rust semantics of HydraulicControlUnit::{trigger,tick,try_recv}; HashMap collect (last duplicate wins); crate j1939 IdBuilder/FrameBuilder'],
    },
    'C02': {
        'rule': 'real HydraulicControlUnit::trigger and ::tick (must agree): every (da,sa) pair x 5 motion shapes (thorough; 1/4 of the pairs in quick), every actuator x every i16 value as single change and every straight-drive value (thorough; every 8th + boundaries in quick), '
                'all 1957 ordered subsets of the six actuators, random change lists of length 0..32 with duplicates and extreme values (20k quick / 200k thorough); frames compared with the extracted model and checked by the C02 predicate; '
                'non-trivial = straight drive or non-empty change set; distinct by case text',
        'exhaustive': {'quick': False, 'thorough': False},
        'level_text': 'Theorem C02 proves, for ALL unit/source addresses in 0..255, all motion variants, change lists of ANY length/order/duplication and all i16 values, that the emitted frames are exactly the '
                      'specified ones (exact 29-bit identifier, priority 3, PGN, destination, source; slot bytes little-endian two\'s complement; other slots FF FF; bank present iff used; decode round trip except -1); '
                      'the model is tied to the code by exhaustive execution over all (da,sa) pairs and all i16 values per slot, plus structured random lists.',
        'level_note': 'trusted: Coq kernel, extraction, drv.ml, harness; `|`/`<<` on disjoint identifier fields are modelled arithmetically (tied by the exhaustive (da,sa) sweep); the model covers the six defined actuators (ids 0..5).',
        'technique': 'Rocq proof (codec laws, last-duplicate-wins lemma by induction, lia with div/mod) + exhaustive/structured correspondence',
        'explanation': 'C02 + C02_last_duplicate_wins + C02_config_frames + C02_slot_roundtrip + C02_addressing',
        'assumptions': ['change sets use the six defined actuators (the wire decoder rejects others)'],
        'trusted': ['modelled, not verified: HashMap<u8,i16> collection order independence; j1939::IdBuilder::build; Frame::new / FrameBuilder::copy_from_slice'],
    },
    'C07': {
        'level_text': 'Theorem C07 (and C07_envelope, C07_never_panics) proves the envelope for ALL idle<=max, ALL integer speeds and all 48 '
                      'state/age combinations about the Gallina model of Governor::next_state; the model is tied to the code by exhaustive '
                      'differential execution over the property\'s whole finite domain (thorough) so theorem + agreement cover the implementation.',
        'level_note': 'trusted: Coq kernel, ExtrOcamlBasic extraction, ocaml/drv.ml, harness; command age is exercised as none/young/old only '
                      '(the exact-timeout boundary is covered by the model alone).',
        'technique': 'Rocq proof (decision-table case analysis + lia) + exhaustive model/implementation correspondence',
        'rule': 'every (reported state, requested state, age) x requested rpm 0..65535 for the shipped setting (800,2100), '
                'and for (0,65535) (1000,1000) (900,2000) (2100,800: outside the domain, clamp asserts) on a 1/16 grid + boundaries in quick, '
                'completely in thorough; real Governor::next_state vs extracted model, property predicate evaluated on the real output; '
                'non-trivial = idle<=max and not (reported=NoRequest and requested=NoRequest); all cases distinct by construction',
        'exhaustive': {'quick': False, 'thorough': True},
        'explanation': 'theorem C07 (all idle<=max, all Z speeds, all 48 state/age combinations) + exhaustive agreement of the model with Governor::next_state',
        'assumptions': ['command age is observed only through `elapsed() > timeout`; Young/Old are produced with a 1 h timeout / a 50 ms old instant and 1 ms timeout',
                        'the boundary elapsed()==timeout cannot be produced in real time and is covered by the model only'],
        'trusted': ['modelled, not verified: Rust semantics of u16::clamp and of the match in Governor::next_state (tied by exhaustive execution)'],
    },
}
