"""Per-property registry used by ./check (rules, budgets, extra trusted-base lines)."""
HOOK_COMMITS = ['d17a021']
NOT_YET = {}

REGISTRY = {
    'C01': {
        'rule': 'real HydraulicControlUnit (J1939Unit trigger/tick/try_recv on a real NetDriverContext): all histories of length <=3 (quick) / <=4 (thorough) '
                'over a 14-letter alphabet {tick, 5 motion shapes, 4 non-motion commands, unit status frame, unit address-claim/software-id frame, '
                'config/actuator frame addressed to the unit, foreign frame} with values from the seeded PRNG, plus random histories of length 5..205; '
                'frames emitted by every event compared with the extracted model; C01 predicate (every tick re-sends exactly the latest motion, stop-all => only the lock frame) evaluated on the real frames; '
                'plus 600 (quick) / 6000 (thorough) scripts through the real NetworkAuthority on the emulated bus (one hydraulic unit; setup, cycles, motion and other commands, unit status / claim frames, and motion commands ACCEPTED WHILE EVERY SOCKET WRITE FAILS - hub socket connect()ed away, EPERM): frames per event compared with the authority model, C01 predicate on the real frames with "latest" = latest accepted; '
                'non-trivial = a movable motion command (or a failed stop-all) followed later by a tick; distinct by case text',
        'exhaustive': {'quick': False, 'thorough': False},
        'level_text': 'Theorems C01_authority_register / C01_authority_reasserts (NetworkAuthority model, ANY driver list, ANY history of cycles, accepted commands with or without a successful socket write, received frames, waits: every hydraulic-unit driver re-sends on the next cycle exactly the latest accepted motion command), C01, C01_reassert (for ANY finite history the tick output is the encoding of the latest motion command, stop-all before any), '
                      'C01_inert (non-motion commands and every received frame leave the re-asserted command unchanged) are proved by induction over histories of '
                      'arbitrary length about the Gallina model of the HCU driver; the model is tied to the real driver by differential execution of enumerated and random histories.',
        'level_note': 'partial on schedules: every handler of the HCU driver makes exactly one access to the shared context (a mutex-protected critical section), so each interleaving '
                      'of the receive/tick/command tasks is equivalent to a sequential history ordered by those accesses; the theorem is over sequential histories and the real code is driven at handler granularity. '
                      'Trusted: Coq kernel, extraction, drv.ml, harness.',
        'technique': 'Rocq proof (invariant by induction over event histories) + model/implementation correspondence on enumerated and random histories',
        'explanation': 'C01 + C01_reassert + C01_inert + C01_authority_register + C01_authority_reasserts; C02 predicate reused as the meaning of "exactly that motion command"',
        'assumptions': ['received frames are 8 bytes (normalised by the network layer, C06/C17)',
                        'interleavings below handler granularity are argued from the single-access shape of the handlers, not executed'],
        'trusted': ['modelled, not verified: Rust semantics of HydraulicControlUnit::{trigger,tick,try_recv}; HashMap collect (last duplicate wins); crate j1939 IdBuilder/FrameBuilder'],
    },
    'C02': {
        'rule': 'real HydraulicControlUnit::trigger and ::tick (must agree): every (da,sa) pair x 5 motion shapes (thorough; 1/4 of the pairs in quick), every actuator x every i16 value as single change and every straight-drive value (thorough; every 8th + boundaries in quick), '
                'all 1957 ordered subsets of the six actuators, random change lists of length 0..32 with duplicates and extreme values (20k quick / 200k thorough); frames compared with the extracted model and checked by the C02 predicate; '
                'non-trivial = straight drive or non-empty change set; distinct by case text',
        'exhaustive': {'quick': False, 'thorough': False},
        'level_text': 'Theorem C02 proves, for ALL unit/source addresses in 0..255, all motion variants, change lists of ANY length/order/duplication and all i16 values, that the emitted frames are exactly the '
                      'specified ones (exact 29-bit identifier, priority 3, PGN, destination, source; slot bytes little-endian two\'s complement; other slots FF FF; bank present iff used; decode round trip except -1); '
                      'the model is tied to the code by exhaustive execution over all (da,sa) pairs and all i16 values per slot, plus structured random lists.',
        'level_note': 'trusted: Coq kernel, extraction, drv.ml, harness; `|`/`<<` on disjoint identifier fields are modelled arithmetically (tied by the exhaustive (da,sa) sweep); the model covers the six defined actuators (ids 0..5).',
        'technique': 'Rocq proof (codec laws, last-duplicate-wins lemma by induction, lia with div/mod) + exhaustive/structured correspondence',
        'explanation': 'C02 + C02_last_duplicate_wins + C02_config_frames + C02_slot_roundtrip + C02_addressing',
        'assumptions': ['change sets use the six defined actuators (the wire decoder rejects others)'],
        'trusted': ['modelled, not verified: HashMap<u8,i16> collection order independence; j1939::IdBuilder::build; Frame::new / FrameBuilder::copy_from_slice'],
    },
    'C03': {
        'rule': 'real UnixServer session over a real Unix socket (in-process, current-thread tokio, 1 ms barrier after every write/publication): (1) after a Session frame of each flag class plus 0-3 frames, a client dying at EVERY byte offset of the frame it was writing (8 pools quick / 60 thorough), three termination modes (close, close with unread data = reset, shutdown both), random chunking, signals published concurrently; '
                '(2) all 32 valid flag bytes + sampled invalid ones x 3 termination modes; (3) random scripts with repeated (re-)registration incl. failed upgrades (6k quick / 60k thorough); commands on the real command channel compared with the extracted session model and with the reference decoding + "stop-all iff armed"; '
                'non-trivial = script whose last decodable Session frame is armed (failsafe expected); distinct by case text',
        'exhaustive': {'quick': False, 'thorough': False},
        'level_text': 'Theorem C03 (= script_holds) proves for ALL lists of well-formed frames, ALL cut offsets inside the next frame, ALL chunkings and signal placements that the session dispatches the commands of the complete frames followed by stop-all iff the last successfully decoded Session frame carried the failsafe flag, and never crashes; '
                      'C03_bad_upgrade_keeps_arming, C03_unarmed_silent, C03_armed_stops are corollaries. The Gallina session state machine is tied to the real UnixServer by differential execution.',
        'level_note': 'all termination modes are one EEnd event in the model (the code maps EOF/reset/abort/timeout to the same break); a client that stops reading so that the daemon blocks in write is outside the model. Trusted: kernel, extraction, drv.ml, harness (1 ms quiescence barrier).',
        'technique': 'Rocq proof (induction over frame lists, chunk-independence lemma drain_app, totality of decoders) + model/implementation correspondence over real Unix sockets',
        'explanation': 'C03 + corollaries; session model shared with C04/C05',
        'assumptions': ['payload bytes are 0..255', 'the three termination modes producible on a Unix socket stand for all modes'],
        'trusted': ['modelled, not verified: tokio select!/read/read_exact semantics, kernel Unix-socket semantics, String::from_utf8_lossy and chars().take(64) (session name is unobservable and not modelled)'],
    },
    'C04': {
        'rule': 'real UnixServer session: (1) short streams of 2-3 frames (incl. an unknown-type frame whose payload embeds a stop-all frame header): EVERY segmentation into <=3 writes, with 0/1/2 signals published between writes; (2) random lists of 0-6 frames over all type codes (valid, ill-sized, undecodable payloads, payload lengths 1..1024, hostile payloads embedding frames), random segmentation, signals between writes, 3 termination modes (12k quick / 120k thorough); '
                'commands compared with the extracted model and with the reference decoding of the frame list; non-trivial = at least one valid command frame; distinct by case text',
        'exhaustive': {'quick': False, 'thorough': False},
        'level_text': 'Theorem C04 (= script_holds) proves for ALL lists of well-formed frames over all type codes and payload lengths 1..1024, ALL segmentations and ALL interleavings with signals that exactly the valid command frames act, in order, each once, and nothing else; '
                      'C04_segmentation / C04_drain_app state chunk independence explicitly. Tied to the real server by differential execution incl. exhaustive segmentation of short streams.',
        'level_note': 'the model reflects fix commits 3a26767 (cancel-safe header read) and 57a9948 (rejected frames consume their payload). Trusted: kernel, extraction, drv.ml, harness.',
        'technique': 'Rocq proof (alignment invariant by induction over frame lists + chunk-independence of the parser state machine) + correspondence over real Unix sockets',
        'explanation': 'C04, C04_segmentation, C04_drain_app',
        'assumptions': ['payload bytes are 0..255'],
        'trusted': ['modelled, not verified: tokio select! cancellation (the header read keeps its partial buffer, the payload read is not inside select!), read_exact, kernel socket semantics'],
    },
    'C05': {
        'rule': 'real UnixServer session + a bystander session that must still be served + process-wide panic counter: for 6 valid encodings (Session, Engine, Motion change, Motion straight, Target, Control) every single-byte substitution at every header and payload offset (15 boundary values quick / all 256 thorough), every truncation, declared lengths 0..64 and 1023..1025; '
                'structured hostile frame streams (8k quick / 100k thorough) and protocol-biased random garbage (4k / 100k), half of them after a failsafe registration; checks: no panic in any task, session ended through its normal path, bystander served, commands equal to the extracted model (incl. the failsafe stop-all); '
                'non-trivial = stream of at least 10 bytes; distinct by case text',
        'exhaustive': {'quick': False, 'thorough': False},
        'level_text': 'Theorem C05 / C05_from_start prove that for EVERY sequence of byte chunks, signals and end events the session model never reaches a panic point; C05_recv_packet_total proves that every decoder (all 12 packet types, any declared length, any payload) returns a value or an error; '
                      'the model mirrors every Buf::get_*/split_to/copy_to_bytes/index/unwrap of the Rust decoders as an explicit panic point. Tied to the real code by differential execution of hostile streams.',
        'level_note': 'isolation of other sessions/control loop is checked by execution (bystander session) and argued from the absence of shared mutable state; release builds (panic=abort) are not executed, the debug build with unwinding is. Trusted: kernel, extraction, drv.ml, harness.',
        'technique': 'Rocq proof (never-panics by structural walk of every decoder under its size gate; invariant over event sequences) + hostile-input correspondence',
        'explanation': 'C05, C05_from_start, C05_recv_packet_total, C05_end_applies_failsafe',
        'assumptions': ['payload bytes are 0..255'],
        'trusted': ['modelled, not verified: bytes::Buf panic conditions; slice indexing; tokio task isolation of panics'],
    },
    'C13': {
        'rule': 'real Frame::try_from on all 256 type codes x 10 boundary lengths, every single-byte corruption (256 values x 10 offsets) of 4 valid headers, short/long buffers; real Stream::recv_packet::<P> for each of the 12 packet types over an in-memory reader followed by sentinel bytes (bytes consumed are observed): small domains exhaustively (all Engine state bytes, all Control kind x on bytes, all Motion tags, all straight-drive values (1/16 quick), all session flag bytes, all constraint/reference bytes), '
                'per type structured cases (valid encodings, truncations, byte substitutions, trailing bytes, random payloads of boundary lengths incl. 1023..1025, declared lengths 0..64, every truncation and byte sweep of a valid encoding); kind-3 cases: reference encodings decoded by the real TryFrom, re-encoded by the real to_bytes and framed by the real send_packet; '
                'results compared with the extracted model (decoded objects compared through their canonical encoding; rotation words and non-ASCII names excluded, see trusted base); non-trivial = accepted header / decoded packet / round-trip case; distinct by case text',
        'exhaustive': {'quick': False, 'thorough': False},
        'level_text': 'Theorems C13_header_canonical, C13_parser_exact (iff, for ALL byte lists), C13_types_distinct, C13_fixed_sizes, C13_roundtrip (ALL objects of all twelve types at word level, strings/change lists of any representable length), C13_recv_total (ANY type code, declared length and payload: value or error, never a panic) and C13_size_bound_partial are proved about the Gallina codec model; '
                      'the unrestricted 1024-byte bound is refuted for Actor by C13_actor_size_refuted (known finding). The model is tied to the real encoders/decoders by differential execution.',
        'level_note': 'float fields are opaque 32-bit words; the euler re-parameterisation of Target/Rotator/Actor rotations (nalgebra) and String::from_utf8_lossy / chars().take(64) on names are modelled environment: rotation words are compared by 2e-4 tolerance in the harness and non-ASCII names are not compared. Trusted: kernel, extraction, drv.ml, harness (incl. its reference encoder, itself checked against the model).',
        'technique': 'Rocq proof (iff-characterisation of the header parser, per-type round-trip lemmas by induction on lists, never-panics walk of every decoder) + differential execution of the real codec',
        'explanation': 'eight theorems in Properties/C13.v',
        'assumptions': ['payload bytes are 0..255', 'names are compared only when ASCII; rotation angles within float tolerance and away from gimbal lock (|pitch| < 1.4 rad)'],
        'trusted': ['modelled, not verified: bytes::Buf panic conditions, nalgebra euler conversions, UTF-8 lossy conversion, uuid::from_slice on 16 bytes'],
    },
    'C18': {
        'needs_binaries': True,
        'rule': 'the real glonax-input modules (joystick.rs, gamepad.rs, input.rs included by #[path]) per stage composition: 4 control modes x 8 interlock states x engine requests {0,900,1000,2000,2100} x Xbox reverse flags x axis numbers x the full i16 value range (thorough; boundaries of every deadband/half-scale threshold + a 1/61 grid in quick) x button numbers 0..12,255 with values {0,1,2,-1,-32768} x init-flag records; new interlock state and produced object compared with the extracted model; C18 predicate evaluated on the real output; '
                'the real glonaxctl against a stub daemon: 12 toggle sub-commands x 18 case variants of the six words + rejected words x compatible / major- / minor-incompatible daemon versions (bytes received by the stub); the real glonax-input binary fed records through a FIFO against the stub (failsafe flag in its session frame, only Motion/Engine frames, start-up lock); non-trivial = an object was produced; distinct by case text',
        'exhaustive': {'quick': False, 'thorough': True},
        'level_text': 'Theorem C18 proves for EVERY control mode, EVERY interlock state satisfying the invariant and EVERY record of the four joystick types (any number, full i16 range): no crash; while the motion lock is engaged only stop / resume / neutral (and engine requests) are produced; pressing Abort yields stop-all and engages the lock; produced values are zero or beyond the per-axis deadband and at most half scale in the limited directions while limiting is on; engine requests are shutdown or within 900..2100 rpm; the invariant is preserved - hence (C18_sequences) along event sequences of ANY length; C18_start_locked, C18_cli_true / C18_cli_false (iff for the six words in any letter case). '
                      'The model reflects fix 5ee3993. Tied to the real modules by (in thorough) exhaustive execution over state x event, and to the real binaries as black boxes.',
        'level_note': 'record types other than the four the Linux joystick interface produces hit unimplemented!() and are outside the domain. clap argument parsing and the to_lowercase of non-ASCII words are exercised, not modelled. glonax-input cannot be told to drop the failsafe flag (the clap flag defaults to true). Trusted: kernel, extraction, drv.ml, harness (stub daemon).',
        'technique': 'Rocq proof (case analysis over scancodes with euclidean-division lia; invariant => all sequences) + exhaustive per-stage correspondence + black-box runs of glonaxctl / glonax-input',
        'explanation': 'five theorems in Properties/C18.v',
        'assumptions': ['records are 8-byte js_event structs of type 1, 2, 0x81, 0x82'],
        'trusted': ['modelled, not verified: i16 arithmetic (/ truncates toward zero, saturating_neg), clap, the stub daemon in the harness'],
    },
    'C19': {
        'rule': 'the real shortest_rotation, law_of_cosines, linear_motion, lerp, Linear::update, ActuatorState::update, Actor::world_location, Actor::to_bytes / try_from (debug build, overflow checks on); floats cross as bit patterns. '
                'shortest_rotation: a stride through ALL 2^32 bit patterns (2^14 quick / 2^9 thorough) + every multiple of PI/8 in [-2PI, 6PI] +-4 ulps + special values +-2 ulps + a dense grid on [-2PI, 6PI] + random; '
                'law_of_cosines: 60k/600k side triples (uniform, log-uniform over 2^-31..2^33, shipped boom/arm lengths; third side random, degenerate +-3 ulps, right-angled, NaN/inf/negative) + 10k/100k near-degenerate real triangles under both readings; '
                'profiles: 6.3k/63k (gain, offset, inverse, lower bound) settings incl. the shipped 7000/15000 gains and 12000 offset, zero/huge/negative/NaN gains and offsets, x up to 24 errors each (grids scaled 1e-38..1e30, +-0, subnormals, inf, NaN) + the shipped profiles on a dense error grid; ActuatorState sequences with gaps; lerp; '
                'world_location: 20k/200k chains of 0..8 segments with small-integer signed-permutation and other matrices (exact in f32: compared bit for bit) with duplicate, absent, empty and multi-byte names; 6k/60k float chains of 0..6 segments (Euler angles incl. gimbal lock +-3 ulps): the reported segment transforms are multiplied exactly (dyadic arithmetic) by the model and compared within 2^-17 * (1 + sum |t|); Actor byte round trip on the same chains; '
                'bit-exact comparison with the extracted Flocq model for every libm-free function (0 mismatches required); WILD positions (acos result, nalgebra matrix entries) are judged by the extracted property predicates only; non-trivial = inputs inside the property\'s domain; distinct by case text',
        'exhaustive': {'quick': False, 'thorough': False},
        'level_text': 'Theorems about the binary32 arithmetic the code executes (Flocq BinarySingleNaN model, bit-exact with the implementation): C19_shortest_rotation (EVERY finite f32 d >= -2PI_f: finite result in (-PI_f, PI_f], an exact integer multiple of 2PI_f away from the once-rounded d + 2PI_f; uses exactness of fmod and Sterbenz), C19_linear_update / _monotone / _sign_and_range and C19_actuator_value / _monotone / _sequences (EVERY finite gain >= 0, 0 <= offset <= 32767, EVERY finite error incl. those whose product overflows to +-inf: no panic, saturation instead of wrap, sign opposition unless inverted, monotone; stop-once behaviour along sequences of ANY length), C19_director_profiles_in_domain (profiles regenerated from director.rs), C19_linear_motion / _range_sign / _monotone (no value exactly inside the deadband, +-32767, sign, monotone), C19_world_location_named / _unnamed / _exact (ANY transform type: the loop is the ordered product up to the first segment with the name; later segments irrelevant), C19_actor_roundtrip (word level); over the reals C19_law_of_cosines_domain (argument in [-1,1] iff the triangle exists) and _angle; C19_law_of_cosines_f32_refuted: in binary32 a strictly non-degenerate triangle yields NaN (known finding K03).',
        'level_note': 'PARTIAL where libm / nalgebra float code is involved: acosf is outside the model (assumed: NaN exactly outside [-1,1]; its value is checked in cos-space against the exact rational cosine within 2^-20 (1 + (a^2+b^2+c^2)/2ab)); for law_of_cosines the float-level claim enforced on the implementation is the margin reading (NaN forbidden when |cos| <= 1 - 2^-21 (1 + S/D), required when >= 1 + the same margin) - the strict reading fails (K03). world_location on f32 matrices and the Euler-angle round trip are compared within stated tolerances (2^-17 relative to the chain; rotation entries 2^-18, 2^-11 within 0.8 degrees of gimbal lock), not proved. Monotonicity is w.r.t. the order with -0.0 < +0.0 (Linear::update(+0.0) = -offset, (-0.0) = +offset). Linear::update\'s float may reach -32769 before the saturating cast (proved bound). Gains/offsets outside the domain (negative, NaN, offset > 32767) are compared bit for bit with the model (panics included) but carry no claim. Trusted: kernel, Flocq, extraction, drv.ml (WILD matching), harness, rs2v.',
        'technique': 'Rocq proof on Flocq binary32 (rounding monotonicity, exact fmod, Sterbenz, overflow-aware clamp semantics; Reals for the triangle; induction for sequences and chains) + bit-exact differential execution of the extracted float model + extracted property predicates (exact dyadic / rational arithmetic) on the real outputs',
        'explanation': 'eighteen theorems in Properties/C19.v',
        'assumptions': ['profile gain finite >= 0, offset finite in [0, 32767] (the shipped profiles are proved inside)', 'errors finite', 'angle difference finite and >= -2*PI_f'],
        'trusted': ['modelled, not verified: x86-64 SSE binary32 arithmetic = IEEE-754 round-to-nearest-even (Flocq), Rust fmodf/round/min/clamp/signum/`as i16` semantics as transcribed in Model/F32.v, libm acosf/sin/cos/atan2, nalgebra matrix products and Euler conversions',
                    'axioms: the four real-number / classical axioms of the standard library used by Reals and Flocq'],
    },
    'C20': {
        'rule': 'real NetworkAuthority::{new,setup,on_tick,recv} on the emulated bus: both networks of contrib/etc/glonax.conf loaded by the real glonax::from_file into the server\'s real Config (#[path]) and started; 1.2k (quick) / 12k (thorough) generated configurations: all 256 own addresses, NAME field boundaries and random values, driver lists of 0..5 entries drawn from the 7 known and unknown (vendor, product) pairs with/without source-address override and timeout; '
                'events: start-up claim, first cycle (delayed per-driver setup), requests for address claim / software id / time-date / foreign groups to own, other and global destinations (also with DLC < 3), another cycle; frames on the bus compared with the extracted model; C20 predicate (claim = J1939-81 bit layout, replies exactly when specified, setup requests from exactly the known entries in order with destination = unit and source = daemon/override) evaluated on the real frames; non-trivial = some frame was sent; distinct by case text',
        'exhaustive': {'quick': False, 'thorough': False},
        'level_text': 'Theorems C20_name_layout (the NAME bytes are the little-endian image of the J1939-81 field layout, all in-range fields), C20_name_roundtrip, C20_units (ANY driver list: the driven units are exactly the known entries, in order, with configured unit address and default/overridden source), C20_unknown_skipped, C20_setup_addressing, C20_responds (iff) and C20_factory_consistent (on the generated vendor/product tables) are proved about the Gallina authority model; tied to the real authority by differential execution incl. the shipped configuration.',
        'level_note': 'TOML -> struct (toml/serde) is not modelled: it is exercised for real (generated TOML and the shipped file). The time/date payload is not compared. A kübler:encoder entry with a unit address outside 0x6A..0x6D panics in KueblerEncoder::new (known finding K02): such configurations are not generated. Trusted: kernel, extraction, drv.ml, harness, rs2v (tables, shipped file).',
        'technique': 'Rocq proof (bit-layout arithmetic by lia, filter_map/induction over driver lists, vm_compute on generated tables) + differential execution on the emulated bus',
        'explanation': 'seven theorems in Properties/C20.v',
        'assumptions': ['NAME fields within their J1939-81 ranges', 'encoder entries use the four supported addresses'],
        'trusted': ['modelled, not verified: j1939::NameBuilder/Name::to_bytes, protocol::request/address_claimed, toml/serde deserialisation, chrono time for the time/date reply'],
    },
    'C14': {
        'rule': 'real UnixServer with 1-4 concurrent sessions over real Unix sockets and the real signal broadcast channel (current-thread runtime, only one input source pending whenever the session tasks run): all 32 flag combinations with names (empty, ASCII, 64/65+ chars, multi-byte, invalid UTF-8) x bursts of 1,15,16,17,40 signals published back-to-back; random scripts of session (re-)registrations incl. failed upgrades, commands, publications of every signal kind (engine, motion, control, target, rotator, module status) with bursts up to 40, and disconnects (600 quick / 6k thorough); '
                'bytes received by every client are split into frames by the harness (frame boundaries intact) and compared with the extracted model; C14 predicate on the real observation (one identity per decodable upgrade; a streaming open session receives exactly the last min(16,k) signals of a burst in order, as frames equal to the object\'s encoding; others nothing); glonax::is_compatibile for every (major, minor) pair (thorough; 1/5 + neighbourhood of 3.5 and 3.50..3.59 quick); non-trivial = a publication or a compatibility query; distinct by case text',
        'exhaustive': {'quick': False, 'thorough': False},
        'level_text': 'Theorems C14_handshake, C14_stream (after ANY publication history a streaming session that runs receives exactly the retained signals from max(cursor, tail-16), in order; a non-streaming one nothing), C14_no_overflow_complete, C14_lag_loses_oldest_block, C14_sessions_independent (publishing never waits; what one session receives does not depend on the others), C14_frames_decode (C13 round trip) and C14_compat (iff) are proved about the Gallina session + broadcast model; tied to the real server by differential execution with bursts around the queue capacity.',
        'level_note': 'partial: tokio select! chooses at random between a ready signal and ready client bytes, so the relative order of identity replies and forwarded signals is not fixed by the code; the theorems are per input source and the real server is driven with one source pending at a time. Real-time fairness of the multi-thread scheduler is outside the model. A client that stops reading (daemon blocks in write) is outside the model. Trusted: kernel, extraction, drv.ml, harness.',
        'technique': 'Rocq proof (closed form of the receiver drain by induction; independence by construction) + differential execution of real sessions with controlled bursts',
        'explanation': 'seven theorems in Properties/C14.v',
        'assumptions': ['the daemon identity is the one the harness installs (compared byte for byte)', 'rotation words of forwarded Target/Rotator signals are compared after zeroing (euler re-parameterisation)'],
        'trusted': ['modelled, not verified: tokio broadcast, select!, Unix sockets'],
    },
    'C15': {
        'rule': 'real Runtime::schedule_net_service (the real command task and broadcast channel) with a recording, gated mock NetworkService and a producer Service that hands the real CommandSender to the harness, on a current-thread runtime (tasks run only when the harness yields): bursts of 1,2,15,16,17,18,31,32,33,40,100,1000 commands + a final stop-all x handler idle / holding one / holding after two x 0/1/5 granted completions x 1-2 networks, then drained; '
                'random schedules of send / grant / run-until-blocked with four relative speeds (3k quick / 30k thorough); processed commands per network compared with the extracted model (micro-step semantics of the bus and the task loop); C15 predicate on the real observation: processed is an in-order subsequence of sent, after draining the last min(16,n) sent commands (incl. the stop-all) were processed, and nothing is lost when at most 16 were sent between quiescence points; '
                'non-trivial = a burst above the capacity; distinct by case text',
        'exhaustive': {'quick': False, 'thorough': False},
        'level_text': 'Theorems C15_in_order_subsequence, C15_newest_survive (once the handler has caught up, every one of the last cap commands - in particular the final one - has been processed), C15_no_lag_no_loss, C15_lag_does_not_stop and C15_send_always_enabled are proved for EVERY schedule (any interleaving of any number of producers\' sends with the handler\'s recv / on_command micro-steps), every capacity > 0 and every value type, by an invariant over positions in the send history; the model of tokio broadcast + the command task is tied to the real Runtime by differential execution of exact schedules.',
        'level_note': 'partial: tokio 1.43 broadcast (capacity exactly 16, Lagged(n) then the oldest retained value, non-blocking send) is a validated model, not verified code; wall-clock fairness of the multi-thread scheduler is outside the model (every interleaving is covered instead). Several networks are independent receivers of the same history, so the per-handler theorems apply to each. Trusted: kernel, extraction, drv.ml, harness.',
        'technique': 'Rocq proof (ring-buffer/cursor invariant over all schedules, subsequence lemma by induction) + exact-schedule correspondence on the real Runtime',
        'explanation': 'five theorems in Properties/C15.v',
        'assumptions': ['handlers are the command tasks spawned by schedule_net_service; producers only call Sender::send'],
        'trusted': ['modelled, not verified: tokio::sync::broadcast, tokio task scheduling'],
    },
    'C16': {
        'needs_binaries': True,
        'rule': 'the real glonaxd binary (rebuilt from /repo with --features glonax/verif) on the emulated bus with 4 configurations (one HCU; the two shipped driver lists on two networks; two HCUs + encoder; no HCU): SIGTERM (SIGINT every 5th run) 0/5/12/27/50/500 ms after the daemon is up, with 0-3 clients connected (failsafe and streaming sessions) and during bursts of 10/40/200 motion commands (16 runs quick / 200 thorough, in parallel); '
                'observed: exit status, time from signal to exit (< 5 s), one motion-reset frame (PGN 45824 Z C FF FF 01) per hydraulic unit after the signal, no datagram after exit; compared with the model outcome; non-trivial = configuration with a hydraulic unit; distinct by case text',
        'exhaustive': {'quick': False, 'thorough': False},
        'level_text': 'PARTIAL. Theorems C16_teardown_frames (every configuration: teardown = one motion reset per HCU, in order), C16_reset_frame_bytes (the C02 bytes), C16_recv_task_teardown, C16_quiescent and the variant C16_bounded_steps / C16_initial_bound (after the signal every effective step of every task strictly decreases a measure that starts at 3 per task) are proved about a labelled-transition model of Runtime::schedule_* for EVERY schedule and every insertion point of the signal; '
                      'the wall-clock bound (5 s), kernel signal delivery and tokio\'s real fairness are only observed on runs of the real binary.',
        'level_note': 'partial (DESIGN section 7): the LTS abstracts each task to loop / teardown / done with at most one partial loop body after the signal; a signal that arrives before register_shutdown_signal has installed its handlers is outside the explored domain (the harness waits for the address claim of every network). Trusted: kernel, extraction, drv.ml, harness.',
        'technique': 'Rocq proof (LTS safety + variant function) + black-box runs of the real daemon under SIGTERM/SIGINT on the emulated bus',
        'explanation': 'six theorems in Properties/C16.v',
        'assumptions': ['weak fairness of the tokio scheduler', 'signal handlers installed (daemon up)'],
        'trusted': ['modelled, not verified: tokio select!/broadcast shutdown delivery, signal handling, process exit'],
    },
    'C17': {
        'rule': 'real Filter::matches (accept and reject policy): empty list, every single item over all 16 specified-field combinations x every hit/miss pattern against 68 identifiers covering PDU1/PDU2, priorities, addresses; 2- and 3-item lists sampled (30k quick / 400k thorough per policy) biased towards fully matching entries; '
                'real CANSocket::send through the verif seam: the raw 16-byte can_frame datagram for every length 0..8 and id-bit class; real CANSocket::recv + ControlNetwork::recv on injected raw frames for every DLC 0..8 and can_id with bits 29/30/31 set or clear (2k quick / 20k thorough each); results vs extracted model, property predicates evaluated on the real outputs; non-trivial = non-empty filter or marshalling case; distinct by case text',
        'exhaustive': {'quick': False, 'thorough': False},
        'level_text': 'Theorems C17_tx_exact (ALL 29-bit ids, lengths 0..8, data), C17_rx_exact (ALL 32-bit can_ids, DLC 0..8, data), C17_accept / C17_reject (iff, filter lists of ANY length), C17_item (iff per field) and C17_da_never_matches_pdu2 are proved about the Gallina model of can.rs/net.rs; tied to the real code by differential execution incl. the real socket marshalling over the emulated bus.',
        'level_note': 'struct can_frame layout (id LE32, dlc, 3 pad bytes, 8 data bytes) is modelled from libc; frames with DLC > 8 cannot come from a classic CAN socket and are outside the model (the Rust slice would panic). Trusted: kernel, extraction, drv.ml, harness bus hub.',
        'technique': 'Rocq proof (bit-field arithmetic with lia, iff-characterisation over lists) + differential execution incl. raw datagrams on the emulated bus',
        'explanation': 'six theorems in Properties/C17.v',
        'assumptions': ['classic CAN: DLC <= 8'],
        'trusted': ['modelled, not verified: libc::can_frame memory layout, socket2 send/recv, AsyncFd readiness'],
    },
    'C06': {
        'rule': 'every driver kind (HCU, VCU, ECU, encoder, inclinometer, j1939 ECM, Volvo D7E) under several address configurations stepped through the real J1939Unit::try_recv under catch_unwind: 34 parameter groups (every one a driver inspects + foreign PDU1/PDU2) x source (all 256 thorough / every 5th quick) x destination classes with a boundary byte {00,01,7F,80,FE,FF} at a random offset; '
                'from the unit itself: all-FF (a padded DLC-0 frame), all-00, 11 boundary values at each of the 8 offsets, random data (60 quick / 3000 thorough per group and driver); result vs extracted model; non-trivial = frame whose source is the unit; distinct by case text. The normalisation of short frames itself is exercised on the real socket path in C17 (all DLC 0..8)',
        'exhaustive': {'quick': False, 'thorough': False},
        'level_text': 'Theorem C06 proves that for ANY 16 raw bytes accepted from the socket (any can_id, DLC 0..8, any data) the frame handed to every driver kind has exactly 8 data bytes, so none of the drivers\' payload slices / try_into().unwrap() can panic; C06_normalised characterises the padding (prefix kept, suffix 0xFF). '
                      'The remaining panic point (unknown Vecraft status byte) was a genuine defect, repaired in 21def73; the driver models contain no other partial operation and are tied to the real drivers by differential execution over boundary and random payloads.',
        'level_note': 'the SPN decoders of crate j1939 (spn::*::from_pdu) called for the engine parameter groups are assumed total on 8-byte payloads (exercised, not modelled); "the network service keeps receiving/ticking afterwards" is checked in the authority-level runs of C10/C20. Trusted: kernel, extraction, drv.ml, harness.',
        'technique': 'Rocq proof (normalisation lemma composed with the drivers\' 8-byte precondition) + differential execution of every driver on boundary/random frames',
        'explanation': 'C06, C06_normalised, C06_spec',
        'assumptions': ['classic CAN (DLC <= 8)', 'crate j1939 spn decoders are total on 8-byte payloads'],
        'trusted': ['modelled, not verified: Rust slice/array conversion panic conditions; crate j1939 0.1.33 Id accessors and spn decoders'],
    },
    'C08': {
        'rule': 'real VolvoD7E (try_recv with real EEC1 frames, trigger, tick, real clock): all histories of length <=3 (quick) / <=4 (thorough) over a 12-letter alphabet {tick, EEC1 status classes (rpm 0/300/800/3000 without starter mode, starter active, start finished, inhibited/reserved/error nibbles), engine commands (rpm 0/500/1500/5000 x 4 states), shutdown command, run command, non-engine command} each followed by a tick; random histories of length 4..60 (4k quick / 40k thorough); '
                'timed histories with one real 2100 ms wait past the transition timeout (32 quick / 600 thorough); the speed byte for every commanded rpm 0..65535 (every 7th in quick); frames of every event vs extracted model, C08 predicate evaluated on the real frames; non-trivial = engine command followed by a tick; distinct by case text',
        'exhaustive': {'quick': False, 'thorough': False},
        'level_text': 'Theorem C08 proves by induction over histories of ANY length (all EEC1 payloads, all commands, all waits) that every frame the Volvo driver emits is well formed, equals the governor decision for the latest status and latest command, honours shutdown (shutdown code while running, never a start code after a shutdown command) and bounds cranking by the transition timeout; C08_same_meaning and C08_governor_envelope support it. '
                      'The model reflects fixes 7af8f4f and 00d4665 (both found by this check). Tied to the real driver by differential execution incl. real-time waits.',
        'level_note': 'partial on schedules: trigger/tick read rx_last and tx_last in separate critical sections; the theorem is over handler-sequential histories, and the real code is driven at handler granularity. The abstract clock is tied to Instant by the timed histories only (2100 ms vs 2000 ms timeout). Trusted: kernel, extraction, drv.ml, harness.',
        'technique': 'Rocq proof (invariant linking driver state to a history summary, by induction; governor envelope by case analysis) + correspondence on enumerated, random and timed histories',
        'explanation': 'C08, C08_same_meaning, C08_governor_envelope',
        'assumptions': ['commands are handed to the driver through trigger (as the authority does)', 'time between un-waited events is far below the 2000 ms timeout'],
        'trusted': ['modelled, not verified: std::time::Instant as a monotone millisecond clock; (rpm as f32 / 10.0) as u8 as saturating integer division'],
    },
    'C09': {
        'rule': 'real Director (Service::wait_io_sub on a current-thread runtime; publish, run to quiescence, drain the command channel): every engine reading 0..65535 rpm (thorough; every 13th + boundaries quick) after each of 6 prior verdict states; rotation readings from sources {6A,6B,6C,6D,7A,00,FF} x roll/pitch on a 0.5 degree grid over (-89,89) never within 0.05 degree of a threshold x yaw zero/non-zero, each followed by another signal kind; '
                'all histories of length <=3 over 12 signal classes; random histories up to length 100 (2k quick / 20k thorough); commands after every signal compared with the extracted model and with "full sequence iff pending" computed from the history alone; non-trivial = some signal processed while a condition is pending; distinct by case text',
        'exhaustive': {'quick': False, 'thorough': False},
        'level_text': 'Theorem C09 proves for EVERY signal history (all rpm, readings from every source with any angles, every other signal kind) that after each signal the director emits exactly the six-command emergency sequence, in order, iff the latest engine reading exceeds 2200 rpm or the latest rotation reading is an inclinometer reading over +45 degrees, and nothing otherwise (never a motion-change command); C09_tilt_emergency / C09_overspeed_emergency (iff) and C09_sequence support it. '
                      'Thresholds, addresses and the ORDER of the two inclinometer branches are regenerated from director.rs on every run; the model reflects fix d670d71.',
        'level_note': 'angles are exact integers (centi-degrees) in the model; the float pipeline degrees -> radians -> rotation matrix -> euler_angles() (nalgebra, libm) is environment, validated by the correspondence on a grid that avoids the thresholds by 0.05 degree; readings with |roll| or |pitch| >= 90 degrees are outside the explored domain (DESIGN section 7). Trusted: kernel, extraction, drv.ml, harness.',
        'technique': 'Rocq proof (invariant linking the two verdict slots to the latest readings, by induction; iff-characterisation of the verdicts) + correspondence on the real Director',
        'explanation': 'C09, C09_tilt_emergency, C09_overspeed_emergency, C09_sequence',
        'assumptions': ['supervised operation mode (the shipped one, regenerated)', 'readings strictly inside (-90, 90) degrees'],
        'trusted': ['modelled, not verified: nalgebra Rotation3::from_euler_angles/euler_angles, f32::to_radians, HashMap max over the two slots'],
    },
    'C10': {
        'rule': 'real NetworkAuthority::{recv,on_tick} on the emulated bus (one instance, deterministic): all histories of length <=5 (quick) / <=6 (thorough) over {frame accepted from the unit, frame from elsewhere, cycle} x timeout classes {absent, never-expiring, already expired} x 4 unit kinds; random histories of 8..48 events over multi-unit configurations incl. both shipped driver lists and a list with an unknown entry (cycle counts crossing 10 and 20); '
                'timed histories with a 150 ms timeout and real 250 ms silences (48 quick / 400 thorough); ModuleStatus objects published per cycle (name, state, error) and frames compared with the extracted authority model; the C10 predicate (truthful, on change + every tenth cycle, silent start, canonical names) evaluated on the real publications with independently tracked heard/time/previous-status; non-trivial = a status was published; distinct by case text',
        'exhaustive': {'quick': False, 'thorough': False},
        'level_text': 'Theorems C10_healthy_sound (+ preserved invariant), C10_timeout, C10_recovers, C10_on_change_and_every_tenth (iff), C10_silent_start and C10_receive_bookkeeping (driver lists of any length) are proved about the Gallina model of the authority\'s per-unit status logic and receive scan for ALL unit states, cycle numbers and clock values; the whole-history predicate c10_spec_ok is evaluated on the real publications and the model is tied by differential execution.',
        'level_note': 'partial: the theorems are per-step (every cycle / every received frame, all states) with a preserved invariant; the end-to-end statement over whole histories (c10_spec_ok for every history) is checked by execution, not yet proved. elapsed() > timeout is modelled on an integer millisecond clock as elapsed = delta + eps. Trusted: kernel, extraction, drv.ml, harness (bus hub).',
        'technique': 'Rocq proof (case analysis of the status decision, preserved invariant, induction over the driver list) + differential execution of the real NetworkAuthority incl. real-time timeouts',
        'explanation': 'seven theorems in Properties/C10.v',
        'assumptions': ['one authority instance is stepped (recv / on_tick of the three runtime clones share the contexts through Arc<Mutex>)', 'time between un-waited events is far below 150 ms'],
        'trusted': ['modelled, not verified: std::time::Instant, tokio broadcast send, the emulated bus'],
    },
    'C11': {
        'rule': 'every driver kind x 3 address configurations x 34 parameter groups x destination classes {unit, daemon, 0xFF, other} x ALL 256 source addresses (first configuration complete in quick, all in thorough), real try_recv on a fresh context: rx_count, rx_last_message and the signals are observed and compared with the extracted model; the C11 predicate (credited => source = unit; signals name the unit; addressed elsewhere / Request => nothing changes) is evaluated on the real observation; '
                'non-trivial = frame whose source is the unit; distinct by case text',
        'exhaustive': {'quick': False, 'thorough': True},
        'level_text': 'Theorems C11 (predicate for all frames/configurations), C11_foreign_inert, C11_source, C11_addressed_elsewhere, C11_names_source (all driver kinds, all contexts), C11_at_most_one (authority scan over driver lists of ANY length: a driver whose address differs from the frame source keeps its context) and C11_request_inert are proved about the Gallina driver models; tied to the real drivers by exhaustive execution over sources x groups x destination classes.',
        'level_note': 'the model reflects fix 1941a7f (TSC1 credited only from the unit). The authority-level statement is proved on the model of NetworkAuthority::recv (scan order, first non-empty rx_queue marks and stops); its real-code tie is the single-driver execution plus the authority runs in C10/C20. Trusted: kernel, extraction, drv.ml, harness.',
        'technique': 'Rocq proof (case analysis over parameter group x driver kind, address arithmetic by lia, induction over the driver list) + exhaustive source/group/destination correspondence',
        'explanation': 'seven theorems in Properties/C11.v',
        'assumptions': ['received frames are 8 bytes (C06)'],
        'trusted': ['modelled, not verified: crate j1939 Id::pgn()/destination_address()/source_address()'],
    },
    'C12': {
        'rule': 'real try_recv: inclinometer: every 16-bit value of each slope word (thorough; every 8th + boundaries quick) and all status bytes; encoder: all four addresses x status word sweep x position boundaries (0,1,999,1000,2^24+-1,2^31,2^32-2,all-FF) + 6k/250k sampled positions; EEC1 on both engine drivers: rpm word (all thorough; every 32nd + boundaries quick) x 16 starter nibbles x absent/present torque/demand classes; hydraulic status: (state, lock) byte pairs; '
                'integer fields compared exactly with the extracted model; rotations compared in the harness with an f64 reference of the protocol formula (matrix distance < 2e-4; the encoder scalar is evaluated with the same f32 operations) and reported as one bit; C12 predicate evaluated on the real observation; non-trivial = frame from the unit; distinct by case text',
        'exhaustive': {'quick': False, 'thorough': True},
        'level_text': 'Theorem C12 proves the field-by-field characterisation for ALL 2^64 payloads (encoder position and error class, inclinometer slopes as signed tenths of a degree, EEC1 demand/load/rpm and state incl. "a 0 rpm engine is never running" and "active starter => starting", hydraulic lock bit, device errors surfaced without suppressing the measurement) about the Gallina models; C12_eec1_fields and C12_never_running_at_zero state the engine part directly. Tied by exhaustive execution over every 16-bit field.',
        'level_note': 'partial on the float half: the rotation produced from the decoded integers (nalgebra from_axis_angle / from_euler_angles, f32 sin/cos) is checked against an f64 reference inside the harness, not modelled in Coq. Trusted: kernel, extraction, drv.ml, harness (incl. its reference rotation).',
        'technique': 'Rocq proof (byte-exact integer decoding, lia with div/mod over exploded 8-byte payloads) + exhaustive 16-bit-field correspondence + float tolerance check in the harness',
        'explanation': 'C12, C12_eec1_fields, C12_never_running_at_zero',
        'assumptions': ['received frames are 8 bytes (C06)', 'rotation matrices compared with tolerance 2e-4'],
        'trusted': ['modelled, not verified: j1939 slots::{position_level2,rotational_velocity}::dec float clamping; nalgebra rotations; libm sin/cos'],
    },
    'C07': {
        'level_text': 'Theorem C07 (and C07_envelope, C07_never_panics) proves the envelope for ALL idle<=max, ALL integer speeds and all 48 '
                      'state/age combinations about the Gallina model of Governor::next_state; the model is tied to the code by exhaustive '
                      'differential execution over the property\'s whole finite domain (thorough) so theorem + agreement cover the implementation.',
        'level_note': 'trusted: Coq kernel, ExtrOcamlBasic extraction, ocaml/drv.ml, harness; command age is exercised as none/young/old only '
                      '(the exact-timeout boundary is covered by the model alone).',
        'technique': 'Rocq proof (decision-table case analysis + lia) + exhaustive model/implementation correspondence',
        'rule': 'every (reported state, requested state, age) x requested rpm 0..65535 for the shipped setting (800,2100), '
                'and for (0,65535) (1000,1000) (900,2000) (2100,800: outside the domain, clamp asserts) on a 1/16 grid + boundaries in quick, '
                'completely in thorough; real Governor::next_state vs extracted model, property predicate evaluated on the real output; '
                'non-trivial = idle<=max and not (reported=NoRequest and requested=NoRequest); all cases distinct by construction',
        'exhaustive': {'quick': False, 'thorough': True},
        'explanation': 'theorem C07 (all idle<=max, all Z speeds, all 48 state/age combinations) + exhaustive agreement of the model with Governor::next_state',
        'assumptions': ['command age is observed only through `elapsed() > timeout`; Young/Old are produced with a 1 h timeout / a 50 ms old instant and 1 ms timeout',
                        'the boundary elapsed()==timeout cannot be produced in real time and is covered by the model only'],
        'trusted': ['modelled, not verified: Rust semantics of u16::clamp and of the match in Governor::next_state (tied by exhaustive execution)'],
    },
}
