#!/usr/bin/env python3
import importlib.machinery, importlib.util
loader = importlib.machinery.SourceFileLoader('chk', '/verif/check')
spec = importlib.util.spec_from_loader('chk', loader); m = importlib.util.module_from_spec(spec); loader.exec_module(m)
m.coq_project()
