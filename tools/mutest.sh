#!/bin/bash
# usage: tools/mutest.sh <patch.diff> <Cxx> [more Cxx...] : apply a seeded change to /repo, run the checks, undo it.
set -u
patch="$1"; shift
cd /verif
if ! git -C /repo diff --quiet; then echo "repo dirty, refusing"; exit 2; fi
git -C /repo apply "$patch" || { echo "patch does not apply"; exit 2; }
for p in "$@"; do
  echo "=== $p with $(basename $(dirname $patch))/$(basename $patch)"
  ./check "$p" --tier "${TIER:-quick}" 2>&1 | tail -${TAIL:-4}
done
git -C /repo checkout -- . && git -C /repo clean -fdq
git -C /repo status --short | head -3
