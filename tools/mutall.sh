#!/bin/bash
# runs every seeded change against its own property's quick check; one summary line each
cd /verif
out=${1:-/verif/seeded/CATCHES.txt}
: > $out
for d in seeded/C??-?; do
  id=$(basename $d); p=${id%-*}
  r=$(TAIL=40 tools/mutest.sh /verif/$d/patch.diff $p 2>&1)
  v=$(echo "$r" | grep -c '^VIOLATION')
  kind=$(echo "$r" | grep -o 'BROKEN\[[a-z,]*\]' | head -1)
  nf=$(echo "$r" | grep -c 'no-failing-input-found')
  n=$(echo "$r" | grep -o '[0-9]* of [0-9]* cases' | head -1)
  if [ "$v" -ge 1 ]; then
    if [ "$nf" -ge 1 ]; then w="caught (broken tie, no failing input found)"; else w="caught (property fails on the implementation; replay written)"; fi
  else w="MISSED"; fi
  echo "$id | $w | ${kind:-} ${n:-}" | tee -a $out
done
