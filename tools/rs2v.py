#!/usr/bin/env python3
"""rs2v: re-extracts from /repo's *current* source every constant (and, below, every
context-access shape) the Coq models depend on, and writes coq/Gen/Consts.v / Shape.v.
Files are rewritten only when their content changes.  If an item can no longer be found
the script fails: that is a broken tie, reported by ./check.

This is a pattern-directed translator (regular expressions over the Rust source), not a
Rust parser; each pattern is anchored on the item's name, and every constant it emits is
also exercised by the correspondence check (a wrong constant makes impl != model)."""
import sys, re, os

repo, outdir = sys.argv[1], sys.argv[2]
RT = os.path.join(repo, 'glonax-runtime', 'src')
errors = []   # hard: a premise of the model is gone (version pins, tables, access shapes)
softs = []    # soft: something could not be re-read in the shape the translator knows; last known value kept


def soft(msg):
    softs.append(msg)
defs = []   # (name, coq type, coq value, origin)


def src(rel, base=RT):
    p = os.path.join(base, rel)
    try:
        return open(p).read()
    except OSError:
        errors.append('cannot read ' + p)
        return ''


def num(tok):
    tok = tok.replace('_', '').strip()
    tok = re.sub(r'(u8|u16|u32|u64|usize|i16|i32|i64|f32|f64)$', '', tok)
    if tok.lower().startswith('0x'):
        return int(tok, 16)
    if tok.lower().startswith('0b'):
        return int(tok, 2)
    return int(tok)


def want(name, text, pattern, origin, conv=num, flags=re.S):
    m = re.search(pattern, text, flags)
    if not m:
        soft('%s: pattern not found in %s: %s' % (name, origin, pattern))
        return None
    try:
        v = conv(m.group(1))
    except Exception as e:  # noqa
        soft('%s: cannot convert %r (%s)' % (name, m.group(1), e))
        return None
    defs.append((name, 'Z', '(%d)' % v, origin))
    return v


# ---- governor settings used by the engine drivers
t = src('driver/net/volvo_ems.rs')
m = re.search(r'Governor::new\(\s*([\d_]+)\s*,\s*([\d_]+)\s*,\s*Duration::from_millis\(\s*([\d_]+)\s*\)', t)
if m:
    defs += [('volvo_rpm_idle', 'Z', '(%d)' % num(m.group(1)), 'volvo_ems.rs Governor::new'),
             ('volvo_rpm_max', 'Z', '(%d)' % num(m.group(2)), 'volvo_ems.rs Governor::new'),
             ('volvo_timeout_ms', 'Z', '(%d)' % num(m.group(3)), 'volvo_ems.rs Governor::new')]
else:
    soft('volvo governor: Governor::new(idle, max, Duration::from_millis(t)) not found in volvo_ems.rs')

# ---- EngineState discriminants
t = src('core/engine.rs')
for nm in ('NoRequest', 'Starting', 'Stopping', 'Request'):
    want('engine_state_' + nm, t, r'enum EngineState\s*\{.*?\b%s\s*=\s*(0x[0-9a-fA-F]+|\d+)' % nm, 'core/engine.rs EngineState')


# ---- hydraulic.rs constants
t = src('driver/net/hydraulic.rs')
want('hcu_status_pgn', t, r'const STATUS_PGN:\s*u32\s*=\s*([\d_]+)', 'hydraulic.rs STATUS_PGN')
want('hcu_bank_slots', t, r'const BANK_SLOTS:\s*usize\s*=\s*([\d_]+)', 'hydraulic.rs BANK_SLOTS')
m = re.search(r'const BANK_PGN_LIST:\s*\[PGN;\s*(\d+)\]\s*=\s*\[(.*?)\];', t, re.S)
if m:
    vals = [num(x) for x in re.findall(r'PGN::Other\(([\d_]+)\)', m.group(2))]
    if len(vals) != int(m.group(1)):
        soft('BANK_PGN_LIST: cannot read all entries')
    else:
        defs.append(('hcu_bank_pgns', 'list Z', '[' + '; '.join(str(v) for v in vals) + ']', 'hydraulic.rs BANK_PGN_LIST'))
else:
    soft('BANK_PGN_LIST not found in hydraulic.rs')

# ---- core/motion.rs
t = src('core/motion.rs')
for nm in ('STOP_ALL', 'RESUME_ALL', 'RESET_ALL', 'STRAIGHT_DRIVE', 'CHANGE'):
    want('motion_type_' + nm.lower(), t, r'const MOTION_TYPE_%s:\s*u8\s*=\s*(0x[0-9a-fA-F]+|\d+)' % nm, 'core/motion.rs')
want('motion_max_change_set_count', t, r'const MOTION_MAX_CHANGE_SET_COUNT:\s*usize\s*=\s*([\d_]+)', 'core/motion.rs')
for nm in ('Boom', 'Arm', 'Attachment', 'Slew', 'LimpLeft', 'LimpRight'):
    want('actuator_' + nm, t, r'enum Actuator\s*\{.*?\b%s\s*=\s*(\d+)' % nm, 'core/motion.rs Actuator')

# ---- protocol constants
t = src('protocol/mod.rs')
m = re.search(r"const PROTO_HEADER:\s*\[u8;\s*3\]\s*=\s*\[b'(.)',\s*b'(.)',\s*b'(.)'\]", t)
if m:
    defs.append(('proto_header', 'list Z', '[%d; %d; %d]' % tuple(ord(m.group(i)) for i in (1, 2, 3)), 'protocol/mod.rs PROTO_HEADER'))
else:
    soft('PROTO_HEADER not found')
want('proto_version', t, r'const PROTO_VERSION:\s*u8\s*=\s*(0x[0-9a-fA-F]+|\d+)', 'protocol/mod.rs')
want('max_payload_size', t, r'const MAX_PAYLOAD_SIZE:\s*usize\s*=\s*([\d_]+)', 'protocol/mod.rs')

def sizeexpr(e):
    e = e.strip()
    e = re.sub(r'std::mem::size_of::<f32>\(\)', '4', e)
    e = re.sub(r'std::mem::size_of::<u8>\(\)', '1', e)
    e = re.sub(r'std::mem::size_of::<u16>\(\)', '2', e)
    if not re.fullmatch(r'[\d\s\+\*\(\)_]+', e):
        raise ValueError('unsupported size expression ' + e)
    return int(eval(e.replace('_', '')))

tf = src('protocol/frame.rs')
fm = dict((k, num(v)) for k, v in re.findall(r'\b(_?\w+)\s*=\s*(0x[0-9a-fA-F]+)', (re.search(r'enum FrameMessage\s*\{(.*?)\}', tf, re.S) or [None, ''])[1]))
types = []
def packet(name, rel, typ, text=None, msg_from_enum=None):
    tt = text if text is not None else src(rel)
    blk = re.search(r'impl\s+(?:crate::protocol::|super::)?Packetize\s+for\s+%s\s*\{(.*?)\n\}' % typ, tt, re.S)
    if not blk:
        soft('Packetize impl for %s not found in %s' % (typ, rel)); return
    b = blk.group(1)
    m = re.search(r'const MESSAGE_TYPE:\s*u8\s*=\s*([^;]+);', b)
    if not m:
        soft('MESSAGE_TYPE of %s not found' % typ); return
    e = m.group(1).strip()
    if msg_from_enum:
        if msg_from_enum not in fm:
            soft('FrameMessage::%s not found' % msg_from_enum); return
        v = fm[msg_from_enum]
    else:
        try:
            v = num(e.split('//')[0])
        except Exception as ex:  # noqa
            soft('MESSAGE_TYPE of %s is not a literal: %s' % (typ, ex)); return
    defs.append(('type_' + name, 'Z', '(%d)' % v, rel + ' ' + typ + '::MESSAGE_TYPE'))
    types.append(v)
    m = re.search(r'const MESSAGE_SIZE:\s*Option<usize>\s*=\s*Some\((.*)\);', b)
    if m:
        try:
            defs.append(('size_' + name, 'Z', '(%d)' % sizeexpr(m.group(1)), rel + ' ' + typ + '::MESSAGE_SIZE'))
        except Exception as ex:
            soft('MESSAGE_SIZE of %s: %s' % (typ, ex))
    else:
        defs.append(('size_' + name + '_is_variable', 'bool', 'true', rel + ' ' + typ + ' has no MESSAGE_SIZE'))
packet('error', 'protocol/frame.rs', 'SessionError', tf, 'Error')
packet('session', 'protocol/frame.rs', 'Session', tf, 'Session')
packet('request', 'protocol/frame.rs', 'Request', tf, 'Request')
packet('instance', 'core/instance.rs', 'Instance')
packet('status', 'core/status.rs', 'ModuleStatus')
packet('motion', 'core/motion.rs', 'Motion')
packet('gnss', 'core/gnss.rs', 'Gnss')
packet('engine', 'core/engine.rs', 'Engine')
packet('target', 'core/target.rs', 'Target')
packet('control', 'core/control.rs', 'Control')
packet('rotator', 'core/rotation.rs', 'Rotator')
packet('actor', 'world/mod.rs', 'Actor')
if len(types) != 12: soft('Packetize: fewer than twelve MESSAGE_TYPE codes re-read')
else: defs.append(('all_types', 'list Z', '[' + '; '.join(str(v) for v in types) + ']', 'the twelve MESSAGE_TYPE codes'))
m = re.search(r'pub const MODE_STREAM: u8 = (0b[01_]+);', tf)
for nm in ('STREAM', 'CONTROL', 'COMMAND', 'FAILSAFE'):
    want('session_mode_' + nm.lower(), tf, r'pub const MODE_%s:\s*u8\s*=\s*(0b[01_]+|0x[0-9a-fA-F]+|\d+)' % nm, 'protocol/frame.rs Session')
want('session_flag_mask', tf, r'let mask = (0b[01_]+)', 'protocol/frame.rs Session::try_from')

t = src('core/target.rs')
blk = re.search(r'enum Constraint\s*\{(.*?)\n\}', t, re.S)
vals = [num(x) for x in re.findall(r'=\s*(\d+)', blk.group(1))] if blk else []
if not vals: soft('Constraint discriminants not found')
else: defs.append(('constraint_values', 'list Z', '[' + '; '.join(map(str, vals)) + ']', 'core/target.rs Constraint'))

t = src('core/control.rs')
ctl = re.findall(r'const CONTROL_TYPE_(\w+):\s*u8\s*=\s*(0x[0-9a-fA-F]+|\d+)', t)
if len(ctl) < 2: soft('CONTROL_TYPE_* not found'); ctl = []
for nm, v in ctl:
    defs.append(('control_type_' + nm.lower(), 'Z', '(%d)' % num(v), 'core/control.rs'))
if ctl: defs.append(('control_types', 'list Z', '[' + '; '.join(str(num(v)) for _, v in ctl) + ']', 'core/control.rs all CONTROL_TYPE_*'))

t = src('core/status.rs')
blk = re.search(r'enum ModuleState\s*\{(.*?)\n\}', t, re.S)
vals = [num(x) for x in re.findall(r'=\s*(0x[0-9a-fA-F]+)', blk.group(1))] if blk else []
if not vals: soft('ModuleState discriminants not found')
else: defs.append(('module_states', 'list Z', '[' + '; '.join(map(str, vals)) + ']', 'core/status.rs ModuleState'))
for nm in ('Healthy', 'Degraded', 'Faulty', 'Emergency'):
    want('module_state_' + nm, t, r'enum ModuleState\s*\{.*?\b%s\s*=\s*(0x[0-9a-fA-F]+)' % nm, 'core/status.rs ModuleState')

t = src('core/gnss.rs')
blk = re.search(r'enum GnssStatus\s*\{(.*?)\n\}', t, re.S)
vals = [num(x) for x in re.findall(r'=\s*(0x[0-9a-fA-F]+)', blk.group(1))] if blk else []
if not vals: soft('GnssStatus discriminants not found')
else: defs.append(('gnss_statuses', 'list Z', '[' + '; '.join(map(str, vals)) + ']', 'core/gnss.rs GnssStatus'))

# ---- sensor PGNs, engine parameter groups
t = src('driver/net/encoder.rs')
want('encoder_pgn', t, r'const ENCODER_PGN:\s*PGN\s*=\s*PGN::ProprietaryB\(([\d_]+)\)', 'encoder.rs ENCODER_PGN')
t = src('driver/net/inclino.rs')
want('inclino_pgn', t, r'const INCLINOMETER_PGN:\s*PGN\s*=\s*PGN::ProprietaryB\(([\d_]+)\)', 'inclino.rs INCLINOMETER_PGN')
# crate j1939 0.1.33 PGN names -> numbers (modelled crate; the pinned version is checked below)
J1939_PGN = {'TorqueSpeedControl1': 0, 'ElectronicBrakeController1': 61441, 'ElectronicEngineController2': 61443,
             'ElectronicEngineController1': 61444, 'TANKInformation1': 65110, 'FanDrive': 65213,
             'EngineFluidLevelPressure2': 65243, 'ElectronicEngineController3': 65247, 'VehicleDistance': 65248,
             'Shutdown': 65252, 'FuelConsumption': 65257, 'EngineTemperature1': 65262, 'EngineFluidLevelPressure1': 65263,
             'PowerTakeoffInformation': 65264, 'FuelEconomy': 65266, 'AmbientConditions': 65269,
             'InletExhaustConditions1': 65270, 'VehicleElectricalPower1': 65271}
t = src('driver/net/engine.rs')
m = re.search(r'impl Parsable<EngineMessage> for EngineManagementSystem\s*\{(.*?)\nimpl J1939Unit', t, re.S)
if m:
    names = re.findall(r'PGN::(\w+)\s*=>', m.group(1))
    unknown = [n for n in names if n not in J1939_PGN]
    if unknown or not names:
        soft('engine.rs parse: parameter groups not in the modelled table: %s' % unknown)
    else:
        rest = [J1939_PGN[n] for n in names if n not in ('TorqueSpeedControl1', 'ElectronicEngineController1')]
        defs.append(('ems_alive_pgns', 'list Z', '[' + '; '.join(map(str, rest)) + ']', 'engine.rs parse arms other than TSC1/EEC1'))
        if 'TorqueSpeedControl1' not in names or 'ElectronicEngineController1' not in names:
            soft('engine.rs parse: TSC1 / EEC1 arms not found')
else:
    soft('engine.rs: Parsable<EngineMessage> impl not found')
lock = src('Cargo.lock', repo)
m = re.search(r'name = "j1939"\nversion = "([^"]+)"', lock)
if not m or m.group(1) != '0.1.33':
    errors.append('Cargo.lock no longer pins j1939 0.1.33 (the modelled crate version): %s' % (m.group(1) if m else None))

# ---- driver factory table, driver vendor()/product(), crate version, queue sizes
t = src('driver/net/mod.rs')
arms = re.findall(r'\("([^"]+)",\s*"([^"]+)"\)\s*=>\s*Some\(Box::new\((?:\w+::)*(\w+)::new', t)
FIXED = {('laixer', 'hcu'): 1, ('laixer', 'vcu'): 2, ('j1939', 'ecu'): 3, ('kübler', 'encoder'): 4,
         ('kübler', 'inclinometer'): 5, ('j1939', 'ecm'): 6, ('volvo', 'd7e'): 7, ('laixer', 'simulator'): 8}
TYPE_OF = {1: 'HydraulicControlUnit', 2: 'VehicleControlUnit', 3: 'ElectronicControlUnit', 4: 'KueblerEncoder',
           5: 'KueblerInclinometer', 6: 'EngineManagementSystem', 7: 'VolvoD7E', 8: 'Simulator'}
FILE_OF = {1: 'hydraulic.rs', 2: 'vcu.rs', 3: 'ecu.rs', 4: 'encoder.rs', 5: 'inclino.rs', 6: 'engine.rs', 7: 'volvo_ems.rs', 8: 'sim.rs'}
names = {1: 'laixer_hcu', 2: 'laixer_vcu', 3: 'j1939_ecu', 4: 'kuebler_encoder', 5: 'kuebler_inclinometer', 6: 'j1939_ecm', 7: 'volvo_d7e'}
seen = {}
for v, p, ty in arms:
    k = FIXED.get((v, p))
    if k is None:
        errors.append('driver_factory: new (vendor, product) pair not in the modelled table: %s %s' % (v, p)); continue
    if TYPE_OF[k] != ty:
        errors.append('driver_factory: (%s,%s) now builds %s (modelled: %s)' % (v, p, ty, TYPE_OF[k]))
    seen[k] = (v, p)
for k, nm in names.items():
    if k not in seen:
        errors.append('driver_factory: pair for %s no longer present' % nm)
    defs.append(('key_' + nm, 'Z', '(%d)' % k, 'driver/net/mod.rs driver_factory'))
def utf8(sv): return '[' + '; '.join(str(b) for b in sv.encode('utf-8')) + ']'
rows = []
for k in sorted(seen):
    if k == 8: continue
    v, p = seen[k]
    rows.append('(%s, %s, %d)' % (utf8(v), utf8(p), k))
defs.append(('factory_table', 'list (list Z * list Z * Z)', '[' + '; '.join(rows) + ']', 'driver_factory keys as UTF-8 bytes'))
vp = []
for k in sorted(names):
    tt = src('driver/net/' + FILE_OF[k])
    m = re.search(r'impl J1939Unit for %s\s*\{.*?fn vendor\(&self\)\s*->\s*&\'static str\s*\{\s*"([^"]*)"\s*\}.*?fn product\(&self\)\s*->\s*&\'static str\s*\{\s*"([^"]*)"' % TYPE_OF[k], tt, re.S)
    if not m:
        soft('vendor()/product() of %s not found' % TYPE_OF[k]); continue
    vp.append('(%d, %s, %s)' % (k, utf8(m.group(1)), utf8(m.group(2))))
defs.append(('driver_names', 'list (Z * list Z * list Z)', '[' + '; '.join(vp) + ']', 'J1939Unit::vendor()/product() of each driver'))
t = src('Cargo.toml', os.path.join(repo, 'glonax-runtime'))
m = re.search(r'^version\s*=\s*"(\d+)\.(\d+)\.(\d+)"', t, re.M)
if m:
    for nm, g in (('major', 1), ('minor', 2), ('patch', 3)):
        defs.append(('version_' + nm, 'Z', '(%d)' % int(m.group(g)), 'glonax-runtime/Cargo.toml version'))
else:
    soft('crate version not found in glonax-runtime/Cargo.toml')
t = src('lib.rs')
want('queue_size_command', t, r'pub const QUEUE_SIZE_COMMAND:\s*usize\s*=\s*([\d_]+)', 'lib.rs consts')
want('queue_size_signal', t, r'pub const QUEUE_SIZE_SIGNAL:\s*usize\s*=\s*([\d_]+)', 'lib.rs consts')
t = src('service/authority.rs')
m = re.search(r'interval_decimation\(Duration::from_millis\(([\d_]+)\),\s*self\.tick,\s*([\d_]+)\)', t)
if m:
    defs.append(('status_refresh_cycles', 'Z', '(%d)' % (num(m.group(2)) // num(m.group(1))), 'authority.rs interval_decimation(10 ms, tick, 100)'))
else:
    soft('authority.rs: interval_decimation call not found')

# ---- the shipped example configuration (contrib/etc/glonax.conf), as authority cases
try:
    import tomllib
    conf = tomllib.loads(src('contrib/etc/glonax.conf', repo))
    KEYN = {('laixer', 'hcu'): 1, ('laixer', 'vcu'): 2, ('j1939', 'ecu'): 3, ('kübler', 'encoder'): 4,
            ('kübler', 'inclinometer'): 5, ('j1939', 'ecm'): 6, ('volvo', 'd7e'): 7}
    nets = []
    for net in conf.get('j1939', []):
        nm = net['name']
        head = [net['address'], nm['manufacturer_code'], nm['function_instance'], nm['ecu_instance'], nm['function'],
                nm['vehicle_system'], nm['vehicle_system_instance'], nm['industry_group'], len(net['driver'])]
        for d in net['driver']:
            tk = 0 if 'timeout' not in d else (2 if d['timeout'] == 0 else 1)
            head += [KEYN.get((d['vendor'], d['product']), 0), d['da'], 1 if 'sa' in d else 0, d.get('sa', 0), tk]
        nets.append('[' + '; '.join(str(x) for x in head) + ']')
    if not nets:
        soft('contrib/etc/glonax.conf: no [[j1939]] network found')
    else: defs.append(('shipped_networks', 'list (list Z)', '[' + '; '.join(nets) + ']', 'contrib/etc/glonax.conf [[j1939]] entries as authority case prefixes (timeouts as class: present/zero/absent)'))
except Exception as ex:  # noqa
    soft('contrib/etc/glonax.conf cannot be parsed: %s' % ex)

# ---- director thresholds and addresses
t = src('service/director.rs')
for nm in ('ENCODER_FRAME', 'ENCODER_BOOM', 'ENCODER_ARM', 'ENCODER_ATTACHMENT', 'INCLINOMETER'):
    want('director_' + nm.lower(), t, r'const %s:\s*u8\s*=\s*(0x[0-9a-fA-F]+)' % nm, 'director.rs')
want('director_rpm_low', t, r'if engine\.rpm < ([\d_]+)', 'director.rs elect_engine_state')
want('director_rpm_high', t, r'engine\.rpm > ([\d_]+)', 'director.rs elect_engine_state')
m = re.search(r'INCLINOMETER => \{(.*?)\n            \}', t, re.S)
if m:
    ths = re.findall(r'roll > ([\d\.]+)_f32\.to_radians\(\) \|\| pitch > ([\d\.]+)_f32\.to_radians\(\)', m.group(1))
    vers = re.findall(r'return DirectorLocslState::(\w+)', m.group(1))
    if len(ths) != 2 or len(vers) != 2 or any(a != b for a, b in ths):
        soft('director.rs: inclinometer branches not in the expected shape')
    else:
        # branches in the code's order: (threshold in degrees, verdict)
        for i, ((a, _), v) in enumerate(zip(ths, vers)):
            defs.append(('director_tilt_%d_deg' % (i + 1), 'Z', '(%d)' % int(float(a)), 'director.rs inclinometer branch %d' % (i + 1)))
            defs.append(('director_tilt_%d_emergency' % (i + 1), 'bool', 'true' if v == 'Emergency' else 'false', 'director.rs inclinometer branch %d verdict %s' % (i + 1, v)))
else:
    soft('director.rs: INCLINOMETER arm not found')
m = re.search(r'operation:\s*DirectorOperation::(\w+)', t)
if m:
    defs.append(('director_supervised', 'bool', 'true' if m.group(1) == 'Supervised' else 'false', 'director.rs Director::new operation mode'))
else:
    soft('director.rs: operation mode not found')


# ---- motion profiles the director binds (C19) and the constants of the maths helpers
profs = re.findall(r'Linear::new\(\s*([\d_]+)\.0\s*,\s*([\d_]+)\.0\s*,\s*(true|false)\s*\)', t)
if not profs:
    soft('director.rs: no Linear::new(<gain>.0, <offset>.0, <bool>) profile found')
else:
    defs.append(('director_profiles', 'list (Z * Z * bool)',
                 '[' + '; '.join('(%d, %d, %s)' % (num(a), num(b), c) for a, b, c in profs) + ']',
                 'director.rs Linear::new(gain, offset, inverse) in binding order'))
tm = src('math/mod.rs')
if not re.search(r'use std::f32::consts::PI;', tm):
    soft('math/mod.rs: PI is no longer std::f32::consts::PI')
tl = src('math/lin.rs')
if not (re.search(r'i16::MIN as f32 \+ self\.offset', tl) and re.search(r'i16::MAX as f32 - self\.offset', tl)):
    soft('math/lin.rs: clamp bounds are no longer i16::MIN/MAX as f32 -/+ offset')
want('power_neutral', src('core/motion.rs'), r'pub const POWER_NEUTRAL: MotionValueType = (-?[\d_]+);', 'core/motion.rs Motion::POWER_NEUTRAL')


# ---- access shapes: for every J1939Unit handler the schedule theorems speak about, the ordered
# list of accesses to the shared NetDriverContext as they appear in the handler's body
# (1 tx_last_message 2 set_tx_last_message 3 rx_last_message 4 set_rx_last_message 5 rx_mark
#  6 rx_count 7 is_rx_timeout 9 other).  coq/Proofs/Sched_proof.v compares them with the
# micro-step programs of coq/Model/Sched.v.
ACC = {'tx_last_message': 1, 'set_tx_last_message': 2, 'rx_last_message': 3, 'set_rx_last_message': 4,
       'rx_mark': 5, 'rx_count': 6, 'is_rx_timeout': 7}


def _strip_comments(t):
    t = re.sub(r'//[^\n]*', '', t)
    return re.sub(r'/\*.*?\*/', '', t, flags=re.S)


def _fn_body(text, name):
    m = re.search(r'\bfn\s+%s\s*(?:<[^>]*>)?\s*\(' % name, text)
    if not m:
        return None
    i = text.find('{', m.end())
    depth = 0
    for j in range(i, len(text)):
        if text[j] == '{':
            depth += 1
        elif text[j] == '}':
            depth -= 1
            if depth == 0:
                return text[i:j + 1]
    return None


def _accesses(text, body, depth=0, seen=()):
    """accesses to a shared driver context in `body`, in source order: a call `.<accessor>(` of one of the context's
    accessors counts; a call of a function or method DEFINED IN THE SAME FILE contributes the accesses of its body at
    that point (followed up to four levels, recursion cut) - so that extracting helpers does not change the shape"""
    out = []
    for m in re.finditer(r'(\.)?\b(\w+)\s*\(', body):
        dot, name = m.group(1), m.group(2)
        if dot and name in ACC:
            out.append(name)
        elif depth < 4 and name not in seen and name not in ACC:
            hb = _fn_body(text, name)
            if hb is not None and hb != body and len(hb) < 20000:
                out += _accesses(text, hb, depth + 1, seen + (name,))
    return out


def shape(defname, rel, fn):
    text = _strip_comments(src(rel))
    body = _fn_body(text, fn)
    if body is None:
        errors.append('%s: fn %s not found in %s' % (defname, fn, rel))
        return
    accs = [ACC[a] for a in _accesses(text, body, 0, (fn,))]
    defs.append((defname, 'list Z', '[' + '; '.join(str(a) for a in accs) + ']', '%s fn %s: context accesses in order (functions of the same file are followed)' % (rel, fn)))


shape('shape_hcu_tick', 'driver/net/hydraulic.rs', 'tick')
shape('shape_hcu_trigger', 'driver/net/hydraulic.rs', 'trigger')
shape('shape_hcu_try_recv', 'driver/net/hydraulic.rs', 'try_recv')
shape('shape_volvo_tick', 'driver/net/volvo_ems.rs', 'tick')
shape('shape_volvo_trigger', 'driver/net/volvo_ems.rs', 'trigger')
shape('shape_volvo_try_recv', 'driver/net/volvo_ems.rs', 'try_recv')
shape('shape_ems_try_recv', 'driver/net/engine.rs', 'try_recv')
shape('shape_authority_recv', 'service/authority.rs', 'recv')
shape('shape_authority_on_tick', 'service/authority.rs', 'on_tick')
shape('shape_authority_on_command', 'service/authority.rs', 'on_command')


# ---- the premise of the schedule model: every accessor of the shared NetDriverContext is ONE critical
# section that waits for the lock (self.detail.lock().unwrap()...), never a try_lock that may skip
tj = _strip_comments(src('runtime/j1939.rs'))
_LOCK = r'\bself\.\w+\.lock\(\)\.unwrap\(\)'          # a blocking acquisition of the (privately named) mutex field
_inner = re.search(r'impl NetDriverContext \{.*?\bpub fn inner\s*\([^)]*\)[^{]*\{(.*?)\n    \}', tj, re.S)
_inner_ok = bool(_inner) and len(re.findall(_LOCK, _inner.group(1))) == 1 and 'try_lock' not in _inner.group(1)
for acc in ('is_rx_timeout', 'rx_mark', 'set_tx_last_message', 'set_rx_last_message', 'tx_last_message', 'rx_last_message', 'rx_count'):
    m = re.search(r'impl NetDriverContext \{.*?\bpub fn %s\s*\([^)]*\)[^{]*\{(.*?)\n    \}' % acc, tj, re.S)
    body = m.group(1) if m else ''
    # exactly one critical section that waits for the lock: lock().unwrap() directly, or through inner() (pinned above)
    nlocks = len(re.findall(_LOCK, body)) + (body.count('self.inner()') if _inner_ok else 0)
    if not m or nlocks != 1 or 'try_lock' in body or '.lock()' in re.sub(_LOCK, '', body):
        errors.append('runtime/j1939.rs NetDriverContext::%s is no longer a single lock().unwrap() access' % acc)
defs.append(('ctx_accessors_single_locked_access', 'bool', 'false' if any('NetDriverContext::' in e for e in errors) else 'true', 'runtime/j1939.rs: every NetDriverContext accessor is one self.detail.lock().unwrap() critical section'))

# ---- the premise of abstracting from time: the modelled code waits and gives up exactly where the model
# says it does. Per file, the kinds of timing / readiness-dependent primitives that occur (comments and the
# test module stripped): 1 timeout( 2 sleep( 3 try_lock( 4 try_send( 5 .try_recv() 6 try_read/try_write
# 7 .elapsed( 8 Instant::now 9 interval( 10 select! 11 .tick()
_WAITP = [(1, r'(?<![\w])timeout\s*\('), (2, r'(?<![\w])sleep\s*\('), (3, r'\btry_lock\s*\('), (4, r'\btry_send\s*\('),
          (5, r'\.try_recv\s*\(\s*\)'), (6, r'\btry_(?:read|write)\w*\s*\('), (7, r'\.elapsed\s*\('), (8, r'Instant::now'),
          (9, r'(?<![\w])interval(?:_at)?\s*\('), (10, r'select!'), (11, r'\.tick\s*\(\s*\)')]


def waits(defname, rel, base=RT):
    try:
        t = _strip_comments(src(rel, base))
    except Exception as e:
        errors.append('%s: %s unreadable (%s)' % (defname, rel, e))
        return
    t = t.split('#[cfg(test)]')[0]
    hits = []
    for code, pat in _WAITP:
        for m in re.finditer(pat, t):
            hits.append((m.start(), code))
    # the KINDS that occur (sorted, each once): robust against helper extraction and reordering, still sensitive to a
    # file that starts to time out, poll, sleep or read the clock where it did not before
    kinds = sorted(set(c for _, c in hits))
    defs.append((defname, 'list Z', '[' + '; '.join(str(c) for c in kinds) + ']',
                 '%s: kinds of timing / readiness primitives that occur' % rel))


waits('waits_server', 'service/server.rs')
waits('waits_protocol', 'protocol/mod.rs')
waits('waits_client', 'protocol/client.rs')
waits('waits_authority', 'service/authority.rs')
waits('waits_net', 'net.rs')
waits('waits_can', 'can.rs')
waits('waits_runtime', 'runtime/mod.rs')
waits('waits_j1939', 'runtime/j1939.rs')
waits('waits_director', 'service/director.rs')
waits('waits_hydraulic', 'driver/net/hydraulic.rs')
waits('waits_volvo', 'driver/net/volvo_ems.rs')
waits('waits_engine', 'driver/net/engine.rs')
waits('waits_governor', 'driver/governor.rs')
waits('waits_input_main', 'main.rs', os.path.join(repo, 'glonax-input', 'src'))
waits('waits_input_input', 'input.rs', os.path.join(repo, 'glonax-input', 'src'))
waits('waits_input_joystick', 'joystick.rs', os.path.join(repo, 'glonax-input', 'src'))
waits('waits_server_main', 'main.rs', os.path.join(repo, 'glonax-server', 'src'))
waits('waits_control_main', 'main.rs', os.path.join(repo, 'glonax-control', 'src'))

# ---- driver/governor.rs Governor::next_state, translated: the match on (signal.state, command.state) as a
# first-match arm table  (signal state, [command states] ([] = any), Some (expired branch) | None, normal branch);
# a branch = (rpm source: 0 = self.rpm_idle, 1 = command.rpm ; resulting state); states 0 NoRequest 1 Starting
# 2 Stopping 3 Request. Anything that is not of this shape breaks the tie.
ST={'NoRequest':0,'Starting':1,'Stopping':2,'Request':3}
def governor_table(text):
    """first-match arm table of Governor::next_state: (sig, [cmd...] ([] = any), expired-branch or None, normal branch);
    a branch is (rpm source: 0 = rpm_idle, 1 = command.rpm ; resulting state)"""
    t=_strip_comments(text)
    m=re.search(r'match\s*\(\s*signal\.state\s*,\s*command\.state\s*\)\s*\{',t)
    if not m: raise ValueError('match (signal.state, command.state) not found')
    i=m.end(); depth=1; j=i
    while depth:
        if t[j]=='{': depth+=1
        elif t[j]=='}': depth-=1
        j+=1
    body=t[i:j-1]
    # split arms at top level: pattern => expr , | pattern => { block }
    arms=[]; k=0
    eng=r'Engine\s*\{\s*rpm\s*:\s*self\.reshape\(\s*(self\.rpm_idle|command\.rpm)\s*\)\s*,\s*state\s*:\s*EngineState::(\w+)\s*,\s*\.\.Default::default\(\)\s*,?\s*\}'
    guard=r'if\s+let\s+Some\(instant\)\s*=\s*command_instant\s*\{\s*if\s+instant\.elapsed\(\)\s*>\s*self\.state_transition_timeout\s*\{\s*return\s+'+eng+r'\s*;\s*\}\s*\}'
    arm_re=re.compile(r'\s*\(\s*EngineState::(\w+)\s*,\s*((?:EngineState::\w+\s*\|\s*)*EngineState::\w+|_)\s*\)\s*=>\s*(?:\{\s*'+guard+r'\s*'+eng+r'\s*\}\s*,?|'+eng+r'\s*,)',re.S)
    while k<len(body) and body[k:].strip():
        mm=arm_re.match(body,k)
        if not mm: raise ValueError('arm not of the translated shape near: '+body[k:k+120].strip().replace('\n',' '))
        sig=mm.group(1); pats=mm.group(2)
        cmds=[] if pats.strip()=='_' else [ST[x] for x in re.findall(r'EngineState::(\w+)',pats)]
        src=lambda s:0 if s=='self.rpm_idle' else 1
        if mm.group(3):
            exp=(src(mm.group(3)),ST[mm.group(4)]); nor=(src(mm.group(5)),ST[mm.group(6)])
        else:
            exp=None; nor=(src(mm.group(7)),ST[mm.group(8)])
        arms.append((ST[sig],cmds,exp,nor)); k=mm.end()
    return arms
def coq(arms):
    def br(b): return '(%d, %d)'%b
    return '['+'; '.join('(%d, [%s], %s, %s)'%(s,'; '.join(map(str,c)),('Some '+br(e)) if e else 'None',br(n)) for s,c,e,n in arms)+']'

notes = []
try:
    _gt = governor_table(src('driver/governor.rs'))
    defs.append(('governor_arms', 'list (Z * list Z * option (Z * Z) * (Z * Z))', coq(_gt), 'driver/governor.rs Governor::next_state: translated arm table'))
    defs.append(('governor_translated', 'bool', 'true', 'driver/governor.rs next_state has the shape the translator understands'))
except Exception as e:
    # a rewrite the translator does not understand is not a broken tie by itself: C07 / C08 then rest on the
    # (exhaustive over states x ages x boundary speeds) correspondence alone, and say so in their evidence
    notes.append('driver/governor.rs next_state is not of the translated shape (%s): translator tie unavailable, correspondence tie only' % e)
    defs.append(('governor_arms', 'list (Z * list Z * option (Z * Z) * (Z * Z))', '[]', 'driver/governor.rs Governor::next_state: NOT translated'))
    defs.append(('governor_translated', 'bool', 'false', 'driver/governor.rs next_state does not have the shape the translator understands'))
if not re.search(r'pub fn reshape\(&self, torque: u16\) -> u16 \{\s*torque\.clamp\(self\.rpm_idle, self\.rpm_max\)\s*\}', _strip_comments(src('driver/governor.rs'))):
    soft('driver/governor.rs reshape is no longer torque.clamp(self.rpm_idle, self.rpm_max)')
defs.append(('governor_reshape_is_clamp', 'bool', 'false' if any('reshape is no longer' in e for e in errors) else 'true', 'driver/governor.rs reshape = torque.clamp(rpm_idle, rpm_max)'))

EXTRA = os.path.join(os.path.dirname(os.path.abspath(__file__)), 'rs2v_extra.py')
if os.path.exists(EXTRA):
    exec(compile(open(EXTRA).read(), EXTRA, 'exec'))

# ---- a failed extraction breaks the tie of the properties whose models use what could not be re-read,
# not of everything: each message is attributed to properties by what it is about; the definitions that could
# be extracted are still written (a model that needs a missing one no longer compiles)
_SCOPE = [
    (r'volvo', 'C08'), (r'governor', 'C07 C08'),
    (r'BANK_PGN|hydraulic|hcu', 'C01 C02 C12 C16'),
    (r'PROTO_HEADER|Packetize|MESSAGE_TYPE|MESSAGE_SIZE|FrameMessage|Constraint|CONTROL_TYPE|ModuleState|GnssStatus|protocol/|frame\.rs|core/', 'C03 C04 C05 C13 C14 C15 C18'),
    (r'engine\.rs', 'C06 C08 C11 C12'), (r'Cargo\.lock', 'C02 C06 C11 C12 C17 C20'),
    (r'driver_factory|vendor\(\)', 'C10 C11 C16 C20'), (r'crate version', 'C14'),
    (r'interval_decimation', 'C10'), (r'glonax\.conf', 'C10 C16 C20'),
    (r'director', 'C09 C19'), (r'math/|lin\.rs|actuator|Linear', 'C19'),
    (r'shape_|NetDriverContext|j1939\.rs', 'C01 C08 C10'),
    (r'joystick|gamepad|glonax-input|glonax-control|input\.rs', 'C18'),
    (r'server\.rs', 'C03 C04 C05 C14'), (r'authority', 'C01 C02 C06 C10 C11 C15 C16 C20'),
    (r'net\.rs|can\.rs', 'C06 C17 C15 C16'), (r'runtime/mod', 'C15 C16'),
]
def _scope(e):
    props = set()
    for pat, ps in _SCOPE:
        if re.search(pat, e):
            props |= set(ps.split())
    return ' '.join(sorted(props)) if props else 'ALL'


for e in softs:
    # not a broken tie: the translator could not re-read this in the shape it knows (a rewrite of the source); the last
    # known value is kept and the correspondence check is what ties the model to the code for it
    print('rs2v: STALE [%s] %s' % (_scope(e), e))
if errors:
    print('rs2v: BROKEN TIE')
    for e in errors:
        props = set()
        for pat, ps in _SCOPE:
            if re.search(pat, e):
                props |= set(ps.split())
        print('  [%s] %s' % (' '.join(sorted(props)) if props else 'ALL', e))

lines = ['(* GENERATED by tools/rs2v.py from the Rust source on every run. Do not edit. *)',
         'From Coq Require Import ZArith List String.', 'Import ListNotations.', 'Local Open Scope Z_scope.', '']
for name, ty, val, origin in defs:
    lines.append('(* %s *)' % origin)
    lines.append('Definition %s : %s := %s.' % (name, ty, val))
os.makedirs(outdir, exist_ok=True)
p = os.path.join(outdir, 'Consts.v')
# what could not be re-extracted keeps its last known value (the committed file), so that the model still
# builds and the search for a failing input can run; the tie of the properties concerned is reported broken above
if (errors or softs) and os.path.exists(p):
    have = set(n for n, _, _, _ in defs)
    for m_ in re.finditer(r'^Definition (\w+) : (.*?) := (.*)\.$', open(p).read(), re.M):
        if m_.group(1) not in have:
            lines.append('(* STALE: not re-extracted in this run *)')
            lines.append('Definition %s : %s := %s.' % (m_.group(1), m_.group(2), m_.group(3)))
txt = '\n'.join(lines) + '\n'
if not os.path.exists(p) or open(p).read() != txt:
    open(p, 'w').write(txt)
for n_ in notes:
    print('rs2v: NOTE ' + n_)
print('rs2v: %d definitions' % len(defs))
