#!/usr/bin/env python3
"""Writes MANIFEST.json from tools/props.py (keeps it valid and in step with the registry)."""
import json, os, sys
sys.path.insert(0, os.path.dirname(os.path.abspath(__file__)))
import props
ROOT = os.path.dirname(os.path.dirname(os.path.abspath(__file__)))
ALL = ['C%02d' % i for i in range(1, 21)]
checks = []
for pid in sorted(props.REGISTRY):
    P = props.REGISTRY[pid]
    checks.append({
        'property_id': pid,
        'quick_cmd': './check %s --tier quick' % pid,
        'thorough_cmd': './check %s --tier thorough' % pid,
        'evidence_file': 'evidence/%s.json' % pid,
        'replay_cmd_template': './check %s --replay {path}' % pid,
        'engine': 'rocq-proof+correspondence',
        'level_claimed': {'category': 'proof', 'text': P['level_text'], 'design_ref': 'DESIGN.md section 4, ' + pid},
        'level_note': P['level_note'],
        'technique': P.get('technique', 'machine-checked proof in Rocq (Coq 8.16.1) of a Gallina model + checked model/code correspondence'),
    })
na = [{'property_id': p, 'reason': props.NOT_YET.get(p, 'check not built yet in this round (planned, see DESIGN.md section 4); not claimed until its theorem and correspondence exist')}
      for p in ALL if p not in props.REGISTRY]
m = {
    'version': 1,
    'setup_cmd': './setup.sh',
    'hooks': {
        'guard': 'cargo feature `verif` of crate glonax (glonax-runtime/Cargo.toml)',
        'enable': 'cargo build --offline --features glonax/verif   (harness/Cargo.toml: feature verif = ["glonax/verif"])',
        'baseline_off_cmd': 'cd /repo && cargo test --workspace --no-fail-fast --offline',
        'source_commits': props.HOOK_COMMITS,
        'add_only': True,
    },
    'engines': [{
        'name': 'rocq-proof+correspondence', 'path': 'check',
        'serves_properties': sorted(props.REGISTRY),
        'kind_free_text': 'Coq 8.16.1 development (coq/: hand-written Gallina models, Spec/, Proofs/, Properties/ with Print Assumptions), '
                          'constants regenerated from the Rust source by tools/rs2v.py on every run, model extracted to OCaml (ExtrOcamlBasic) '
                          'and executed against the real Glonax code (harness/, rebuilt from /repo) on the same cases',
    }],
    'checks': checks,
    'not_applicable': na,
    'notes': 'Every check: regenerate coq/Gen from /repo, rebuild+recheck the property\'s .vo files, Print Assumptions allow-list, '
             'scan for Admitted/Axiom, rebuild harness from /repo with --features verif, run corpus + generated cases through the real code '
             'and the extracted model, evaluate the extracted property predicate on the real outputs. VERIF_SEED seeds the single PRNG.',
}
json.dump(m, open(os.path.join(ROOT, 'MANIFEST.json'), 'w'), indent=1)
print('MANIFEST.json: %d checks, %d not claimed' % (len(checks), len(na)))
