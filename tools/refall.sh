#!/bin/bash
# runs every behaviour-preserving refactoring under refactors/ against its own property's quick check: none may alarm
cd /verif
out=${1:-/verif/refactors/QUIET.txt}
: > $out
for d in refactors/C??-*; do
  id=$(basename $d); p=${id%%-*}
  r=$(TAIL=60 tools/mutest.sh /verif/$d/patch.diff $p 2>&1)
  if echo "$r" | grep -q '^VIOLATION'; then w="ALARM $(echo "$r" | grep -o 'BROKEN\[[a-z]*\]' | tr '\n' ' ')";
  elif echo "$r" | grep -q '^OK'; then w="quiet"; else w="?? $(echo "$r" | tail -1 | cut -c1-100)"; fi
  n=$(echo "$r" | grep -c '^NOTE stale')
  echo "$id | $w | stale-notes=$n" | tee -a $out
done
