#!/usr/bin/env python3
"""For every behaviour-preserving refactoring under refactors/, run the quick check of EVERY property that is anchored
in a file the refactoring touches (properties.jsonl anchors.files); none may alarm. Writes refactors/QUIET_CROSS.txt."""
import json, os, re, subprocess, sys, glob
ROOT = os.path.dirname(os.path.dirname(os.path.abspath(__file__)))
props = [json.loads(l) for l in open(os.path.join(ROOT, 'properties.jsonl'))]
anch = {p['id']: set(p['anchors']['files']) for p in props}
only = sys.argv[1:]
outp = os.path.join(ROOT, 'refactors', 'QUIET_CROSS.txt')
# a partial run keeps the lines of the refactorings it does not re-run
kept = [l for l in open(outp).read().splitlines() if only and l.split(' | ')[0] not in only] if os.path.exists(outp) else []
out = open(outp, 'w')
for l in kept: out.write(l + '\n')
out.flush()
for d in sorted(glob.glob(os.path.join(ROOT, 'refactors', 'C??-*'))):
    rid = os.path.basename(d)
    if only and rid not in only: continue
    patch = os.path.join(d, 'patch.diff')
    files = set(re.findall(r'^\+\+\+ b/(\S+)', open(patch).read(), re.M)) | set(re.findall(r'^--- a/(\S+)', open(patch).read(), re.M))
    pids = sorted(p for p, fs in anch.items() if fs & files)
    own = rid.split('-')[0]
    if own not in pids: pids.append(own)
    r = subprocess.run(['bash', os.path.join(ROOT, 'tools', 'mutest.sh'), patch] + pids, capture_output=True, text=True,
                       env=dict(os.environ, TAIL='60'))
    res = []
    cur = None
    for ln in r.stdout.splitlines():
        m = re.match(r'=== (C\d\d) with', ln)
        if m: cur = m.group(1); res.append([cur, '??'])
        elif ln.startswith('VIOLATION') and res: res[-1][1] = 'ALARM'
        elif ln.startswith('OK ') and res and res[-1][1] == '??': res[-1][1] = 'quiet'
    line = '%s | %s' % (rid, ' '.join('%s:%s' % (a, b) for a, b in res))
    print(line, flush=True); out.write(line + '\n'); out.flush()
