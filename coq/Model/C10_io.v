From Coq Require Import ZArith List Bool.
Import ListNotations.
Require Import GV.Model.Authority GV.Model.Auth_io GV.Spec.C10_spec.
Local Open Scope Z_scope.
Definition c10_check (l o : list Z) : bool :=
  match acase_of l, asteps_of o with
  | Some c, Some st => implb (c10_wf c) (c10_spec_ok c st)
  | _, _ => false end.
(* non-trivial: some cycle published a status *)
Definition c10_nontriv (l o : list Z) : bool :=
  match asteps_of o with
  | Some st => existsb (fun s => match as_sigs s with (7 :: _) :: _ => true | _ => false end) st
  | None => false end.
