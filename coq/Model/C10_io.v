From Coq Require Import ZArith List Bool.
Import ListNotations.
Require Import GV.Model.IO GV.Model.Authority GV.Model.Auth_io GV.Model.C01a_io GV.Spec.C10_spec.
Local Open Scope Z_scope.
Definition c10_check (l o : list Z) : bool :=
  match acase_of l, asteps_of o with
  | Some c, Some st => implb (c10_wf c) (c10_spec_ok c st)
  | _, _ => false end.
(* non-trivial: some cycle published a status *)
Definition c10_nontriv (l o : list Z) : bool :=
  match asteps_of o with
  | Some st => existsb (fun s => match as_sigs s with (7 :: _) :: _ => true | _ => false end) st
  | None => false end.

(* ---- histories with control cycles during which the interface refuses every write (case prefix 2000,
   event code 10): the cycle does everything it does otherwise, only no frame reaches the bus ---- *)
Inductive fevent := FE (e : aevent) | FTickFail.
Definition ferase (ev : fevent) : aevent := match ev with FE e => e | FTickFail => ATick end.
Definition fstep (a : auth) (now : Z) (ev : fevent) : auth * Z * astep :=
  match ev with
  | FE e => astep1 a now e
  | FTickFail => let '(a', now', s) := astep1 a now ATick in (a', now', {| as_frames := []; as_sigs := as_sigs s |})
  end.
Fixpoint frun (a : auth) (now : Z) (evs : list fevent) : list astep :=
  match evs with
  | [] => []
  | e :: t => let '(a', now', s) := fstep a now e in s :: frun a' now' t
  end.
Fixpoint dec_fevents (fuel : nat) (l : list Z) : option (list fevent) :=
  match fuel with
  | O => match l with [] => Some [] | _ => None end
  | S fuel' =>
      match l with
      | [] => Some []
      | 10 :: t => option_map (cons FTickFail) (dec_fevents fuel' t)
      | _ => match dec_aevent1 l with
             | Some (e, r) => option_map (cons (FE e)) (dec_fevents fuel' r)
             | None => None end
      end
  end.
Definition fcase_of (l : list Z) : option (acase * list fevent) :=
  match ahead_of l with
  | Some (addr, nm, cs, r) =>
      match dec_fevents (length r) r with
      | Some fe => Some ({| ac_addr := addr; ac_name := nm; ac_confs := cs; ac_events := map ferase fe |}, fe)
      | None => None end
  | None => None end.
Definition fmodel (c : acase) (fe : list fevent) : list astep :=
  frun (auth_new 0 (ac_addr c) (ac_name c) (ac_confs c)) 0 fe.
Definition c10f_run (l : list Z) : list Z :=
  match fcase_of l with
  | Some (c, fe) => if encoder_addr_panics c then panic_obs else
                    let steps := fmodel c fe in Z.of_nat (length steps) :: flat_map enc_astep steps
  | None => bad_case end.
(* the property does not mention the interface: the same predicate, on the history with the failing cycles
   read as cycles *)
Definition c10f_check (l o : list Z) : bool :=
  match fcase_of l, asteps_of o with
  | Some (c, _), Some st => implb (c10_wf c) (c10_spec_ok c st)
  | _, _ => false end.

Definition c10x_run (l : list Z) : list Z := match l with 2000 :: rest => c10f_run rest | _ => auth_run l end.
Definition c10x_check (l o : list Z) : bool := match l with 2000 :: rest => c10f_check rest o | _ => c10_check l o end.
