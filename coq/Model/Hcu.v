(* Model of glonax-runtime/src/driver/net/hydraulic.rs (encode side) and core/motion.rs.
   No proofs in this file. *)
From Coq Require Import ZArith List Bool.
Import ListNotations.
Require Import GV.Gen.Consts GV.Model.J1939.
Local Open Scope Z_scope.

(* core::motion::Motion; a change set is (actuator id, value) *)
Inductive motion : Type :=
| StopAll | ResumeAll | ResetAll
| StraightDrive (v : Z)
| Change (cs : list (Z * Z)).

(* i16::to_le_bytes of a value in [-32768, 32767] *)
Definition le16 (v : Z) : list Z := let u := v mod 65536 in [u mod 256; u / 256].
(* i16::from_le_bytes *)
Definition of_le16 (lo hi : Z) : Z :=
  let u := lo + 256 * hi in if u <? 32768 then u else u - 65536.

(* the array `actuators: [Option<i16>; 8]` as a function of the index; HashMap collect +
   `actuators[k] = Some(v)`: the last entry for an actuator wins *)
Definition slot_step (f : Z -> option Z) (c : Z * Z) : Z -> option Z :=
  fun x => if x =? fst c then Some (snd c) else f x.
Definition slots_of (cs : list (Z * Z)) : Z -> option Z :=
  fold_left slot_step cs (fun _ => None).

Definition slot_bytes (s : option Z) : list Z :=
  match s with Some v => le16 v | None => [255; 255] end.

Definition bank_slots (slots : Z -> option Z) (bank : Z) : list (option Z) :=
  map (fun k => slots (bank * hcu_bank_slots + k)) [0; 1; 2; 3].

Definition bank_pgn (bank : Z) : Z := nth (Z.to_nat bank) hcu_bank_pgns 0.

(* ActuatorMessage::to_frame *)
Definition actuator_frames (da sa : Z) (slots : Z -> option Z) : list frame :=
  flat_map (fun bank =>
    let ss := bank_slots slots bank in
    if existsb (fun s => match s with Some _ => true | None => false end) ss
    then [ {| f_id := id_build 3 (bank_pgn bank) da sa; f_data := flat_map slot_bytes ss |} ]
    else []) [0; 1].

(* MotionConfigMessage::to_frame: 'Z' 'C' FF lock reset (5 bytes) *)
Definition optbyte (o : option bool) (t f : Z) : Z :=
  match o with Some true => t | Some false => f | None => 255 end.
Definition motion_config_frame (da sa : Z) (locked reset : option bool) : frame :=
  {| f_id := id_build 3 PGN_PCM3 da sa;
     f_data := [90; 67; 255; optbyte locked 0 1; optbyte reset 1 0] |}.

Definition lock_frame da sa := motion_config_frame da sa (Some true) None.
Definition unlock_frame da sa := motion_config_frame da sa (Some false) None.
Definition reset_frame da sa := motion_config_frame da sa None (Some true).

(* what trigger and tick emit for a motion *)
Definition encode_motion (da sa : Z) (m : motion) : list frame :=
  match m with
  | StopAll => [lock_frame da sa]
  | ResumeAll => [unlock_frame da sa]
  | ResetAll => [reset_frame da sa]
  | StraightDrive v => actuator_frames da sa (slots_of [(2, v); (3, v)])
  | Change cs => actuator_frames da sa (slots_of cs)
  end.

(* ActuatorMessage::from_frame: decode the four slots of an actuator frame *)
Fixpoint decode_slots (d : list Z) : list (option Z) :=
  match d with
  | lo :: hi :: t =>
      (if (lo =? 255) && (hi =? 255) then None else Some (of_le16 lo hi)) :: decode_slots t
  | _ => []
  end.
