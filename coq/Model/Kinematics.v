(* glonax-runtime/src/math/mod.rs, math/lin.rs, driver/actuator.rs and the
   transform chain of world/mod.rs, as executable functions.
   Float code is modelled bit-exactly on F32 (Flocq binary32); the transform
   chain is modelled over an arbitrary monoid of transforms (Section) and
   instantiated with exact integer / dyadic 4x4 affine maps. *)
From Coq Require Import ZArith Bool List.
Require Import GV.Gen.Consts GV.Model.Outcome GV.Model.F32.
Import ListNotations.
Local Open Scope Z_scope.

(* ---- math/mod.rs ---- *)

(* shortest_rotation:  let n = (d + 2.0*PI) % (2.0*PI); if n > PI { n - 2.0*PI } else { n } *)
Definition shortest_rotation (d : f32) : f32 :=
  let n := frem (fadd d ftwopi) ftwopi in
  if fgt n fpi then fsub n ftwopi else n.

(* law_of_cosines: the argument handed to acos (powi(2) is x*x) *)
Definition loc_arg (a b c : f32) : f32 :=
  let a2 := fmul a a in let b2 := fmul b b in let c2 := fmul c c in
  let numerator := fsub (fadd a2 b2) c2 in
  let denominator := fmul (fmul ftwo a) b in
  fdiv numerator denominator.
(* what libm's acosf does with it is outside the model, except: NaN exactly when
   the argument is NaN or outside [-1, 1] *)
Definition loc_is_nan (a b c : f32) : bool :=
  let q := loc_arg a b c in
  fis_nan q || fgt (fabs q) fone.

(* linear_motion; `neg` = sign bit of delta (is_sign_negative, also on a NaN) *)
Definition linear_motion (delta : f32) (neg : bool) (lower_bound offset scale : f32) (inverse : bool)
  : outcome (option Z) :=
  if flt (fabs delta) lower_bound then Ok None else
  let delta_normal :=
    f2i16 (fround (fadd (fmin (fmul (fabs delta) scale) (fsub fi16max offset)) offset)) in
  obind (if neg then Ok delta_normal else ineg16 delta_normal) (fun value =>
  if inverse then obind (ineg16 value) (fun v => Ok (Some v)) else Ok (Some value)).

Definition lerp (a b t : f32) : f32 := fadd a (fmul (fsub b a) t).

(* ---- math/lin.rs ---- *)
Record linear := { kp : f32; l_offset : f32; l_inverse : bool }.

Definition linear_update (p : linear) (error : f32) : outcome f32 :=
  obind (fclamp (fmul error (kp p)) (fadd fi16min (l_offset p)) (fsub fi16max (l_offset p)))
    (fun c =>
       let value := fadd c (fmul (l_offset p) (fsignum error)) in
       Ok (if l_inverse p then value else fneg value)).

(* ---- driver/actuator.rs ---- *)
Record actuator_state := { a_profile : linear; a_actuator : Z; a_stop : bool }.
Definition actuator_bind (actuator : Z) (p : linear) : actuator_state :=
  {| a_profile := p; a_actuator := actuator; a_stop := false |}.

(* event: actuator, error (as given), value *)
Definition actuator_update (s : actuator_state) (error : option f32)
  : outcome (actuator_state * option (Z * f32 * Z)) :=
  match error with
  | Some e =>
      obind (linear_update (a_profile s) e) (fun v =>
        Ok ({| a_profile := a_profile s; a_actuator := a_actuator s; a_stop := false |},
            Some (a_actuator s, e, f2i16 v)))
  | None =>
      if negb (a_stop s)
      then Ok ({| a_profile := a_profile s; a_actuator := a_actuator s; a_stop := true |},
               Some (a_actuator s, f_of_Z 0, power_neutral))
      else Ok (s, None)
  end.

(* a sequence of updates; what each returned *)
Inductive aev := ANone | AEv (act : Z) (e : f32) (v : Z).
Fixpoint act_run (s : actuator_state) (steps : list (option f32)) : outcome (list aev) :=
  match steps with
  | [] => Ok []
  | st :: rest =>
      obind (actuator_update s st) (fun r =>
        obind (act_run (fst r) rest) (fun evs =>
          Ok (match snd r with None => ANone | Some (a, er, v) => AEv a er v end :: evs)))
  end.

(* ---- world/mod.rs: Actor::world_location ---- *)
Section Chain.
  Context {T : Type} (one : T) (mul : T -> T -> T).

  (* transform = I; for (sname, seg) in segments { transform *= seg; if sname == name { break } } *)
  Fixpoint chain (acc : T) (segs : list (Z * T)) (name : Z) : T :=
    match segs with
    | [] => acc
    | (n, t) :: rest =>
        let acc' := mul acc t in
        if n =? name then acc' else chain acc' rest name
    end.
  Definition world_transform (segs : list (Z * T)) (name : Z) : T := chain one segs name.

  (* the segments that contribute: up to and including the first one called `name` *)
  Fixpoint upto (segs : list (Z * T)) (name : Z) : list T :=
    match segs with
    | [] => []
    | (n, t) :: rest => t :: (if n =? name then [] else upto rest name)
    end.
  Definition product (l : list T) : T := fold_left mul l one.
End Chain.

(* affine maps x |-> M x + t with entries in a commutative ring given by (add, mul, zero, one):
   what a 4x4 homogeneous matrix with last row (0 0 0 1) is *)
Section Affine.
  Context {K : Type} (kadd kmul : K -> K -> K) (k0 k1 : K).
  Definition vec := (K * K * K)%type.
  Definition mat := (vec * vec * vec)%type.          (* rows *)
  Definition aff := (mat * vec)%type.

  Definition dot (a b : vec) : K :=
    let '(a0, a1, a2) := a in let '(b0, b1, b2) := b in
    kadd (kadd (kmul a0 b0) (kmul a1 b1)) (kmul a2 b2).
  Definition col (m : mat) (j : nat) : vec :=
    let '(r0, r1, r2) := m in
    let pick (r : vec) := let '(x, y, z) := r in match j with O => x | S O => y | _ => z end in
    (pick r0, pick r1, pick r2).
  Definition mat_vec (m : mat) (v : vec) : vec :=
    let '(r0, r1, r2) := m in (dot r0 v, dot r1 v, dot r2 v).
  Definition mat_mul (a b : mat) : mat :=
    let '(r0, r1, r2) := a in
    let row (r : vec) := (dot r (col b 0), dot r (col b 1), dot r (col b 2)) in
    (row r0, row r1, row r2).
  Definition vadd (a b : vec) : vec :=
    let '(a0, a1, a2) := a in let '(b0, b1, b2) := b in (kadd a0 b0, kadd a1 b1, kadd a2 b2).
  (* (A, s) * (B, t) = (A B, A t + s) *)
  Definition aff_mul (x y : aff) : aff :=
    (mat_mul (fst x) (fst y), vadd (mat_vec (fst x) (snd y)) (snd x)).
  Definition aff_one : aff := (((k1, k0, k0), (k0, k1, k0), (k0, k0, k1)), (k0, k0, k0)).
  (* transform_point(origin) *)
  Definition aff_origin (x : aff) : vec := snd x.
End Affine.

Definition zaff := @aff Z.
Definition zaff_mul : zaff -> zaff -> zaff := aff_mul Z.add Z.mul.
Definition zaff_one : zaff := aff_one 0 1.
Definition world_location_Z (segs : list (Z * zaff)) (name : Z) : Z * Z * Z :=
  aff_origin (world_transform zaff_one zaff_mul segs name).

(* dyadic numbers m * 2^e: every finite float is one, and they are closed under + and * *)
Definition dy := (Z * Z)%type.
Definition dy_norm (m e e' : Z) : Z := m * 2 ^ (e - e').
Definition dy_add (a b : dy) : dy :=
  let e := Z.min (snd a) (snd b) in (dy_norm (fst a) (snd a) e + dy_norm (fst b) (snd b) e, e).
Definition dy_mul (a b : dy) : dy := (fst a * fst b, snd a + snd b).
Definition dy_sub (a b : dy) : dy := dy_add a (- fst b, snd b).
Definition dy_sgn (a : dy) : Z := Z.sgn (fst a).
Definition dy_le (a b : dy) : bool := dy_sgn (dy_sub a b) <=? 0.
Definition dy_lt (a b : dy) : bool := dy_sgn (dy_sub a b) <? 0.
Definition dy_abs (a : dy) : dy := (Z.abs (fst a), snd a).
Definition dy_of_Z (z : Z) : dy := (z, 0).
Definition dy_pow2 (e : Z) : dy := (1, e).

Definition daff := @aff dy.
Definition daff_mul : daff -> daff -> daff := aff_mul dy_add dy_mul.
Definition daff_one : daff := aff_one (0, 0) (1, 0).
Definition world_location_dy (segs : list (Z * daff)) (name : Z) : dy * dy * dy :=
  aff_origin (world_transform daff_one daff_mul segs name).
