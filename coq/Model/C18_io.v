From Coq Require Import ZArith List Bool.
Import ListNotations.
Require Import GV.Gen.Consts GV.Model.Governor GV.Model.Hcu GV.Model.Packets GV.Model.Input GV.Model.IO GV.Spec.C18_spec.
Local Open Scope Z_scope.

Definition mode_of (z : Z) : mode := match z with 0 => MXbox | 1 => MSolo | 2 => MLeft | _ => MRight end.
Definition b (z : Z) : bool := negb (z =? 0).

Definition enc_iout (o : option iout) : list Z :=
  match o with
  | None => [0]
  | Some (IMotion m) => 1 :: enc_motion m
  | Some (IEngine r running) => [2; r; Zbool running]
  end.

(* the wire packet the main loop sends for an output *)
Definition packet_of (o : iout) : packet :=
  match o with
  | IMotion m => PMotion m
  | IEngine r running => PEngine 0 0 r (if running then engine_state_Request else engine_state_NoRequest)
  end.
Definition enc_pkt (p : packet) : list Z := let pl := enc_payload p in ptype p :: lenb pl :: pl.

Fixpoint run_events (m : mode) (d : dstate) (l : list Z) (fuel : nat) : option (list iout) :=
  match fuel with O => Some [] | S f =>
  match l with
  | ty :: num :: v :: t =>
      match daemon_step m d ty num v with
      | Some (d', o) => option_map (fun r => match o with Some x => x :: r | None => r end) (run_events m d' t f)
      | None => None end
  | _ => Some [] end end.

Definition control_packet (kind : Z) (on : bool) : packet := PControl kind on.

Definition c18_case_of (l : list Z) : option c18_case :=
  match l with
  | [1; m; dl; ml; lm; rpm; rl; rr; ty; num; v] =>
      Some {| i_mode := mode_of m;
              i_state := {| d_pad := {| rev_left := b rl; rev_right := b rr |};
                            d_in := {| drive_lock := b dl; motion_lock := b ml; limit_motion := b lm; engine_rpm := rpm |} |};
              i_ty := ty; i_num := num; i_value := v |}
  | _ => None end.

Definition c18_run (l : list Z) : list Z :=
  match l with
  | 1 :: _ =>
      match c18_case_of l with
      | Some c => match c18_model c with
                  | Some (d', o) => [Zbool (drive_lock (d_in d')); Zbool (motion_lock (d_in d')); Zbool (limit_motion (d_in d')); engine_rpm (d_in d')] ++ enc_iout o
                  | None => panic_obs end
      | None => bad_case end
  | 2 :: sub :: compat :: w =>
      (* glonaxctl: exits 0 and sends exactly one object to a compatible daemon for an accepted word *)
      if negb (compat =? 0) then [0; 0]
      else match cli_object sub w with
           | inl (Some o) => 1 :: 1 :: enc_pkt (packet_of o)
           | inr (Some (k, on)) => 1 :: 1 :: enc_pkt (control_packet k on)
           | _ => [0; 0] end
  (* glonaxctl sub-commands without an on/off word: 100 engine <rpm>, 101 engine-shutdown, 102 machine-shutdown *)
  | 4 :: sub :: compat :: arg :: _ =>
      if negb (compat =? 0) then [0; 0]
      else if sub =? 100 then (if (0 <=? arg) && (arg <? 65536) then 1 :: 1 :: enc_pkt (PEngine 0 0 arg engine_state_Request) else [0; 0])
      else if sub =? 101 then 1 :: 1 :: enc_pkt (PEngine 0 0 0 engine_state_NoRequest)
      else if sub =? 102 then 1 :: 1 :: enc_pkt (PControl control_type_machine_shutdown true)
      else [0; 0]
  | 3 :: m :: full :: failsafe :: evs =>
      match run_events (mode_of m) (start_state (b full)) evs (length evs) with
      | Some outs => (if b failsafe then session_mode_failsafe else 0) :: Z.of_nat (length outs) :: flat_map (fun o => enc_pkt (packet_of o)) outs
      | None => panic_obs end
  | _ => bad_case end.

(* decode the observation of a pipeline step *)
Definition dec_iout (l : list Z) : option (option iout) :=
  match l with
  | [0] => Some None
  | 1 :: t => match dec_motion t with Some (m, []) => Some (Some (IMotion m)) | _ => None end
  | [2; r; run] => Some (Some (IEngine r (b run)))
  | _ => None end.

(* black-box runs: frames the stub daemon received, as (type, payload) *)
Fixpoint frames_of (fuel : nat) (l : list Z) : list (Z * list Z) :=
  match fuel with O => [] | S f =>
  match l with
  | t :: len :: r => if (len <? 0) || (lenb r <? len) then [] else (t, firstn (Z.to_nat len) r) :: frames_of f (skipn (Z.to_nat len) r)
  | _ => [] end end.
Fixpoint abort_presses (fuel : nat) (evs : list Z) : nat :=
  match fuel with O => O | S f =>
  match evs with
  | ty :: num :: v :: t => Nat.add (if (ty =? 1) && (num =? 1) && (v =? 1) then 1%nat else 0%nat) (abort_presses f t)
  | _ => O end end.
Definition is_stop_all (f : Z * list Z) : bool :=
  (fst f =? type_motion) && match snd f with [0] => true | _ => false end.

(* the last Abort record of the event list is a press (Abort is held at the end) *)
Fixpoint abort_held_at_end (fuel : nat) (evs : list Z) (held : bool) : bool :=
  match fuel with O => held | S f =>
  match evs with
  | ty :: num :: v :: t => abort_held_at_end f t (if (ty =? 1) && (num =? 1) then (v =? 1) else held)
  | _ => held end end.
(* a motion frame that moves something: a straight drive or a change set with a non-zero value *)
Fixpoint change_values_zero (fuel : nat) (p : list Z) : bool :=
  match fuel with O => true | S f =>
  match p with
  | _ :: hi :: lo :: t => (hi =? 0) && (lo =? 0) && change_values_zero f t
  | _ => true end end.
Definition is_actuating (f : Z * list Z) : bool :=
  (fst f =? type_motion) &&
  match snd f with
  | 5 :: hi :: lo :: _ => negb ((hi =? 0) && (lo =? 0))
  | 16 :: _ :: t => negb (change_values_zero (length t) t)
  | _ => false end.
(* nothing after the last stop-all frame moves anything *)
Fixpoint quiet_after_last_stop (fs : list (Z * list Z)) : bool :=
  match fs with
  | [] => true
  | f :: t => if existsb is_stop_all t then quiet_after_last_stop t
              else (* f is the last stop-all or comes after it (or there is none) *)
                   (if is_stop_all f then negb (existsb is_actuating t) else quiet_after_last_stop t)
  end.

Definition c18_check (l o : list Z) : bool :=
  match l with
  | 1 :: _ =>
      match c18_case_of l, o with
      | Some c, dl :: ml :: lm :: rpm :: t =>
          match dec_iout t with
          | Some out =>
              implb (c18_wf c)
                (c18_spec_ok c (Some ({| d_pad := d_pad (i_state c);
                                         d_in := {| drive_lock := b dl; motion_lock := b ml; limit_motion := b lm; engine_rpm := rpm |} |}, out)))
          | None => false end
      | Some c, _ => negb (c18_wf c)
      | None, _ => false end
  | 2 :: sub :: compat :: w =>
      (* exactly the corresponding object for the six words (any letter case) to a compatible daemon; nothing otherwise *)
      let lw := map lower w in
      let is s := if list_eq_dec Z.eq_dec lw s then true else false in
      let t := is [49] || is [111; 110] || is [116; 114; 117; 101] in
      let f := is [48] || is [111; 102; 102] || is [102; 97; 108; 115; 101] in
      if (compat =? 0) && (t || f) then
        let expect := if sub =? 0 then enc_pkt (PMotion (if t then StopAll else ResumeAll)) else enc_pkt (PControl sub t) in
        if list_eq_dec Z.eq_dec o (1 :: 1 :: expect) then true else false
      else match o with _ :: 0 :: [] => true | _ => false end
  | 4 :: sub :: compat :: arg :: _ =>
      (* exactly the corresponding object: the engine request carries the speed as typed (any u16), nothing else is sent *)
      let expect :=
        if negb (compat =? 0) then None
        else if sub =? 100 then (if (0 <=? arg) && (arg <? 65536) then Some ([type_engine; 5; 0; 0] ++ be16 arg ++ [16]) else None)
        else if sub =? 101 then Some [type_engine; 5; 0; 0; 0; 0; 0]
        else if sub =? 102 then Some [type_control; 2; control_type_machine_shutdown; 1]
        else None in
      (match expect with
       | Some e => if list_eq_dec Z.eq_dec o (1 :: 1 :: e) then true else false
       | None => match o with _ :: 0 :: [] => true | _ => false end end)
  | 3 :: m :: full :: failsafe :: evs =>
      (* failsafe session unless told otherwise; only Motion / Engine frames; locked at start-up *)
      match o with
      | fl :: n :: rest =>
          (fl =? (if b failsafe then 16 else 0)) && (0 <=? n)
          (* pressing Abort ALWAYS produces stop-all: at least one stop-all frame per Abort press reached the daemon *)
          && Nat.leb (abort_presses (length evs) evs) (length (filter is_stop_all (frames_of (length rest) rest)))
          (* records are acted upon in the order they arrive: if Abort is held at the end, the lock it engaged is still
             engaged - nothing after the last stop-all frame moves anything *)
          && implb (abort_held_at_end (length evs) evs false) (quiet_after_last_stop (frames_of (length rest) rest))
      | _ => false end
  | _ => false end.

Definition c18_nontriv (l o : list Z) : bool :=
  match l with
  | 1 :: _ => match o with _ :: _ :: _ :: _ :: 0 :: [] => false | -1 :: _ => false | _ => true end
  | _ => true end.
