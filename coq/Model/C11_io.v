(* C11 at the authority level: cases "100 :: <authority script>" run the real NetworkAuthority over
   the bus; predicate: a unit is reported Healthy only after a frame whose source is that unit's
   address was injected, and a rotation signal names the source address of the frame that caused it *)
From Coq Require Import ZArith List Bool.
Import ListNotations.
Require Import GV.Gen.Consts GV.Model.Outcome GV.Model.J1939 GV.Model.Governor GV.Model.Hcu GV.Model.Object
  GV.Model.HcuUnit GV.Model.Units GV.Model.CanNet GV.Model.Authority GV.Model.Auth_io GV.Model.Units_io GV.Spec.C10_spec.
Local Open Scope Z_scope.

Fixpoint c11_auth_walk (rs : list uref) (srcs : list Z) (evs : list aevent) (steps : list astep) : bool :=
  match evs, steps with
  | [], [] => true
  | e :: evs', s :: steps' =>
      match e with
      | AInject raw =>
          match of_can_frame raw with
          | Some f =>
              let src := id_sa (f_id f) in
              (* every signal caused by this frame is attributed to the frame's source *)
              forallb (fun sg => match sg with 5 :: s0 :: _ => s0 =? src | _ => true end) (as_sigs s)
              && implb (negb (existsb (fun r => u_da (r_cfg r) =? src) rs)) (match as_sigs s with [] => true | _ => false end)
              && c11_auth_walk rs (src :: srcs) evs' steps'
          | None => c11_auth_walk rs srcs evs' steps' end
      | ATick =>
          forallb (fun sg => match status_of_sig sg with
                             | Some (nm, st, _) =>
                                 implb (st =? module_state_Healthy)
                                   (existsb (fun r => (if list_eq_dec Z.eq_dec nm (unit_name (r_kind r) (r_cfg r)) then true else false)
                                                      && existsb (Z.eqb (u_da (r_cfg r))) srcs) rs)
                             | None => true end) (as_sigs s)
          && c11_auth_walk rs srcs evs' steps'
      | _ => c11_auth_walk rs srcs evs' steps'
      end
  | _, _ => false
  end.

Definition c11_run (l : list Z) : list Z :=
  match l with 100 :: rest => auth_run rest | _ => units_run l end.
Definition c11_check_all (l o : list Z) : bool :=
  match l with
  | 100 :: rest =>
      match acase_of rest, asteps_of o with
      | Some c, Some st => implb (c10_wf c) (c11_auth_walk (c10_refs c) [] (ac_events c) st)
      | _, _ => false end
  | _ => c11_check l o
  end.
Definition c11_nontriv_all (l o : list Z) : bool :=
  match l with 100 :: _ => true | _ => units_nontriv l o end.
