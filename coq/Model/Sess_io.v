From Coq Require Import ZArith List Bool.
Import ListNotations.
Require Import GV.Gen.Consts GV.Model.Governor GV.Model.Hcu GV.Model.Packets GV.Model.Session GV.Model.IO
  GV.Spec.C04_spec.
Local Open Scope Z_scope.

(* ---- decoding helpers on int lists ---- *)
Definition take_list (n : Z) (l : list Z) : option (list Z * list Z) :=
  if (n <? 0) || (lenb l <? n) then None else Some (firstn (Z.to_nat n) l, skipn (Z.to_nat n) l).

Fixpoint dec_wframes (n : nat) (l : list Z) : option (list wframe * list Z) :=
  match n with
  | O => Some ([], l)
  | S n' => match l with
            | t :: len :: r =>
                match take_list len r with
                | Some (p, r') => match dec_wframes n' r' with
                                  | Some (fs, r'') => Some ({| w_type := t; w_payload := p |} :: fs, r'')
                                  | None => None end
                | None => None end
            | _ => None end
  end.

Definition dec_counted (l : list Z) : option (list Z * list Z) :=
  match l with n :: r => take_list n r | [] => None end.

Fixpoint dec_chunks (n : nat) (l : list Z) : option (list (list Z) * list Z) :=
  match n with
  | O => Some ([], l)
  | S n' => match dec_counted l with
            | Some (c, r) => match dec_chunks n' r with
                             | Some (cs, r') => Some (c :: cs, r')
                             | None => None end
            | None => None end
  end.

Inductive scase := KScript (s : script) | KRaw (cs : list (list Z)) (sigs : list Z).

Definition scase_of (l : list Z) : option scase :=
  match l with
  | 0 :: _by :: nf :: r =>
      if (nf <? 0) || (lenb r <? nf) then None else
      match dec_wframes (Z.to_nat nf) r with
      | Some (fs, r1) =>
          let tl := match r1 with
                    | 0 :: r2 => Some (None, r2)
                    | 1 :: t :: len :: r2 =>
                        match take_list len r2 with
                        | Some (p, k :: r3) => Some (Some ({| w_type := t; w_payload := p |}, k), r3)
                        | _ => None end
                    | _ => None end in
          match tl with
          | Some (tail, r2) =>
              match dec_counted r2 with
              | Some (cuts, r3) =>
                  match dec_counted r3 with
                  | Some (sigs, [_endmode]) =>
                      Some (KScript {| sc_frames := fs; sc_tail := tail; sc_cuts := cuts; sc_sigs := sigs |})
                  | _ => None end
              | None => None end
          | None => None end
      | None => None end
  | 1 :: _by :: nch :: r =>
      if (nch <? 0) || (lenb r <? nch) then None else
      match dec_chunks (Z.to_nat nch) r with
      | Some (cs, r1) => match dec_counted r1 with
                         | Some (sigs, [_endmode]) => Some (KRaw cs sigs)
                         | _ => None end
      | None => None end
  | _ => None
  end.

(* the command objects are observed as wire packets; a Target's orientation words are
   re-parameterised by the implementation and are not compared *)
Definition canon (p : packet) : packet :=
  match p with PTarget w c => PTarget (firstn 3 w ++ [0; 0; 0]) c | _ => p end.
Definition enc_cmd (p : packet) : list Z :=
  let pl := enc_payload (canon p) in ptype p :: lenb pl :: pl.
Definition enc_sobs (o : sobs) : list Z :=
  [Zbool (o_crashed o); 1; 1; lenb (map ptype (o_cmds o))] ++ flat_map enc_cmd (o_cmds o).

Definition raw_model (cs : list (list Z)) (sigs : list Z) : sobs :=
  let '(st, acts) := srun session0 (weave 0 cs sigs ++ [EEnd]) in
  {| o_crashed := match st with Crashed => true | _ => false end; o_cmds := cmds_of acts |}.

Definition sess_run (l : list Z) : list Z :=
  match scase_of l with
  | Some (KScript s) => enc_sobs (script_model s)
  | Some (KRaw cs sigs) => enc_sobs (raw_model cs sigs)
  | None => bad_case
  end.

Definition zlist_eqb (a b : list Z) : bool := if list_eq_dec Z.eq_dec a b then true else false.

(* C03 / C04: the observed commands are exactly the reference decoding of the complete frames,
   then the failsafe stop-all iff armed; the task survived, ended, the bystander was served *)
Definition script_check (l o : list Z) : bool :=
  match scase_of l with
  | Some (KScript s) =>
      implb (script_wf s)
            (zlist_eqb o (enc_sobs {| o_crashed := false; o_cmds := expected_cmds (sc_frames s) |}))
  | Some (KRaw _ _) => true
  | None => false
  end.

(* C05: whatever was sent, the session task did not panic, the session ended through its normal
   path, and the bystander session was still served *)
Definition alive_check (l o : list Z) : bool :=
  match scase_of l, o with
  | Some _, crashed :: ended :: by_ok :: _ => (crashed =? 0) && (ended =? 1) && (by_ok =? 1)
  | _, _ => false
  end.

(* "... so failsafe still applies": when the session was armed (the session model, proved to satisfy C03, ends
   the stream with the failsafe stop-all), the last command observed is that stop-all *)
Definition ends_with_stop_all (o : list Z) : bool :=
  match rev o with 0 :: 1 :: 32 :: _ => true | _ => false end.
Definition c05_check (l o : list Z) : bool :=
  alive_check l o && implb (ends_with_stop_all (sess_run l)) (ends_with_stop_all o).

Definition c04_nontriv (l o : list Z) : bool :=
  match scase_of l with
  | Some (KScript s) => script_wf s && match flat_map frame_cmd (sc_frames s) with [] => false | _ => true end
  | _ => false
  end.
Definition c03_nontriv (l o : list Z) : bool :=
  match scase_of l with
  | Some (KScript s) => script_wf s && armed (sc_frames s)
  | _ => false
  end.
Definition c05_nontriv (l o : list Z) : bool :=
  match scase_of l with
  | Some (KRaw cs _) => 10 <=? lenb (concat cs)
  | Some (KScript s) => match sc_frames s with [] => false | _ => true end
  | None => false
  end.
