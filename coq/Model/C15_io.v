(* C15 on the real Runtime: ops  1 x = a producer sends command x (no yield) | 2 k = network k's
   handler is granted one more on_command completion | 3 = the scheduler runs every task until it
   blocks | 4 = all handlers are let run to quiescence.  obs = per network the processed commands. *)
From Coq Require Import ZArith List Bool Arith.
Import ListNotations.
Require Import GV.Gen.Consts GV.Model.Broadcast GV.Model.IO.
Require GV.Model.Sess_io.
Local Open Scope Z_scope.

Definition capN : nat := Z.to_nat queue_size_command.

Record net := { n_h : handler Z; n_permits : option nat }.   (* None = unlimited *)
Definition net0 : net := {| n_h := handler0 Z; n_permits := Some 0%nat |}.

(* run one network's command task until it blocks *)
Fixpoint settle (fuel : nat) (sent : list Z) (n : net) : net :=
  match fuel with
  | O => n
  | S f =>
      match h_holding Z (n_h n) with
      | Some x =>
          match n_permits n with
          | Some O => n
          | p => settle f sent {| n_h := s_h Z (step Z capN 0 {| s_sent := sent; s_h := n_h n |} MFinish);
                                  n_permits := match p with Some (S k) => Some k | _ => p end |}
          end
      | None =>
          match recv_at Z capN sent (h_cursor Z (n_h n)) 0 with
          | (REmpty, _) => n
          | _ => settle f sent {| n_h := s_h Z (step Z capN 0 {| s_sent := sent; s_h := n_h n |} MRecv); n_permits := n_permits n |}
          end
      end
  end.

Fixpoint upd {X} (l : list X) (k : nat) (f : X -> X) : list X :=
  match l, k with [], _ => [] | x :: t, O => f x :: t | x :: t, S k' => x :: upd t k' f end.

Fixpoint run_ops (fuel : nat) (sent : list Z) (nets : list net) (ops : list Z) : list Z * list net :=
  match fuel with
  | O => (sent, nets)
  | S f =>
    match ops with
    | 1 :: x :: t => run_ops f (sent ++ [x]) nets t
    | 2 :: k :: t => run_ops f sent (upd nets (Z.to_nat k) (fun n => {| n_h := n_h n; n_permits := option_map S (n_permits n) |})) t
    | 3 :: t => run_ops f sent (map (settle (4 * length sent + 8) sent) nets) t
    | 4 :: t => run_ops f sent (map (fun n => settle (4 * length sent + 8) sent {| n_h := n_h n; n_permits := None |}) nets) t
    | _ => (sent, nets)
    end
  end.

Definition c15_run (l : list Z) : list Z :=
  match l with
  | nn :: ops =>
      let '(sent, nets) := run_ops (length ops) [] (repeat net0 (Z.to_nat nn)) ops in
      flat_map (fun n => Z.of_nat (length (h_done Z (n_h n))) :: h_done Z (n_h n)) nets
  | [] => bad_case end.

(* the property on the observation alone *)
Fixpoint sent_of (ops : list Z) (fuel : nat) : list Z :=
  match fuel with O => [] | S f =>
  match ops with 1 :: x :: t => x :: sent_of t f | 2 :: _ :: t => sent_of t f | 3 :: t => sent_of t f | 4 :: t => sent_of t f | _ => [] end end.
Fixpoint subseqb (a b : list Z) : bool :=
  match a, b with
  | [], _ => true
  | _ :: _, [] => false
  | x :: a', y :: b' => if x =? y then subseqb a' b' else subseqb a b'
  end.
Fixpoint ends_quiescent (ops : list Z) (fuel : nat) : bool :=
  match fuel with O => false | S f =>
  match ops with [4] => true | 1 :: _ :: t => ends_quiescent t f | 2 :: _ :: t => ends_quiescent t f | 3 :: t => ends_quiescent t f | 4 :: t => ends_quiescent t f | _ => false end end.
(* did the schedule ever let more than `cap` commands pile up beyond what a handler could have taken?
   conservative: the total number of sends between two quiescence points *)
Fixpoint max_burst (ops : list Z) (cur best : nat) (fuel : nat) : nat :=
  match fuel with O => Nat.max cur best | S f =>
  match ops with
  | 1 :: _ :: t => max_burst t (S cur) (Nat.max (S cur) best) f
  | 4 :: t => max_burst t 0 best f
  | 2 :: _ :: t => max_burst t cur best f | 3 :: t => max_burst t cur best f
  | _ => Nat.max cur best end end.

Fixpoint split_nets (n : nat) (o : list Z) : option (list (list Z)) :=
  match n with
  | O => match o with [] => Some [] | _ => None end
  | S n' => match o with
            | k :: t => if (k <? 0) || (Z.of_nat (length t) <? k) then None else
                        option_map (cons (firstn (Z.to_nat k) t)) (split_nets n' (skipn (Z.to_nat k) t))
            | [] => None end
  end.

Definition c15_check (l o : list Z) : bool :=
  match l with
  | nn :: ops =>
      let sent := sent_of ops (length ops) in
      match split_nets (Z.to_nat nn) o with
      | Some per =>
          forallb (fun done =>
            (* in order, nothing invented, nothing duplicated *)
            subseqb done sent
            (* the newest commands always get through once the handler has caught up *)
            && implb (ends_quiescent ops (length ops))
                 (let keep := skipn (length sent - capN) sent in
                  if list_eq_dec Z.eq_dec (skipn (length done - length keep) done) keep then true else false)
            (* below the capacity nothing is lost at all *)
            && implb (ends_quiescent ops (length ops) && (max_burst ops 0 0 (length ops) <=? capN)%nat)
                 (if list_eq_dec Z.eq_dec done sent then true else false)) per
      | None => false end
  | [] => false end.
Definition c15_nontriv (l o : list Z) : bool :=
  match l with _ :: ops => (capN <? max_burst ops 0 0 (length ops))%nat | [] => false end.

(* cases "300 :: <session script>": a real client session as producer (C04 machinery): every
   command of a long burst written by a client reaches the command bus, in order *)
Definition c15_run_all (l : list Z) : list Z := match l with 300 :: r => Sess_io.sess_run r | _ => c15_run l end.
Definition c15_check_all (l o : list Z) : bool := match l with 300 :: r => Sess_io.script_check r o | _ => c15_check l o end.
Definition c15_nontriv_all (l o : list Z) : bool := match l with 300 :: _ => true | _ => c15_nontriv l o end.
