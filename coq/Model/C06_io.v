From Coq Require Import ZArith List Bool.
Import ListNotations.
Require Import GV.Model.IO GV.Model.Units_io GV.Model.Auth_io.
Local Open Scope Z_scope.
(* C06 at two levels: a single driver (Units_io) and, for cases prefixed with 100, the whole authority:
   any frame through NetworkAuthority::recv; the receive task must survive (an observation that decodes
   into steps; a panic is reported as [-1]) *)
Definition c06x_run (l : list Z) : list Z := match l with 100 :: rest => auth_run rest | _ => units_run l end.
Definition c06x_check (l o : list Z) : bool :=
  match l with
  | 100 :: rest => match asteps_of o with Some _ => true | None => false end
  | _ => c06_check l o end.
Definition c06x_nontriv (l o : list Z) : bool := match l with 100 :: _ => true | _ => units_nontriv l o end.
