(* Model of tokio::sync::broadcast (1.43) as used for the command and signal buses: an unbounded
   history of sent values of which the last `cap` are retained; every receiver has a cursor.
   A receiver that fell behind gets Lagged(n) once and continues with the oldest retained value.
   Sending never blocks.  Plus the command task of Runtime::schedule_net_service:
     loop { match recv { Ok(o) => on_command(o), Lagged => continue, Closed => break } }
   as micro-steps, so that every relative speed of producers and handler is a schedule. *)
From Coq Require Import ZArith List Bool Arith.
Import ListNotations.

Section Bus.
Variable A : Type.
Variable cap : nat.

Inductive rres := RItem (x : A) | RLagged (n : nat) | REmpty.

(* recv at cursor c on history `sent` *)
Definition recv_at (sent : list A) (c : nat) (dflt : A) : rres * nat :=
  let tail := length sent in
  let lo := tail - cap in
  if c <? lo then (RLagged (lo - c), lo)
  else if c <? tail then (RItem (nth c sent dflt), S c)
  else (REmpty, c).

(* the handler: either waiting in recv (Idle) or inside on_command with a received value *)
Record handler := { h_cursor : nat; h_holding : option A; h_done : list A; h_lags : nat }.
Definition handler0 : handler := {| h_cursor := 0; h_holding := None; h_done := []; h_lags := 0 |}.

Inductive mstep :=
| MSend (x : A)      (* some producer sends (never blocks) *)
| MRecv              (* the handler task polls its recv *)
| MFinish.           (* on_command returns *)

Record sys := { s_sent : list A; s_h : handler }.
Definition sys0 : sys := {| s_sent := []; s_h := handler0 |}.

Definition step (dflt : A) (s : sys) (m : mstep) : sys :=
  match m with
  | MSend x => {| s_sent := s_sent s ++ [x]; s_h := s_h s |}
  | MRecv =>
      match h_holding (s_h s) with
      | Some _ => s                                  (* busy in on_command: recv is not polled *)
      | None =>
          match recv_at (s_sent s) (h_cursor (s_h s)) dflt with
          | (RItem x, c) => {| s_sent := s_sent s; s_h := {| h_cursor := c; h_holding := Some x; h_done := h_done (s_h s); h_lags := h_lags (s_h s) |} |}
          | (RLagged _, c) => {| s_sent := s_sent s; s_h := {| h_cursor := c; h_holding := None; h_done := h_done (s_h s); h_lags := S (h_lags (s_h s)) |} |}
          | (REmpty, _) => s
          end
      end
  | MFinish =>
      match h_holding (s_h s) with
      | Some x => {| s_sent := s_sent s; s_h := {| h_cursor := h_cursor (s_h s); h_holding := None; h_done := h_done (s_h s) ++ [x]; h_lags := h_lags (s_h s) |} |}
      | None => s
      end
  end.

Definition run (dflt : A) (s : sys) (ms : list mstep) : sys := fold_left (step dflt) ms s.

(* what the handler has taken so far: finished commands plus the one it is working on *)
Definition taken (h : handler) : list A := h_done h ++ match h_holding h with Some x => [x] | None => [] end.
End Bus.
Arguments RItem {A}. Arguments RLagged {A}. Arguments REmpty {A}.
Arguments MSend {A}. Arguments MRecv {A}. Arguments MFinish {A}.
