(* Model of VolvoD7E (driver/net/volvo_ems.rs) as a J1939Unit with an abstract millisecond clock:
   try_recv (delegates to the engine management system), trigger, tick.  Reflects fix 7af8f4f
   (the command is stored as interpreted on accept).  No proofs in this file. *)
From Coq Require Import ZArith List Bool.
Import ListNotations.
Require Import GV.Gen.Consts GV.Model.Outcome GV.Model.J1939 GV.Model.Governor GV.Model.Hcu GV.Model.Object
  GV.Model.HcuUnit GV.Model.Units.
Local Open Scope Z_scope.

Definition CODE_SHUTDOWN := 7.     (* 0b0000_0111 *)
Definition CODE_LOCKED := 71.      (* 0b0100_0111 *)
Definition CODE_NOMINAL := 67.     (* 0b0100_0011 *)
Definition CODE_STARTING := 195.   (* 0b1100_0011 *)

Definition engine_off : engine := {| e_demand := 0; e_actual := 0; e_rpm := 0; e_state := NoRequest |}.

(* (rpm as f32 / 10.0) as u8 : saturating *)
Definition speed_byte (rpm : Z) : Z := Z.min 255 (rpm / 10).

Definition speed_control (sa code rpm : Z) : frame :=
  {| f_id := id_build 3 65282 0 sa; f_data := [0; code; 31; 0; 0; 0; 32; speed_byte rpm] |}.

Definition code_of (s : estate) : Z :=
  match s with NoRequest => CODE_NOMINAL | Starting => CODE_STARTING | Stopping => CODE_SHUTDOWN | Request => CODE_NOMINAL end.

Definition gov_frame (sa : Z) (o : outcome engine) : list frame :=
  match o with Ok e => [speed_control sa (code_of (e_state e)) (e_rpm e)] | Panic => [] end.

(* driver state: the shared context plus the time stamp of tx_last_message *)
Record vstate := { v_ctx : ctx; v_tx_time : Z }.
Definition vstate0 : vstate := {| v_ctx := ctx0; v_tx_time := 0 |}.

Definition reported (c : ctx) : engine := match rx_last c with Some (OEngine e) => e | _ => engine_off end.

(* trigger: speed 0 means shut down, otherwise run at that speed *)
Definition normalise_cmd (cmd : engine) : engine :=
  if 0 <? e_rpm cmd then {| e_demand := 0; e_actual := 0; e_rpm := e_rpm cmd; e_state := Request |} else engine_off.

Definition volvo_trigger (u : unit_cfg) (s : vstate) (now : Z) (o : object) : vstate * list frame :=
  match o with
  | OEngine cmd =>
      let sig := reported (v_ctx s) in
      let c := normalise_cmd cmd in
      ({| v_ctx := set_tx (v_ctx s) (OEngine c); v_tx_time := now |},
       gov_frame (u_sa u) (next_state volvo_rpm_idle volvo_rpm_max (e_state sig) (e_state c) (e_rpm c) NoAge))
  | _ => (s, [])
  end.

Definition age_at (s : vstate) (now : Z) : age := if volvo_timeout_ms <=? now - v_tx_time s then Old else Young   (* elapsed() > timeout with elapsed = delta + eps *).

Definition volvo_tick (u : unit_cfg) (s : vstate) (now : Z) : list frame :=
  let sig := reported (v_ctx s) in
  match tx_last (v_ctx s) with
  | Some (OEngine c) =>
      gov_frame (u_sa u) (next_state volvo_rpm_idle volvo_rpm_max (e_state sig) (e_state c) (e_rpm c) (age_at s now))
  | _ => gov_frame (u_sa u) (next_state volvo_rpm_idle volvo_rpm_max (e_state sig) (e_state sig) (e_rpm sig) NoAge)
  end.

Definition volvo_recv (u : unit_cfg) (s : vstate) (f : frame) : vstate :=
  {| v_ctx := r_ctx (ems_recv u (v_ctx s) f); v_tx_time := v_tx_time s |}.

(* histories *)
Inductive vevent : Type :=
| VStatus (d : list Z)       (* an EEC1 frame from the engine with these 8 data bytes *)
| VCmd (e : engine)          (* an engine command *)
| VOther (o : object)        (* any non-engine command *)
| VTick
| VWait (ms : Z).

Definition eec1_frame (u : unit_cfg) (d : list Z) : frame := {| f_id := 3 * 67108864 + 61444 * 256 + u_da u; f_data := d |}.

Fixpoint volvo_run (u : unit_cfg) (s : vstate) (now : Z) (evs : list vevent) : list (list frame) :=
  match evs with
  | [] => []
  | VStatus d :: t => [] :: volvo_run u (volvo_recv u s (eec1_frame u d)) now t
  | VCmd e :: t => let '(s', fs) := volvo_trigger u s now (OEngine e) in fs :: volvo_run u s' now t
  | VOther o :: t => let '(s', fs) := volvo_trigger u s now o in fs :: volvo_run u s' now t
  | VTick :: t => volvo_tick u s now :: volvo_run u s now t
  | VWait ms :: t => [] :: volvo_run u s (now + ms) t
  end.
