(* Model of the parts of crate j1939 0.1.33 that Glonax uses: Id accessors and IdBuilder.
   A 29-bit identifier is a Z; `<<`/`>>`/`&` on disjoint fields are written arithmetically
   (`*2^k`, `/`, `mod`) — trusted modelling step, tied by the exhaustive (da,sa) correspondence. *)
From Coq Require Import ZArith List Bool.
Import ListNotations.
Local Open Scope Z_scope.

Record frame := { f_id : Z; f_data : list Z }.

Definition id_priority (id : Z) : Z := id / 67108864.           (* >> 26 *)
Definition id_pf (id : Z) : Z := (id / 65536) mod 256.
Definition id_ps (id : Z) : Z := (id / 256) mod 256.
Definition id_sa (id : Z) : Z := id mod 256.
(* pdu_format: PDU1 iff (format & 0xf0) < 0xf0 *)
Definition id_is_pdu1 (id : Z) : bool := id_pf id <? 240.
Definition id_pgn (id : Z) : Z :=
  if id_is_pdu1 id then id_pf id * 256 else id_pf id * 256 + id_ps id.
Definition id_da (id : Z) : option Z :=
  if id_is_pdu1 id then Some (id_ps id) else None.

(* IdBuilder::from_pgn(pgn).priority(p).da(da).sa(sa).build(); Id::new masks to 29 bits.
   pgn is the 18-bit PGN value; for PDU1 PGNs its low byte is 0 in every use by Glonax. *)
Definition id_build (prio pgn da sa : Z) : Z :=
  let base := Z.min prio 7 * 67108864 + pgn * 256 + sa in
  (if id_is_pdu1 base then base + da * 256 else base) mod 536870912.

Definition PGN_REQUEST : Z := 59904.
Definition PGN_ADDRESS_CLAIMED : Z := 60928.
Definition PGN_SOFTWARE_IDENT : Z := 65242.
Definition PGN_COMPONENT_IDENT : Z := 65259.
Definition PGN_TIME_DATE : Z := 65254.
Definition PGN_PCM1 : Z := 45312.
Definition PGN_PCM2 : Z := 45568.
Definition PGN_PCM3 : Z := 45824.
Definition PGN_TSC1 : Z := 0.
Definition PGN_EBC1 : Z := 61441.
Definition PGN_EEC1 : Z := 61444.
Definition PGN_SHUTDOWN : Z := 65252.

(* protocol::request(da, sa, pgn): default priority 6, 3 data bytes (pgn little endian) *)
Definition request_frame (da sa pgn : Z) : frame :=
  {| f_id := id_build 6 PGN_REQUEST da sa;
     f_data := [pgn mod 256; (pgn / 256) mod 256; (pgn / 65536) mod 256] |}.

Definition frame_eqb (a b : frame) : bool :=
  (f_id a =? f_id b) && (if list_eq_dec Z.eq_dec (f_data a) (f_data b) then true else false).
