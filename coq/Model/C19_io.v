(* C19 case / observation encodings (see harness/src/c19.rs).
     1 d                                   -> r
     2|12 a b c                            -> nan r          (r = libm acosf: WILD in the model)
     3 lb offset scale inv n d1..dn        -> per call: 0 | 1 v | -1 (panic)
     4 kp offset inv n e1..en              -> per call: bits | -1
     5 kp offset inv act n (some e)*       -> per step: 0 | 1 act ebits value;  [-1] if anything panicked
     6 a b t                               -> lerp
     7 target n (name tx ty tz m00..m22)*  -> x y z            small integers, exact in f32
     8 target n (name t(3) euler(3))*      -> 16 words per segment transform, then x y z
     9 aname n (name t(3) euler(3))*       -> bytes and the decoded actor (see c19_run)
   Floats are bit patterns; WILD marks positions that depend on libm / nalgebra rounding and are
   judged by c19_check (tolerances) instead of being predicted. *)
From Coq Require Import ZArith List Bool.
Import ListNotations.
Require Import GV.Model.Outcome GV.Model.F32 GV.Model.Kinematics GV.Spec.C19_spec GV.Model.IO.
Require GV.Model.Packets.
Local Open Scope Z_scope.

Definition WILD : Z := -999999999999.
Definition fb (z : Z) : f32 := f32_of_bits z.
Definition bf (x : f32) : Z := if fis_nan x then NAN_BITS else bits_of_f32 x.
Definition sign_bit (z : Z) : bool := 2147483648 <=? z.
Definition bits_ok (z : Z) : bool := (0 <=? z) && (z <? 4294967296).

Definition seg_name (id : Z) : list Z :=
  if (0 <=? id) && (id <=? 25) then [115; 101; 103; 97 + id]
  else if id =? 26 then [114; 111; 111; 116]
  else if id =? 50 then []
  else if (101 <=? id) && (id <=? 140) then flat_map (fun _ => [195; 169]) (seq 0 (Z.to_nat (id - 100)))
  else if (200 <=? id) && (id <=? 225) then [83; 101; 103; 65 + (id - 200)]            (* "Seg" + capital *)
  else if (230 <=? id) && (id <=? 255) then [32; 115; 101; 103; 97 + (id - 230); 32]   (* " seg" + letter + " " *)
  else [].

(* ---- decoding ---- *)
Fixpoint chunks (k : nat) (n : nat) (l : list Z) : list (list Z) :=
  match n with
  | O => []
  | S n' => firstn k l :: chunks k n' (skipn k l)
  end.
Definition len_is (l : list Z) (n : Z) : bool := (0 <=? n) && (Z.of_nat (length l) =? n).

Definition zmat_of (s : list Z) : option (Z * zaff) :=
  match s with
  | [nm; tx; ty; tz; a; b; c; d; e; f; g; h; i] => Some (nm, (((a, b, c), (d, e, f), (g, h, i)), (tx, ty, tz)))
  | _ => None
  end.
Fixpoint opt_all {A} (l : list (option A)) : option (list A) :=
  match l with
  | [] => Some []
  | Some x :: t => match opt_all t with Some r => Some (x :: r) | None => None end
  | None :: _ => None
  end.
Definition root_if_empty {T} (one : T) (segs : list (Z * T)) : list (Z * T) :=
  match segs with [] => [(26, one)] | _ => segs end.

(* ---- the model's answers ---- *)
Definition run_lm (lb off sc : f32) (inv : bool) (d : Z) : list Z :=
  match linear_motion (fb d) (sign_bit d) lb off sc inv with
  | Panic => [-1] | Ok None => [0] | Ok (Some v) => [1; v]
  end.
Definition run_lu (p : linear) (e : Z) : Z :=
  match linear_update p (fb e) with Panic => -1 | Ok v => bf v end.
Definition dec_step (st : list Z) : option f32 :=
  match st with [some; e] => if some =? 0 then None else Some (fb e) | _ => None end.
Definition enc_aev (ev : aev) : list Z :=
  match ev with ANone => [0] | AEv a er v => [1; a; bf er; v] end.
Definition run_act (s : actuator_state) (steps : list (list Z)) : option (list Z) :=
  match act_run s (map dec_step steps) with
  | Panic => None
  | Ok evs => Some (flat_map enc_aev evs)
  end.

Definition seg_matrix_pattern (s : list Z) : list Z :=
  match s with
  | [_; tx; ty; tz; _; _; _] =>
      [WILD; WILD; WILD; tx; WILD; WILD; WILD; ty; WILD; WILD; WILD; tz; 0; 0; 0; bf fone]
  | _ => bad_case
  end.
Definition seg_bytes_pattern (s : list Z) : list Z :=
  match s with
  | [nm; tx; ty; tz; _; _; _] =>
      Packets.be16 (Z.of_nat (length (seg_name nm))) ++ seg_name nm
      ++ Packets.be32 tx ++ Packets.be32 ty ++ Packets.be32 tz ++ repeat WILD 12
  | _ => bad_case
  end.
Definition first_loc (segs : list (list Z)) (nm : Z) : list Z :=
  match find (fun s => match s with n :: _ => n =? nm | [] => false end) segs with
  | Some (_ :: tx :: ty :: tz :: _) => [tx; ty; tz]
  | _ => [0; 0; 0]
  end.
Definition root_seg : list Z := [26; 0; 0; 0; 0; 0; 0].

Definition c19_run (l : list Z) : list Z :=
  match l with
  | [1; d] => [bf (shortest_rotation (fb d))]
  | [2; a; b; c] | [12; a; b; c] => [Zbool (loc_is_nan (fb a) (fb b) (fb c)); WILD]
  | 3 :: lb :: off :: sc :: inv :: n :: ds =>
      if len_is ds n then flat_map (run_lm (fb lb) (fb off) (fb sc) (negb (inv =? 0))) ds else bad_case
  | 4 :: k :: off :: inv :: n :: es =>
      if len_is es n then map (run_lu {| kp := fb k; l_offset := fb off; l_inverse := negb (inv =? 0) |}) es
      else bad_case
  | 5 :: k :: off :: inv :: act :: n :: st =>
      if len_is st (2 * n) then
        match run_act (actuator_bind act {| kp := fb k; l_offset := fb off; l_inverse := negb (inv =? 0) |})
                      (chunks 2 (Z.to_nat n) st) with
        | Some o => o | None => [-1] end
      else bad_case
  | [6; a; b; t] => [bf (lerp (fb a) (fb b) (fb t))]
  | 7 :: target :: n :: rest =>
      if len_is rest (13 * n) then
        match opt_all (map zmat_of (chunks 13 (Z.to_nat n) rest)) with
        | Some segs =>
            let '(x, y, z) := world_location_Z (root_if_empty zaff_one segs) target in
            [bf (f_of_Z x); bf (f_of_Z y); bf (f_of_Z z)]
        | None => bad_case
        end
      else bad_case
  | 8 :: target :: n :: rest =>
      if len_is rest (7 * n) then
        flat_map seg_matrix_pattern (chunks 7 (Z.to_nat n) rest) ++ [WILD; WILD; WILD]
      else bad_case
  | 9 :: aname :: n :: rest =>
      if len_is rest (7 * n) then
        let segs := chunks 7 (Z.to_nat n) rest in
        let segs' := match segs with [] => [root_seg] | _ => segs end in
        let bytes := Packets.be16 (Z.of_nat (length (seg_name aname))) ++ seg_name aname
                     ++ [Z.of_nat (length segs')] ++ flat_map seg_bytes_pattern segs' in
        Z.of_nat (length bytes) :: bytes
        ++ [1; Z.of_nat (length (seg_name aname))] ++ seg_name aname
        ++ flat_map (fun s => match s with
                              | nm :: _ => 1 :: first_loc segs nm ++ repeat WILD 24
                              | [] => bad_case end) segs
      else bad_case
  | _ => bad_case
  end.

(* ---- the property on what the implementation returned ---- *)
Definition dec_lm_obs (o : list Z) (n : nat) : option (list (option (option Z))) :=
  (fix go (n : nat) (o : list Z) : option (list (option (option Z))) :=
     match n, o with
     | O, [] => Some []
     | S n', -1 :: t => option_map (cons None) (go n' t)
     | S n', 0 :: t => option_map (cons (Some None)) (go n' t)
     | S n', 1 :: v :: t => option_map (cons (Some (Some v))) (go n' t)
     | _, _ => None
     end) n o.
Fixpoint dec_act_obs (n : nat) (o : list Z) : option (list aev) :=
  match n, o with
  | O, [] => Some []
  | S n', 0 :: t => option_map (cons ANone) (dec_act_obs n' t)
  | S n', 1 :: a :: e :: v :: t => option_map (cons (AEv a (fb e) v)) (dec_act_obs n' t)
  | _, _ => None
  end.

Definition dy3 (v : list Z) : option (dy * dy * dy) :=
  match v with
  | [x; y; z] => match dyad (fb x), dyad (fb y), dyad (fb z) with
                 | Some a, Some b, Some c => Some (a, b, c) | _, _, _ => None end
  | _ => None
  end.
(* a 4x4 transform reported by the implementation, as an exact dyadic affine map; the last
   row must be 0 0 0 1 *)
Definition daff_of (m : list Z) : option daff :=
  match m with
  | [a; b; c; tx; d; e; f; ty; g; h; i; tz; z0; z1; z2; w] =>
      if (z0 =? 0) && (z1 =? 0) && (z2 =? 0) && (w =? bf fone) then
        match opt_all (map (fun q => dyad (fb q)) [a; b; c; d; e; f; g; h; i; tx; ty; tz]) with
        | Some [a; b; c; d; e; f; g; h; i; tx; ty; tz] => Some (((a, b, c), (d, e, f), (g, h, i)), (tx, ty, tz))
        | _ => None
        end
      else None
  | _ => None
  end.
Definition dy_l1 (v : dy * dy * dy) : dy := let '(x, y, z) := v in dy_add (dy_abs x) (dy_add (dy_abs y) (dy_abs z)).
Definition dy_close (tol : dy) (a b : dy * dy * dy) : bool :=
  let '(a0, a1, a2) := a in let '(b0, b1, b2) := b in
  dy_le (dy_abs (dy_sub a0 b0)) tol && dy_le (dy_abs (dy_sub a1 b1)) tol && dy_le (dy_abs (dy_sub a2 b2)) tol.
(* tolerance of an f32 chain: 2^-17 * (1 + sum of the translation magnitudes) *)
Definition chain_tol (segs : list (Z * daff)) : dy :=
  dy_mul (fold_left (fun acc s => dy_add acc (dy_l1 (snd (snd s)))) segs (1, 0)) (1, -17).

(* rotation matrices before/after the Euler-angle round trip: entries within 2^-18, or within
   2^-11 when the pitch is within ~0.8 degrees of gimbal lock (|m20| > 0.9999), where asin
   loses half the digits *)
Definition rot_close (a b : list Z) : bool :=
  let tol := match dyad (fb (nth 6 a 0)) with
             | Some m => if dy_le (dy_abs m) (9999, 0) && dy_le (dy_mul (dy_abs m) (10000, 0)) (9999, 0)
                         then (1, -18) else (1, -11)
             | None => (1, -18) end in
  (length a =? length b)%nat &&
  forallb (fun p => match dyad (fb (fst p)), dyad (fb (snd p)) with
                    | Some x, Some y => dy_le (dy_abs (dy_sub x y)) tol
                    | _, _ => false end) (combine a b).

Definition c19_check (l o : list Z) : bool :=
  match l with
  | [1; d] => match o with [r] => sr_spec (fb d) (fb r) | _ => false end
  | [k; a; b; c] =>
      if (k =? 2) || (k =? 12) then
        match o with [nan; r] => loc_spec (k =? 12) (fb a) (fb b) (fb c) (negb (nan =? 0)) (fb r) | _ => false end
      else true
  | 3 :: lb :: off :: sc :: inv :: n :: ds =>
      match dec_lm_obs o (length ds) with
      | Some outs => lm_spec (fb lb) (fb off) (fb sc) (negb (inv =? 0)) (combine (map fb ds) outs)
      | None => false
      end
  | 4 :: k :: off :: inv :: n :: es =>
      (length o =? length es)%nat &&
      lu_spec (fb k) (fb off) (negb (inv =? 0))
              (combine (map fb es) (map (fun v => if v =? -1 then None else Some (fb v)) o))
  | 5 :: k :: off :: inv :: act :: n :: st =>
      if profile_domain (fb k) (fb off) then
        match dec_act_obs (Z.to_nat n) o with
        | Some evs =>
            act_spec act (negb (inv =? 0)) true
                     (map dec_step (chunks 2 (Z.to_nat n) st)) evs
        | None => false
        end
      else true
  | 7 :: target :: n :: rest =>
      match opt_all (map zmat_of (chunks 13 (Z.to_nat n) rest)) with
      | Some segs =>
          let '(x, y, z) := wl_exact (root_if_empty zaff_one segs) target in
          if list_eq_dec Z.eq_dec o [bf (f_of_Z x); bf (f_of_Z y); bf (f_of_Z z)] then true else false
      | None => false
      end
  | 8 :: target :: n :: rest =>
      let k := Z.to_nat n in
      let names := map (fun s => hd 0 s) (chunks 7 k rest) in
      match opt_all (map daff_of (chunks 16 k o)), dy3 (skipn (16 * k) o) with
      | Some ts, Some p =>
          let segs := root_if_empty daff_one (combine names ts) in
          dy_close (chain_tol segs) (wl_dy segs target) p
      | _, _ => false
      end
  | 9 :: aname :: n :: rest =>
      let k := Z.to_nat n in
      match o with
      | blen :: t =>
          let bytes := firstn (Z.to_nat blen) t in
          let after := skipn (Z.to_nat blen) t in
          (* the bytes decode, under the C13 packet model, to the same names and translations *)
          let segs := chunks 7 k rest in
          let segs' := match segs with [] => [root_seg] | _ => segs end in
          match Packets.dec_actor bytes with
          | Packets.DOk (Packets.PActor nm ss, []) =>
              (if list_eq_dec Z.eq_dec nm (seg_name aname) then true else false)
              && (length ss =? length segs')%nat
              && forallb (fun p => match fst p with
                                   | s0 :: tx :: ty :: tz :: _ =>
                                       (if list_eq_dec Z.eq_dec (fst (snd p)) (seg_name s0) then true else false)
                                       && (if list_eq_dec Z.eq_dec (firstn 3 (snd (snd p))) [tx; ty; tz] then true else false)
                                   | _ => false end) (combine segs' ss)
          | _ => false
          end
          && match after with
             | 1 :: nl :: t2 =>
                 let per := skipn (Z.to_nat nl) t2 in
                 (* per segment: found loc(3) w0(3) w1(3) R(9) R'(9) = 28 words *)
                 forallb (fun w =>
                            match w with
                            | 1 :: w' =>
                                let w0 := firstn 3 (skipn 3 w') in let w1 := firstn 3 (skipn 6 w') in
                                let r0 := firstn 9 (skipn 9 w') in let r1 := firstn 9 (skipn 18 w') in
                                rot_close r0 r1
                                && match dy3 w0, dy3 w1 with
                                   | Some p0, Some p1 =>
                                       dy_close (dy_mul (dy_add (1, 0) (dy_add (dy_l1 p0) (dy_l1 p1))) (1, -11)) p0 p1
                                   | _, _ => false end
                            | _ => false end) (chunks 28 k per)
             | _ => false
             end
      | [] => false
      end
  | _ => true
  end.

(* evidence: cases on which the property says something *)
Definition c19_nontriv (l o : list Z) : bool :=
  match l with
  | [1; d] => sr_domain (fb d)
  | [k; a; b; c] => ((k =? 2) || (k =? 12)) && tri_moderate (fb a) (fb b) (fb c)
                    && match tri_ints (fb a) (fb b) (fb c) with Some t => tri_exists t | None => false end
  | 3 :: lb :: off :: sc :: _ => profile_domain (fb sc) (fb off) && negb (fis_nan (fb lb))
  | 4 :: k :: off :: _ => profile_domain (fb k) (fb off)
  | 5 :: k :: off :: _ => profile_domain (fb k) (fb off)
  | 7 :: _ :: n :: _ => 2 <=? n
  | 8 :: _ :: n :: _ => 2 <=? n
  | 9 :: _ :: n :: _ => 1 <=? n
  | _ => false
  end.
