(* Outcome of a modelled Rust computation: a value, or the point where the
   real code would panic (index out of range, unwrap on None/Err, assert). *)
From Coq Require Import ZArith List Bool.
Inductive outcome (A : Type) : Type :=
| Ok (a : A)
| Panic.
Arguments Ok {A} a.
Arguments Panic {A}.

Definition obind {A B} (x : outcome A) (f : A -> outcome B) : outcome B :=
  match x with Ok a => f a | Panic => Panic end.

Definition is_panic {A} (x : outcome A) : bool :=
  match x with Panic => true | Ok _ => false end.
