From Coq Require Import ZArith List Bool.
Import ListNotations.
Require Import GV.Model.J1939 GV.Model.Hcu GV.Model.IO GV.Spec.C02_spec.
Local Open Scope Z_scope.

(* case: da sa motion ; obs: frames *)
Definition c02_case_of (l : list Z) : option c02_case :=
  match l with
  | da :: sa :: t =>
      match dec_motion t with
      | Some (m, []) => Some {| k_da := da; k_sa := sa; k_motion := m |}
      | _ => None end
  | _ => None
  end.
Definition c02_run (l : list Z) : list Z :=
  match c02_case_of l with Some c => enc_frames (c02_model c) | None => bad_case end.
Definition c02_check (l o : list Z) : bool :=
  match c02_case_of l, dec_frames o with
  | Some c, Some (fs, []) => implb (c02_wf c) (c02_spec_ok c fs)
  | _, _ => false
  end.
(* non-trivial: a motion that moves something (straight drive or a non-empty change set) *)
Definition c02_nontriv (l o : list Z) : bool :=
  match c02_case_of l with
  | Some c => c02_wf c && match k_motion c with StraightDrive _ => true | Change (_ :: _) => true | _ => false end
  | None => false
  end.
