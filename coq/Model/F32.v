(* IEEE-754 binary32 as the Rust code uses it, on top of Flocq's BinarySingleNaN
   (one NaN, no payload): the arithmetic of `f32` on x86-64/SSE is correctly
   rounded (round-to-nearest-even) for + - * /, `%` is the exact C fmodf,
   `round()` is round-half-away-from-zero and `as i16` truncates and saturates
   (NaN -> 0).  Values cross the boundary as their 32-bit patterns; every NaN is
   canonicalised to 0x7FC00000 on both sides.

   Everything here is executable and extracted; nothing is proved in this file. *)
From Coq Require Import ZArith Bool List.
From Flocq Require Import Core.Core IEEE754.Binary IEEE754.Bits.
From Flocq Require IEEE754.BinarySingleNaN.
From Coq Require Floats.SpecFloat.
Require Import GV.Model.Outcome.
Import ListNotations.
Local Open Scope Z_scope.



Definition f32 := BinarySingleNaN.binary_float 24 128.
Definition Hprec32 : FLX.Prec_gt_0 24 := eq_refl.
Definition Hemax32 : BinarySingleNaN.Prec_lt_emax 24 128 := eq_refl.

Definition NAN_BITS : Z := 2143289344.            (* 0x7FC00000 *)
Definition fnan : f32 := BinarySingleNaN.B754_nan.

(* ---- bit patterns ---- *)
Definition f32_of_bits (z : Z) : f32 := B2BSN 24 128 (b32_of_bits z).
Definition bits_of_f32 (x : f32) : Z := bits_of_b32 (BSN2B 24 128 default_nan_pl32 x).

(* ---- the operations Rust compiles the sources to ---- *)
Definition fadd : f32 -> f32 -> f32 := @BinarySingleNaN.Bplus 24 128 Hprec32 Hemax32 BinarySingleNaN.mode_NE.
Definition fsub : f32 -> f32 -> f32 := @BinarySingleNaN.Bminus 24 128 Hprec32 Hemax32 BinarySingleNaN.mode_NE.
Definition fmul : f32 -> f32 -> f32 := @BinarySingleNaN.Bmult 24 128 Hprec32 Hemax32 BinarySingleNaN.mode_NE.
Definition fdiv : f32 -> f32 -> f32 := @BinarySingleNaN.Bdiv 24 128 Hprec32 Hemax32 BinarySingleNaN.mode_NE.
Definition fneg : f32 -> f32 := BinarySingleNaN.Bopp.
Definition fabs : f32 -> f32 := BinarySingleNaN.Babs.
Definition flt (x y : f32) : bool := BinarySingleNaN.Bltb x y.
Definition fle (x y : f32) : bool := BinarySingleNaN.Bleb x y.
Definition fgt (x y : f32) : bool := BinarySingleNaN.Bltb y x.
Definition fis_nan (x : f32) : bool := BinarySingleNaN.is_nan x.
Definition fsign (x : f32) : bool := BinarySingleNaN.Bsign x.       (* sign bit; false for the single NaN *)

Definition f_of_Z (z : Z) : f32 := BinarySingleNaN.binary_normalize 24 128 Hprec32 Hemax32 BinarySingleNaN.mode_NE z 0 false.

Definition fconst (s : bool) (m : positive) (e : Z)
  (H : SpecFloat.bounded 24 128 m e = true) : f32 := BinarySingleNaN.B754_finite s m e H.
Definition fone : f32 := fconst false 8388608 (-23) eq_refl.

(* f32::round: half away from zero *)
Definition fround (x : f32) : f32 := @BinarySingleNaN.Bnearbyint 24 128 Hemax32 BinarySingleNaN.mode_NA x.

(* f32::signum: NaN -> NaN, otherwise 1.0 with the sign bit of x *)
Definition fsignum (x : f32) : f32 :=
  if fis_nan x then fnan else if fsign x then fneg fone else fone.

(* f32::min: a NaN operand is ignored *)
Definition fmin (a b : f32) : f32 :=
  if fis_nan a then b else if fis_nan b then a else if flt b a then b else a.

(* f32::clamp: panics unless min <= max (false when either is NaN) *)
Definition fclamp (x lo hi : f32) : outcome f32 :=
  if negb (fle lo hi) then Panic else
  let x1 := if flt x lo then lo else x in
  Ok (if fgt x1 hi then hi else x1).

(* `x as i16`: NaN -> 0, truncation toward zero, saturation *)
Definition I16_MIN : Z := -32768.
Definition I16_MAX : Z := 32767.
Definition f2i16 (x : f32) : Z :=
  match x with
  | BinarySingleNaN.B754_nan => 0
  | BinarySingleNaN.B754_infinity s => if s then I16_MIN else I16_MAX
  | _ => Z.max I16_MIN (Z.min I16_MAX (BinarySingleNaN.Btrunc x))
  end.

(* `-v` on i16: overflow panics (debug build, which the harness uses) *)
Definition ineg16 (v : Z) : outcome Z := if v =? I16_MIN then Panic else Ok (- v).

(* `x % y` (fmodf): exact; the result has the sign of x *)
Definition frem (x y : f32) : f32 :=
  match x, y with
  | BinarySingleNaN.B754_nan, _ | _, BinarySingleNaN.B754_nan => fnan
  | BinarySingleNaN.B754_infinity _, _ => fnan
  | _, BinarySingleNaN.B754_zero _ => fnan
  | BinarySingleNaN.B754_zero _, _ => x
  | BinarySingleNaN.B754_finite _ _ _ _, BinarySingleNaN.B754_infinity _ => x
  | BinarySingleNaN.B754_finite sx mx ex _, BinarySingleNaN.B754_finite _ my ey _ =>
      let e := Z.min ex ey in
      let X := Zpos mx * 2 ^ (ex - e) in
      let Y := Zpos my * 2 ^ (ey - e) in
      let r := X mod Y in
      BinarySingleNaN.binary_normalize 24 128 Hprec32 Hemax32 BinarySingleNaN.mode_NE (if sx then - r else r) e sx
  end.

(* ---- constants of the sources, as explicit mantissa/exponent pairs ---- *)
Definition PI_BITS : Z := 1078530011.             (* 0x40490FDB  std::f32::consts::PI *)
Definition fpi : f32 := fconst false 13176795 (-22) eq_refl.       (* PI = 13176795 * 2^-22 *)
Definition ftwo : f32 := fconst false 8388608 (-22) eq_refl.       (* 2.0 *)
Definition ftwopi : f32 := fconst false 13176795 (-21) eq_refl.    (* 2.0 * PI, exact *)
Definition fi16max : f32 := fconst false 16776704 (-9) eq_refl.    (* i16::MAX as f32 = 32767 *)
Definition fi16min : f32 := fconst true 8388608 (-8) eq_refl.      (* i16::MIN as f32 = -32768 *)
Definition fzero : f32 := BinarySingleNaN.B754_zero false.

(* exact dyadic value m * 2^e of a finite float (0,0 for zeros) *)
Definition dyad (x : f32) : option (Z * Z) :=
  match x with
  | BinarySingleNaN.B754_zero _ => Some (0, 0)
  | BinarySingleNaN.B754_finite s m e _ => Some (if s then Zneg m else Zpos m, e)
  | _ => None
  end.
Definition ffinite (x : f32) : bool := BinarySingleNaN.is_finite x.
