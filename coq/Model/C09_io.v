From Coq Require Import ZArith List Bool.
Import ListNotations.
Require Import GV.Gen.Consts GV.Model.Director GV.Model.IO GV.Spec.C09_spec.
Local Open Scope Z_scope.
(* events: 1 rpm (engine reading) | 2 src roll pitch yaw0 (rotation reading, centi-degrees) | 3 k (any other signal) *)
Fixpoint dec_dsignals (fuel : nat) (l : list Z) : option (list dsignal) :=
  match fuel with
  | O => match l with [] => Some [] | _ => None end
  | S f =>
    match l with
    | [] => Some []
    | 1 :: rpm :: t => option_map (cons (SEngine rpm)) (dec_dsignals f t)
    | 2 :: src :: r :: p :: y :: t =>
        option_map (cons (SRotator {| rr_src := src; rr_roll := r; rr_pitch := p; rr_yaw0 := negb (y =? 0) |})) (dec_dsignals f t)
    | 3 :: _ :: t => option_map (cons SOther) (dec_dsignals f t)
    | _ => None end
  end.
Definition enc_dcmd (c : dcmd) : list Z :=
  match c with DControl k on => [4; k; Zbool on] | DStopAll => [3; 0] | DEngineShutdown => [2; 0; 0; 0; 0] end.
Definition enc_douts (o : list (list dcmd)) : list Z :=
  Z.of_nat (length o) :: flat_map (fun cs => Z.of_nat (length cs) :: flat_map enc_dcmd cs) o.
Fixpoint dec_dcmds (n : nat) (l : list Z) : option (list dcmd * list Z) :=
  match n with
  | O => Some ([], l)
  | S n' =>
      let one := match l with
                 | 4 :: k :: on :: t => Some (DControl k (negb (on =? 0)), t)
                 | 3 :: 0 :: t => Some (DStopAll, t)
                 | 2 :: 0 :: 0 :: 0 :: 0 :: t => Some (DEngineShutdown, t)
                 | _ => None end in
      match one with
      | Some (c, t) => match dec_dcmds n' t with Some (cs, r) => Some (c :: cs, r) | None => None end
      | None => None end
  end.
Fixpoint dec_douts (n : nat) (l : list Z) : option (list (list dcmd)) :=
  match n with
  | O => match l with [] => Some [] | _ => None end
  | S n' => match l with
            | k :: t => if (k <? 0) || (Z.of_nat (length t) <? k) then None else
                        match dec_dcmds (Z.to_nat k) t with
                        | Some (cs, r) => option_map (cons cs) (dec_douts n' r)
                        | None => None end
            | [] => None end
  end.
Definition c09_run (l : list Z) : list Z :=
  match dec_dsignals (length l) l with Some h => enc_douts (c09_model h) | None => bad_case end.
Definition c09_check (l o : list Z) : bool :=
  match dec_dsignals (length l) l, o with
  | Some h, n :: t => if (n <? 0) || (Z.of_nat (length t) <? n) then false else
                      match dec_douts (Z.to_nat n) t with
                      | Some ob => implb (c09_wf h) (c09_spec_ok h ob)
                      | None => false end   (* e.g. a motion-change command: not decodable as a director command *)
  | _, _ => false end.
(* non-trivial: some signal in the history is processed while a condition is pending *)
Definition c09_nontriv (l o : list Z) : bool :=
  match dec_dsignals (length l) l with
  | Some h => c09_wf h && existsb (fun cs => match cs with [] => false | _ => true end) (c09_model h)
  | None => false end.

(* ---- bursts: a case 500 :: g :: signals publishes the signals g at a time without letting the director
   run in between (they queue up on its channel); every queued signal is still processed on its own, so what
   comes out per group is the concatenation of what each of its signals causes ---- *)
Fixpoint regroup (fuel : nat) (g : nat) (o : list (list dcmd)) : list (list dcmd) :=
  match fuel with
  | O => []
  | S f => match o with
           | [] => []
           | _ => concat (firstn g o) :: regroup f g (skipn g o)
           end
  end.
(* ---- 501 :: g :: signals: the director runs as the runtime runs it - `loop { wait_io_sub(.., rx.resubscribe()) }` on
   a signal channel of capacity 16 - and the signals are published g at a time: a group of at most 16 is processed in
   order; a larger group makes the receiver lag, wait_io_sub returns and the new subscription starts behind everything
   queued, so the whole group is lost - but the verdicts elected before SURVIVE the re-entry ---- *)
Fixpoint drun_st (s : dstate) (h : list dsignal) : dstate * list (list dcmd) :=
  match h with
  | [] => (s, [])
  | sg :: t => let '(s', out) := dstep s sg in let '(s'', outs) := drun_st s' t in (s'', out :: outs)
  end.
(* the groups alternate in size: 3, g, 3, g, ... (small groups are processed, a group of more than 16 lags) *)
Fixpoint drun_groups (fuel : nat) (s : dstate) (small : bool) (g : nat) (h : list dsignal) : list (list dcmd) :=
  match fuel with
  | O => []
  | S f => match h with
           | [] => []
           | _ => let n := if small then 3%nat else g in
                  let grp := firstn n h in
                  if Nat.leb (length grp) 16
                  then let '(s', outs) := drun_st s grp in concat outs :: drun_groups f s' (negb small) g (skipn n h)
                  else [] :: drun_groups f s (negb small) g (skipn n h)
           end
  end.
Definition c09l_model (g : Z) (h : list dsignal) : list (list dcmd) := drun_groups (length h) dstate0 true (Z.to_nat g) h.

Definition c09x_run (l : list Z) : list Z :=
  match l with
  | 501 :: g :: r =>
      if g <=? 0 then bad_case else
      match dec_dsignals (length r) r with
      | Some h => enc_douts (c09l_model g h)
      | None => bad_case end
  | 500 :: g :: r =>
      if g <=? 0 then bad_case else
      match dec_dsignals (length r) r with
      | Some h => enc_douts (regroup (length h) (Z.to_nat g) (c09_model h))
      | None => bad_case end
  | _ => c09_run l end.
Definition c09x_check (l o : list Z) : bool :=
  match l with
  | 501 :: g :: r =>
      match dec_dsignals (length r) r with
      | Some h => implb (c09_wf h && (0 <? g))
                    (if list_eq_dec Z.eq_dec o (enc_douts (c09l_model g h)) then true else false)
      | None => false end
  | 500 :: g :: r =>
      match dec_dsignals (length r) r with
      | Some h => implb (c09_wf h && (0 <? g))
                    (if list_eq_dec Z.eq_dec o (enc_douts (regroup (length h) (Z.to_nat g) (c09_model h))) then true else false)
      | None => false end
  | _ => c09_check l o end.
Definition c09x_nontriv (l o : list Z) : bool :=
  match l with 500 :: _ :: r | 501 :: _ :: r => c09_nontriv r o | _ => c09_nontriv l o end.
