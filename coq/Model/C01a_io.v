(* C01 at the authority level: cases "1000 :: <authority script>" run the real NetworkAuthority
   (trigger + send on the command path, tick path, receive path sharing one driver context) over
   the emulated bus.  Besides the authority events of Auth_io there is
       8 <motion>   on_command while every socket write FAILS (congested / downed interface)
       9 <motion>   on_command while the bus is stalled for 60 ms and then drains (writes wait, nothing is lost)
   A command is ACCEPTED when on_command is called with it, whether or not its frames left. *)
From Coq Require Import ZArith List Bool.
Import ListNotations.
Require Import GV.Gen.Consts GV.Model.Outcome GV.Model.J1939 GV.Model.Governor GV.Model.Hcu GV.Model.Object
  GV.Model.HcuUnit GV.Model.Units GV.Model.CanNet GV.Model.Authority GV.Model.IO GV.Model.C01_io GV.Model.Units_io GV.Model.Auth_io
  GV.Spec.C02_spec GV.Spec.C01_spec.
Local Open Scope Z_scope.

(* one authority event: new state, new clock, what it put on the bus / published *)
Definition astep1 (a : auth) (now : Z) (e : aevent) : auth * Z * astep :=
  match e with
  | AInject raw =>
      match of_can_frame raw with
      | Some f =>
          let '(a', rs, sigs) := auth_recv a now (normalise f) in
          (a', now, {| as_frames := map (reply_frame a) rs; as_sigs := map enc_object sigs |})
      | None => (a, now, {| as_frames := []; as_sigs := [] |})
      end
  | ATick =>
      let o := auth_on_tick a now in
      (to_auth o, now, {| as_frames := to_frames o; as_sigs := map enc_status (to_status o) |})
  | ACmd ob =>
      let '(a', fs) := auth_on_command a now ob in (a', now, {| as_frames := fs; as_sigs := [] |})
  | AWait ms => (a, now + ms, {| as_frames := []; as_sigs := [] |})
  | ASetup => (a, now, {| as_frames := auth_setup_frames a; as_sigs := [] |})
  | ATeardown => (a, now, {| as_frames := auth_teardown a; as_sigs := [] |})
  end.

Inductive a01event := A01 (e : aevent) | A01Fail (o : object).
Definition a01step (a : auth) (now : Z) (ev : a01event) : auth * Z * astep :=
  match ev with
  | A01 e => astep1 a now e
  | A01Fail o => (fst (auth_on_command a now o), now, {| as_frames := []; as_sigs := [] |})
  end.
Fixpoint a01run (a : auth) (now : Z) (evs : list a01event) : list astep :=
  match evs with
  | [] => []
  | e :: t => let '(a', now', s) := a01step a now e in s :: a01run a' now' t
  end.
Fixpoint a01after (a : auth) (now : Z) (evs : list a01event) : auth * Z :=
  match evs with
  | [] => (a, now)
  | e :: t => let '(a', now', _) := a01step a now e in a01after a' now' t
  end.

Fixpoint dec_a01events (fuel : nat) (l : list Z) : option (list a01event) :=
  match fuel with
  | O => match l with [] => Some [] | _ => None end
  | S fuel' =>
    match l with
    | [] => Some []
    | 1 :: id :: dlc :: b0 :: b1 :: b2 :: b3 :: b4 :: b5 :: b6 :: b7 :: t =>
        option_map (cons (A01 (AInject (CanNet.le32 id ++ [dlc; 0; 0; 0; b0; b1; b2; b3; b4; b5; b6; b7])))) (dec_a01events fuel' t)
    | 2 :: t => option_map (cons (A01 ATick)) (dec_a01events fuel' t)
    | 3 :: t => match dec_motion t with
                | Some (m, r) => option_map (cons (A01 (ACmd (OMotion m)))) (dec_a01events fuel' r)
                | None => None end
    | 9 :: t => match dec_motion t with      (* a command while the bus is stalled for a moment: the frames leave once it drains *)
                | Some (m, r) => option_map (cons (A01 (ACmd (OMotion m)))) (dec_a01events fuel' r)
                | None => None end
    | 8 :: t => match dec_motion t with
                | Some (m, r) => option_map (cons (A01Fail (OMotion m))) (dec_a01events fuel' r)
                | None => None end
    | 7 :: k :: t => option_map (cons (A01 (ACmd (other_object k)))) (dec_a01events fuel' t)
    | 4 :: ms :: t => option_map (cons (A01 (AWait ms))) (dec_a01events fuel' t)
    | 5 :: t => option_map (cons (A01 ASetup)) (dec_a01events fuel' t)
    | 6 :: t => option_map (cons (A01 ATeardown)) (dec_a01events fuel' t)
    | _ => None
    end
  end.

Record a01case := { a1_addr : Z; a1_name : jname; a1_confs : list dconf; a1_events : list a01event }.
Definition a01case_of (l : list Z) : option a01case :=
  match l with
  | addr :: mfr :: fi :: ecu :: fn :: vs :: vsi :: ig :: n :: t =>
      if (n <? 0) || (Z.of_nat (length t) <? n) then None else
      match dec_dconfs (Z.to_nat n) t with
      | Some (cs, r) =>
          match dec_a01events (length r) r with
          | Some evs => Some {| a1_addr := addr;
                                a1_name := {| n_mfr := mfr; n_finst := fi; n_ecu := ecu; n_func := fn; n_vs := vs; n_vsi := vsi; n_ig := ig |};
                                a1_confs := cs; a1_events := evs |}
          | None => None end
      | None => None end
  | _ => None
  end.

Definition a01model (c : a01case) : list astep :=
  a01run (auth_new 0 (a1_addr c) (a1_name c) (a1_confs c)) 0 (a1_events c).
Definition c01a_run (l : list Z) : list Z :=
  match a01case_of l with
  | Some c =>
      if existsb (fun d => (c_key d =? key_kuebler_encoder) && negb ((106 <=? c_da d) && (c_da d <=? 109))) (a1_confs c)
      then panic_obs else
      let steps := a01model c in Z.of_nat (length steps) :: flat_map enc_astep steps
  | None => bad_case
  end.

(* ---- the property on the real frames: exactly one driver, the hydraulic unit ---- *)
Definition single_hcu (c : a01case) : option unit_cfg :=
  match a1_confs c with
  | [d] => if c_key d =? key_laixer_hcu
           then Some {| u_da := c_da d; u_sa := match c_sa d with Some s => s | None => a1_addr c end |}
           else None
  | _ => None
  end.

Fixpoint frames_eqb (a b : list frame) : bool :=
  match a, b with [], [] => true | x :: a', y :: b' => frame_eqb x y && frames_eqb a' b' | _, _ => false end.

(* walk events and steps, carrying the latest ACCEPTED motion; the first cycle also flushes the
   unit's setup frames, which are not motion frames *)
Fixpoint c01a_walk (u : unit_cfg) (cur : motion) (first : bool) (evs : list a01event) (steps : list astep) : bool :=
  match evs, steps with
  | [], [] => true
  | e :: evs', s :: steps' =>
      let k m := {| k_da := u_da u; k_sa := u_sa u; k_motion := m |} in
      match e with
      | A01 (ACmd (OMotion m)) => c02_spec_ok (k m) (as_frames s) && c01a_walk u m first evs' steps'
      | A01Fail (OMotion m) => c01a_walk u m first evs' steps'
      | A01 (ACmd _) | A01Fail _ => (match as_frames s with [] => true | _ => false end) && c01a_walk u cur first evs' steps'
      | A01 ATick =>
          let fs := if first then skipn (length (setup_frames KHcu u)) (as_frames s) else as_frames s in
          (if first then frames_eqb (firstn (length (setup_frames KHcu u)) (as_frames s)) (setup_frames KHcu u) else true)
          && c02_spec_ok (k cur) fs
          && (match cur with StopAll => no_actuator_frame fs && (Nat.eqb (length fs) 1) | _ => true end)
          && c01a_walk u cur false evs' steps'
      | A01 _ => c01a_walk u cur first evs' steps'
      end
  | _, _ => false
  end.

Definition a01_wf (c : a01case) : bool :=
  is_byte (a1_addr c) &&
  forallb (fun e => match e with
                    | A01 (ACmd (OMotion m)) | A01Fail (OMotion m) => motion_wf m
                    | _ => true end) (a1_events c).

Definition c01a_check (l o : list Z) : bool :=
  match a01case_of l, asteps_of o with
  | Some c, Some st =>
      match single_hcu c with
      | Some u => implb (a01_wf c && is_byte (u_da u) && is_byte (u_sa u)) (c01a_walk u StopAll true (a1_events c) st)
      | None => true
      end
  | _, _ => false
  end.
Fixpoint a01_has_motion_then_tick (seen : bool) (evs : list a01event) : bool :=
  match evs with
  | [] => false
  | A01 (ACmd (OMotion (StraightDrive _))) :: t | A01 (ACmd (OMotion (Change (_ :: _)))) :: t
  | A01Fail (OMotion StopAll) :: t => a01_has_motion_then_tick true t
  | A01 ATick :: t => seen || a01_has_motion_then_tick seen t
  | _ :: t => a01_has_motion_then_tick seen t
  end.
Definition c01a_nontriv (l o : list Z) : bool :=
  match a01case_of l with
  | Some c => match single_hcu c with Some _ => a01_has_motion_then_tick false (a1_events c) | None => false end
  | None => false
  end.

(* ---- both levels behind one entry point ---- *)
Definition c01x_run (l : list Z) : list Z := match l with 1000 :: r => c01a_run r | _ => c01_run_z l end.
Definition c01x_check (l o : list Z) : bool := match l with 1000 :: r => c01a_check r o | _ => c01_check l o end.
Definition c01x_nontriv (l o : list Z) : bool := match l with 1000 :: r => c01a_nontriv r o | _ => c01_nontriv l o end.
