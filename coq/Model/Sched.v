(* Micro-step schedules on one shared driver context.
   The receive, tick and command tasks of a network service are clones that share, per driver,
   one Arc<Mutex<NetDriverContextDetail>>; every context access is one short critical section,
   everything between two accesses is local to the task, and what a handler puts on the bus
   leaves AFTER its last access.  A handler is therefore a short program of atomic steps; a
   schedule is any interleaving of the steps of (at most one running instance of) each task.
   Steps that are not enabled (an emit without a preceding access, a second tick while one is in
   flight) are no-ops, so the theorems quantify over ALL lists of micro-events.

   The access sequences used here are compared with the ones re-extracted from the source on
   every run (the shape_xxx definitions of Gen/Consts.v) in Proofs/Sched_proof.v, shapes_match. *)
From Coq Require Import ZArith List Bool.
Import ListNotations.
Require Import GV.Gen.Consts GV.Model.Outcome GV.Model.J1939 GV.Model.Governor GV.Model.Hcu GV.Model.Object
  GV.Model.HcuUnit GV.Model.Units GV.Model.Volvo.
Local Open Scope Z_scope.

(* context access kinds, as numbered by tools/rs2v.py *)
Definition ACC_TX_LAST := 1.      (* ctx.tx_last_message()      *)
Definition ACC_SET_TX := 2.       (* ctx.set_tx_last_message(..) *)
Definition ACC_RX_LAST := 3.      (* ctx.rx_last_message()      *)
Definition ACC_SET_RX := 4.       (* ctx.set_rx_last_message(..) *)
Definition ACC_RX_MARK := 5.      (* ctx.rx_mark()              *)

(* ------------------------------------------------------------------ hydraulic control unit *)
(* tick    = [read tx_last] ; emit            trigger = [set tx_last] ; emit
   try_recv = one access sequence on the receive side only (rx_mark / set_rx_last), no emission *)
Inductive hmev :=
| HTickRead | HTickEmit
| HCmdAccess (o : object) | HCmdEmit
| HRecv (f : frame).

Record hstate := {
  h_ctx : ctx;
  h_tick : option motion;          (* the cycle in flight has read this and not yet sent it *)
  h_cmd : option (list frame) }.   (* a command was accepted; its frames have not left yet *)
Definition hstate0 : hstate := {| h_ctx := ctx0; h_tick := None; h_cmd := None |}.

Definition hstep (u : unit_cfg) (s : hstate) (e : hmev) : hstate * list frame :=
  match e with
  | HTickRead =>
      match h_tick s with
      | None => ({| h_ctx := h_ctx s; h_tick := Some (hcu_tick_motion (h_ctx s)); h_cmd := h_cmd s |}, [])
      | Some _ => (s, []) end
  | HTickEmit =>
      match h_tick s with
      | Some m => ({| h_ctx := h_ctx s; h_tick := None; h_cmd := h_cmd s |}, encode_motion (u_da u) (u_sa u) m)
      | None => (s, []) end
  | HCmdAccess o =>
      match h_cmd s with
      | None => let '(c, fs) := hcu_trigger u (h_ctx s) o in
                ({| h_ctx := c; h_tick := h_tick s; h_cmd := Some fs |}, [])
      | Some _ => (s, []) end
  | HCmdEmit =>
      match h_cmd s with
      | Some fs => ({| h_ctx := h_ctx s; h_tick := h_tick s; h_cmd := None |}, fs)
      | None => (s, []) end
  | HRecv f => ({| h_ctx := r_ctx (hcu_recv u (h_ctx s) f); h_tick := h_tick s; h_cmd := h_cmd s |}, [])
  end.

Fixpoint hrun (u : unit_cfg) (s : hstate) (evs : list hmev) : list (list frame) :=
  match evs with
  | [] => []
  | e :: t => let '(s', out) := hstep u s e in out :: hrun u s' t
  end.

(* the specification, with no register at all: the latest ACCEPTED motion command (accepted =
   the command task's access step), the snapshot a cycle took when it read, the frames a
   command still has to send *)
Record hghost := { g_latest : motion; g_tick : option motion; g_cmd : option (list frame) }.
Definition hghost0 : hghost := {| g_latest := StopAll; g_tick := None; g_cmd := None |}.
Definition gstep (u : unit_cfg) (g : hghost) (e : hmev) : hghost * list frame :=
  match e with
  | HTickRead =>
      match g_tick g with
      | None => ({| g_latest := g_latest g; g_tick := Some (g_latest g); g_cmd := g_cmd g |}, [])
      | Some _ => (g, []) end
  | HTickEmit =>
      match g_tick g with
      | Some m => ({| g_latest := g_latest g; g_tick := None; g_cmd := g_cmd g |}, encode_motion (u_da u) (u_sa u) m)
      | None => (g, []) end
  | HCmdAccess o =>
      match g_cmd g with
      | None => match o with
                | OMotion m => ({| g_latest := m; g_tick := g_tick g; g_cmd := Some (encode_motion (u_da u) (u_sa u) m) |}, [])
                | _ => ({| g_latest := g_latest g; g_tick := g_tick g; g_cmd := Some [] |}, [])
                end
      | Some _ => (g, []) end
  | HCmdEmit =>
      match g_cmd g with
      | Some fs => ({| g_latest := g_latest g; g_tick := g_tick g; g_cmd := None |}, fs)
      | None => (g, []) end
  | HRecv _ => (g, [])
  end.
Fixpoint grun (u : unit_cfg) (g : hghost) (evs : list hmev) : list (list frame) :=
  match evs with
  | [] => []
  | e :: t => let '(g', out) := gstep u g e in out :: grun u g' t
  end.

(* ------------------------------------------------------------------ Volvo D7E engine driver *)
(* tick    = [read rx_last] ; [read tx_last (+ its age)] ; emit
   trigger = [read rx_last] ; [set tx_last] ; emit
   try_recv = accesses on the receive side (set_rx_last, rx_mark) *)
Inductive vmev :=
| VTickRead1 | VTickRead2 | VTickEmit
| VCmdRead (cmd : engine) | VCmdWrite | VCmdEmit
| VRecvM (f : frame)
| VWaitM (ms : Z).

Inductive vtick := TIdle | TSig (sig : engine) | TReady (fs : list frame).
Inductive vcmd := CIdle | CSig (sig : engine) (cmd : engine) | CReady (fs : list frame).
Record vmstate := { m_v : vstate; m_now : Z; m_tick : vtick; m_cmd : vcmd }.
Definition vmstate0 : vmstate := {| m_v := vstate0; m_now := 0; m_tick := TIdle; m_cmd := CIdle |}.

(* the governor call of tick, given what the two reads returned *)
Definition tick_decide (u : unit_cfg) (sig : engine) (tx : option object) (a : age) : list frame :=
  match tx with
  | Some (OEngine c) => gov_frame (u_sa u) (next_state volvo_rpm_idle volvo_rpm_max (e_state sig) (e_state c) (e_rpm c) a)
  | _ => gov_frame (u_sa u) (next_state volvo_rpm_idle volvo_rpm_max (e_state sig) (e_state sig) (e_rpm sig) NoAge)
  end.

Definition vmstep (u : unit_cfg) (s : vmstate) (e : vmev) : vmstate * list frame :=
  let upd v t c := {| m_v := v; m_now := m_now s; m_tick := t; m_cmd := c |} in
  match e with
  | VTickRead1 =>
      match m_tick s with TIdle => (upd (m_v s) (TSig (reported (v_ctx (m_v s)))) (m_cmd s), []) | _ => (s, []) end
  | VTickRead2 =>
      match m_tick s with
      | TSig sig => (upd (m_v s) (TReady (tick_decide u sig (tx_last (v_ctx (m_v s))) (age_at (m_v s) (m_now s)))) (m_cmd s), [])
      | _ => (s, []) end
  | VTickEmit =>
      match m_tick s with TReady fs => (upd (m_v s) TIdle (m_cmd s), fs) | _ => (s, []) end
  | VCmdRead cmd =>
      match m_cmd s with CIdle => (upd (m_v s) (m_tick s) (CSig (reported (v_ctx (m_v s))) cmd), []) | _ => (s, []) end
  | VCmdWrite =>
      match m_cmd s with
      | CSig sig cmd =>
          let c := normalise_cmd cmd in
          (upd {| v_ctx := set_tx (v_ctx (m_v s)) (OEngine c); v_tx_time := m_now s |} (m_tick s)
               (CReady (gov_frame (u_sa u) (next_state volvo_rpm_idle volvo_rpm_max (e_state sig) (e_state c) (e_rpm c) NoAge))), [])
      | _ => (s, []) end
  | VCmdEmit =>
      match m_cmd s with CReady fs => (upd (m_v s) (m_tick s) CIdle, fs) | _ => (s, []) end
  | VRecvM f => (upd (volvo_recv u (m_v s) f) (m_tick s) (m_cmd s), [])
  | VWaitM ms => ({| m_v := m_v s; m_now := m_now s + ms; m_tick := m_tick s; m_cmd := m_cmd s |}, [])
  end.
Fixpoint vmrun (u : unit_cfg) (s : vmstate) (evs : list vmev) : list (list frame) :=
  match evs with
  | [] => []
  | e :: t => let '(s', out) := vmstep u s e in out :: vmrun u s' t
  end.

(* sequential (handler-granular) histories are the schedules in which a handler's steps are adjacent *)
Definition hseq_of (e : GV.Model.Object.object + frame + unit) : list hmev :=
  match e with
  | inl (inl o) => [HCmdAccess o; HCmdEmit]
  | inl (inr f) => [HRecv f]
  | inr _ => [HTickRead; HTickEmit]
  end.
Definition vseq_of (e : vevent) (u : unit_cfg) : list vmev :=
  match e with
  | VStatus d => [VRecvM (eec1_frame u d)]
  | VCmd c => [VCmdRead c; VCmdWrite; VCmdEmit]
  | VOther _ => []
  | VTick => [VTickRead1; VTickRead2; VTickEmit]
  | VWait ms => [VWaitM ms]
  end.
