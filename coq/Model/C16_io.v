From Coq Require Import ZArith List Bool.
Import ListNotations.
Require Import GV.Gen.Consts GV.Model.J1939 GV.Model.Governor GV.Model.Hcu GV.Model.Object GV.Model.HcuUnit GV.Model.Units GV.Model.Volvo GV.Model.Authority GV.Model.Shutdown GV.Model.IO.
Local Open Scope Z_scope.

Definition dc (key da : Z) : dconf := {| c_key := key; c_da := da; c_sa := None; c_timeout := None |}.
Definition name0 : jname := {| n_mfr := 0; n_finst := 2; n_ecu := 1; n_func := 255; n_vs := 5; n_vsi := 5; n_ig := 3 |}.

(* the configurations the harness starts glonaxd with (harness/src/c16.rs `networks`) *)
Definition c16_nets (cfg : Z) : list auth :=
  map (auth_new 0 39 name0)
    (match cfg with
     | 0 | 8 => [[dc key_laixer_hcu 74]]      (* 8: one receive error on the receive socket before the request *)
     | 1 => [[dc key_kuebler_encoder 106; dc key_kuebler_encoder 107; dc key_kuebler_encoder 108; dc key_kuebler_encoder 109; dc key_kuebler_inclinometer 122];
             [dc key_volvo_d7e 0; dc key_laixer_vcu 18; dc key_laixer_hcu 74]]
     | 2 | 7 => [[dc key_laixer_hcu 74; dc key_kuebler_encoder 106; dc key_laixer_hcu 75]]   (* 7: interface dead at the signal *)
     | 3 => [[dc key_kuebler_inclinometer 122; dc key_j1939_ecu 32]]
     | 9 => [[dc key_laixer_hcu 74]; [dc key_volvo_d7e 0]]     (* the engine network stalled for good *)
     | 12 => [[dc key_laixer_hcu 74]]         (* the runtime in-process: the request arrives DURING start-up (second field: before any service is scheduled /
                                                 between the services / after all of them) *)
     | _ => [[dc key_laixer_hcu 74; dc key_laixer_vcu 18]]      (* 4: silent units with a timeout; 5: congested bus at start-up *)
     end).

(* the daemon's tasks run to completion under any fair schedule (C16_bounded_steps): the model's
   observable outcome is "exits successfully, every receive task sent its teardown frames, then silence" *)
Definition c16_run (l : list Z) : list Z :=
  match l with
  | cfg :: _ =>
      let resets := flat_map auth_teardown (c16_nets cfg) in
      (* cfg 7: the interface is dead when the request arrives; whether a reset still got out is not determined *)
      (* cfg 12 with the request before the network service is scheduled: the service is never started (or is stopped at once),
         so whether a reset is sent is not determined; the run ends in time and nothing follows *)
      let early := (cfg =? 12) && (match l with _ :: m :: _ => m <? 2 | _ => false end) in
      [1; 1; Z.of_nat (length resets)] ++ map (fun _ => if (cfg =? 7) || early then -999999999999 else 1) resets ++ [0]
  | [] => bad_case end.

Definition c16_check (l o : list Z) : bool :=
  match o with
  | exit_ok :: within :: nh :: rest =>
      (exit_ok =? 1) && (within =? 1)
      && (Z.of_nat (length rest) =? nh + 1)
      && (match l with 7 :: _ | 12 :: 0 :: _ | 12 :: 1 :: _ => true | _ =>
          forallb (Z.eqb 1) (firstn (Z.to_nat nh) rest) end)    (* every hydraulic unit got its motion reset (cfg 7: dead interface, cannot) *)
      && (nth (Z.to_nat nh) rest 1 =? 0)                         (* nothing after the daemon has exited *)
  | _ => false end.
Definition c16_nontriv (l o : list Z) : bool := match o with _ :: _ :: nh :: _ => 0 <? nh | _ => false end.
