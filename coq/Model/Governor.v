(* Model of glonax-runtime/src/driver/governor.rs : Governor::{reshape,next_state}.
   No proofs in this file. *)
From Coq Require Import ZArith List Bool.
Require Import GV.Model.Outcome.
Local Open Scope Z_scope.

(* core::engine::EngineState *)
Inductive estate : Type := NoRequest | Starting | Stopping | Request.

(* command_instant : Option<Instant>, observed through `elapsed() > timeout` *)
Inductive age : Type := NoAge | Young | Old.

Definition estate_eqb (a b : estate) : bool :=
  match a, b with
  | NoRequest, NoRequest | Starting, Starting | Stopping, Stopping | Request, Request => true
  | _, _ => false
  end.

(* u16::clamp: assert!(min <= max); if self < min {min} else if self > max {max} else {self} *)
Definition clamp (lo hi v : Z) : outcome Z :=
  if hi <? lo then Panic
  else Ok (if v <? lo then lo else if hi <? v then hi else v).

Definition expired (a : age) : bool :=
  match a with Old => true | _ => false end.

Record engine := { e_demand : Z; e_actual : Z; e_rpm : Z; e_state : estate }.

Definition mk_engine (idle max : Z) (st : estate) (rpm : Z) : outcome engine :=
  obind (clamp idle max rpm)
        (fun r => Ok {| e_demand := 0; e_actual := 0; e_rpm := r; e_state := st |}).

Definition next_state (idle max : Z) (sig cmd : estate) (cmd_rpm : Z) (a : age)
  : outcome engine :=
  match sig, cmd with
  | NoRequest, Starting
  | NoRequest, Request =>
      if expired a then mk_engine idle max NoRequest idle
      else mk_engine idle max Starting idle
  | NoRequest, _ => mk_engine idle max NoRequest idle
  | Starting, NoRequest | Starting, Stopping => mk_engine idle max Stopping idle   (* since fix 00d4665: a stop request aborts cranking *)
  | Starting, _ =>
      if expired a then mk_engine idle max NoRequest idle
      else mk_engine idle max Starting idle
  | Stopping, _ => mk_engine idle max Stopping idle
  | Request, NoRequest => mk_engine idle max Stopping idle
  | Request, Starting => mk_engine idle max Request cmd_rpm
  | Request, Stopping => mk_engine idle max Stopping idle
  | Request, Request => mk_engine idle max Request cmd_rpm
  end.
