(* C16: Runtime::schedule_* tasks as small labelled transition systems.  Every scheduled task is
     setup ; select { loop body ... ; shutdown.recv() } ; teardown ; done
   and was subscribed to the shutdown broadcast before it was spawned, so the single shutdown
   message reaches each of them.  After the message a task may still be inside its loop body (up to
   the next await that is pending); it then observes the shutdown, runs its teardown and is done.
   Only the receive task of a network (service1) has a non-empty teardown: NetworkAuthority::teardown. *)
From Coq Require Import ZArith List Bool Arith.
Import ListNotations.
Require Import GV.Gen.Consts GV.Model.J1939 GV.Model.Governor GV.Model.Hcu GV.Model.Object GV.Model.HcuUnit GV.Model.Units GV.Model.Volvo GV.Model.Authority.
Local Open Scope Z_scope.

Inductive tkind := TRecv (net : nat) | TTick (net : nat) | TCmd (net : nat) | TIo.
Inductive pc := PLoop (grace : bool) | PTeardown | PDone.   (* grace: one more partial loop body allowed after the signal *)
Record task := { t_kind : tkind; t_pc : pc }.

Record world := { w_tasks : list task; w_nets : list auth; w_shutdown : bool }.

Inductive sched := SSignal | SBody (i : nat) (frames : list frame) | SObserve (i : nat) | STeardown (i : nat).

Definition teardown_of (w : world) (k : tkind) : list frame :=
  match k with
  | TRecv n => match nth_error (w_nets w) n with Some a => auth_teardown a | None => [] end
  | _ => []
  end.

Fixpoint set_pc (ts : list task) (i : nat) (p : pc) : list task :=
  match ts, i with
  | [], _ => []
  | t :: r, O => {| t_kind := t_kind t; t_pc := p |} :: r
  | t :: r, S j => t :: set_pc r j p
  end.

(* one scheduling decision: the new world and the frames put on the buses *)
Definition wstep (w : world) (s : sched) : world * list frame :=
  match s with
  | SSignal => ({| w_tasks := w_tasks w; w_nets := w_nets w; w_shutdown := true |}, [])
  | SBody i fs =>
      match nth_error (w_tasks w) i with
      | Some t =>
          match t_pc t with
          | PLoop g =>
              if w_shutdown w then
                (if g then ({| w_tasks := set_pc (w_tasks w) i (PLoop false); w_nets := w_nets w; w_shutdown := true |}, fs)
                 else (w, []))              (* the body cannot run again: the select observes the signal *)
              else (w, fs)
          | _ => (w, [])
          end
      | None => (w, [])
      end
  | SObserve i =>
      match nth_error (w_tasks w) i with
      | Some t =>
          match t_pc t with
          | PLoop _ => if w_shutdown w
                       then ({| w_tasks := set_pc (w_tasks w) i PTeardown; w_nets := w_nets w; w_shutdown := true |}, [])
                       else (w, [])
          | _ => (w, [])
          end
      | None => (w, [])
      end
  | STeardown i =>
      match nth_error (w_tasks w) i with
      | Some t =>
          match t_pc t with
          | PTeardown => ({| w_tasks := set_pc (w_tasks w) i PDone; w_nets := w_nets w; w_shutdown := w_shutdown w |}, teardown_of w (t_kind t))
          | _ => (w, [])
          end
      | None => (w, [])
      end
  end.

Fixpoint wrun (w : world) (ss : list sched) : world * list (list frame) :=
  match ss with
  | [] => (w, [])
  | s :: t => let '(w', fs) := wstep w s in let '(w'', r) := wrun w' t in (w'', fs :: r)
  end.

Definition all_done (w : world) : bool := forallb (fun t => match t_pc t with PDone => true | _ => false end) (w_tasks w).

(* remaining work of a task once the signal has been sent *)
Definition measure (t : task) : nat :=
  match t_pc t with PLoop true => 3 | PLoop false => 2 | PTeardown => 1 | PDone => 0 end.
Definition total (w : world) : nat := fold_right (fun t acc => (measure t + acc)%nat) 0%nat (w_tasks w).

(* the tasks the daemon schedules for a list of networks: per network recv/tick/command, plus the
   three io services (unix server, director, distributor) *)
Definition tasks_for (nnets : nat) : list task :=
  flat_map (fun n => [ {| t_kind := TRecv n; t_pc := PLoop true |}; {| t_kind := TTick n; t_pc := PLoop true |}; {| t_kind := TCmd n; t_pc := PLoop true |} ]) (seq 0 nnets)
  ++ [ {| t_kind := TIo; t_pc := PLoop true |}; {| t_kind := TIo; t_pc := PLoop true |}; {| t_kind := TIo; t_pc := PLoop true |} ].
