(* Models of J1939Unit::try_recv for the remaining drivers: VehicleControlUnit (vcu.rs),
   ElectronicControlUnit (ecu.rs), KueblerEncoder (encoder.rs), KueblerInclinometer (inclino.rs),
   EngineManagementSystem (engine.rs; VolvoD7E::try_recv delegates to it).  A received frame has 8
   data bytes.  Rotation-valued signals keep their integer description (source, reference, raw
   fields); the float rotation itself is checked by tolerance in the harness.  No proofs here. *)
From Coq Require Import ZArith List Bool.
Import ListNotations.
Require Import GV.Gen.Consts GV.Model.Outcome GV.Model.J1939 GV.Model.Governor GV.Model.Hcu GV.Model.Object GV.Model.HcuUnit.
Local Open Scope Z_scope.

Inductive ukind := KHcu | KVcu | KEcu | KEncoder | KInclino | KEms | KVolvo.

Definition u16le (lo hi : Z) : Z := lo + 256 * hi.
Definition i16of (u : Z) : Z := if u <? 32768 then u else u - 65536.

(* ---- VCU: software id / address claim / status mark the unit alive; status may carry an error *)
Definition vcu_recv (u : unit_cfg) (c : ctx) (f : frame) : recv_out :=
  let id := f_id f in let d := f_data f in
  if negb (dest_guard u id) then ignore c else
  let pgn := id_pgn id in let from_unit := id_sa id =? u_da u in
  if pgn =? PGN_SOFTWARE_IDENT then (if from_unit && soft_ident_ok d then alive c else ignore c)
  else if pgn =? PGN_ADDRESS_CLAIMED then (if from_unit then alive c else ignore c)
  else if pgn =? hcu_status_pgn then
    (if from_unit then {| r_ctx := rx_mark c; r_sigs := []; r_err := vecraft_error (byte_at d 0) |} else ignore c)
  else ignore c.

(* ---- generic ECU *)
Definition ecu_recv (u : unit_cfg) (c : ctx) (f : frame) : recv_out :=
  let id := f_id f in let d := f_data f in
  if negb (dest_guard u id) then ignore c else
  let pgn := id_pgn id in let from_unit := id_sa id =? u_da u in
  if pgn =? PGN_SOFTWARE_IDENT then (if from_unit && soft_ident_ok d then alive c else ignore c)
  else if pgn =? PGN_ADDRESS_CLAIMED then (if from_unit then alive c else ignore c)
  else ignore c.

(* ---- Kübler encoder: process data = u32 LE position (all-FF => 0), u16 speed, u16 state word *)
Definition enc_position (d : list Z) : Z :=
  let b := [byte_at d 0; byte_at d 1; byte_at d 2; byte_at d 3] in
  if forallb (Z.eqb 255) b then 0
  else byte_at d 0 + 256 * byte_at d 1 + 65536 * byte_at d 2 + 16777216 * byte_at d 3.
Definition enc_error (d : list Z) : Z :=
  let lo := byte_at d 6 in let hi := byte_at d 7 in
  if (lo =? 255) && (hi =? 255) then E_OK else
  let w := u16le lo hi in
  if w =? 0 then E_OK
  else if w =? 60928 then E_SENSOR          (* 0xee00 general sensor error *)
  else if (w =? 60929) || (w =? 60930) || (w =? 60931) then E_CONFIG   (* invalid MUR/TMR/preset *)
  else E_HARDWARE.
(* the signal: Rotator::relative(source, rotation about the joint axis by -(p/1000 - offset)) *)
Definition rot_signal (src rf kind raw1 raw2 : Z) : object := ORotator [src; rf; kind; raw1; raw2].

Definition encoder_recv (u : unit_cfg) (c : ctx) (f : frame) : recv_out :=
  let id := f_id f in let d := f_data f in
  if negb (dest_guard u id) then ignore c else
  let pgn := id_pgn id in let from_unit := id_sa id =? u_da u in
  if pgn =? PGN_ADDRESS_CLAIMED then (if from_unit then alive c else ignore c)
  else if pgn =? encoder_pgn then
    (if from_unit then
       let s := rot_signal (id_sa id) 1 0 (enc_position d) 0 in
       {| r_ctx := set_rx c s; r_sigs := [s]; r_err := enc_error d |}
     else ignore c)
  else ignore c.

(* ---- Kübler inclinometer: two u16 LE slopes (all-FF => 0) read as i16 tenths of a degree *)
Definition slope (lo hi : Z) : Z := if (lo =? 255) && (hi =? 255) then 0 else i16of (u16le lo hi).
Definition inclino_error (d : list Z) : Z :=
  let b := byte_at d 6 in
  if b =? 255 then E_OK else
  let n := b / 16 in
  if n =? 0 then E_OK else if n =? 14 then E_CONFIG else E_HARDWARE.   (* 0xed cannot be a nibble *)
Definition inclino_recv (u : unit_cfg) (c : ctx) (f : frame) : recv_out :=
  let id := f_id f in let d := f_data f in
  if negb (dest_guard u id) then ignore c else
  let pgn := id_pgn id in let from_unit := id_sa id =? u_da u in
  if pgn =? PGN_ADDRESS_CLAIMED then (if from_unit then alive c else ignore c)
  else if pgn =? inclino_pgn then
    (if from_unit then
       let s := rot_signal (id_sa id) 0 1 (slope (byte_at d 0) (byte_at d 1)) (slope (byte_at d 2) (byte_at d 3)) in
       {| r_ctx := set_rx c s; r_sigs := [s]; r_err := inclino_error d |}
     else ignore c)
  else ignore c.

(* ---- engine management system (SAE J1939-71 groups) *)
Definition ems_other_pgns : list Z := ems_alive_pgns.
Definition ems_other_pgns_doc : list Z :=
  [61441; 61443; 65247; 65213; 65248; 65252; 65262; 65263; 65243; 65266; 65257; 65269; 65264; 65110; 65271; 65270].

(* slots::position_level2::dec : (v - 125) clamped to [-125, 125.5], cast to u8 (saturating) *)
Definition pct_dec (b : Z) : option Z := if b =? 255 then None else Some (Z.min 125 (Z.max 0 (b - 125))).
(* slots::rotational_velocity::dec : raw/8 rpm clamped to 8031.875, cast to u16 *)
Definition rpm_dec (lo hi : Z) : option Z :=
  if (lo =? 255) && (hi =? 255) then None else Some (Z.min 8031 (u16le lo hi / 8)).
(* EngineTorqueMode::from_value / EngineStarterMode::from_value: only "present or not" and the class matter *)
Definition torque_mode_present (b : Z) : bool := negb (b mod 16 =? 15).
Inductive starter := SNone | SActive | SFinished | SNotRunning | SOther.
Definition starter_of (b : Z) : starter :=
  let n := b mod 16 in
  if n =? 15 then SNone
  else if (n =? 1) || (n =? 2) then SActive
  else if n =? 3 then SFinished
  else if (n =? 0) || (n =? 4) || (n =? 5) || (n =? 6) || (n =? 7) || (n =? 8) || (n =? 12) then SNotRunning
  else SOther.          (* reserved 9..11, error 13..14 *)

Definition eec1_engine (d : list Z) : engine :=
  let dd := pct_dec (byte_at d 1) in let ae := pct_dec (byte_at d 2) in
  let rpm := rpm_dec (byte_at d 3) (byte_at d 4) in
  let st :=
    match starter_of (byte_at d 6) with
    | SActive => Starting
    | SFinished => match rpm with Some r => if 0 <? r then Request else NoRequest | None => NoRequest end
    | SNotRunning => NoRequest
    | SOther => NoRequest
    | SNone =>
        match rpm with
        | Some r => if r =? 0 then NoRequest else if r <? 500 then Starting else Request
        | None => NoRequest
        end
    end in
  {| e_demand := match dd with Some x => x | None => 0 end;
     e_actual := match ae with Some x => x | None => 0 end;
     e_rpm := match rpm with Some x => x | None => 0 end;
     e_state := st |}.

Definition ems_recv (u : unit_cfg) (c : ctx) (f : frame) : recv_out :=
  let id := f_id f in let d := f_data f in
  let pgn := id_pgn id in let from_unit := id_sa id =? u_da u in
  if pgn =? PGN_TSC1 then
    (if from_unit && dest_guard u id then alive c else ignore c)
  else if pgn =? PGN_EEC1 then
    (if from_unit then
       let s := OEngine (eec1_engine d) in
       {| r_ctx := set_rx c s; r_sigs := [s]; r_err := E_OK |}
     else ignore c)
  else if existsb (Z.eqb pgn) ems_other_pgns then (if from_unit then alive c else ignore c)
  else ignore c.

Definition unit_recv (k : ukind) : unit_cfg -> ctx -> frame -> recv_out :=
  match k with
  | KHcu => hcu_recv | KVcu => vcu_recv | KEcu => ecu_recv | KEncoder => encoder_recv
  | KInclino => inclino_recv | KEms => ems_recv | KVolvo => ems_recv
  end.

(* ---- NetworkAuthority::recv for one received (already normalised) frame ---- *)
Record driver := { d_kind : ukind; d_cfg : unit_cfg; d_ctx : ctx }.

(* scan the drivers in order; a driver whose rx_queue is non-empty is marked and ends the scan *)
Fixpoint scan (ds : list driver) (f : frame) : list driver * list object :=
  match ds with
  | [] => ([], [])
  | d :: t =>
      let r := unit_recv (d_kind d) (d_cfg d) (d_ctx d) f in
      match r_sigs r with
      | [] => let '(t', s) := scan t f in ({| d_kind := d_kind d; d_cfg := d_cfg d; d_ctx := r_ctx r |} :: t', s)
      | sigs => ({| d_kind := d_kind d; d_cfg := d_cfg d; d_ctx := rx_mark (r_ctx r) |} :: t, sigs)
      end
  end.

(* a Request frame is answered by the authority itself and never reaches the drivers *)
Definition authority_recv (ds : list driver) (f : frame) : list driver * list object :=
  if id_pgn (f_id f) =? PGN_REQUEST then (ds, []) else scan ds f.
