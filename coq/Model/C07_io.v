From Coq Require Import ZArith List Bool.
Import ListNotations.
Require Import GV.Model.Outcome GV.Model.Governor GV.Model.IO GV.Spec.C07_spec.
Local Open Scope Z_scope.

(* discriminants of core::engine::EngineState *)
Definition estate_code (s : estate) : Z :=
  match s with NoRequest => 0 | Starting => 1 | Stopping => 2 | Request => 16 end.
Definition estate_of (z : Z) : option estate :=
  match z with 0 => Some NoRequest | 1 => Some Starting | 2 => Some Stopping | 16 => Some Request
  | _ => None end.
Definition age_of (z : Z) : option age :=
  match z with 0 => Some NoAge | 1 => Some Young | 2 => Some Old | _ => None end.

Definition c07_case_of (l : list Z) : option c07_case :=
  match l with
  | [idle; max; s; c; rpm; a] =>
      match estate_of s, estate_of c, age_of a with
      | Some s', Some c', Some a' =>
          Some {| c_idle := idle; c_max := max; c_sig := s'; c_cmd := c'; c_rpm := rpm; c_age := a' |}
      | _, _, _ => None
      end
  | _ => None
  end.

Definition c07_obs_enc (o : outcome engine) : list Z :=
  match o with
  | Panic => panic_obs
  | Ok e => [estate_code (e_state e); e_rpm e; e_demand e; e_actual e]
  end.
Definition c07_obs_of (l : list Z) : option (outcome engine) :=
  match l with
  | [-1] => Some Panic
  | [s; r; d; a] => match estate_of s with
                    | Some s' => Some (Ok {| e_demand := d; e_actual := a; e_rpm := r; e_state := s' |})
                    | None => None end
  | _ => None
  end.

Definition c07_run (l : list Z) : list Z :=
  match c07_case_of l with Some c => c07_obs_enc (c07_model c) | None => bad_case end.
Definition c07_check (l o : list Z) : bool :=
  match c07_case_of l, c07_obs_of o with
  | Some c, Some ob => implb (c07_wf c) (c07_spec_ok c ob)
  | _, _ => false
  end.
(* non-trivial: a case in which the engine is running or a start is requested *)
Definition c07_nontriv (l o : list Z) : bool :=
  match c07_case_of l with
  | Some c => c07_wf c && negb (estate_eqb (c_sig c) NoRequest && estate_eqb (c_cmd c) NoRequest)
  | None => false
  end.
