(* Integer-list encodings shared by the correspondence drivers: every case and
   every observation crosses the Coq/OCaml/Rust boundary as a list of Z. *)
From Coq Require Import ZArith List Bool.
Import ListNotations.
Local Open Scope Z_scope.

Definition bad_case : list Z := [-2].
Definition panic_obs : list Z := [-1].

Definition Zbool (b : bool) : Z := if b then 1 else 0.

(* ---- frames:  n ; (id ; len ; bytes...)* ---- *)
Require Import GV.Model.J1939 GV.Model.Hcu.

Definition enc_frame (f : frame) : list Z := f_id f :: Z.of_nat (length (f_data f)) :: f_data f.
Definition enc_frames (fs : list frame) : list Z := Z.of_nat (length fs) :: flat_map enc_frame fs.

Fixpoint dec_frames_n (n : nat) (l : list Z) : option (list frame * list Z) :=
  match n with
  | O => Some ([], l)
  | S n' =>
      match l with
      | id :: len :: t =>
          if (len <? 0) || (Z.of_nat (length t) <? len) then None else
          let k := Z.to_nat len in
          match dec_frames_n n' (skipn k t) with
          | Some (fs, rest) => Some ({| f_id := id; f_data := firstn k t |} :: fs, rest)
          | None => None
          end
      | _ => None
      end
  end.
Definition dec_frames (l : list Z) : option (list frame * list Z) :=
  match l with
  | n :: t => if (n <? 0) || (Z.of_nat (length t) <? n) then None else dec_frames_n (Z.to_nat n) t
  | [] => None
  end.

(* ---- motions: 0 | 1 | 2 | 5 v | 16 n (a v)* ---- *)
Definition enc_motion (m : motion) : list Z :=
  match m with
  | StopAll => [0] | ResumeAll => [1] | ResetAll => [2]
  | StraightDrive v => [5; v]
  | Change cs => 16 :: Z.of_nat (length cs) :: flat_map (fun e => [fst e; snd e]) cs
  end.
Fixpoint dec_pairs (n : nat) (l : list Z) : option (list (Z * Z) * list Z) :=
  match n with
  | O => Some ([], l)
  | S n' => match l with
            | a :: v :: t => match dec_pairs n' t with
                             | Some (cs, rest) => Some ((a, v) :: cs, rest)
                             | None => None end
            | _ => None end
  end.
Definition dec_motion (l : list Z) : option (motion * list Z) :=
  match l with
  | 0 :: t => Some (StopAll, t)
  | 1 :: t => Some (ResumeAll, t)
  | 2 :: t => Some (ResetAll, t)
  | 5 :: v :: t => Some (StraightDrive v, t)
  | 16 :: n :: t =>
      if (n <? 0) || (Z.of_nat (length t) <? 2 * n) then None else
      match dec_pairs (Z.to_nat n) t with
      | Some (cs, rest) => Some (Change cs, rest)
      | None => None end
  | _ => None
  end.
