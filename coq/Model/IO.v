(* Integer-list encodings shared by the correspondence drivers: every case and
   every observation crosses the Coq/OCaml/Rust boundary as a list of Z. *)
From Coq Require Import ZArith List Bool.
Import ListNotations.
Local Open Scope Z_scope.

Definition bad_case : list Z := [-2].
Definition panic_obs : list Z := [-1].

Definition Zbool (b : bool) : Z := if b then 1 else 0.
