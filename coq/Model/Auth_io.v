From Coq Require Import ZArith List Bool.
Import ListNotations.
Require Import GV.Gen.Consts GV.Model.Outcome GV.Model.J1939 GV.Model.Governor GV.Model.Hcu GV.Model.Object
  GV.Model.HcuUnit GV.Model.Units GV.Model.Volvo GV.Model.CanNet GV.Model.Authority GV.Model.IO GV.Model.C01_io GV.Model.Units_io.
Local Open Scope Z_scope.

(* ---- the canonical unit name "vendor:product:0xSA:0xDA" (upper-case hex, no padding) ---- *)
Definition hex_digit (d : Z) : Z := if d <? 10 then 48 + d else 55 + d.
Definition hex_upper (n : Z) : list Z := if n <? 16 then [hex_digit n] else [hex_digit (n / 16); hex_digit (n mod 16)].
Definition kind_key (k : ukind) : Z :=
  match k with KHcu => key_laixer_hcu | KVcu => key_laixer_vcu | KEcu => key_j1939_ecu | KEncoder => key_kuebler_encoder
             | KInclino => key_kuebler_inclinometer | KEms => key_j1939_ecm | KVolvo => key_volvo_d7e end.
Definition names_of (k : ukind) : list Z * list Z :=
  match find (fun r => fst (fst r) =? kind_key k) driver_names with
  | Some r => (snd (fst r), snd r) | None => ([], []) end.
Definition unit_name (k : ukind) (u : unit_cfg) : list Z :=
  fst (names_of k) ++ [58] ++ snd (names_of k) ++ [58; 48; 120] ++ hex_upper (u_sa u) ++ [58; 48; 120] ++ hex_upper (u_da u).

Definition enc_status (s : unit_cfg * ukind * (Z * option Z)) : list Z :=
  let '(u, k, (st, e)) := s in
  let nm := unit_name k u in
  7 :: Z.of_nat (length nm) :: nm ++ [st] ++ match e with Some x => [1; x] | None => [0; 0] end.

(* ---- case decoding ---- *)
Definition timeout_of (k : Z) : option Z :=
  match k with 1 => Some 9223372036854775807 | 2 => Some 0 | 3 => Some 150 | _ => None end.

Fixpoint dec_dconfs (n : nat) (l : list Z) : option (list dconf * list Z) :=
  match n with
  | O => Some ([], l)
  | S n' => match l with
            | key :: da :: hs :: sa :: tk :: t =>
                match dec_dconfs n' t with
                | Some (cs, r) => Some ({| c_key := key; c_da := da; c_sa := if hs =? 0 then None else Some sa; c_timeout := timeout_of tk |} :: cs, r)
                | None => None end
            | _ => None end
  end.

Inductive aevent :=
| AInject (raw : list Z) | ATick | ACmd (o : object) | AWait (ms : Z) | ASetup | ATeardown.

Fixpoint dec_aevents (fuel : nat) (l : list Z) : option (list aevent) :=
  match fuel with
  | O => match l with [] => Some [] | _ => None end
  | S fuel' =>
    match l with
    | [] => Some []
    | 1 :: id :: dlc :: b0 :: b1 :: b2 :: b3 :: b4 :: b5 :: b6 :: b7 :: t =>
        option_map (cons (AInject (CanNet.le32 id ++ [dlc; 0; 0; 0; b0; b1; b2; b3; b4; b5; b6; b7]))) (dec_aevents fuel' t)
    | 2 :: t => option_map (cons ATick) (dec_aevents fuel' t)
    | 3 :: t => match dec_motion t with
                | Some (m, r) => option_map (cons (ACmd (OMotion m))) (dec_aevents fuel' r)
                | None => None end
    | 7 :: k :: t => option_map (cons (ACmd (other_object k))) (dec_aevents fuel' t)
    | 4 :: ms :: t => option_map (cons (AWait ms)) (dec_aevents fuel' t)
    | 5 :: t => option_map (cons ASetup) (dec_aevents fuel' t)
    | 6 :: t => option_map (cons ATeardown) (dec_aevents fuel' t)
    | _ => None
    end
  end.

(* one event off the front of a case (the same language as dec_aevents) *)
Definition dec_aevent1 (l : list Z) : option (aevent * list Z) :=
  match l with
  | 1 :: id :: dlc :: b0 :: b1 :: b2 :: b3 :: b4 :: b5 :: b6 :: b7 :: t =>
      Some (AInject (CanNet.le32 id ++ [dlc; 0; 0; 0; b0; b1; b2; b3; b4; b5; b6; b7]), t)
  | 2 :: t => Some (ATick, t)
  | 3 :: t => match dec_motion t with Some (m, r) => Some (ACmd (OMotion m), r) | None => None end
  | 7 :: k :: t => Some (ACmd (other_object k), t)
  | 4 :: ms :: t => Some (AWait ms, t)
  | 5 :: t => Some (ASetup, t)
  | 6 :: t => Some (ATeardown, t)
  | _ => None
  end.

Record acase := { ac_addr : Z; ac_name : jname; ac_confs : list dconf; ac_events : list aevent }.

Definition acase_of (l : list Z) : option acase :=
  match l with
  | addr :: mfr :: fi :: ecu :: fn :: vs :: vsi :: ig :: n :: t =>
      if (n <? 0) || (Z.of_nat (length t) <? n) then None else
      match dec_dconfs (Z.to_nat n) t with
      | Some (cs, r) =>
          match dec_aevents (length r) r with
          | Some evs => Some {| ac_addr := addr;
                                ac_name := {| n_mfr := mfr; n_finst := fi; n_ecu := ecu; n_func := fn; n_vs := vs; n_vsi := vsi; n_ig := ig |};
                                ac_confs := cs; ac_events := evs |}
          | None => None end
      | None => None end
  | _ => None
  end.

(* the header alone: address, name, driver entries, and the undecoded events *)
Definition ahead_of (l : list Z) : option (Z * jname * list dconf * list Z) :=
  match l with
  | addr :: mfr :: fi :: ecu :: fn :: vs :: vsi :: ig :: n :: t =>
      if (n <? 0) || (Z.of_nat (length t) <? n) then None else
      match dec_dconfs (Z.to_nat n) t with
      | Some (cs, r) => Some (addr, {| n_mfr := mfr; n_finst := fi; n_ecu := ecu; n_func := fn; n_vs := vs; n_vsi := vsi; n_ig := ig |}, cs, r)
      | None => None end
  | _ => None
  end.

(* ---- running the model ---- *)
Definition reply_frame (a : auth) (r : reply) : frame :=
  match r with
  | RFrame f => f
  | RTimeDate => {| f_id := id_build 6 PGN_TIME_DATE 0 (a_addr a); f_data := [0; 0; 0; 0; 0; 0; 0; 0] |}
  end.

Record astep := { as_frames : list frame; as_sigs : list (list Z) }.

Fixpoint arun (a : auth) (now : Z) (evs : list aevent) : list astep :=
  match evs with
  | [] => []
  | AInject raw :: t =>
      match of_can_frame raw with
      | Some f =>
          let '(a', rs, sigs) := auth_recv a now (normalise f) in
          {| as_frames := map (reply_frame a) rs; as_sigs := map enc_object sigs |} :: arun a' now t
      | None => {| as_frames := []; as_sigs := [] |} :: arun a now t
      end
  | ATick :: t =>
      let o := auth_on_tick a now in
      {| as_frames := to_frames o; as_sigs := map enc_status (to_status o) |} :: arun (to_auth o) now t
  | ACmd ob :: t =>
      let '(a', fs) := auth_on_command a now ob in
      {| as_frames := fs; as_sigs := [] |} :: arun a' now t
  | AWait ms :: t => {| as_frames := []; as_sigs := [] |} :: arun a (now + ms) t
  | ASetup :: t => {| as_frames := auth_setup_frames a; as_sigs := [] |} :: arun a now t
  | ATeardown :: t => {| as_frames := auth_teardown a; as_sigs := [] |} :: arun a now t
  end.

Definition enc_astep (s : astep) : list Z :=
  enc_frames (as_frames s) ++ [Z.of_nat (length (as_sigs s))] ++ concat (as_sigs s).

Definition amodel (c : acase) : list astep :=
  arun (auth_new 0 (ac_addr c) (ac_name c) (ac_confs c)) 0 (ac_events c).

(* KueblerEncoder::new panics for a unit address outside 0x6A..0x6D (driver/net/encoder.rs) *)
Definition encoder_addr_panics (c : acase) : bool :=
  existsb (fun d => (c_key d =? key_kuebler_encoder) && negb ((106 <=? c_da d) && (c_da d <=? 109))) (ac_confs c).

Definition auth_run (l : list Z) : list Z :=
  match acase_of l with
  | Some c => if encoder_addr_panics c then panic_obs else
              let steps := amodel c in Z.of_nat (length steps) :: flat_map enc_astep steps
  | None => bad_case
  end.

(* ---- decoding an observation back into steps ---- *)
Definition dec_sig (l : list Z) : option (list Z * list Z) :=
  match l with
  | 7 :: n :: t => if (n <? 0) || (Z.of_nat (length t) <? n + 3) then None
                   else Some (firstn (Z.to_nat (n + 5)) l, skipn (Z.to_nat (n + 5)) l)
  | 3 :: t => match dec_motion t with
              | Some (m, r) => Some (3 :: enc_motion m, r) | None => None end
  | 2 :: a :: b :: c :: d :: t => Some ([2; a; b; c; d], t)
  | 5 :: a :: b :: c :: t => Some ([5; a; b; c], t)
  | 4 :: t => Some ([4], t) | 6 :: t => Some ([6], t)
  | _ => None
  end.
Fixpoint dec_sigs (n : nat) (l : list Z) : option (list (list Z) * list Z) :=
  match n with
  | O => Some ([], l)
  | S n' => match dec_sig l with
            | Some (s, r) => match dec_sigs n' r with Some (ss, r') => Some (s :: ss, r') | None => None end
            | None => None end
  end.
Fixpoint dec_asteps (n : nat) (l : list Z) : option (list astep) :=
  match n with
  | O => match l with [] => Some [] | _ => None end
  | S n' =>
      match dec_frames l with
      | Some (fs, ns :: r) =>
          if (ns <? 0) || (Z.of_nat (length r) <? ns) then None else
          match dec_sigs (Z.to_nat ns) r with
          | Some (ss, r') => option_map (cons {| as_frames := fs; as_sigs := ss |}) (dec_asteps n' r')
          | None => None end
      | _ => None end
  end.
Definition asteps_of (o : list Z) : option (list astep) :=
  match o with
  | n :: t => if (n <? 0) || (Z.of_nat (length t) <? n) then None else dec_asteps (Z.to_nat n) t
  | [] => None end.
