(* core::Object as seen by drivers, sessions and the director. Float-carrying objects keep
   their fields as opaque 32-bit words (lists of Z). *)
From Coq Require Import ZArith List Bool.
Import ListNotations.
Require Import GV.Model.Governor GV.Model.Hcu.
Local Open Scope Z_scope.

Inductive object : Type :=
| OControl (kind : Z) (on : bool)
| OEngine (e : engine)
| OMotion (m : motion)
| OTarget (w : list Z)
| ORotator (w : list Z)
| OStatus (w : list Z).

(* NetDriverContextDetail without its clock (the clock is added where a property needs it) *)
Record ctx := { tx_last : option object; rx_last : option object; rx_count : Z }.
Definition ctx0 : ctx := {| tx_last := None; rx_last := None; rx_count := 0 |}.

Definition set_tx (c : ctx) (o : object) : ctx :=
  {| tx_last := Some o; rx_last := rx_last c; rx_count := rx_count c |}.
Definition set_rx (c : ctx) (o : object) : ctx :=
  {| tx_last := tx_last c; rx_last := Some o; rx_count := rx_count c |}.
Definition rx_mark (c : ctx) : ctx :=
  {| tx_last := tx_last c; rx_last := rx_last c; rx_count := rx_count c + 1 |}.

(* J1939UnitError as a small enum *)
Definition E_OK := 0. Definition E_TIMEOUT := 1. Definition E_CONFIG := 2. Definition E_VERSION := 3.
Definition E_BUS := 4. Definition E_SENSOR := 5. Definition E_HARDWARE := 6. Definition E_UNKNOWN_STATE := 7.
Definition E_IO := 8.
