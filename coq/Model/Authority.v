(* Model of NetworkAuthority (service/authority.rs) over a list of drivers, with an abstract
   millisecond clock: new (driver list from the configuration), setup, recv, on_tick (incl. the
   delayed per-driver setup and the module-status bookkeeping), on_command, teardown.
   No proofs in this file. *)
From Coq Require Import ZArith List Bool.
Import ListNotations.
Require Import GV.Gen.Consts GV.Model.Outcome GV.Model.J1939 GV.Model.Governor GV.Model.Hcu GV.Model.Object
  GV.Model.HcuUnit GV.Model.Units GV.Model.Volvo.
Local Open Scope Z_scope.

(* ---------------------------------------------------------------- J1939 NAME *)
Record jname := { n_mfr : Z; n_finst : Z; n_ecu : Z; n_func : Z; n_vs : Z; n_vsi : Z; n_ig : Z }.
(* From<J1939Name> for j1939::Name (NameBuilder masks) then Name::to_bytes; identity number 1 *)
Definition name_bytes (n : jname) : list Z :=
  let idn := 1 in let mfr := n_mfr n mod 2048 in
  [ idn mod 256; (idn / 256) mod 256;
    ((idn / 65536) mod 256 + (mfr * 32) mod 256) mod 256;      (* bits are disjoint: | is + *)
    (mfr / 8) mod 256;
    ((n_finst n mod 32) * 8 + n_ecu n mod 8) mod 256;
    n_func n mod 256;
    (n_vs n * 2) mod 256;
    (n_vsi n mod 16 + (n_ig n mod 8) * 16) mod 256 ].

Definition address_claimed_frame (addr : Z) (n : jname) : frame :=
  {| f_id := id_build 6 PGN_ADDRESS_CLAIMED 255 addr; f_data := name_bytes n |}.

(* ---------------------------------------------------------------- configuration -> drivers *)
(* driver_factory keys (vendor, product), as numbered in Gen/Consts.v *)
Definition kind_of_key (k : Z) : option ukind :=
  if k =? key_laixer_hcu then Some KHcu else if k =? key_laixer_vcu then Some KVcu
  else if k =? key_j1939_ecu then Some KEcu else if k =? key_kuebler_encoder then Some KEncoder
  else if k =? key_kuebler_inclinometer then Some KInclino else if k =? key_j1939_ecm then Some KEms
  else if k =? key_volvo_d7e then Some KVolvo else None.

Record dconf := { c_key : Z; c_da : Z; c_sa : option Z; c_timeout : option Z }.

Record ditem := {
  i_kind : ukind; i_cfg : unit_cfg; i_ctx : ctx;
  i_tx_time : Z;                      (* time stamp of tx_last_message *)
  i_rx_time : Z;                      (* rx_last: last rx_mark, initially the creation time *)
  i_timeout : option Z;
  i_last : option (Z * option Z) }.   (* last_status: (state, error) *)

Definition new_item (now addr : Z) (c : dconf) : option ditem :=
  match kind_of_key (c_key c) with
  | Some k => Some {| i_kind := k;
                      i_cfg := {| u_da := c_da c; u_sa := match c_sa c with Some s => s | None => addr end |};
                      i_ctx := ctx0; i_tx_time := now; i_rx_time := now; i_timeout := c_timeout c; i_last := None |}
  | None => None          (* unknown (vendor, product): logged and skipped *)
  end.

Fixpoint filter_map {A B} (f : A -> option B) (l : list A) : list B :=
  match l with [] => [] | a :: t => match f a with Some b => b :: filter_map f t | None => filter_map f t end end.

Record auth := { a_items : list ditem; a_tick : Z; a_setup : bool; a_addr : Z; a_name : jname }.

Definition auth_new (now addr : Z) (n : jname) (cs : list dconf) : auth :=
  {| a_items := filter_map (new_item now addr) cs; a_tick := 0; a_setup := false; a_addr := addr; a_name := n |}.

(* ---------------------------------------------------------------- per-driver frames *)
Definition ident_frame (da sa : Z) (on : bool) : frame :=
  {| f_id := id_build 6 PGN_PCM1 da sa; f_data := [90; 67; (if on then 1 else 0); 255] |}.

Definition setup_frames (k : ukind) (u : unit_cfg) : list frame :=
  let rq := request_frame (u_da u) (u_sa u) in
  match k with
  | KHcu => [rq PGN_ADDRESS_CLAIMED; rq PGN_SOFTWARE_IDENT; rq PGN_COMPONENT_IDENT;
             reset_frame (u_da u) (u_sa u); ident_frame (u_da u) (u_sa u) true; ident_frame (u_da u) (u_sa u) false]
  | KVcu | KEcu | KEms => [rq PGN_ADDRESS_CLAIMED; rq PGN_SOFTWARE_IDENT; rq PGN_COMPONENT_IDENT]
  | KEncoder | KInclino => [rq PGN_ADDRESS_CLAIMED]
  | KVolvo => []
  end.

Definition teardown_frames (k : ukind) (u : unit_cfg) : list frame :=
  match k with KHcu => [reset_frame (u_da u) (u_sa u)] | _ => [] end.

Definition item_tick_frames (it : ditem) (now : Z) : list frame :=
  match i_kind it with
  | KHcu => hcu_tick (i_cfg it) (i_ctx it)
  | KVolvo => volvo_tick (i_cfg it) {| v_ctx := i_ctx it; v_tx_time := i_tx_time it |} now
  | _ => []
  end.

Definition with_ctx (it : ditem) (c : ctx) (txt rxt : Z) : ditem :=
  {| i_kind := i_kind it; i_cfg := i_cfg it; i_ctx := c; i_tx_time := txt; i_rx_time := rxt;
     i_timeout := i_timeout it; i_last := i_last it |}.

Definition item_trigger (it : ditem) (now : Z) (o : object) : ditem * list frame :=
  match i_kind it with
  | KHcu => let '(c, fs) := hcu_trigger (i_cfg it) (i_ctx it) o in
            (with_ctx it c (match o with OMotion _ => now | _ => i_tx_time it end) (i_rx_time it), fs)
  | KVolvo => let '(s, fs) := volvo_trigger (i_cfg it) {| v_ctx := i_ctx it; v_tx_time := i_tx_time it |} now o in
              (with_ctx it (v_ctx s) (v_tx_time s) (i_rx_time it), fs)
  | _ => (it, [])
  end.

(* ---------------------------------------------------------------- module status *)
Definition ST_HEALTHY := module_state_Healthy.
Definition ST_FAULTY := module_state_Faulty.
Definition ERR_TIMEOUT := 2.   (* ModuleError::CommunicationTimeout on the wire *)

Definition timed_out (it : ditem) (now : Z) : bool :=
  match i_timeout it with Some t => t <=? now - i_rx_time it | None => false end   (* elapsed() > t, with elapsed = (now - rx_time) + eps *).

Definition status_eqb (a b : Z * option Z) : bool :=
  (fst a =? fst b) && match snd a, snd b with Some x, Some y => x =? y | None, None => true | _, _ => false end.

(* one driver in on_tick: returns the updated item and the status it publishes, if any *)
Definition item_status (it : ditem) (tick now : Z) : ditem * option (Z * option Z) :=
  let st0 := if 0 <? rx_count (i_ctx it) then Some (ST_HEALTHY, None) else None in
  let st := if timed_out it now then Some (ST_FAULTY, Some ERR_TIMEOUT) else st0 in
  let changed := match st with
                 | Some s => match i_last it with Some l => negb (status_eqb l s) | None => true end
                 | None => false end in
  let last := if changed then st else i_last it in
  let it' := {| i_kind := i_kind it; i_cfg := i_cfg it; i_ctx := i_ctx it; i_tx_time := i_tx_time it;
                i_rx_time := i_rx_time it; i_timeout := i_timeout it; i_last := last |} in
  (it', match last with Some s => if (tick mod status_refresh_cycles =? 0) || changed then Some s else None | None => None end).

(* ---------------------------------------------------------------- the service *)
Definition auth_setup_frames (a : auth) : list frame := [address_claimed_frame (a_addr a) (a_name a)].

Record tick_out := { to_auth : auth; to_frames : list frame; to_status : list (unit_cfg * ukind * (Z * option Z)) }.

Definition auth_on_tick (a : auth) (now : Z) : tick_out :=
  let pre := if a_setup a then [] else flat_map (fun it => setup_frames (i_kind it) (i_cfg it)) (a_items a) in
  let rs := map (fun it => item_status it (a_tick a) now) (a_items a) in
  {| to_auth := {| a_items := map fst rs; a_tick := a_tick a + 1; a_setup := true; a_addr := a_addr a; a_name := a_name a |};
     to_frames := pre ++ flat_map (fun it => item_tick_frames it now) (a_items a);
     to_status := flat_map (fun r => match snd r with
                                     | Some s => [(i_cfg (fst r), i_kind (fst r), s)]
                                     | None => [] end) rs |}.

Fixpoint on_command_items (its : list ditem) (now : Z) (o : object) : list ditem * list frame :=
  match its with
  | [] => ([], [])
  | it :: t => let '(it', fs) := item_trigger it now o in
               let '(t', fs') := on_command_items t now o in (it' :: t', fs ++ fs')
  end.

Definition auth_on_command (a : auth) (now : Z) (o : object) : auth * list frame :=
  let '(its, fs) := on_command_items (a_items a) now o in
  ({| a_items := its; a_tick := a_tick a; a_setup := a_setup a; a_addr := a_addr a; a_name := a_name a |}, fs).

Definition auth_teardown (a : auth) : list frame :=
  flat_map (fun it => teardown_frames (i_kind it) (i_cfg it)) (a_items a).

(* recv: a Request addressed to us is answered (address claim, software id, time/date); any
   other Request is dropped; everything else is offered to the drivers in order *)
Definition requested_pgn (d : list Z) : Z := (byte_at d 0 + 256 * byte_at d 1 + 65536 * byte_at d 2) mod 262144.

Definition soft_id_frame (addr : Z) : frame :=
  {| f_id := id_build 6 PGN_SOFTWARE_IDENT 0 addr; f_data := [1; version_major; version_minor; version_patch; 42] |}.

Inductive reply := RFrame (f : frame) | RTimeDate.   (* the time/date payload is not modelled *)

Definition auth_request_reply (a : auth) (f : frame) : list reply :=
  match id_da (f_id f) with
  | Some d =>
      if d =? a_addr a then
        let p := requested_pgn (f_data f) in
        if p =? PGN_ADDRESS_CLAIMED then [RFrame (address_claimed_frame (a_addr a) (a_name a))]
        else if p =? PGN_SOFTWARE_IDENT then [RFrame (soft_id_frame (a_addr a))]
        else if p =? PGN_TIME_DATE then [RTimeDate]
        else []
      else []
  | None => []
  end.

Fixpoint scan_items (its : list ditem) (now : Z) (f : frame) : list ditem * list object :=
  match its with
  | [] => ([], [])
  | it :: t =>
      let r := unit_recv (i_kind it) (i_cfg it) (i_ctx it) f in
      let marked := negb (rx_count (r_ctx r) =? rx_count (i_ctx it)) in
      match r_sigs r with
      | [] => let '(t', s) := scan_items t now f in
              (with_ctx it (r_ctx r) (i_tx_time it) (if marked then now else i_rx_time it) :: t', s)
      | sigs => (with_ctx it (rx_mark (r_ctx r)) (i_tx_time it) now :: t, sigs)
      end
  end.

Definition auth_recv (a : auth) (now : Z) (f : frame) : auth * list reply * list object :=
  if id_pgn (f_id f) =? PGN_REQUEST then (a, auth_request_reply a f, [])
  else let '(its, sigs) := scan_items (a_items a) now f in
       ({| a_items := its; a_tick := a_tick a; a_setup := a_setup a; a_addr := a_addr a; a_name := a_name a |}, [], sigs).
