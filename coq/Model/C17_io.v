From Coq Require Import ZArith List Bool.
Import ListNotations.
Require Import GV.Model.J1939 GV.Model.CanNet GV.Model.IO.
Local Open Scope Z_scope.

(* kinds: 1 accept nitems (p v)x4 per item .. id   -> [match]
          2 id len data..                           -> 16 raw bytes written by CANSocket::send
          3 16 raw bytes (dlc <= 8)                 -> [id; 8; 8 data bytes] seen after ControlNetwork::recv *)
Definition optz (p v : Z) : option Z := if p =? 0 then None else Some v.
Fixpoint dec_items (n : nat) (l : list Z) : option (list fitem * list Z) :=
  match n with
  | O => Some ([], l)
  | S n' => match l with
            | p1 :: v1 :: p2 :: v2 :: p3 :: v3 :: p4 :: v4 :: t =>
                match dec_items n' t with
                | Some (its, r) => Some ({| fi_prio := optz p1 v1; fi_pgn := optz p2 v2; fi_sa := optz p3 v3; fi_da := optz p4 v4 |} :: its, r)
                | None => None end
            | _ => None end
  end.

Definition c17_run (l : list Z) : list Z :=
  match l with
  (* kind 4: the same question asked of a ControlNetwork built with with_filter: is the frame delivered by recv *)
  | 1 :: acc :: n :: t | 4 :: acc :: n :: t =>
      if (n <? 0) || (Z.of_nat (length t) <? n) then bad_case else
      match dec_items (Z.to_nat n) t with
      | Some (its, [id]) => [Zbool (filter_matches (negb (acc =? 0)) its id)]
      | _ => bad_case end
  | 2 :: id :: len :: d => if Z.of_nat (length d) =? len then to_can_frame {| f_id := id; f_data := d |} else bad_case
  | 3 :: raw => match of_can_frame raw with
                | Some f => let g := normalise f in f_id g :: Z.of_nat (length (f_data g)) :: f_data g
                | None => bad_case end
  | _ => bad_case
  end.

(* reference predicates, written directly from the property text *)
Definition field_eq (o : option Z) (v : Z) : bool := match o with Some x => x =? v | None => true end.
Definition ref_item (it : fitem) (id : Z) : bool :=
  let prio := id / 67108864 in
  let pf := (id / 65536) mod 256 in let ps := (id / 256) mod 256 in
  let pdu1 := pf <? 240 in
  let pgn := if pdu1 then pf * 256 else pf * 256 + ps in
  field_eq (fi_prio it) prio && field_eq (fi_pgn it) pgn && field_eq (fi_sa it) (id mod 256)
  && match fi_da it with Some d => pdu1 && (d =? ps) | None => true end.

Definition c17_check (l o : list Z) : bool :=
  match l with
  | 1 :: acc :: n :: t | 4 :: acc :: n :: t =>
      match dec_items (Z.to_nat n) t, o with
      | Some (its, [id]), [m] =>
          let any := existsb (fun it => ref_item it id) its in
          let expect := if acc =? 0 then negb any
                        else match its with [] => true | _ => any end in
          Z.eqb m (Zbool expect)
      | _, _ => false end
  | 2 :: id :: len :: d =>
      (* classic extended frame: EFF flag + the 29-bit id, length, data, zero padding *)
      match o with
      | [b0; b1; b2; b3; dlc; p1; p2; p3; d0; d1; d2; d3; d4; d5; d6; d7] =>
          (of_le32 b0 b1 b2 b3 =? id + 2147483648) && (dlc =? len) && (p1 =? 0) && (p2 =? 0) && (p3 =? 0)
          && (if list_eq_dec Z.eq_dec (firstn (Z.to_nat len) [d0; d1; d2; d3; d4; d5; d6; d7]) d then true else false)
      | _ => false end
  | 3 :: b0 :: b1 :: b2 :: b3 :: dlc :: _ :: _ :: _ :: d =>
      match o with
      | id :: 8 :: data =>
          (id =? of_le32 b0 b1 b2 b3 mod 536870912) && (Z.of_nat (length data) =? 8)
          && (if list_eq_dec Z.eq_dec data (firstn 8 (firstn (Z.to_nat dlc) d ++ repeat 255 8)) then true else false)
      | _ => false end
  | _ => false
  end.

Definition c17_nontriv (l o : list Z) : bool :=
  match l with
  | 1 :: _ :: n :: _ | 4 :: _ :: n :: _ => 0 <? n
  | 2 :: _ => true | 3 :: _ => true
  | _ => false end.
