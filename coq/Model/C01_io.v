From Coq Require Import ZArith List Bool.
Import ListNotations.
Require Import GV.Model.J1939 GV.Model.Governor GV.Model.Hcu GV.Model.Object GV.Model.HcuUnit GV.Model.IO
  GV.Spec.C02_spec GV.Spec.C01_spec.
Local Open Scope Z_scope.

(* events: 0 = tick | 1 <motion> = motion command | 2 k = some non-motion command (k names a
   fixed representative: 2 engine, 3 control, 4 target, 5 rotator, 6 module status)
   | 3 id b0..b7 = received frame
   | 4 <motion> = motion command accepted while another task holds the context lock for 30 ms *)
Definition other_object (k : Z) : object :=
  match k with
  | 2 => OEngine {| e_demand := 0; e_actual := 0; e_rpm := 1500; e_state := Request |}
  | 3 => OControl 6 true
  | 4 => OTarget []
  | 5 => ORotator []
  | _ => OStatus []
  end.

Fixpoint dec_events (fuel : nat) (l : list Z) : option (list c01_event) :=
  match fuel with
  | O => match l with [] => Some [] | _ => None end
  | S fuel' =>
    match l with
    | [] => Some []
    | 0 :: t => option_map (cons ETick) (dec_events fuel' t)
    | 1 :: t => match dec_motion t with
                | Some (m, rest) => option_map (cons (ECmd (OMotion m))) (dec_events fuel' rest)
                | None => None end
    | 4 :: t => match dec_motion t with       (* a motion command accepted while another task is inside the context: it waits *)
                | Some (m, rest) => option_map (cons (ECmd (OMotion m))) (dec_events fuel' rest)
                | None => None end
    (* a motion command accepted by the command task WHILE the tick task is inside tick, between its read of the
       shared context and its emission (Sched.v: read, command, emit): tick reads the context once, so this is
       observably the sequential history tick; command - same frames per call, same final state *)
    | 5 :: t => match dec_motion t with
                | Some (m, rest) => option_map (fun r => ETick :: ECmd (OMotion m) :: r) (dec_events fuel' rest)
                | None => None end
    | 2 :: k :: t => option_map (cons (ECmd (other_object k))) (dec_events fuel' t)
    | 3 :: id :: b0 :: b1 :: b2 :: b3 :: b4 :: b5 :: b6 :: b7 :: t =>
        option_map (cons (ERx {| f_id := id; f_data := [b0; b1; b2; b3; b4; b5; b6; b7] |})) (dec_events fuel' t)
    | _ => None
    end
  end.

Definition c01_case_of (l : list Z) : option c01_case :=
  match l with
  | da :: sa :: t =>
      match dec_events (length t) t with
      | Some evs => Some {| h_u := {| u_da := da; u_sa := sa |}; h_events := evs |}
      | None => None end
  | _ => None
  end.

Definition enc_obs (o : c01_obs) : list Z := Z.of_nat (length o) :: flat_map enc_frames o.
Fixpoint dec_obs_n (n : nat) (l : list Z) : option (c01_obs * list Z) :=
  match n with
  | O => Some ([], l)
  | S n' => match dec_frames l with
            | Some (fs, rest) => match dec_obs_n n' rest with
                                 | Some (o, rest') => Some (fs :: o, rest')
                                 | None => None end
            | None => None end
  end.
Definition dec_obs (l : list Z) : option c01_obs :=
  match l with
  | n :: t => if (n <? 0) || (Z.of_nat (length t) <? n) then None else
              match dec_obs_n (Z.to_nat n) t with Some (o, []) => Some o | _ => None end
  | [] => None
  end.

Definition c01_run_z (l : list Z) : list Z :=
  match c01_case_of l with Some c => enc_obs (c01_model c) | None => bad_case end.
Definition c01_check (l o : list Z) : bool :=
  match c01_case_of l, dec_obs o with
  | Some c, Some ob => implb (c01_wf c) (c01_spec_ok c ob)
  | _, _ => false
  end.
(* non-trivial: a movable motion command followed later by at least one tick *)
Fixpoint has_motion_then_tick (seen : bool) (evs : list c01_event) : bool :=
  match evs with
  | [] => false
  | ECmd (OMotion (StraightDrive _)) :: t | ECmd (OMotion (Change (_ :: _))) :: t => has_motion_then_tick true t
  | ETick :: t => seen || has_motion_then_tick seen t
  | _ :: t => has_motion_then_tick seen t
  end.
Definition c01_nontriv (l o : list Z) : bool :=
  match c01_case_of l with
  | Some c => c01_wf c && has_motion_then_tick false (h_events c)
  | None => false
  end.
