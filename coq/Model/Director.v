(* Model of the supervising Director (service/director.rs): the two verdict slots (latest rotation
   reading, latest engine reading), elect_engine_state, elect_rotator_state with its branches in
   the code's order (thresholds and order regenerated from the source), and the reaction to the
   maximum verdict in the shipped (supervised) operation mode.  Angles are exact integers in
   centi-degrees; the float pipeline is validated by the correspondence away from thresholds. *)
From Coq Require Import ZArith List Bool.
Import ListNotations.
Require Import GV.Gen.Consts GV.Model.Governor GV.Model.Hcu GV.Model.Object.
Local Open Scope Z_scope.

Inductive verdict := VInhibited | VNominal | VUnbound | VEmergency.
Definition vrank (v : verdict) : Z := match v with VInhibited => 0 | VNominal => 1 | VUnbound => 20 | VEmergency => 100 end.
Definition vmax (a b : verdict) : verdict := if vrank a <? vrank b then b else a.

(* a rotation reading as the director sees it through euler_angles(): source, angles in
   centi-degrees, and whether the extracted yaw is exactly 0.0 *)
Record rreading := { rr_src : Z; rr_roll : Z; rr_pitch : Z; rr_yaw0 : bool }.

Inductive dsignal := SEngine (rpm : Z) | SRotator (r : rreading) | SOther.

Definition elect_engine (rpm : Z) : verdict :=
  if rpm <? director_rpm_low then VInhibited else if director_rpm_high <? rpm then VEmergency else VNominal.

Definition tilt_over (r : rreading) (deg : Z) : bool :=
  ((deg * 100 <? rr_roll r) || (deg * 100 <? rr_pitch r)) && rr_yaw0 r.

Definition elect_rotator (r : rreading) : verdict :=
  let s := rr_src r in
  if s =? director_encoder_frame then VNominal
  else if s =? director_encoder_boom then
    (if (rr_roll r =? 0) && (6000 <? rr_pitch r) && rr_yaw0 r then VUnbound
     else if (rr_roll r =? 0) && (rr_pitch r <? -4500) && rr_yaw0 r then VUnbound else VNominal)
  else if s =? director_encoder_arm then
    (if (rr_roll r =? 0) && (-4000 <? rr_pitch r) && rr_yaw0 r then VUnbound else VNominal)
  else if s =? director_encoder_attachment then
    (if 17800 <? rr_pitch r then VUnbound else VNominal)
  else if s =? director_inclinometer then
    (* the two branches in the order the code tests them *)
    (if tilt_over r director_tilt_1_deg then (if director_tilt_1_emergency then VEmergency else VUnbound)
     else if tilt_over r director_tilt_2_deg then (if director_tilt_2_emergency then VEmergency else VUnbound)
     else VNominal)
  else VNominal.

Record dstate := { d_rot : option verdict; d_eng : option verdict }.
Definition dstate0 : dstate := {| d_rot := None; d_eng := None |}.

Definition dmax (s : dstate) : verdict :=
  match d_rot s, d_eng s with
  | None, None => VNominal
  | Some a, None => a | None, Some b => b
  | Some a, Some b => vmax a b
  end.

(* commands as wire-level triples: control (kind, on) / stop-all / engine shutdown *)
Inductive dcmd := DControl (kind : Z) (on : bool) | DStopAll | DEngineShutdown.

Definition emergency_sequence : list dcmd :=
  [DControl control_type_hydraulic_lock true; DStopAll; DControl control_type_hydraulic_boost false;
   DControl control_type_machine_travel_alarm true; DControl control_type_machine_strobe_light true; DEngineShutdown].

Definition dstep (s : dstate) (sg : dsignal) : dstate * list dcmd :=
  let s' := match sg with
            | SRotator r => {| d_rot := Some (elect_rotator r); d_eng := d_eng s |}
            | SEngine rpm => {| d_rot := d_rot s; d_eng := Some (elect_engine rpm) |}
            | SOther => s end in
  (s', match dmax s' with
       | VEmergency => if director_supervised then emergency_sequence else []
       | VInhibited | VUnbound => if director_supervised then [] else [DStopAll]   (* autonomous mode only *)
       | VNominal => []     (* no target actor can exist in supervised mode: nothing is computed *)
       end).

Fixpoint drun (s : dstate) (h : list dsignal) : list (list dcmd) :=
  match h with [] => [] | sg :: t => let '(s', out) := dstep s sg in out :: drun s' t end.
