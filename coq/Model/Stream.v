(* C14: sessions with their signal receivers.  Each session = the state machine of Model/Session.v
   plus a cursor into the history of published signals (Model/Broadcast.v, capacity 16).  The
   harness drives the real server so that only one input source is pending when the session task
   runs (tokio's select! picks at random between ready branches); the ops are:
     write s bytes : session s's client writes bytes, the session runs until it blocks
     publish sigs  : the signals are published back-to-back, then every session runs until it blocks
     close s       : client s disconnects *)
From Coq Require Import ZArith List Bool Arith.
Import ListNotations.
Require Import GV.Gen.Consts GV.Model.Governor GV.Model.Hcu GV.Model.Packets GV.Model.Session GV.Model.Broadcast.
Local Open Scope Z_scope.

Definition sigcap : nat := Z.to_nat queue_size_signal.

Record sess := { ss_state : sstate; ss_cursor : nat; ss_open : bool }.

Definition dflt_pkt : packet := PRequest 0.

(* drain the session's signal receiver: Lagged is skipped, every received signal is forwarded iff
   the session asked for streaming *)
Fixpoint drain_signals (fuel : nat) (bus : list packet) (flags : Z) (c : nat) : nat * list act :=
  match fuel with
  | O => (c, [])
  | S f =>
      match recv_at packet sigcap bus c dflt_pkt with
      | (RItem p, c') => let '(c'', out) := drain_signals f bus flags c' in
                         (c'', (if has_flag flags session_mode_stream then [ASignal p] else []) ++ out)
      | (RLagged _, c') => drain_signals f bus flags c'
      | (REmpty, _) => (c, [])
      end
  end.

Inductive sop := OWrite (s : nat) (bs : list Z) | OPublish (sigs : list packet) | OClose (s : nat).

Fixpoint updn {X} (l : list X) (k : nat) (f : X -> X) : list X :=
  match l, k with [], _ => [] | x :: t, O => f x :: t | x :: t, S k' => x :: updn t k' f end.

(* outputs: per op, per session, what that session's client received *)
Definition op_step (bus : list packet) (ss : list sess) (o : sop) : list packet * list sess * list (list act) :=
  match o with
  | OWrite k bs =>
      let outs := map (fun _ => @nil act) ss in
      match nth_error ss k with
      | Some s =>
          if ss_open s then
            let '(st', acts) := sstep (ss_state s) (EBytes bs) in
            (bus, updn ss k (fun s => {| ss_state := st'; ss_cursor := ss_cursor s; ss_open := true |}),
             updn outs k (fun _ => filter (fun a => match a with ACmd _ => false | _ => true end) acts))
          else (bus, ss, outs)
      | None => (bus, ss, outs)
      end
  | OPublish sigs =>
      let bus' := bus ++ sigs in
      let rs := map (fun s =>
                  if ss_open s then
                    match ss_state s with
                    | Running flags _ =>
                        let '(c, out) := drain_signals (2 * length bus' + 2) bus' flags (ss_cursor s) in
                        ({| ss_state := ss_state s; ss_cursor := c; ss_open := true |}, out)
                    | Crashed => (s, [])
                    end
                  else (s, [])) ss in
      (bus', map fst rs, map snd rs)
  | OClose k => (bus, updn ss k (fun s => {| ss_state := ss_state s; ss_cursor := ss_cursor s; ss_open := false |}), map (fun _ => @nil act) ss)
  end.

Fixpoint ops_run (bus : list packet) (ss : list sess) (ops : list sop) : list (list (list act)) :=
  match ops with
  | [] => []
  | o :: t => let '(bus', ss', outs) := op_step bus ss o in outs :: ops_run bus' ss' t
  end.

Definition sess0 (bus_len : nat) : sess := {| ss_state := session0; ss_cursor := bus_len; ss_open := true |}.

(* the compatibility test clients apply to the instance record *)
Definition is_compatible (ma mi : Z) : bool := (ma =? version_major) && (mi =? version_minor).
