(* Model of HydraulicControlUnit as a J1939Unit: trigger, tick, try_recv (hydraulic.rs),
   with the Vecraft status message (vecraft.rs). Received frames carry 8 data bytes (the
   network layer normalises them, C06/C17). *)
From Coq Require Import ZArith List Bool.
Import ListNotations.
Require Import GV.Gen.Consts GV.Model.Outcome GV.Model.J1939 GV.Model.Governor GV.Model.Hcu GV.Model.Object.
Local Open Scope Z_scope.

Record unit_cfg := { u_da : Z; u_sa : Z }.

Definition hcu_trigger (u : unit_cfg) (c : ctx) (o : object) : ctx * list frame :=
  match o with
  | OMotion m => (set_tx c o, encode_motion (u_da u) (u_sa u) m)
  | _ => (c, [])
  end.

Definition hcu_tick_motion (c : ctx) : motion :=
  match tx_last c with
  | Some (OMotion m) => m
  | _ => StopAll
  end.

Definition hcu_tick (u : unit_cfg) (c : ctx) : list frame :=
  encode_motion (u_da u) (u_sa u) (hcu_tick_motion c).

Definition byte_at (d : list Z) (k : nat) : Z := nth k d 255.

(* destination guard shared by HCU, VCU, ECU, encoder, inclinometer: a PDU1 frame must be
   addressed to the unit's own address or to the global address *)
Definition dest_guard (u : unit_cfg) (id : Z) : bool :=
  match id_da id with
  | Some d => (d =? u_da u) || (d =? 255)
  | None => true
  end.

(* vecraft::State::from + into_error *)
Definition vecraft_error (b : Z) : Z :=
  if (b =? 20) || (b =? 22) then E_OK            (* 0x14 nominal, 0x16 ident *)
  else if (b =? 250) || (b =? 251) then E_BUS    (* 0xfa, 0xfb *)
  else E_UNKNOWN_STATE.

(* result of try_recv: new context, signals pushed to rx_queue, error code *)
Record recv_out := { r_ctx : ctx; r_sigs : list object; r_err : Z }.
Definition ignore (c : ctx) : recv_out := {| r_ctx := c; r_sigs := []; r_err := E_OK |}.
Definition alive (c : ctx) : recv_out := {| r_ctx := rx_mark c; r_sigs := []; r_err := E_OK |}.

Definition soft_ident_ok (d : list Z) : bool := (1 <=? byte_at d 0) && (byte_at d 4 =? 42).

Definition hcu_recv (u : unit_cfg) (c : ctx) (f : frame) : recv_out :=
  let id := f_id f in let d := f_data f in
  if negb (dest_guard u id) then ignore c else
  let pgn := id_pgn id in
  let from_unit := id_sa id =? u_da u in
  if pgn =? PGN_SOFTWARE_IDENT then
    (if from_unit && soft_ident_ok d then alive c else ignore c)
  else if pgn =? PGN_ADDRESS_CLAIMED then
    (if from_unit then alive c else ignore c)
  else if pgn =? hcu_status_pgn then
    (if from_unit then
       let m := if byte_at d 2 =? 1 then StopAll else ResumeAll in
       {| r_ctx := set_rx c (OMotion m); r_sigs := [OMotion m]; r_err := vecraft_error (byte_at d 0) |}
     else ignore c)
  else ignore c.   (* motion config, vecraft config, actuator frames: parsed, no effect *)
