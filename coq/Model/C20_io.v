From Coq Require Import ZArith List Bool.
Import ListNotations.
Require Import GV.Gen.Consts GV.Model.Authority GV.Model.Auth_io GV.Model.IO GV.Spec.C20_spec.
Local Open Scope Z_scope.
(* "-20 k events.." = the k-th network of the shipped example configuration, read by rs2v *)
Definition expand (l : list Z) : list Z :=
  match l with
  | -20 :: k :: evs => nth (Z.to_nat k) shipped_networks [] ++ evs
  | -21 :: da :: _ => [39; 0; 2; 1; 255; 5; 5; 3; 1; 4; da; 0; 0; 0; 5; 2]   (* a single kübler:encoder entry at da *)
  | _ => l end.
Definition c20_run (l : list Z) : list Z := auth_run (expand l).
Definition c20_check (l o : list Z) : bool :=
  match acase_of (expand l), asteps_of o with
  | Some c, Some st => implb (c20_wf c) (c20_spec_ok c st)
  | _, _ => false end.
Definition c20_nontriv (l o : list Z) : bool :=
  match asteps_of o with Some st => existsb (fun s => match as_frames s with [] => false | _ => true end) st | None => false end.
