(* Model of glonax-runtime/src/can.rs (CANSocket::send / recv marshalling of struct can_frame) and
   net.rs (ControlNetwork::recv normalisation, FilterItem / Filter).  No proofs in this file. *)
From Coq Require Import ZArith List Bool.
Import ListNotations.
Require Import GV.Model.J1939.
Local Open Scope Z_scope.

Definition le32 (x : Z) : list Z := [x mod 256; (x / 256) mod 256; (x / 65536) mod 256; (x / 16777216) mod 256].
Definition of_le32 (b0 b1 b2 b3 : Z) : Z := b0 + 256 * b1 + 65536 * b2 + 16777216 * b3.

Definition CAN_EFF_FLAG : Z := 2147483648.   (* 0x80000000 *)
Definition ID_MASK : Z := 536870912.         (* 0x1fffffff + 1 *)

Definition pad_to (n : nat) (fill : Z) (d : list Z) : list Z := firstn n (d ++ repeat fill n).

(* CANSocket::send: zeroed can_frame, can_id = id | 0x80000000, can_dlc = len, data[..len] = pdu *)
Definition to_can_frame (f : frame) : list Z :=
  le32 (f_id f + CAN_EFF_FLAG) ++ [Z.of_nat (length (f_data f)); 0; 0; 0] ++ pad_to 8 0 (f_data f).

(* CANSocket::recv: id = can_id & 0x1fffffff, data = data[..can_dlc] *)
Definition of_can_frame (raw : list Z) : option frame :=
  match raw with
  | [b0; b1; b2; b3; dlc; _; _; _; d0; d1; d2; d3; d4; d5; d6; d7] =>
      if (dlc <? 0) || (8 <? dlc) then None          (* &data[..dlc] would panic: not a classic CAN frame *)
      else Some {| f_id := of_le32 b0 b1 b2 b3 mod ID_MASK;
                   f_data := firstn (Z.to_nat dlc) [d0; d1; d2; d3; d4; d5; d6; d7] |}
  | _ => None
  end.

(* ControlNetwork::recv: FrameBuilder (pdu pre-filled with 0xFF) .copy_from_slice(data).set_len(8) *)
Definition normalise (f : frame) : frame := {| f_id := f_id f; f_data := pad_to 8 255 (f_data f) |}.

(* FilterItem *)
Record fitem := { fi_prio : option Z; fi_pgn : option Z; fi_sa : option Z; fi_da : option Z }.

Definition opt_ok (o : option Z) (v : Z) : bool := match o with Some x => x =? v | None => true end.

Definition item_matches (it : fitem) (id : Z) : bool :=
  opt_ok (fi_prio it) (id_priority id)
  && opt_ok (fi_pgn it) (id_pgn id)
  && opt_ok (fi_sa it) (id_sa id)
  && match fi_da it with
     | Some d => match id_da id with Some x => d =? x | None => false end
     | None => true
     end.

(* Filter::matches *)
Definition filter_matches (accept : bool) (items : list fitem) (id : Z) : bool :=
  let any := existsb (fun it => item_matches it id) items in
  let empty := match items with [] => true | _ => false end in
  (accept && (empty || any)) || (negb accept && (empty || negb any)).
