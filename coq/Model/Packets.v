(* Model of the LXR wire protocol: the 10-byte header (protocol/frame.rs, protocol/mod.rs) and
   the twelve Packetize implementations (core/*.rs, world/mod.rs) on byte lists.
   f32 fields are opaque 32-bit words.  Decoders mirror every Buf::get_*, split_to,
   copy_to_bytes, slice index and `?` of the Rust code: DPanic marks the points where the Rust
   code would panic on a short buffer.  No proofs in this file. *)
From Coq Require Import ZArith List Bool.
Import ListNotations.
Require Import GV.Gen.Consts GV.Model.Hcu.
Local Open Scope Z_scope.

Inductive dres (A : Type) : Type := DOk (a : A) | DErr | DPanic.
Arguments DOk {A} a. Arguments DErr {A}. Arguments DPanic {A}.

Definition lenb (l : list Z) : Z := Z.of_nat (length l).

(* ------------------------------------------------------------------ header *)
Definition be16 (n : Z) : list Z := [(n / 256) mod 256; n mod 256].
Definition enc_header (t n : Z) : list Z :=
  proto_header ++ [proto_version; t] ++ be16 n ++ [0; 0; 0].

Inductive hdr_err := HTooSmall | HInvalidHeader | HVersion | HEmpty | HExcessive | HPadding.

(* Frame::try_from(&[u8]) in the code's check order *)
Definition parse_header (h : list Z) : Z * Z + hdr_err :=
  match h with
  | [b0; b1; b2; b3; b4; b5; b6; b7; b8; b9] =>
      if negb (if list_eq_dec Z.eq_dec [b0; b1; b2] proto_header then true else false) then inr HInvalidHeader
      else if negb (b3 =? proto_version) then inr HVersion
      else let n := b5 * 256 + b6 in
      if n =? 0 then inr HEmpty
      else if max_payload_size <? n then inr HExcessive
      else if negb ((b7 =? 0) && (b8 =? 0) && (b9 =? 0)) then inr HPadding
      else inl (b4, n)
  | _ => inr HTooSmall
  end.

(* ------------------------------------------------------------------ cursor *)
(* bytes::Buf on an owned Bytes: get_u8 / get_u16 / get_f32 panic when short *)
Definition rd (A : Type) := list Z -> dres (A * list Z).
Definition get_u8 : rd Z := fun b => match b with x :: t => DOk (x, t) | [] => DPanic end.
Definition get_u16 : rd Z := fun b => match b with x :: y :: t => DOk (x * 256 + y, t) | _ => DPanic end.
Definition get_u32 : rd Z := fun b =>
  match b with x :: y :: z :: w :: t => DOk (((x * 256 + y) * 256 + z) * 256 + w, t) | _ => DPanic end.
(* split_to(n) / copy_to_bytes(n) / &buf[..n] + advance(n): panic when n > remaining *)
Definition take_n (n : Z) : rd (list Z) := fun b =>
  if lenb b <? n then DPanic else DOk (firstn (Z.to_nat n) b, skipn (Z.to_nat n) b).
Definition ret {A} (a : A) : rd A := fun b => DOk (a, b).
Definition fail {A} : rd A := fun _ => DErr.
Definition bind {A B} (m : rd A) (f : A -> rd B) : rd B := fun b =>
  match m b with DOk (a, b') => f a b' | DErr => DErr | DPanic => DPanic end.
Definition remaining : rd Z := fun b => DOk (lenb b, b).
Notation "x <- m ;; f" := (bind m (fun x => f)) (at level 61, m at next level, right associativity).
Definition run {A} (m : rd A) (b : list Z) : dres A :=
  match m b with DOk (a, _) => DOk a | DErr => DErr | DPanic => DPanic end.

Definition be32 (w : Z) : list Z := [(w / 16777216) mod 256; (w / 65536) mod 256; (w / 256) mod 256; w mod 256].

(* ------------------------------------------------------------------ packets *)
Inductive packet : Type :=
| PError (code : Z)
| PSession (flags : Z) (name : list Z)
| PRequest (m : Z)
| PInstance (id : list Z) (ty : Z) (v1 v2 v3 : Z) (model serial : list Z)
| PStatus (name : list Z) (state : Z) (err : option Z)
| PMotion (m : motion)
| PGnss (w : list Z) (sat status : Z)           (* 5 words *)
| PEngine (dd ae rpm st : Z)
| PTarget (w : list Z) (constraint : Z)         (* 6 words *)
| PControl (kind : Z) (on : bool)
| PRotator (src : Z) (w : list Z) (rf : Z)      (* 3 words *)
| PActor (name : list Z) (segs : list (list Z * list Z)).  (* per segment: name, 6 words *)

Definition ptype (p : packet) : Z :=
  match p with
  | PError _ => type_error | PSession _ _ => type_session | PRequest _ => type_request
  | PInstance _ _ _ _ _ _ _ => type_instance | PStatus _ _ _ => type_status | PMotion _ => type_motion
  | PGnss _ _ _ => type_gnss | PEngine _ _ _ _ => type_engine | PTarget _ _ => type_target
  | PControl _ _ => type_control | PRotator _ _ _ => type_rotator | PActor _ _ => type_actor
  end.

(* Packetize::MESSAGE_SIZE *)
Definition fixed_size (t : Z) : option Z :=
  if t =? type_error then Some size_error else if t =? type_request then Some size_request
  else if t =? type_gnss then Some size_gnss else if t =? type_engine then Some size_engine
  else if t =? type_target then Some size_target else if t =? type_control then Some size_control
  else if t =? type_rotator then Some size_rotator else None.


Definition enc_motion_payload (m : motion) : list Z :=
  match m with
  | StopAll => [motion_type_stop_all] | ResumeAll => [motion_type_resume_all] | ResetAll => [motion_type_reset_all]
  | StraightDrive v => motion_type_straight_drive :: be16 (v mod 65536)
  | Change cs => motion_type_change :: Z.of_nat (length cs) mod 256
                 :: flat_map (fun e => be16 (fst e) ++ be16 (snd e mod 65536)) cs
  end.

Definition enc_payload (p : packet) : list Z :=
  match p with
  | PError c => [c]
  | PSession f n => f :: n
  | PRequest m => [m]
  | PInstance id ty a b c model serial =>
      id ++ [ty; a; b; c] ++ be16 (lenb model) ++ model ++ be16 (lenb serial) ++ serial
  | PStatus n st e =>
      be16 (lenb n) ++ n ++ [st] ++ (match e with Some k => [1; k] | None => [0] end)
  | PMotion m => enc_motion_payload m
  | PGnss w sat st => flat_map be32 w ++ [sat; st]
  | PEngine dd ae rpm st => [dd; ae] ++ be16 rpm ++ [st]
  | PTarget w c => flat_map be32 w ++ [c]
  | PControl k on => [k; if on then 1 else 0]
  | PRotator s w r => s :: flat_map be32 w ++ [r]
  | PActor n segs =>
      be16 (lenb n) ++ n ++ [Z.of_nat (length segs) mod 256]
      ++ flat_map (fun s => be16 (lenb (fst s)) ++ fst s ++ flat_map be32 (snd s)) segs
  end.

Definition encode (p : packet) : list Z :=
  let pl := enc_payload p in enc_header (ptype p) (lenb pl mod 65536) ++ pl.

(* i16 from a big-endian u16 *)
Definition to_i16 (u : Z) : Z := if u <? 32768 then u else u - 65536.

Definition engine_state_ok (b : Z) : bool :=
  (b =? engine_state_NoRequest) || (b =? engine_state_Starting) || (b =? engine_state_Stopping) || (b =? engine_state_Request).
Definition actuator_ok_b (a : Z) : bool := (0 <=? a) && (a <? 6).
Definition constraint_ok (b : Z) : bool := existsb (Z.eqb b) constraint_values.
Definition control_kind_ok (k : Z) : bool := existsb (Z.eqb k) control_types.
(* controls without an on/off argument decode with the literal `on` byte ignored *)
Definition control_is_flagless (k : Z) : bool := (k =? control_type_hydraulic_reset) || (k =? control_type_machine_shutdown).

Fixpoint rd_words (n : nat) : rd (list Z) :=
  match n with
  | O => ret []
  | S n' => w <- get_u32 ;; ws <- rd_words n' ;; ret (w :: ws)
  end.

Fixpoint rd_changes (n : nat) : rd (list (Z * Z)) :=
  match n with
  | O => ret []
  | S n' => a <- get_u16 ;;
            (if actuator_ok_b a then v <- get_u16 ;; cs <- rd_changes n' ;; ret ((a, to_i16 v) :: cs) else fail)
  end.

(* Motion::try_from *)
Definition dec_motion_payload : rd motion :=
  tag <- get_u8 ;;
  if tag =? motion_type_stop_all then ret StopAll
  else if tag =? motion_type_resume_all then ret ResumeAll
  else if tag =? motion_type_reset_all then ret ResetAll
  else if tag =? motion_type_straight_drive then
    (n <- remaining ;; if n =? 2 then v <- get_u16 ;; ret (StraightDrive (to_i16 v)) else fail)
  else if tag =? motion_type_change then
    (n <- remaining ;; if n <? 1 then fail else
     count <- get_u8 ;;
     if motion_max_change_set_count <? count then fail else
     n' <- remaining ;; if negb (n' =? count * 4) then fail else
     cs <- rd_changes (Z.to_nat count) ;; ret (Change cs))
  else fail.

Fixpoint rd_segments (n : nat) : rd (list (list Z * list Z)) :=
  match n with
  | O => ret []
  | S n' =>
      r <- remaining ;; if r <? 2 then fail else
      l <- get_u16 ;;
      r' <- remaining ;; if r' <? l + 24 then fail else
      nm <- take_n l ;; ws <- rd_words 6 ;; rest <- rd_segments n' ;; ret ((nm, ws) :: rest)
  end.

(* P::try_from(buffer) for each packet type *)
Definition dec_error : rd packet :=
  c <- get_u8 ;; if (0 <=? c) && (c <=? 3) then ret (PError c) else fail.
Definition dec_session : rd packet :=
  f <- get_u8 ;; if negb (Z.land f session_flag_mask =? 0) then fail else
  r <- remaining ;; n <- take_n r ;; ret (PSession f n).
Definition dec_request : rd packet := m <- get_u8 ;; ret (PRequest m).
Definition dec_instance : rd packet :=
  r <- remaining ;; if r <? 22 then fail else
  id <- take_n 16 ;; ty <- get_u8 ;;
  if negb ((1 <=? ty) && (ty <=? 6)) then fail else
  a <- get_u8 ;; b <- get_u8 ;; c <- get_u8 ;;
  ml <- get_u16 ;; r1 <- remaining ;; if r1 <? ml + 2 then fail else
  model <- take_n ml ;;
  sl <- get_u16 ;; r2 <- remaining ;; if r2 <? sl then fail else
  serial <- take_n sl ;; ret (PInstance id ty a b c model serial).
Definition dec_status : rd packet :=
  r <- remaining ;; if r <? 2 then fail else
  l <- get_u16 ;; r1 <- remaining ;; if r1 <? l + 2 then fail else
  nm <- take_n l ;; st <- get_u8 ;;
  if negb (existsb (Z.eqb st) module_states) then fail else
  e <- get_u8 ;;
  if e =? 0 then ret (PStatus nm st None)
  else if e =? 1 then
    (r2 <- remaining ;; if r2 <? 1 then fail else
     k <- get_u8 ;; if (0 <=? k) && (k <=? 4) then ret (PStatus nm st (Some k)) else fail)
  else fail.
Definition dec_motion_p : rd packet := m <- dec_motion_payload ;; ret (PMotion m).
Definition dec_gnss : rd packet :=
  w <- rd_words 5 ;; sat <- get_u8 ;; st <- get_u8 ;;
  if existsb (Z.eqb st) gnss_statuses then ret (PGnss w sat st) else fail.
Definition dec_engine : rd packet :=
  dd <- get_u8 ;; ae <- get_u8 ;; rpm <- get_u16 ;; st <- get_u8 ;;
  if engine_state_ok st then ret (PEngine dd ae rpm st) else fail.
Definition dec_target : rd packet :=
  w <- rd_words 6 ;; c <- get_u8 ;; if constraint_ok c then ret (PTarget w c) else fail.
Definition dec_control : rd packet :=
  k <- get_u8 ;; on <- get_u8 ;;
  if control_kind_ok k then ret (PControl k (if control_is_flagless k then true else on =? 1)) else fail.
Definition dec_rotator : rd packet :=
  s <- get_u8 ;; w <- rd_words 3 ;; r <- get_u8 ;;
  if (r =? 0) || (r =? 1) then ret (PRotator s w r) else fail.
Definition dec_actor : rd packet :=
  r <- remaining ;; if r <? 2 then fail else
  l <- get_u16 ;; r1 <- remaining ;; if r1 <? l + 1 then fail else
  nm <- take_n l ;; cnt <- get_u8 ;;
  segs <- rd_segments (Z.to_nat cnt) ;; ret (PActor nm segs).

Definition dec_payload (t : Z) : rd packet :=
  if t =? type_error then dec_error
  else if t =? type_session then dec_session
  else if t =? type_request then dec_request
  else if t =? type_instance then dec_instance
  else if t =? type_status then dec_status
  else if t =? type_motion then dec_motion_p
  else if t =? type_gnss then dec_gnss
  else if t =? type_engine then dec_engine
  else if t =? type_target then dec_target
  else if t =? type_control then dec_control
  else if t =? type_rotator then dec_rotator
  else if t =? type_actor then dec_actor
  else fail.

Definition known_type (t : Z) : bool := existsb (Z.eqb t) all_types.

(* Stream::recv_packet::<P>(size) on a payload of exactly `size` bytes: the three size gates in
   the code's order, then P::try_from.  (The payload is consumed in every case since 57a9948.) *)
Definition recv_packet (t : Z) (payload : list Z) : dres packet :=
  let size := lenb payload in
  if size =? 0 then DErr
  else match fixed_size t with
       | Some s => if negb (size =? s) then DErr
                   else if max_payload_size <? size then DErr else run (dec_payload t) payload
       | None => if max_payload_size <? size then DErr else run (dec_payload t) payload
       end.
