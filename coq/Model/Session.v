(* Model of one client session of UnixServer (service/server.rs: spawn_client_session + parse),
   after fix commits 3a26767 (cancel-safe header read) and 57a9948 (rejected frames consume their
   payload).  The session is a state machine over arriving byte chunks, published signals and the
   end of the connection; its outputs are the commands dispatched on the command channel and the
   packets written back to the client.  No proofs in this file. *)
From Coq Require Import ZArith List Bool.
Import ListNotations.
Require Import GV.Gen.Consts GV.Model.Governor GV.Model.Hcu GV.Model.Packets.
Local Open Scope Z_scope.

(* what the session does that others can see *)
Inductive act : Type :=
| ACmd (p : packet)        (* object sent on the command channel (as its wire-level packet) *)
| AInstance                (* the daemon's instance record written to the client *)
| ASignal (p : packet).    (* a published signal forwarded to a streaming client *)

Inductive sstate : Type :=
| Running (flags : Z) (buf : list Z)   (* session flags; bytes received but not yet consumed *)
| Crashed.                              (* the session task panicked: no failsafe, nothing more *)

Definition has_flag (flags bit : Z) : bool := negb (Z.land flags bit =? 0).

(* UnixServer::parse for one complete frame (type t, payload of the declared length).
   None = a panic inside a decoder. *)
Definition handle (flags t : Z) (payload : list Z) : option (Z * list act) :=
  if t =? type_session then
    match recv_packet t payload with
    | DOk (PSession f _) => Some (f, [AInstance])
    | DOk _ => Some (flags, [])
    | DErr => Some (flags, [])        (* failed upgrade: the session keeps its flags *)
    | DPanic => None
    end
  else if (t =? type_engine) || (t =? type_motion) || (t =? type_target) || (t =? type_control) then
    match recv_packet t payload with
    | DOk p => Some (flags, [ACmd p])
    | DErr => Some (flags, [])
    | DPanic => None
    end
  else Some (flags, []).               (* unknown message: payload skipped, error logged *)

(* consume every complete frame at the front of buf; fuel bounds the number of frames *)
Fixpoint drain (fuel : nat) (flags : Z) (buf : list Z) : sstate * list act :=
  match fuel with
  | O => (Running flags buf, [])
  | S fuel' =>
      if lenb buf <? 10 then (Running flags buf, [])
      else
        let rest := skipn 10 buf in
        match parse_header (firstn 10 buf) with
        | inr _ => drain fuel' flags rest         (* bad header: its 10 bytes are dropped *)
        | inl (t, n) =>
            if lenb rest <? n then (Running flags buf, [])      (* wait for the payload *)
            else
              match handle flags t (firstn (Z.to_nat n) rest) with
              | None => (Crashed, [])
              | Some (flags', acts) =>
                  let '(st, acts') := drain fuel' flags' (skipn (Z.to_nat n) rest) in
                  (st, acts ++ acts')
              end
        end
  end.

Inductive sevent : Type :=
| EBytes (bs : list Z)     (* the transport delivers a chunk *)
| ESignal (p : packet)     (* a signal is published on the signal channel *)
| EEnd.                    (* EOF / reset / abort / timeout / signal channel closed *)

Definition fuel_for (buf : list Z) : nat := S (length buf).

Definition sstep (st : sstate) (e : sevent) : sstate * list act :=
  match st with
  | Crashed => (Crashed, [])
  | Running flags buf =>
      match e with
      | EBytes bs => drain (fuel_for (buf ++ bs)) flags (buf ++ bs)
      | ESignal p => (st, if has_flag flags session_mode_stream then [ASignal p] else [])
      | EEnd => (st, if has_flag flags session_mode_failsafe then [ACmd (PMotion StopAll)] else [])
      end
  end.

Fixpoint srun (st : sstate) (evs : list sevent) : sstate * list act :=
  match evs with
  | [] => (st, [])
  | e :: t => let '(st', a) := sstep st e in let '(st'', a') := srun st' t in (st'', a ++ a')
  end.

Definition session0 : sstate := Running 0 [].

Definition cmds_of (acts : list act) : list packet :=
  flat_map (fun a => match a with ACmd p => [p] | _ => [] end) acts.
