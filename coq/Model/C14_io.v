From Coq Require Import ZArith List Bool Arith.
Import ListNotations.
Require Import GV.Gen.Consts GV.Model.Governor GV.Model.Hcu GV.Model.Packets GV.Model.Session GV.Model.Broadcast GV.Model.Stream
  GV.Model.IO GV.Model.Sess_io GV.Model.C13_io.
Local Open Scope Z_scope.

(* the identity the harness gives the daemon (harness/src/session.rs the_instance) *)
Definition instance_bytes : list Z :=
  [213; 91; 205; 117; 141; 48; 73; 175; 172; 24; 238; 124; 188; 231; 130; 47; 1; 3; 5; 13;
   0; 11; 118; 101; 114; 105; 102; 45; 109; 111; 100; 101; 108; 0; 7; 86; 46; 48; 48; 48; 48; 49].

Fixpoint dec_sigpkts (n : nat) (l : list Z) : option (list packet * list Z) :=
  match n with
  | O => Some ([], l)
  | S n' => match l with
            | t :: len :: r =>
                match take_list len r with
                | Some (pl, r') =>
                    match Packets.run (dec_payload t) pl with
                    | DOk p => match dec_sigpkts n' r' with Some (ps, r'') => Some (p :: ps, r'') | None => None end
                    | _ => None end
                | None => None end
            | _ => None end
  end.

Fixpoint dec_sops (fuel : nat) (l : list Z) : option (list sop) :=
  match fuel with
  | O => match l with [] => Some [] | _ => None end
  | S f =>
    match l with
    | [] => Some []
    | 1 :: s :: len :: r => match take_list len r with
                            | Some (bs, r') => option_map (cons (OWrite (Z.to_nat s) bs)) (dec_sops f r')
                            | None => None end
    | 2 :: k :: r => if (k <? 0) || (lenb r <? k) then None else
                     match dec_sigpkts (Z.to_nat k) r with
                     | Some (ps, r') => option_map (cons (OPublish ps)) (dec_sops f r')
                     | None => None end
    | 3 :: s :: r => option_map (cons (OClose (Z.to_nat s))) (dec_sops f r)
    | _ => None end
  end.

(* signals are compared through their canonical wire form (rotation words zeroed, see C13) *)
Definition enc_act (a : act) : list Z :=
  match a with
  | AInstance => 21 :: lenb instance_bytes :: instance_bytes
  | ASignal p => match canon_pkt p with
                 | Some q => let pl := enc_payload q in ptype q :: lenb pl :: pl
                 | None => [-7] end
  | ACmd _ => []
  end.

Definition c14_run (l : list Z) : list Z :=
  match l with
  | 9 :: ma :: mi :: _ => [Zbool (is_compatible ma mi)]
  (* a streaming client that stops reading while `extra` signals are published behind the one its session is
     writing, and reads again later: it loses the overwritten ones (queue capacity 16) and nothing else,
     in order, whole frames; the other session loses nothing *)
  | 8 :: extra :: _ => [Z.max 0 (extra - 16); 1; 1; 0; 1]
  | ns :: r =>
      match dec_sops (length r) r with
      | Some ops =>
          let outs := ops_run [] (repeat (sess0 0) (Z.to_nat ns)) ops in
          Z.of_nat (length outs) :: flat_map (fun per => flat_map (fun acts => Z.of_nat (length acts) :: flat_map enc_act acts) per) outs
      | None => bad_case end
  | [] => bad_case end.

(* ---- the property on the observation: per publish op a streaming, open session receives exactly
   the last min(16, k) signals of the burst, in order, as frames that decode to the same object;
   others receive nothing; each decodable Session frame is answered by exactly one identity ---- *)
Fixpoint split_pkts (n : nat) (l : list Z) : option (list (list Z) * list Z) :=
  match n with
  | O => Some ([], l)
  | S n' => match l with
            | t :: len :: r => match take_list len r with
                               | Some (pl, r') => match split_pkts n' r' with
                                                  | Some (ps, r'') => Some ((t :: len :: pl) :: ps, r'')
                                                  | None => None end
                               | None => None end
            | _ => None end
  end.
Fixpoint split_sessions (ns : nat) (l : list Z) : option (list (list (list Z)) * list Z) :=
  match ns with
  | O => Some ([], l)
  | S n' => match l with
            | k :: r => if (k <? 0) || (lenb r <? k) then None else
                        match split_pkts (Z.to_nat k) r with
                        | Some (ps, r') => match split_sessions n' r' with
                                           | Some (ss, r'') => Some (ps :: ss, r'')
                                           | None => None end
                        | None => None end
            | [] => None end
  end.

(* reference bookkeeping per session: flags of the last decodable Session frame written in whole
   frames (the generator writes whole frames), open? *)
Record sref := { sr_flags : Z; sr_open : bool }.

Definition frames_of_bytes (bs : list Z) : list (Z * list Z) :=
  (* the generator writes whole well-formed frames; split them *)
  (fix go (fuel : nat) (b : list Z) :=
     match fuel with O => [] | S f =>
     match parse_header (firstn 10 b) with
     | inl (t, n) => (t, firstn (Z.to_nat n) (skipn 10 b)) :: go f (skipn (Z.to_nat n) (skipn 10 b))
     | inr _ => [] end end) (length bs) bs.

Definition zl_eqb (a b : list Z) : bool := if list_eq_dec Z.eq_dec a b then true else false.
Fixpoint all2 {X Y} (p : X -> Y -> bool) (a : list X) (b : list Y) : bool :=
  match a, b with [], [] => true | x :: a', y :: b' => p x y && all2 p a' b' | _, _ => false end.

Fixpoint c14_walk (ns : nat) (refs : list sref) (ops : list sop) (o : list Z) : bool :=
  match ops with
  | [] => match o with [] => true | _ => false end
  | op :: ops' =>
      match split_sessions ns o with
      | Some (per, rest) =>
          match op with
          | OWrite k bs =>
              let fr := frames_of_bytes bs in
              let ok_sess := filter (fun f => (fst f =? type_session) && match recv_packet (fst f) (snd f) with DOk (PSession _ _) => true | _ => false end) fr in
              let newflags := fold_left (fun fl f => match recv_packet (fst f) (snd f) with DOk (PSession f0 _) => if fst f =? type_session then f0 else fl | _ => fl end) fr in
              (* exactly one identity per decodable upgrade, for the writing session; nobody else hears anything *)
              let is_open := match nth_error refs k with Some r => sr_open r | None => false end in
              all2 (fun (i : nat) pk =>
                      if Nat.eqb i k && is_open then all2 (fun _ x => zl_eqb x (21 :: lenb instance_bytes :: instance_bytes)) ok_sess pk
                      else match pk with [] => true | _ => false end) (seq 0 ns) per
              && c14_walk ns (updn refs k (fun r => {| sr_flags := if sr_open r then newflags (sr_flags r) else sr_flags r; sr_open := sr_open r |})) ops' rest
          | OPublish sigs =>
              let keep := skipn (length sigs - sigcap) sigs in
              all2 (fun r pk =>
                      if sr_open r && has_flag (sr_flags r) session_mode_stream
                      then all2 (fun p x => zl_eqb x (enc_act (ASignal p))) keep pk
                      else match pk with [] => true | _ => false end) refs per
              && c14_walk ns refs ops' rest
          | OClose k =>
              forallb (fun pk => match pk with [] => true | _ => false end) per
              && c14_walk ns (updn refs k (fun r => {| sr_flags := sr_flags r; sr_open := false |})) ops' rest
          end
      | None => false end
  end.

Definition c14_check (l o : list Z) : bool :=
  match l with
  | 9 :: ma :: mi :: _ => zl_eqb o [Zbool ((ma =? version_major) && (mi =? version_minor))]
  | 8 :: extra :: _ => zl_eqb o [Z.max 0 (extra - 16); 1; 1; 0; 1]
  | ns :: r =>
      match dec_sops (length r) r, o with
      | Some ops, n :: t => (n =? Z.of_nat (length ops)) && c14_walk (Z.to_nat ns) (repeat {| sr_flags := 0; sr_open := true |} (Z.to_nat ns)) ops t
      | _, _ => false end
  | [] => false end.
Definition c14_nontriv (l o : list Z) : bool :=
  match l with 9 :: _ => true | 8 :: _ => true | _ :: r => existsb (Z.eqb 2) (firstn 40 r) | [] => false end.
