From Coq Require Import ZArith List Bool.
Import ListNotations.
Require Import GV.Gen.Consts GV.Model.Outcome GV.Model.J1939 GV.Model.Governor GV.Model.Hcu GV.Model.Object
  GV.Model.HcuUnit GV.Model.Units GV.Model.Volvo GV.Model.IO GV.Model.C07_io GV.Model.C01_io GV.Spec.C08_spec.
Local Open Scope Z_scope.

Fixpoint dec_vevents (fuel : nat) (l : list Z) : option (list vevent) :=
  match fuel with
  | O => match l with [] => Some [] | _ => None end
  | S fuel' =>
    match l with
    | [] => Some []
    | 0 :: t => option_map (cons VTick) (dec_vevents fuel' t)
    | 1 :: b0 :: b1 :: b2 :: b3 :: b4 :: b5 :: b6 :: b7 :: t =>
        option_map (cons (VStatus [b0; b1; b2; b3; b4; b5; b6; b7])) (dec_vevents fuel' t)
    | 2 :: dd :: ae :: rpm :: st :: t =>
        match estate_of st with
        | Some s => option_map (cons (VCmd {| e_demand := dd; e_actual := ae; e_rpm := rpm; e_state := s |})) (dec_vevents fuel' t)
        | None => None end
    | 3 :: k :: t =>
        (match other_object k with
         | OEngine _ => None
         | o => option_map (cons (VOther o)) (dec_vevents fuel' t) end)
    | 4 :: ms :: t => option_map (cons (VWait ms)) (dec_vevents fuel' t)
    (* a command (5) or a status frame (6) handled by the other task WHILE tick is between its reads of the shared
       context and its emission: tick reads each slot once, so this is observably tick; then the other step *)
    | 5 :: dd :: ae :: rpm :: st :: t =>
        match estate_of st with
        | Some s => option_map (fun r => VTick :: VCmd {| e_demand := dd; e_actual := ae; e_rpm := rpm; e_state := s |} :: r) (dec_vevents fuel' t)
        | None => None end
    | 6 :: b0 :: b1 :: b2 :: b3 :: b4 :: b5 :: b6 :: b7 :: t =>
        option_map (fun r => VTick :: VStatus [b0; b1; b2; b3; b4; b5; b6; b7] :: r) (dec_vevents fuel' t)
    | _ => None
    end
  end.

Definition c08_case_of (l : list Z) : option c08_case :=
  match l with
  | da :: sa :: t => match dec_vevents (length t) t with
                     | Some evs => Some {| g_u := {| u_da := da; u_sa := sa |}; g_events := evs |}
                     | None => None end
  | _ => None
  end.

Definition c08_run (l : list Z) : list Z :=
  match c08_case_of l with Some c => enc_obs (c08_model c) | None => bad_case end.
Definition c08_check (l o : list Z) : bool :=
  match c08_case_of l, dec_obs o with
  | Some c, Some ob => implb (c08_wf c) (c08_spec_ok c ob)
  | _, _ => false
  end.
(* non-trivial: a history with an engine command and a later tick *)
Fixpoint cmd_then_tick (seen : bool) (evs : list vevent) : bool :=
  match evs with
  | [] => false
  | VCmd _ :: t => cmd_then_tick true t
  | VTick :: t => seen || cmd_then_tick seen t
  | _ :: t => cmd_then_tick seen t
  end.
Definition c08_nontriv (l o : list Z) : bool :=
  match c08_case_of l with Some c => c08_wf c && cmd_then_tick false (g_events c) | None => false end.
