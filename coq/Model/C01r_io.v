(* C01 at the runtime level: cases "3000 :: <authority header> ++ events" run the real
   Runtime::schedule_net_service (setup/receive task, cycle task, command task) with the real
   NetworkAuthority over the emulated bus; commands are PUBLISHED on the runtime's command channel
   (capacity QUEUE_SIZE_COMMAND) and reach the drivers only through the command task:
       1 <motion>   publish a motion command          7 k   publish a non-motion object
       3            run until every task is blocked   0     the same, then one control cycle
   A published command is ACCEPTED when the command task hands it to on_command.  The channel keeps
   the newest QUEUE_SIZE_COMMAND objects of a burst the (idle) command task has not yet taken; older
   ones are skipped (C15), the command task goes on.  The first observation is the start-up step
   (address claim, then the first cycle). *)
From Coq Require Import ZArith List Bool.
Import ListNotations.
Require Import GV.Gen.Consts GV.Model.Outcome GV.Model.J1939 GV.Model.Governor GV.Model.Hcu GV.Model.Object
  GV.Model.HcuUnit GV.Model.Units GV.Model.CanNet GV.Model.Authority GV.Model.IO GV.Model.C01_io GV.Model.Units_io GV.Model.Auth_io
  GV.Model.C01a_io GV.Spec.C02_spec GV.Spec.C01_spec.
Local Open Scope Z_scope.

Inductive revent := RSend (o : object) | RSettle | RTick.

Definition lastn {A} (n : nat) (l : list A) : list A := skipn (length l - n) l.
Definition qcap : nat := Z.to_nat queue_size_command.

(* the command task takes what the channel still holds, oldest first *)
Fixpoint deliver (a : auth) (os : list object) : auth * list frame :=
  match os with
  | [] => (a, [])
  | o :: t => let '(a1, f1) := auth_on_command a 0 o in
              let '(a2, f2) := deliver a1 t in (a2, f1 ++ f2)
  end.

Fixpoint rrun (a : auth) (pend : list object) (evs : list revent) : list (list frame) :=
  match evs with
  | [] => []
  | RSend o :: t => rrun a (pend ++ [o]) t
  | RSettle :: t => let '(a1, fs) := deliver a (lastn qcap pend) in fs :: rrun a1 [] t
  | RTick :: t => let '(a1, fs) := deliver a (lastn qcap pend) in
                  let o := auth_on_tick a1 0 in
                  (fs ++ to_frames o) :: rrun (to_auth o) [] t
  end.

Fixpoint dec_revents (fuel : nat) (l : list Z) : option (list revent) :=
  match fuel with
  | O => match l with [] => Some [] | _ => None end
  | S fuel' =>
    match l with
    | [] => Some []
    | 1 :: t => match dec_motion t with
                | Some (m, r) => option_map (cons (RSend (OMotion m))) (dec_revents fuel' r)
                | None => None end
    | 7 :: k :: t => option_map (cons (RSend (other_object k))) (dec_revents fuel' t)
    | 3 :: t => option_map (cons RSettle) (dec_revents fuel' t)
    | 0 :: t => option_map (cons RTick) (dec_revents fuel' t)
    | _ => None
    end
  end.

Record rcase := { r_addr : Z; r_name : jname; r_confs : list dconf; r_events : list revent }.
Definition rcase_of (l : list Z) : option rcase :=
  match ahead_of l with
  | Some (addr, nm, cs, r) =>
      match dec_revents (length r) r with
      | Some evs => Some {| r_addr := addr; r_name := nm; r_confs := cs; r_events := evs |}
      | None => None end
  | None => None
  end.

Definition rmodel (c : rcase) : list (list frame) :=
  let a0 := auth_new 0 (r_addr c) (r_name c) (r_confs c) in
  let o := auth_on_tick a0 0 in
  (auth_setup_frames a0 ++ to_frames o) :: rrun (to_auth o) [] (r_events c).

Definition c01r_run (l : list Z) : list Z :=
  match rcase_of l with
  | Some c =>
      if existsb (fun d => (c_key d =? key_kuebler_encoder) && negb ((106 <=? c_da d) && (c_da d <=? 109))) (r_confs c)
      then panic_obs else
      let steps := rmodel c in Z.of_nat (length steps) :: flat_map enc_frames steps
  | None => bad_case
  end.

(* ---- the property on the real frames: exactly one driver, the hydraulic unit ---- *)
Fixpoint rlast_motion (cur : motion) (os : list object) : motion :=
  match os with
  | [] => cur
  | OMotion m :: t => rlast_motion m t
  | _ :: t => rlast_motion cur t
  end.

(* walk events and observed steps (after the start-up step), carrying the latest ACCEPTED motion:
   every cycle re-asserts exactly it; when it is stop-all the cycle is the lock frame alone *)
Fixpoint c01r_walk (u : unit_cfg) (cur : motion) (pend : list object) (evs : list revent) (steps : list (list frame)) : bool :=
  match evs with
  | [] => match steps with [] => true | _ => false end
  | RSend o :: evs' => c01r_walk u cur (pend ++ [o]) evs' steps
  | RSettle :: evs' =>
      match steps with
      | _ :: steps' => c01r_walk u (rlast_motion cur (lastn qcap pend)) [] evs' steps'
      | [] => false end
  | RTick :: evs' =>
      match steps with
      | fs :: steps' =>
          let cur' := rlast_motion cur (lastn qcap pend) in
          (match pend with
           | [] => c02_spec_ok {| k_da := u_da u; k_sa := u_sa u; k_motion := cur' |} fs
                   && (match cur' with StopAll => no_actuator_frame fs && Nat.eqb (length fs) 1 | _ => true end)
           | _ => true end)
          && c01r_walk u cur' [] evs' steps'
      | [] => false end
  end.

Fixpoint dec_steps (n : nat) (l : list Z) : option (list (list frame)) :=
  match n with
  | O => match l with [] => Some [] | _ => None end
  | S n' => match dec_frames l with
            | Some (fs, rest) => option_map (cons fs) (dec_steps n' rest)
            | None => None end
  end.
Definition rsteps_of (o : list Z) : option (list (list frame)) :=
  match o with
  | n :: t => if (n <? 0) || (Z.of_nat (length t) <? n) then None else dec_steps (Z.to_nat n) t
  | [] => None
  end.

Definition r_single_hcu (c : rcase) : option unit_cfg :=
  match r_confs c with
  | [d] => if c_key d =? key_laixer_hcu
           then Some {| u_da := c_da d; u_sa := match c_sa d with Some s => s | None => r_addr c end |}
           else None
  | _ => None
  end.
Definition r_wf (c : rcase) : bool :=
  is_byte (r_addr c) &&
  forallb (fun e => match e with RSend (OMotion m) => motion_wf m | _ => true end) (r_events c).

Definition c01r_check (l o : list Z) : bool :=
  match rcase_of l, rsteps_of o with
  | Some c, Some (_ :: st) =>
      match r_single_hcu c with
      | Some u => implb (r_wf c && is_byte (u_da u) && is_byte (u_sa u)) (c01r_walk u StopAll [] (r_events c) st)
      | None => true
      end
  | _, _ => false
  end.

(* non-trivial: a drive command published, and later a cycle *)
Fixpoint r_has_motion_then_tick (seen : bool) (evs : list revent) : bool :=
  match evs with
  | [] => false
  | RSend (OMotion (StraightDrive _)) :: t | RSend (OMotion (Change (_ :: _))) :: t => r_has_motion_then_tick true t
  | RTick :: t => seen || r_has_motion_then_tick seen t
  | _ :: t => r_has_motion_then_tick seen t
  end.
Definition c01r_nontriv (l o : list Z) : bool :=
  match rcase_of l with
  | Some c => match r_single_hcu c with Some _ => r_has_motion_then_tick false (r_events c) | None => false end
  | None => false
  end.

(* ---- all three levels behind one entry point ---- *)
Definition c01y_run (l : list Z) : list Z := match l with 3000 :: r => c01r_run r | _ => c01x_run l end.
Definition c01y_check (l o : list Z) : bool := match l with 3000 :: r => c01r_check r o | _ => c01x_check l o end.
Definition c01y_nontriv (l o : list Z) : bool := match l with 3000 :: r => c01r_nontriv r o | _ => c01x_nontriv l o end.
