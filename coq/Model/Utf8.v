(* UTF-8 as String::from_utf8_lossy sees it (RFC 3629 well-formed sequences): a byte string that
   is valid UTF-8 is preserved by the decoders; anything else is replaced by U+FFFD (EF BF BD)
   and is therefore not comparable byte for byte.  `utf8_take k l` = the bytes of the first k
   characters of l (all of l if it has fewer), or None if an ill-formed sequence or a U+FFFD
   character occurs among them. *)
From Coq Require Import ZArith List Bool.
Import ListNotations.
Local Open Scope Z_scope.

Definition cont (b : Z) : bool := (128 <=? b) && (b <=? 191).
Definition in_rng (lo hi b : Z) : bool := (lo <=? b) && (b <=? hi).

Definition utf8_next (l : list Z) : option (list Z * list Z) :=
  match l with
  | [] => None
  | b0 :: t =>
      if in_rng 0 127 b0 then Some ([b0], t)
      else if in_rng 194 223 b0 then
        match t with b1 :: t1 => if cont b1 then Some ([b0; b1], t1) else None | _ => None end
      else if in_rng 224 239 b0 then
        match t with
        | b1 :: b2 :: t2 =>
            let ok1 := if b0 =? 224 then in_rng 160 191 b1 else if b0 =? 237 then in_rng 128 159 b1 else cont b1 in
            if ok1 && cont b2 then Some ([b0; b1; b2], t2) else None
        | _ => None end
      else if in_rng 240 244 b0 then
        match t with
        | b1 :: b2 :: b3 :: t3 =>
            let ok1 := if b0 =? 240 then in_rng 144 191 b1 else if b0 =? 244 then in_rng 128 143 b1 else cont b1 in
            if ok1 && cont b2 && cont b3 then Some ([b0; b1; b2; b3], t3) else None
        | _ => None end
      else None
  end.

Definition is_replacement (c : list Z) : bool :=
  match c with [x; y; z] => (x =? 239) && (y =? 191) && (z =? 189) | _ => false end.

Fixpoint utf8_take_f (fuel : nat) (k : nat) (l : list Z) : option (list Z) :=
  match fuel with
  | O => None
  | S f =>
      match k, l with
      | O, _ => Some []
      | _, [] => Some []
      | S k', _ =>
          match utf8_next l with
          | Some (c, rest) =>
              if is_replacement c then None else
              match utf8_take_f f k' rest with Some r => Some (c ++ r) | None => None end
          | None => None
          end
      end
  end.
Definition utf8_take (k : nat) (l : list Z) : option (list Z) := utf8_take_f (S (length l)) k l.
(* the whole string is well formed and free of U+FFFD *)
Definition utf8_clean (l : list Z) : bool :=
  match utf8_take (length l) l with Some _ => true | None => false end.
