From Coq Require Import ZArith List Bool.
Import ListNotations.
Require Import GV.Gen.Consts GV.Model.Outcome GV.Model.J1939 GV.Model.Governor GV.Model.Hcu GV.Model.Object
  GV.Model.HcuUnit GV.Model.Units GV.Model.IO GV.Model.C07_io GV.Spec.Units_spec.
Require GV.Model.C17_io.
Local Open Scope Z_scope.

Definition kind_of (z : Z) : option ukind :=
  match z with 1 => Some KHcu | 2 => Some KVcu | 3 => Some KEcu | 4 => Some KEncoder | 5 => Some KInclino
             | 6 => Some KEms | 7 => Some KVolvo | _ => None end.

Definition ucase_of (l : list Z) : option ucase :=
  match l with
  | k :: da :: sa :: id :: d =>
      match kind_of k with
      | Some kk => Some {| uc_kind := kk; uc_u := {| u_da := da; u_sa := sa |}; uc_frame := {| f_id := id; f_data := d |} |}
      | None => None end
  | _ => None
  end.

(* objects as the harness prints them; a rotation is reported by its source, reference and one
   bit saying that the float rotation matches the reference formula (checked in the harness) *)
Definition enc_object (o : object) : list Z :=
  match o with
  | OMotion m => 3 :: enc_motion m
  | OEngine e => [2; e_demand e; e_actual e; e_rpm e; estate_code (e_state e)]
  | ORotator (src :: rf :: _) => [5; src; rf; 1]
  | ORotator _ => [5; -1; -1; 0]
  | OControl k on => [4; k; Zbool on]
  | OTarget _ => [6]
  | OStatus _ => [7]
  end.

Definition enc_recv (r : recv_out) : list Z :=
  [r_err r; rx_count (r_ctx r)]
  ++ (match rx_last (r_ctx r) with Some o => 1 :: enc_object o | None => [0] end)
  ++ [Z.of_nat (length (r_sigs r))] ++ flat_map enc_object (r_sigs r).

(* a case starting with 300 is a history of two frames on ONE driver context: the first frame (exactly
   8 data bytes) is received and forgotten, what is printed is what the second one did *)
Definition ucase2_of (l : list Z) : option (frame * ucase) :=
  match l with
  | 300 :: k :: da :: sa :: id1 :: r =>
      if Z.of_nat (length r) <? 8 then None else
      match ucase_of (k :: da :: sa :: skipn 8 r) with
      | Some c => Some ({| f_id := id1; f_data := firstn 8 r |}, c)
      | None => None end
  | _ => None
  end.
Definition unit_model2 (f1 : frame) (c : ucase) : outcome recv_out :=
  if Z.of_nat (length (f_data (uc_frame c))) =? 8
  then Ok (unit_recv (uc_kind c) (uc_u c) (r_ctx (unit_recv (uc_kind c) (uc_u c) ctx0 f1)) (uc_frame c)) else Panic.

(* a case starting with 200 is a raw can_frame pushed through the real socket path
   (CANSocket::recv + ControlNetwork::recv): the 0xFF normalisation half of C06, shared with C17 *)
Definition units_run (l : list Z) : list Z :=
  match l with 200 :: rest => C17_io.c17_run rest
  | 300 :: _ => match ucase2_of l with
                | Some (f1, c) => match unit_model2 f1 c with Ok r => enc_recv r | Panic => panic_obs end
                | None => bad_case end
  | _ =>
  match ucase_of l with
  | Some c => match unit_model c with Ok r => enc_recv r | Panic => panic_obs end
  | None => bad_case
  end end.

(* the property predicates need the observation as a recv_out: decode what the harness printed.
   Rotator raw fields are not observable; they are re-derived from the frame by the reference
   decoders inside the predicates, so the observation only has to carry source/reference/ok. *)
Definition dec_object (l : list Z) (f : frame) (k : ukind) : option (object * list Z) :=
  match l with
  | 3 :: t => match dec_motion t with Some (m, r) => Some (OMotion m, r) | None => None end
  | 2 :: dd :: ae :: rpm :: st :: t =>
      match estate_of st with
      | Some s => Some (OEngine {| e_demand := dd; e_actual := ae; e_rpm := rpm; e_state := s |}, t)
      | None => None end
  | 5 :: src :: rf :: ok :: t =>
      (* an accepted rotation (ok = 1) stands for the reference rotation of this frame *)
      if ok =? 1 then
        let d := f_data f in
        match k with
        | KEncoder => Some (ORotator [src; rf; 0; (if le32 d 0 =? 4294967295 then 0 else le32 d 0); 0], t)
        | KInclino =>
            let s2 w := if w =? 65535 then 0 else if w <? 32768 then w else w - 65536 in
            Some (ORotator [src; rf; 1; s2 (le16 d 0); s2 (le16 d 2)], t)
        | _ => Some (ORotator [src; rf; -1; 0; 0], t)
        end
      else Some (ORotator [src; rf; -2; 0; 0], t)
  | _ => None
  end.

Fixpoint dec_objects (n : nat) (l : list Z) (f : frame) (k : ukind) : option (list object * list Z) :=
  match n with
  | O => Some ([], l)
  | S n' => match dec_object l f k with
            | Some (o, r) => match dec_objects n' r f k with
                             | Some (os, r') => Some (o :: os, r')
                             | None => None end
            | None => None end
  end.

Definition dec_recv (l : list Z) (c : ucase) : option (outcome recv_out) :=
  match l with
  | [-1] => Some Panic
  | err :: cnt :: t =>
      let k := uc_kind c in let f := uc_frame c in
      let last := match t with
                  | 0 :: t' => Some (None, t')
                  | 1 :: t' => match dec_object t' f k with Some (o, r) => Some (Some o, r) | None => None end
                  | _ => None end in
      match last with
      | Some (lo, n :: t'') =>
          if (n <? 0) || (Z.of_nat (length t'') <? n) then None else
          match dec_objects (Z.to_nat n) t'' f k with
          | Some (sigs, []) =>
              Some (Ok {| r_ctx := {| tx_last := None; rx_last := lo; rx_count := cnt |}; r_sigs := sigs; r_err := err |})
          | _ => None end
      | _ => None end
  | _ => None
  end.

Definition units_check (hist : bool) (spec : ucase -> outcome recv_out -> bool) (l o : list Z) : bool :=
  match l with 200 :: rest => C17_io.c17_check rest o
  | 300 :: _ =>
      (* the predicate is about the second frame alone, whatever came first (hist = false: the predicate
         speaks of the context's counters, which a history has already moved - not applied) *)
      negb hist ||
      match ucase2_of l with
      | Some (_, c) => match dec_recv o c with
                       | Some ob => implb (ucase_wf c) (spec c ob)
                       | None => false end
      | None => false end
  | _ =>
  match ucase_of l with
  | Some c => match dec_recv o c with
              | Some ob => implb (ucase_wf c) (spec c ob)
              | None => false end
  | None => false
  end end.

Definition c06_check := units_check true c06_spec_ok.
Definition c11_check := units_check false c11_spec_ok.
Definition c12_check := units_check true (fun c o => c12_spec_ok c o && c12_foreign_ok c o && c12_state_ok c o).

Definition units_nontriv (l o : list Z) : bool :=
  match l with 200 :: _ => true
  | 300 :: _ => match ucase2_of l with
                | Some (f1, c) => ucase_wf c && (id_sa (f_id (uc_frame c)) =? u_da (uc_u c)) && (id_sa (f_id f1) =? u_da (uc_u c))
                | None => false end
  | _ =>
  match ucase_of l with
  | Some c => ucase_wf c && (id_sa (f_id (uc_frame c)) =? u_da (uc_u c))
  | None => false end end.
