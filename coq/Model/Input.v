(* Model of the input daemon's pure pipeline (glonax-input/src/{joystick,gamepad,input}.rs):
   js_event record -> Event -> Scancode (Xbox / Logitech solo,left,right) -> InputState::try_from.
   Integer widths are explicit: values are i16, the axis negation saturates (fix 5ee3993).
   No proofs in this file. *)
From Coq Require Import ZArith List Bool.
Import ListNotations.
Require Import GV.Gen.Consts GV.Model.Governor GV.Model.Hcu.
Local Open Scope Z_scope.

(* joystick.rs: record type byte, number, value; Event::from *)
Inductive etype := TButton | TAxis | TButtonInit | TAxisInit.
Definition etype_of (ty : Z) : option etype :=
  if ty =? 1 then Some TButton else if ty =? 2 then Some TAxis
  else if ty =? 129 then Some TButtonInit else if ty =? 130 then Some TAxisInit else None.  (* else: unimplemented!() *)
Definition sat_neg (v : Z) : Z := if v =? -32768 then 32767 else - v.
Record event := { ev_ty : etype; ev_num : Z; ev_val : Z }.
Definition decode_event (ty num value : Z) : option event :=
  match etype_of ty with
  | Some t => Some {| ev_ty := t; ev_num := num;
                      ev_val := match t with TAxis | TAxisInit => sat_neg value | _ => value end |}
  | None => None end.

Inductive bstate := Pressed | Released.
Definition bstate_of (v : Z) : bstate := if v =? 1 then Pressed else Released.

Inductive scancode :=
| KSlew (v : Z) | KArm (v : Z) | KAttachment (v : Z) | KBoom (v : Z) | KLeftTrack (v : Z) | KRightTrack (v : Z)
| KAbort (b : bstate) | KConfirm (b : bstate) | KDriveLock (b : bstate) | KLimitMotion (b : bstate)
| KUp (b : bstate) | KDown (b : bstate).

(* i16::ramp *)
Definition ramp (v lower : Z) : Z := if (v <? lower) && (- lower <? v) then 0 else v.
(* i16 division truncates toward zero *)
Definition half (v : Z) : Z := Z.quot v 2.

Inductive mode := MXbox | MSolo | MLeft | MRight.
Record gpad := { rev_left : bool; rev_right : bool }.

(* ((value as i32 - i16::MAX as i32) / 2).abs() as i16 *)
Definition trigger (v : Z) : Z := Z.abs (Z.quot (v - 32767) 2).

Definition gp_map (m : mode) (g : gpad) (e : event) : gpad * option scancode :=
  match m with
  | MXbox =>
      match ev_ty e with
      | TAxis =>
          let n := ev_num e in let v := ev_val e in
          if n =? 1 then (g, Some (KArm v)) else if n =? 0 then (g, Some (KSlew v))
          else if n =? 4 then (g, Some (KBoom v)) else if n =? 3 then (g, Some (KAttachment v))
          else if n =? 2 then (g, Some (KLeftTrack (if rev_left g then - trigger v else trigger v)))
          else if n =? 5 then (g, Some (KRightTrack (if rev_right g then - trigger v else trigger v)))
          else if n =? 7 then (g, if 0 <? v then Some (KUp Pressed) else if v <? 0 then Some (KDown Pressed) else None)
          else (g, None)
      | TButton =>
          let n := ev_num e in let v := ev_val e in
          if n =? 4 then ({| rev_left := v =? 1; rev_right := rev_right g |}, None)
          else if n =? 5 then ({| rev_left := rev_left g; rev_right := v =? 1 |}, None)
          else if n =? 0 then (g, Some (KConfirm (bstate_of v)))
          else if n =? 1 then (g, Some (KAbort (bstate_of v)))
          else if n =? 2 then (g, Some (KDriveLock (bstate_of v)))
          else if n =? 3 then (g, Some (KLimitMotion (bstate_of v)))
          else (g, None)
      | _ => (g, None)
      end
  | _ =>
      match ev_ty e with
      | TAxis =>
          let n := ev_num e in let v := ev_val e in
          if n =? 1 then
            (g, Some (match m with
                      | MRight => KBoom (if v <? 0 then ramp v 3500 else ramp (half v) 1750)
                      | _ => KArm (ramp (half v) 1500) end))
          else if n =? 0 then
            (g, Some (match m with
                      | MRight => KAttachment (if v <? 0 then ramp (half v) 2000 else ramp v 4000)
                      | _ => KSlew (ramp (half v) 1000) end))
          else (g, None)
      | TButton => if ev_num e =? 1 then (g, Some (KAbort (bstate_of (ev_val e)))) else (g, None)
      | _ => (g, None)
      end
  end.

(* InputState *)
Record istate := { drive_lock : bool; motion_lock : bool; limit_motion : bool; engine_rpm : Z }.

Inductive iout := IMotion (m : motion) | IEngine (rpm : Z) (running : bool).   (* Engine::from_rpm / Engine::shutdown *)

Definition clamp_rpm (v : Z) : Z := Z.max 900 (Z.min 2100 v).
Definition one (a v : Z) : iout := IMotion (Change [(a, v)]).

Definition input_step (s : istate) (k : scancode) : istate * option iout :=
  match k with
  | KSlew v => if motion_lock s then (s, None)
               else (s, Some (one actuator_Slew (if limit_motion s then ramp (half v) 1000 else ramp v 1000)))
  | KArm v => if motion_lock s then (s, None)
              else (s, Some (one actuator_Arm (if limit_motion s then ramp (half v) 1500 else ramp v 1500)))
  | KAttachment v => if motion_lock s then (s, None)
                     else (s, Some (one actuator_Attachment
                            (if v <? 0 then (if limit_motion s then ramp (half v) 2000 else ramp v 2000) else ramp v 4000)))
  | KBoom v => if motion_lock s then (s, None)
               else (s, Some (one actuator_Boom
                      (if v <? 0 then ramp v 3500 else if limit_motion s then ramp (half v) 1750 else ramp v 1750)))
  | KLeftTrack v => if motion_lock s then (s, None)
                    else (s, Some (if drive_lock s then IMotion (StraightDrive (ramp v 2000)) else one actuator_LimpLeft (ramp v 2000)))
  | KRightTrack v => if motion_lock s then (s, None)
                     else (s, Some (if drive_lock s then IMotion (StraightDrive (ramp v 2000)) else one actuator_LimpRight (ramp v 2000)))
  | KUp Pressed =>
      if negb (motion_lock s) then (s, None)
      else let r := clamp_rpm (engine_rpm s + 100) in
           ({| drive_lock := drive_lock s; motion_lock := motion_lock s; limit_motion := limit_motion s; engine_rpm := r |}, Some (IEngine r true))
  | KDown Pressed =>
      if engine_rpm s <=? 900 then
        ({| drive_lock := drive_lock s; motion_lock := motion_lock s; limit_motion := limit_motion s; engine_rpm := 0 |}, Some (IEngine 0 false))
      else let r := clamp_rpm (engine_rpm s - 100) in
           ({| drive_lock := drive_lock s; motion_lock := motion_lock s; limit_motion := limit_motion s; engine_rpm := r |}, Some (IEngine r true))
  | KAbort Pressed => ({| drive_lock := drive_lock s; motion_lock := true; limit_motion := limit_motion s; engine_rpm := engine_rpm s |}, Some (IMotion StopAll))
  | KAbort Released => ({| drive_lock := drive_lock s; motion_lock := false; limit_motion := limit_motion s; engine_rpm := engine_rpm s |}, Some (IMotion ResumeAll))
  | KDriveLock Pressed => ({| drive_lock := true; motion_lock := motion_lock s; limit_motion := limit_motion s; engine_rpm := engine_rpm s |}, None)
  | KDriveLock Released => ({| drive_lock := false; motion_lock := motion_lock s; limit_motion := limit_motion s; engine_rpm := engine_rpm s |}, Some (IMotion (StraightDrive 0)))
  | KLimitMotion Pressed => ({| drive_lock := drive_lock s; motion_lock := motion_lock s; limit_motion := false; engine_rpm := engine_rpm s |}, None)
  | KLimitMotion Released => ({| drive_lock := drive_lock s; motion_lock := motion_lock s; limit_motion := true; engine_rpm := engine_rpm s |}, None)
  | _ => (s, None)
  end.

(* the main loop for one js_event record: only Motion and Engine objects are sent *)
Record dstate := { d_pad : gpad; d_in : istate }.
Definition start_state (full_motion : bool) : dstate :=
  {| d_pad := {| rev_left := false; rev_right := false |};
     d_in := {| drive_lock := false; motion_lock := true; limit_motion := negb full_motion; engine_rpm := 0 |} |}.

Definition daemon_step (m : mode) (d : dstate) (ty num value : Z) : option (dstate * option iout) :=
  match decode_event ty num value with
  | None => None                                     (* unimplemented!(): not a record the joystick interface produces *)
  | Some e =>
      let '(g, k) := gp_map m (d_pad d) e in
      match k with
      | Some code => let '(s, o) := input_step (d_in d) code in Some ({| d_pad := g; d_in := s |}, o)
      | None => Some ({| d_pad := g; d_in := d_in d |}, None)
      end
  end.

(* ---- glonax-control: word -> bool, sub-command -> object ---- *)
Definition lower (c : Z) : Z := if (65 <=? c) && (c <=? 90) then c + 32 else c.
Definition word_bool (w : list Z) : option bool :=
  let l := map lower w in
  let is (s : list Z) := if list_eq_dec Z.eq_dec l s then true else false in
  if is [49] || is [111; 110] || is [116; 114; 117; 101] then Some true
  else if is [48] || is [111; 102; 102] || is [102; 97; 108; 115; 101] then Some false
  else None.

(* toggle sub-commands: 0 motion-lock, then the control kinds *)
Definition cli_object (sub : Z) (w : list Z) : option iout + option (Z * bool) :=
  match word_bool w with
  | None => inl None
  | Some b => if sub =? 0 then inl (Some (IMotion (if b then StopAll else ResumeAll))) else inr (Some (sub, b))
  end.
