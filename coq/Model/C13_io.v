From Coq Require Import ZArith List Bool.
Import ListNotations.
Require Import GV.Gen.Consts GV.Model.Hcu GV.Model.Packets GV.Model.IO GV.Model.Utf8.
Local Open Scope Z_scope.

(* case kinds:
   1 b0..b9          header bytes given to Frame::try_from             obs: 0 t n | 1 errcode
   2 t len bytes..   payload handed to recv_packet::<P> for type t     obs: 0 <canonical packet> | 1 (Err) | -1 (panic)
   3 t len bytes..   bytes produced by the real to_bytes() of a random object of type t;
                     obs: roundtrip_ok, then the frame written by send_packet               *)
Definition hdr_err_code (e : hdr_err) : Z :=
  match e with HTooSmall => 1 | HInvalidHeader => 2 | HVersion => 3 | HEmpty => 4 | HExcessive => 5 | HPadding => 6 end.

Definition ascii (l : list Z) : bool := forallb (fun x => x <? 128) l.

(* what is compared of a decoded object: rotation words are re-parameterised by the implementation
   (euler -> matrix/quaternion -> euler) and names go through from_utf8_lossy / chars().take(64) *)
Definition zero3 (w : list Z) : list Z := firstn 3 w ++ [0; 0; 0].
Definition canon_pkt (p : packet) : option packet :=
  match p with
  | PSession f n => match utf8_take 64 n with Some pre => Some (PSession f pre) | None => None end   (* chars().take(64) *)
  | PInstance id ty a b c m s => if utf8_clean m && utf8_clean s then Some p else None
  | PStatus n st e => if utf8_clean n then Some p else None
  | PTarget w c => Some (PTarget (zero3 w) c)
  | PRotator s w r => Some (PRotator s [0; 0; 0] r)
  | PActor n segs =>
      if utf8_clean n && forallb (fun s => utf8_clean (fst s)) segs
      then Some (PActor n (map (fun s => (fst s, zero3 (snd s))) segs)) else None
  | _ => Some p
  end.

(* bytes recv_packet takes from the stream: the declared payload, also when a size gate rejects
   it (since 57a9948) unless the declared length is 0 or above the maximum *)
Definition consumed (t len : Z) : Z :=
  if len =? 0 then 0
  else if max_payload_size <? len then 0
  else len.

Definition c13_run (l : list Z) : list Z :=
  match l with
  | 1 :: h => match parse_header h with
              | inl (t, n) => [0; t; n]
              | inr e => [1; hdr_err_code e] end
  | 2 :: t :: len :: payload =>
      if negb (lenb payload =? len) then bad_case else
      let pos := consumed t len in
      match recv_packet t payload with
      | DOk p => match canon_pkt p with
                 | Some q => 0 :: pos :: ptype q :: enc_payload q
                 | None => [0; -7; pos] end
      | DErr => [1; pos]
      | DPanic => [-1]
      end
  | 3 :: t :: len :: bytes =>
      if negb (lenb bytes =? len) then bad_case else
      let ok := match run (dec_payload t) bytes with
                | DOk p => (ptype p =? t) && (if list_eq_dec Z.eq_dec (enc_payload p) bytes then true else false)
                | _ => false end in
      Zbool ok :: enc_header t (len mod 65536) ++ bytes
  | _ => bad_case
  end.

Definition is_byte (x : Z) : bool := (0 <=? x) && (x <? 256).

(* the property, on the implementation's observation *)
Definition c13_check (l o : list Z) : bool :=
  match l with
  | 1 :: h =>
      (* accepted exactly when the 10 bytes are the canonical header with 1 <= n <= 1024 *)
      if negb (forallb is_byte h) then true else
      match o with
      | [0; t; n] => (if list_eq_dec Z.eq_dec h (enc_header t n) then true else false) && (1 <=? n) && (n <=? 1024)
      | [1; _] =>
          negb (match h with
                | [76; 88; 82; 3; t; hi; lo; 0; 0; 0] => (1 <=? hi * 256 + lo) && (hi * 256 + lo <=? 1024)
                | _ => false end)
      | _ => false
      end
  | 2 :: t :: len :: _ =>
      (* a value or an error, never a panic, and never a byte beyond the declared payload *)
      match o with
      | [1; pos] => pos <=? len
      | [0; -7; pos] => pos <=? len
      | 0 :: pos :: _ => pos <=? len
      | _ => false end
  | 3 :: t :: len :: bytes =>
      (* round trip holds, the frame is the canonical header followed by the payload, and the
         payload fits the protocol maximum *)
      match o with
      | ok :: frame =>
          (ok =? 1) && (if list_eq_dec Z.eq_dec frame (enc_header t len ++ bytes) then true else false)
          && (1 <=? len) && (len <=? 1024)
      | _ => false end
  | _ => false
  end.

Definition c13_nontriv (l o : list Z) : bool :=
  match l with
  | 1 :: _ => match o with 0 :: _ => true | _ => false end
  | 2 :: _ => match o with 0 :: _ => true | _ => false end
  | 3 :: _ => true
  | _ => false
  end.
