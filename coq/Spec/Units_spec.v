(* C06 / C11 / C12 on single drivers and on the authority scan, stated on observations. *)
From Coq Require Import ZArith List Bool.
Import ListNotations.
Require Import GV.Gen.Consts GV.Model.Outcome GV.Model.J1939 GV.Model.Governor GV.Model.Hcu GV.Model.Object
  GV.Model.HcuUnit GV.Model.Units GV.Model.CanNet.
Local Open Scope Z_scope.

Record ucase := { uc_kind : ukind; uc_u : unit_cfg; uc_frame : frame }.

Definition is_byte (x : Z) : bool := (0 <=? x) && (x <? 256).
Definition ucase_wf (c : ucase) : bool :=
  is_byte (u_da (uc_u c)) && is_byte (u_sa (uc_u c))
  && (0 <=? f_id (uc_frame c)) && (f_id (uc_frame c) <? 536870912)
  && (Z.of_nat (length (f_data (uc_frame c))) =? 8) && forallb is_byte (f_data (uc_frame c)).

(* what a driver does with the frame, from a fresh context; a frame that is not 8 bytes long
   makes the drivers' slicing / try_into().unwrap() panic *)
Definition unit_model (c : ucase) : outcome recv_out :=
  if Z.of_nat (length (f_data (uc_frame c))) =? 8
  then Ok (unit_recv (uc_kind c) (uc_u c) ctx0 (uc_frame c)) else Panic.

(* ---------------------------------------------------------------- C11 *)
Definition credited (r : recv_out) : bool :=
  negb (rx_count (r_ctx r) =? 0) || (match rx_last (r_ctx r) with Some _ => true | None => false end)
  || (match r_sigs r with [] => false | _ => true end).

Definition names_unit (u : unit_cfg) (o : object) : bool :=
  match o with ORotator (src :: _) => src =? u_da u | ORotator [] => false | _ => true end.

Definition addressed_elsewhere (u : unit_cfg) (id : Z) : bool :=
  match id_da id with Some d => negb ((d =? 255) || (d =? u_da u) || (d =? u_sa u)) | None => false end.

Definition c11_spec_ok (c : ucase) (o : outcome recv_out) : bool :=
  match o with
  | Panic => false
  | Ok r =>
      let id := f_id (uc_frame c) in let u := uc_u c in
      (* credited only if the frame's source is the unit's address, and the signal names the unit *)
      implb (credited r) (id_sa id =? u_da u)
      && forallb (names_unit u) (r_sigs r)
      (* frames addressed to other nodes and parameter-group requests change nothing *)
      && implb (addressed_elsewhere u id) (negb (credited r))
      && implb (id_pgn id =? PGN_REQUEST) (negb (credited r))
  end.

(* ---------------------------------------------------------------- C06 (driver half) *)
Definition c06_spec_ok (c : ucase) (o : outcome recv_out) : bool :=
  match o with Panic => false | Ok _ => true end.

(* ---------------------------------------------------------------- C12: reference decoding *)
Definition le16 (d : list Z) (k : nat) : Z := nth k d 255 + 256 * nth (S k) d 255.
Definition le32 (d : list Z) (k : nat) : Z := le16 d k + 65536 * le16 d (S (S k)).

Definition sig_is_motion (m : motion) (r : recv_out) : bool :=
  match r_sigs r with [OMotion m'] => match m, m' with StopAll, StopAll | ResumeAll, ResumeAll => true | _, _ => false end | _ => false end.

Definition c12_spec_ok (c : ucase) (o : outcome recv_out) : bool :=
  match o with
  | Panic => false
  | Ok r =>
    let id := f_id (uc_frame c) in let d := f_data (uc_frame c) in let u := uc_u c in
    let mine := (id_sa id =? u_da u) in
    match uc_kind c with
    | KEncoder =>
        implb (mine && (id_pgn id =? 65450))
          (match r_sigs r with
           | [ORotator [src; rf; kind; p; _]] =>
               (src =? u_da u) && (rf =? 1) && (kind =? 0)
               && (p =? (if le32 d 0 =? 4294967295 then 0 else le32 d 0))
           | _ => false end
           (* the error class of the status word; the measurement is still there *)
           && (r_err r =? (let w := le16 d 6 in
                           if (w =? 65535) || (w =? 0) then E_OK else if w =? 60928 then E_SENSOR
                           else if (60929 <=? w) && (w <=? 60931) then E_CONFIG else E_HARDWARE)))
    | KInclino =>
        implb (mine && (id_pgn id =? 65451))
          (match r_sigs r with
           | [ORotator [src; rf; kind; lng; lat]] =>
               (src =? u_da u) && (rf =? 0) && (kind =? 1)
               && (lng =? (let w := le16 d 0 in if w =? 65535 then 0 else if w <? 32768 then w else w - 65536))
               && (lat =? (let w := le16 d 2 in if w =? 65535 then 0 else if w <? 32768 then w else w - 65536))
           | _ => false end)
    | KEms | KVolvo =>
        implb (mine && (id_pgn id =? 61444))
          (match r_sigs r with
           | [OEngine e] =>
               let raw := le16 d 3 in
               (* rpm in 1/8 rpm units (absent => 0), demand and load as percent offset by 125 *)
               (e_rpm e =? (if raw =? 65535 then 0 else Z.min 8031 (raw / 8)))
               && (e_demand e =? (let b := nth 1 d 255 in if b =? 255 then 0 else Z.min 125 (Z.max 0 (b - 125))))
               && (e_actual e =? (let b := nth 2 d 255 in if b =? 255 then 0 else Z.min 125 (Z.max 0 (b - 125))))
               (* a 0 rpm engine is never reported as running; an active starter means starting *)
               && implb (estate_eqb (e_state e) Request) (0 <? e_rpm e)
               && implb (let n := nth 6 d 255 mod 16 in (n =? 1) || (n =? 2)) (estate_eqb (e_state e) Starting)
               && (r_err r =? E_OK)
           | _ => false end)
    | KHcu =>
        implb (mine && (id_pgn id =? 65288))
          (sig_is_motion (if nth 2 d 255 =? 1 then StopAll else ResumeAll) r
           (* device error codes are surfaced without suppressing the measurement *)
           && (r_err r =? (let b := nth 0 d 255 in
                           if (b =? 20) || (b =? 22) then E_OK else if (b =? 250) || (b =? 251) then E_BUS else E_UNKNOWN_STATE)))
    | _ => true
    end
  end.

(* C12, the other direction: the joint (axis, offset), the engine and the hydraulic bank are identified by the
   sender's address, so a frame that does not come from the unit's address yields no measurement from this unit *)
Definition c12_foreign_ok (c : ucase) (o : outcome recv_out) : bool :=
  match o with
  | Panic => false
  | Ok r => implb (negb (id_sa (f_id (uc_frame c)) =? u_da (uc_u c))) (match r_sigs r with [] => true | _ => false end)
  end.

(* C12, engine state: "the stopped/starting/running state derived from starter mode and rpm" as a reference table on the
   raw starter-mode nibble (SPN 1675) and speed word: starter active => starting; start finished => running iff
   rpm > 0; not available => by speed (0 stopped, below 500 starting, else running; absent stopped); every other
   mode (not requested, inhibited, reserved, error) => stopped *)
Definition ref_estate (d : list Z) : estate :=
  let n := nth 6 d 255 mod 16 in
  let raw := le16 d 3 in
  let rpm := if raw =? 65535 then None else Some (Z.min 8031 (raw / 8)) in
  if (n =? 1) || (n =? 2) then Starting
  else if n =? 3 then (match rpm with Some r => if 0 <? r then Request else NoRequest | None => NoRequest end)
  else if n =? 15 then (match rpm with Some r => if r =? 0 then NoRequest else if r <? 500 then Starting else Request | None => NoRequest end)
  else NoRequest.
Definition c12_state_ok (c : ucase) (o : outcome recv_out) : bool :=
  match o with
  | Panic => false
  | Ok r =>
      match uc_kind c with
      | KEms | KVolvo =>
          implb ((id_sa (f_id (uc_frame c)) =? u_da (uc_u c)) && (id_pgn (f_id (uc_frame c)) =? 61444))
                (match r_sigs r with [OEngine e] => estate_eqb (e_state e) (ref_estate (f_data (uc_frame c))) | _ => false end)
      | _ => true
      end
  end.
