(* C08 — engine control frames follow the governor over any history; stop is honoured.
   Stated on the frames observed per event, with an independently tracked "latest status /
   latest command / clock"; the governor's decision is the C07 function next_state. *)
From Coq Require Import ZArith List Bool.
Import ListNotations.
Require Import GV.Gen.Consts GV.Model.Outcome GV.Model.J1939 GV.Model.Governor GV.Model.Hcu GV.Model.Object
  GV.Model.HcuUnit GV.Model.Units GV.Model.Volvo.
Local Open Scope Z_scope.

Record c08_case := { g_u : unit_cfg; g_events : list vevent }.

Definition is_byte (x : Z) : bool := (0 <=? x) && (x <? 256).
Definition is_u16 (x : Z) : bool := (0 <=? x) && (x <? 65536).
Definition c08_wf (c : c08_case) : bool :=
  is_byte (u_da (g_u c)) && is_byte (u_sa (g_u c)) &&
  forallb (fun e => match e with
                    | VStatus d => (Z.of_nat (length d) =? 8) && forallb is_byte d
                    | VCmd e => is_u16 (e_rpm e)
                    | VOther (OEngine _) => false
                    | VWait ms => 0 <=? ms
                    | _ => true end) (g_events c).

(* reference bookkeeping *)
Record track := { t_status : engine; t_cmd : option (Z * Z); (* latest command: speed, time *) t_now : Z }.
Definition track0 : track := {| t_status := engine_off; t_cmd := None; t_now := 0 |}.

Definition frame_fields (sa : Z) (f : frame) : option (Z * Z) :=
  match f_data f with
  | [0; code; 31; 0; 0; 0; 32; spd] =>
      if f_id f =? 3 * 67108864 + 65282 * 256 + sa then Some (code, spd) else None
  | _ => None
  end.

Definition valid_code (c : Z) : bool := (c =? 67) || (c =? 195) || (c =? 7).

(* the governor's decision for the latest reported status and the latest command *)
Definition decision (t : track) (with_age : bool) : outcome engine :=
  match t_cmd t with
  | Some (spd, tm) =>
      let a := if with_age then (if volvo_timeout_ms <=? t_now t - tm then Old else Young) else NoAge in
      next_state volvo_rpm_idle volvo_rpm_max (e_state (t_status t)) (if 0 <? spd then Request else NoRequest) spd a
  | None => next_state volvo_rpm_idle volvo_rpm_max (e_state (t_status t)) (e_state (t_status t)) (e_rpm (t_status t)) NoAge
  end.

Definition frame_ok (sa : Z) (t : track) (with_age : bool) (fs : list frame) : bool :=
  match fs with
  | [f] =>
      match frame_fields sa f, decision t with_age with
      | Some (code, spd), Ok e =>
          (* a valid state code, speed byte = rpm/10 within [idle/10, max/10] *)
          valid_code code && (volvo_rpm_idle / 10 <=? spd) && (spd <=? volvo_rpm_max / 10)
          (* matching the governor's decision *)
          && (code =? code_of (e_state e)) && (spd =? e_rpm e / 10)
          (* after a shutdown command: shutdown code while the engine reports running, and no
             start code until a new non-zero speed command arrives *)
          && (match t_cmd t with
              | Some (spd0, tm) =>
                  implb (spd0 =? 0) (negb (code =? 195))
                  && implb ((spd0 =? 0) && estate_eqb (e_state (t_status t)) Request) (code =? 7)
                  (* cranking ends within the transition timeout after the last command *)
                  && implb (with_age && (volvo_timeout_ms <=? t_now t - tm)) (negb (code =? 195))
              | None => true end)
      | _, _ => false
      end
  | _ => false
  end.

Fixpoint c08_walk (u : unit_cfg) (t : track) (evs : list vevent) (obs : list (list frame)) : bool :=
  match evs, obs with
  | [], [] => true
  | e :: evs', fs :: obs' =>
      match e with
      | VStatus d =>
          (match fs with [] => true | _ => false end)
          && c08_walk u {| t_status := eec1_engine d; t_cmd := t_cmd t; t_now := t_now t |} evs' obs'
      | VCmd c =>
          let t' := {| t_status := t_status t; t_cmd := Some (e_rpm c, t_now t); t_now := t_now t |} in
          (* a command means the same when it is accepted (no age) and on every later cycle *)
          frame_ok (u_sa u) t' false fs && c08_walk u t' evs' obs'
      | VOther _ => (match fs with [] => true | _ => false end) && c08_walk u t evs' obs'
      | VTick => frame_ok (u_sa u) t true fs && c08_walk u t evs' obs'
      | VWait ms =>
          (match fs with [] => true | _ => false end)
          && c08_walk u {| t_status := t_status t; t_cmd := t_cmd t; t_now := t_now t + ms |} evs' obs'
      end
  | _, _ => false
  end.

Definition c08_spec_ok (c : c08_case) (obs : list (list frame)) : bool := c08_walk (g_u c) track0 (g_events c) obs.
Definition c08_model (c : c08_case) : list (list frame) := volvo_run (g_u c) vstate0 0 (g_events c).
