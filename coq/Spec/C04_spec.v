(* C03/C04/C05 stated on observations: the ordered list of commands a session dispatched, and
   whether its task survived.  The reference decoding of a frame is recv_packet (Model/Packets). *)
From Coq Require Import ZArith List Bool.
Import ListNotations.
Require Import GV.Gen.Consts GV.Model.Governor GV.Model.Hcu GV.Model.Packets GV.Model.Session.
Local Open Scope Z_scope.

(* a well-formed client frame: any type code, 1..1024 payload bytes, all bytes in range *)
Record wframe := { w_type : Z; w_payload : list Z }.
Definition is_byte (x : Z) : bool := (0 <=? x) && (x <? 256).
Definition wframe_wf (f : wframe) : bool :=
  is_byte (w_type f) && (1 <=? lenb (w_payload f)) && (lenb (w_payload f) <=? 1024)
  && forallb is_byte (w_payload f).
Definition wframe_bytes (f : wframe) : list Z :=
  enc_header (w_type f) (lenb (w_payload f)) ++ w_payload f.

(* the command a single frame stands for, if any *)
Definition is_command_type (t : Z) : bool :=
  (t =? type_engine) || (t =? type_motion) || (t =? type_target) || (t =? type_control).
Definition frame_cmd (f : wframe) : list packet :=
  if is_command_type (w_type f) then
    match recv_packet (w_type f) (w_payload f) with DOk p => [p] | _ => [] end
  else [].
(* the session flags after a frame list: those of the last Session frame that decodes *)
Definition frame_flags (flags : Z) (f : wframe) : Z :=
  if w_type f =? type_session then
    match recv_packet (w_type f) (w_payload f) with DOk (PSession fl _) => fl | _ => flags end
  else flags.
Definition flags_after (fs : list wframe) : Z := fold_left frame_flags fs 0.
Definition armed (fs : list wframe) : bool := has_flag (flags_after fs) session_mode_failsafe.

Record sobs := { o_crashed : bool; o_cmds : list packet }.

(* C04: a stream of well-formed frames, delivered in any chunks, with signals published in
   between, then closed: exactly the valid command frames act, in order, each once; plus the
   failsafe stop-all iff the session was armed. *)
Record c04_case := { q_frames : list wframe; q_cuts : list Z; q_signal_at : list Z; q_complete : Z }.

Definition expected_cmds (fs : list wframe) : list packet :=
  flat_map frame_cmd fs ++ (if armed fs then [PMotion StopAll] else []).

Definition packet_eqb (a b : packet) : bool :=
  if list_eq_dec Z.eq_dec (ptype a :: enc_payload a) (ptype b :: enc_payload b) then true else false.
Fixpoint plist_eqb (a b : list packet) : bool :=
  match a, b with
  | [], [] => true
  | x :: a', y :: b' => packet_eqb x y && plist_eqb a' b'
  | _, _ => false
  end.

(* ---- a session script: what the client writes and how the transport / scheduler treats it ---- *)
Record script := {
  sc_frames : list wframe;          (* complete well-formed frames, in order *)
  sc_tail : option (wframe * Z);    (* the frame the client was writing when it died, and how many
                                       of its bytes got out (0 <= k < its length) *)
  sc_cuts : list Z;                 (* the transport delivers the stream in chunks of these sizes
                                       (whatever remains comes as a last chunk) *)
  sc_sigs : list Z                  (* a signal is published after chunk i for each i listed *)
}.

Definition script_wf (s : script) : bool :=
  forallb wframe_wf (sc_frames s)
  && match sc_tail s with
     | Some (f, k) => wframe_wf f && (0 <=? k) && (k <? lenb (wframe_bytes f))
     | None => true
     end
  && forallb (fun c => 0 <=? c) (sc_cuts s).

Definition stream_of (s : script) : list Z :=
  concat (map wframe_bytes (sc_frames s))
  ++ match sc_tail s with Some (f, k) => firstn (Z.to_nat k) (wframe_bytes f) | None => [] end.

Fixpoint chunks (cuts : list Z) (bs : list Z) : list (list Z) :=
  match cuts with
  | [] => [bs]
  | c :: t => firstn (Z.to_nat c) bs :: chunks t (skipn (Z.to_nat c) bs)
  end.

Definition the_signal : packet := PEngine 1 2 1500 engine_state_Request.

Fixpoint weave (i : Z) (cs : list (list Z)) (sigs : list Z) : list sevent :=
  match cs with
  | [] => []
  | c :: t => EBytes c :: (if existsb (Z.eqb i) sigs then [ESignal the_signal] else []) ++ weave (i + 1) t sigs
  end.

Definition events_of (s : script) : list sevent :=
  weave 0 (chunks (sc_cuts s) (stream_of s)) (sc_sigs s) ++ [EEnd].

Definition script_model (s : script) : sobs :=
  let '(st, acts) := srun session0 (events_of s) in
  {| o_crashed := match st with Crashed => true | _ => false end; o_cmds := cmds_of acts |}.

(* C03 + C04 on one script: the session survives; exactly the valid command frames among the
   COMPLETE frames act, in order, each once (the partial tail frame, unknown types, ill-sized and
   undecodable payloads contribute nothing); and the failsafe stop-all follows iff the last
   successfully decoded Session frame carried the failsafe flag. *)
Definition script_spec_ok (s : script) (o : sobs) : bool :=
  negb (o_crashed o) && plist_eqb (o_cmds o) (expected_cmds (sc_frames s)).
