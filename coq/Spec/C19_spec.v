(* C19: what the property text demands, as executable predicates over the float
   values (bit-exact binary32 from Flocq) and exact dyadic / integer arithmetic.
   Nothing here calls the model functions of Kinematics.v except the plain float
   comparisons: these predicates are evaluated on what the IMPLEMENTATION returned. *)
From Coq Require Import ZArith Bool List.
From Flocq Require IEEE754.BinarySingleNaN.
Require Import GV.Model.Outcome GV.Model.F32 GV.Model.Kinematics.
Import ListNotations.
Local Open Scope Z_scope.

Definition dyv (x : f32) : dy := match dyad x with Some d => d | None => (0, 0) end.

(* total order on floats with -0 < +0 (IEEE totalOrder restricted to non-NaN) *)
Definition ford_le (x y : f32) : bool :=
  if flt x y then true else if flt y x then false else
  (* equal as numbers: distinguish the zeros by sign *)
  implb (fsign y) (fsign x).
Definition fpos (x : f32) : bool := flt (f_of_Z 0) x.
Definition fnegative (x : f32) : bool := flt x (f_of_Z 0).

(* ---- shortest_rotation ---- *)
Definition sr_domain (d : f32) : bool := ffinite d && fle (fneg ftwopi) d.
(* congruence: d - r is an integer multiple of 2*PI (the f32 constant, exactly) up to
   one rounding of the argument: |d - r - k*2PI| <= 2^-23 * (|d| + 8) for the nearest k *)
Definition sr_congruent (d r : f32) : bool :=
  let x := dy_sub (dyv d) (dyv r) in
  let p := dyv ftwopi in
  let e := Z.min (snd x) (snd p) in
  let X := dy_norm (fst x) (snd x) e in
  let P := dy_norm (fst p) (snd p) e in
  let k := (2 * X + P) / (2 * P) in
  let rho := (Z.abs (X - k * P), e) in
  dy_le rho (dy_mul (dy_add (dy_abs (dyv d)) (8, 0)) (1, -23)).
Definition sr_spec (d r : f32) : bool :=
  implb (sr_domain d)
        (ffinite r && flt (fneg fpi) r && fle r fpi && sr_congruent d r).

(* ---- law_of_cosines ---- *)
(* sides as integers over a common power of two *)
Definition tri_ints (a b c : f32) : option (Z * Z * Z) :=
  match dyad a, dyad b, dyad c with
  | Some (ma, ea), Some (mb, eb), Some (mc, ec) =>
      let e := Z.min ea (Z.min eb ec) in
      Some (dy_norm ma ea e, dy_norm mb eb e, dy_norm mc ec e)
  | _, _, _ => None
  end.
(* magnitudes for which squares neither overflow nor underflow *)
Definition moderate (x : f32) : bool :=
  match x with
  | BinarySingleNaN.B754_finite _ m e _ => (-64 <=? e) && (e <=? 16)
  | _ => false
  end.
Definition tri_moderate (a b c : f32) : bool :=
  moderate a && moderate b && moderate c && fpos a && fpos b && fpos c.
(* N/D = cos(gamma), S3 = a^2+b^2+c^2 bounds the rounding error of N *)
Definition tri_N (t : Z * Z * Z) : Z := let '(A, B, C) := t in A * A + B * B - C * C.
Definition tri_D (t : Z * Z * Z) : Z := let '(A, B, C) := t in 2 * A * B.
Definition tri_S (t : Z * Z * Z) : Z := let '(A, B, C) := t in A * A + B * B + C * C.
(* the triangle exists (degenerate ones included): |a-b| <= c <= a+b *)
Definition tri_exists (t : Z * Z * Z) : bool := Z.abs (tri_N t) <=? tri_D t.
(* ... with a margin of 2^-21 * (1 + S3/D) on |cos gamma|: float evaluation cannot leave [-1,1] *)
Definition tri_safe (t : Z * Z * Z) : bool := tri_D t + tri_S t <=? 2097152 * (tri_D t - Z.abs (tri_N t)).
Definition tri_safely_none (t : Z * Z * Z) : bool := tri_D t + tri_S t <=? 2097152 * (Z.abs (tri_N t) - tri_D t).

(* cos on [0, 4) in fixed point 2^-62, Taylor to x^30 *)
Definition FX : Z := 4611686018427387904.
Fixpoint cos_terms (n : nat) (k : Z) (term x2 acc : Z) : Z :=
  match n with
  | O => acc
  | S n' =>
      let term' := - (term * x2 / FX) / ((2 * k + 1) * (2 * k + 2)) in
      cos_terms n' (k + 1) term' x2 (acc + term')
  end.
Definition cos_fx (x : Z) : Z := cos_terms 16 0 FX (x * x / FX) FX.
Definition fx_of_dy (d : dy) : Z :=
  let '(m, e) := d in if 0 <=? e + 62 then m * 2 ^ (e + 62) else m / 2 ^ (- (e + 62)).

(* the returned angle r, for a safely existing triangle: | cos r - N/D | <= 2^-20 (1 + S3/D) *)
Definition angle_ok (t : Z * Z * Z) (r : f32) : bool :=
  ffinite r && fle (f_of_Z 0) r && fle r fpi &&
  (Z.abs (cos_fx (fx_of_dy (dyv r)) * tri_D t - tri_N t * FX) <=? 4398046511104 * (tri_D t + tri_S t)).

(* sides that are small integers over a common power of two: every square, the sum, the difference and 2ab are then
   exactly representable, the quotient is the correctly rounded exact cosine, and an existing triangle - degenerate
   ones included - cannot come out as NaN *)
Fixpoint strip_twos (fuel : nat) (t : Z * Z * Z) : Z * Z * Z :=
  match fuel with
  | O => t
  | S f => let '(A, B, C) := t in
           if Z.even A && Z.even B && Z.even C && negb ((A =? 0) && (B =? 0) && (C =? 0))
           then strip_twos f (A / 2, B / 2, C / 2) else t
  end.
Definition tri_small (t : Z * Z * Z) : bool :=
  let '(A, B, C) := strip_twos 300 t in (A <? 2048) && (B <? 2048) && (C <? 2048).

Definition loc_spec (strict : bool) (a b c : f32) (is_nan : bool) (r : f32) : bool :=
  if negb (tri_moderate a b c) then true else
  match tri_ints a b c with
  | None => true
  | Some t =>
      if tri_safe t then negb is_nan && angle_ok t r
      else if tri_safely_none t then is_nan
      else if (strict || tri_small t) && tri_exists t then negb is_nan      (* the strict reading of the property; exact arithmetic *)
      else true
  end.

(* ---- motion profiles ---- *)
Definition profile_domain (gain offset : f32) : bool :=
  ffinite gain && fle (f_of_Z 0) gain && ffinite offset && fle (f_of_Z 0) offset && fle offset fi16max.

(* pairs (input, output) *)
Fixpoint all_pairs {A} (p : A -> A -> bool) (l : list A) : bool :=
  match l with
  | [] => true
  | x :: t => forallb (fun y => p x y && p y x) t && all_pairs p t
  end.

(* Linear::update: outputs are floats (None = the call panicked) *)
Definition lu_point (inverse : bool) (e : f32) (o : option f32) : bool :=
  match o with
  | None => false
  | Some v =>
      if ffinite e then
        ffinite v && fle fi16min v && fle v (fneg fi16min)
        && implb (fpos e) (if inverse then fle (f_of_Z 0) v else fle v (f_of_Z 0))
        && implb (fnegative e) (if inverse then fle v (f_of_Z 0) else fle (f_of_Z 0) v)
      else true
  end.
(* "saturate at the signed 16-bit limits": once the proportional part reaches the room the offset leaves, the value (before the
   sign flip of a non-inverted profile) IS the limit - -32768 for negative errors, 32767 for positive ones - up to the
   rounding of the two additions (2^-8) *)
Definition f2m8 : f32 := fconst false 8388608 (-31) eq_refl.          (* 2^-8 *)
Definition lu_sat (gain offset : f32) (inverse : bool) (e : f32) (o : option f32) : bool :=
  match o with
  | None => true
  | Some v =>
      let value := if inverse then v else fneg v in
      implb (ffinite e && fnegative e && fle (fmul e gain) (fadd fi16min offset))
            (fle (fabs (fsub value fi16min)) f2m8)
      && implb (ffinite e && fpos e && fle (fsub fi16max offset) (fmul e gain))
               (fle (fabs (fsub value fi16max)) f2m8)
  end.
Definition lu_mono (inverse : bool) (x y : f32 * option f32) : bool :=
  match snd x, snd y with
  | Some vx, Some vy =>
      implb (ffinite (fst x) && ffinite (fst y) && ford_le (fst x) (fst y))
            (if inverse then fle vx vy else fle vy vx)
  | _, _ => true
  end.
Definition lu_spec (gain offset : f32) (inverse : bool) (pts : list (f32 * option f32)) : bool :=
  implb (profile_domain gain offset)
        (forallb (fun p => lu_point inverse (fst p) (snd p) && lu_sat gain offset inverse (fst p) (snd p)) pts && all_pairs (lu_mono inverse) pts).

(* linear_motion: outcome per call: None = panic, Some None = no value, Some (Some v) *)
Definition lm_point (lb : f32) (inverse : bool) (d : f32) (o : option (option Z)) : bool :=
  match o with
  | None => false
  | Some None => flt (fabs d) lb                                    (* only inside the deadband *)
  | Some (Some v) =>
      negb (flt (fabs d) lb)                                          (* never inside the deadband *)
      && (- I16_MAX <=? v) && (v <=? I16_MAX)
      && implb (ffinite d && fpos d) (if inverse then 0 <=? v else v <=? 0)
      && implb (ffinite d && fnegative d) (if inverse then v <=? 0 else 0 <=? v)
  end.
Definition lm_mono (inverse : bool) (x y : f32 * option (option Z)) : bool :=
  match snd x, snd y with
  | Some (Some vx), Some (Some vy) =>
      implb (ffinite (fst x) && ffinite (fst y) && ford_le (fst x) (fst y))
            (if inverse then vx <=? vy else vy <=? vx)
  | _, _ => true
  end.
Definition lm_spec (lb offset scale : f32) (inverse : bool) (pts : list (f32 * option (option Z))) : bool :=
  implb (profile_domain scale offset && negb (fis_nan lb))
        (forallb (fun p => lm_point lb inverse (fst p) (snd p)) pts && all_pairs (lm_mono inverse) pts).

(* ActuatorState: one event per error, one neutral event when the errors stop, then silence *)
Fixpoint act_spec (act : Z) (inverse : bool) (armed : bool) (steps : list (option f32)) (evs : list aev) : bool :=
  match steps, evs with
  | [], [] => true
  | Some e :: st, AEv a e' v :: ev =>
      (a =? act) && (bits_of_f32 e' =? bits_of_f32 e) && (I16_MIN <=? v) && (v <=? I16_MAX)
      && implb (ffinite e && fpos e) (if inverse then 0 <=? v else v <=? 0)
      && implb (ffinite e && fnegative e) (if inverse then v <=? 0 else 0 <=? v)
      && act_spec act inverse true st ev
  | None :: st, AEv a e' v :: ev =>
      armed && (a =? act) && (bits_of_f32 e' =? 0) && (v =? 0) && act_spec act inverse false st ev
  | None :: st, ANone :: ev => negb armed && act_spec act inverse false st ev
  | _, _ => false
  end.

(* ---- world location ---- *)
(* exact chains: the location is the origin under the ordered product of the transforms up to
   and including the first segment carrying the name *)
Definition wl_exact (segs : list (Z * zaff)) (name : Z) : Z * Z * Z :=
  aff_origin (product zaff_one zaff_mul (upto segs name)).
Definition wl_dy (segs : list (Z * daff)) (name : Z) : dy * dy * dy :=
  aff_origin (product daff_one daff_mul (upto segs name)).
