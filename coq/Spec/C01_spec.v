(* C01 — on every control cycle the HCU driver re-sends exactly the most recent accepted
   motion command (stop-all before any): stated on the frames observed per event, using
   C02's frame predicate as the meaning of "exactly that motion command". *)
From Coq Require Import ZArith List Bool.
Import ListNotations.
Require Import GV.Model.J1939 GV.Model.Governor GV.Model.Hcu GV.Model.Object GV.Model.HcuUnit GV.Spec.C02_spec.
Local Open Scope Z_scope.

Inductive c01_event : Type :=
| ECmd (o : object)      (* a command handed to trigger *)
| ETick                  (* a control cycle *)
| ERx (f : frame).       (* a received (normalised) frame, incl. status frames *)

Record c01_case := { h_u : unit_cfg; h_events : list c01_event }.

(* what each event made the driver emit *)
Definition c01_obs := list (list frame).

Definition motion_wf (m : motion) : bool :=
  c02_wf {| k_da := 0; k_sa := 0; k_motion := m |}.

Definition c01_wf (c : c01_case) : bool :=
  is_byte (u_da (h_u c)) && is_byte (u_sa (h_u c)) &&
  forallb (fun e => match e with
                    | ECmd (OMotion m) => motion_wf m
                    | ERx f => Z.of_nat (length (f_data f)) =? 8
                    | _ => true end) (h_events c).

(* the most recent motion command among the events seen so far, stop-all before any *)
Fixpoint last_motion (acc : motion) (evs : list c01_event) : motion :=
  match evs with
  | [] => acc
  | ECmd (OMotion m) :: t => last_motion m t
  | _ :: t => last_motion acc t
  end.

Definition no_actuator_frame (fs : list frame) : bool :=
  forallb (fun f => negb ((id_pgn (f_id f) =? 40960) || (id_pgn (f_id f) =? 41216))) fs.

(* walk events and observations together, carrying the latest motion *)
Fixpoint c01_walk (u : unit_cfg) (cur : motion) (evs : list c01_event) (obs : c01_obs) : bool :=
  match evs, obs with
  | [], [] => true
  | e :: evs', fs :: obs' =>
      let k m := {| k_da := u_da u; k_sa := u_sa u; k_motion := m |} in
      match e with
      | ECmd (OMotion m) =>
          (* accepting a motion command sends it at once, and it becomes the latest *)
          c02_spec_ok (k m) fs && c01_walk u m evs' obs'
      | ECmd _ => (* engine, control, target ... commands: nothing for the HCU *)
          (match fs with [] => true | _ => false end) && c01_walk u cur evs' obs'
      | ETick =>
          c02_spec_ok (k cur) fs
          && (match cur with StopAll => no_actuator_frame fs && (Nat.eqb (length fs) 1) | _ => true end)
          && c01_walk u cur evs' obs'
      | ERx _ => (match fs with [] => true | _ => false end) && c01_walk u cur evs' obs'
      end
  | _, _ => false
  end.

Definition c01_spec_ok (c : c01_case) (obs : c01_obs) : bool :=
  c01_walk (h_u c) StopAll (h_events c) obs.

(* model: run the driver *)
Fixpoint c01_run (u : unit_cfg) (c : ctx) (evs : list c01_event) : c01_obs :=
  match evs with
  | [] => []
  | ECmd o :: t => let '(c', fs) := hcu_trigger u c o in fs :: c01_run u c' t
  | ETick :: t => hcu_tick u c :: c01_run u c t
  | ERx f :: t => [] :: c01_run u (r_ctx (hcu_recv u c f)) t
  end.

Definition c01_model (c : c01_case) : c01_obs := c01_run (h_u c) ctx0 (h_events c).
