(* C07, stated on observations only (no reference to the model's definition of
   next_state): the governor's decision stays inside the safe envelope. *)
From Coq Require Import ZArith List Bool.
Require Import GV.Model.Outcome GV.Model.Governor.
Local Open Scope Z_scope.

Record c07_case := {
  c_idle : Z; c_max : Z; c_sig : estate; c_cmd : estate; c_rpm : Z; c_age : age }.

Definition c07_wf (c : c07_case) : bool := c_idle c <=? c_max c.

Definition is_st (a b : estate) := estate_eqb a b.
Definition implb' (a b : bool) := if a then b else true.

Definition ref_clamp (lo hi v : Z) : Z := Z.max lo (Z.min hi v).

Definition c07_spec_ok (c : c07_case) (o : outcome engine) : bool :=
  match o with
  | Panic => false
  | Ok e =>
    let st := e_state e in let r := e_rpm e in
    let sig := c_sig c in let cmd := c_cmd c in
    let wants_run := is_st cmd Starting || is_st cmd Request in
    (* speed within [idle, max] *)
    (c_idle c <=? r) && (r <=? c_max c)
    (* running speed requested only if the engine is reported running *)
    && implb' (is_st st Request) (is_st sig Request)
    (* starter only while stopped with a start/run request, or already cranking;
       never once the command is older than the timeout *)
    && implb' (is_st st Starting)
         (((is_st sig NoRequest && wants_run) || is_st sig Starting)
          && negb (match c_age c with Old => true | _ => false end))
    (* never starts an engine without a request *)
    && implb' (is_st sig NoRequest && negb wants_run) (is_st st NoRequest)
    (* stop request on a running engine becomes stopping *)
    && implb' (is_st sig Request && negb wants_run) (is_st st Stopping)
    (* otherwise the clamped requested speed is applied *)
    && implb' (is_st sig Request && wants_run)
         (is_st st Request && (r =? ref_clamp (c_idle c) (c_max c) (c_rpm c)))
    (* a stopping engine is left stopping *)
    && implb' (is_st sig Stopping) (is_st st Stopping)
    (* the decision carries no demand/load *)
    && (e_demand e =? 0) && (e_actual e =? 0)
  end.

Definition c07_model (c : c07_case) : outcome engine :=
  next_state (c_idle c) (c_max c) (c_sig c) (c_cmd c) (c_rpm c) (c_age c).
