(* C20 — J1939 node identity and configuration fidelity, on the frames the authority puts on the bus. *)
From Coq Require Import ZArith List Bool.
Import ListNotations.
Require Import GV.Gen.Consts GV.Model.Outcome GV.Model.J1939 GV.Model.Governor GV.Model.Hcu GV.Model.Object
  GV.Model.HcuUnit GV.Model.Units GV.Model.Volvo GV.Model.CanNet GV.Model.Authority GV.Model.Auth_io.
Local Open Scope Z_scope.

(* the 64-bit NAME of SAE J1939-81 as a number: identity number (21 bits, always 1 here),
   manufacturer code (11), ECU instance (3), function instance (5), function (8), reserved (1),
   vehicle system (7), vehicle system instance (4), industry group (3), arbitrary address (1) *)
Definition name_value (n : jname) : Z :=
  1 + n_mfr n * 2097152 + n_ecu n * 4294967296 + n_finst n * 34359738368 + n_func n * 1099511627776
  + n_vs n * 562949953421312 + n_vsi n * 72057594037927936 + n_ig n * 1152921504606846976.

Definition le64 (v : Z) : list Z :=
  map (fun k => (v / 2 ^ (8 * k)) mod 256) [0; 1; 2; 3; 4; 5; 6; 7].

Definition name_in_range (n : jname) : bool :=
  (0 <=? n_mfr n) && (n_mfr n <? 2048) && (0 <=? n_finst n) && (n_finst n <? 32) && (0 <=? n_ecu n) && (n_ecu n <? 8)
  && (0 <=? n_func n) && (n_func n <? 256) && (0 <=? n_vs n) && (n_vs n <? 128) && (0 <=? n_vsi n) && (n_vsi n <? 16)
  && (0 <=? n_ig n) && (n_ig n <? 8).

Definition is_byte (x : Z) : bool := (0 <=? x) && (x <? 256).
(* the configuration types are wider than the NAME fields (u16 manufacturer code, u8 elsewhere): only the bits of each field
   reach the wire, a wide value never spills into the neighbouring field *)
Definition name_norm (n : jname) : jname :=
  {| n_mfr := n_mfr n mod 2048; n_finst := n_finst n mod 32; n_ecu := n_ecu n mod 8; n_func := n_func n mod 256;
     n_vs := n_vs n mod 128; n_vsi := n_vsi n mod 16; n_ig := n_ig n mod 8 |}.
Definition name_cfg_range (n : jname) : bool :=
  (0 <=? n_mfr n) && (n_mfr n <? 65536) && (0 <=? n_finst n) && (n_finst n <? 256) && (0 <=? n_ecu n) && (n_ecu n <? 256)
  && (0 <=? n_func n) && (n_func n <? 256) && (0 <=? n_vs n) && (n_vs n <? 256) && (0 <=? n_vsi n) && (n_vsi n <? 256)
  && (0 <=? n_ig n) && (n_ig n <? 256).


Definition c20_wf (c : acase) : bool :=
  is_byte (ac_addr c) && name_cfg_range (ac_name c)
  && forallb (fun d => is_byte (c_da d) && match c_sa d with Some s => is_byte s | None => true end) (ac_confs c).

Definition zl_eqb (a b : list Z) : bool := if list_eq_dec Z.eq_dec a b then true else false.

(* the address-claim frame: priority 6, PGN 60928 to the global address, from our address *)
Definition claim_ok (c : acase) (f : frame) : bool :=
  (f_id f =? 6 * 67108864 + 60928 * 256 + 255 * 256 + ac_addr c) && zl_eqb (f_data f) (le64 (name_value (name_norm (ac_name c)))).

(* the units that must be driven: configured entries with a known (vendor, product), in order *)
Definition expected_units (c : acase) : list (Z * Z * Z) :=   (* key, unit address, source address *)
  flat_map (fun d => match kind_of_key (c_key d) with
                     | Some _ => [(c_key d, c_da d, match c_sa d with Some s => s | None => ac_addr c end)]
                     | None => [] end) (ac_confs c).

(* per-driver setup request for the address claim: Request PGN, destination = unit, source = daemon *)
Definition setup_request_ok (u : Z * Z * Z) (f : frame) : bool :=
  let '(_, da, sa) := u in
  (f_id f =? 6 * 67108864 + 59904 * 256 + da * 256 + sa) && zl_eqb (f_data f) [0; 238; 0].

Definition is_ac_request (f : frame) : bool := (id_pgn (f_id f) =? 59904) && zl_eqb (f_data f) [0; 238; 0].

Fixpoint forallb2 {A B} (p : A -> B -> bool) (l : list A) (m : list B) : bool :=
  match l, m with [], [] => true | a :: l', b :: m' => p a b && forallb2 p l' m' | _, _ => false end.

(* what we must answer to an injected frame *)
Definition expected_reply (c : acase) (raw : list Z) : option (option frame) :=
  (* None: nothing must be sent; Some None: a time/date frame; Some (Some f): exactly f *)
  match of_can_frame raw with
  | Some f0 =>
      let f := normalise f0 in
      if (id_pgn (f_id f) =? 59904) && (match id_da (f_id f) with Some d => d =? ac_addr c | None => false end) then
        let p := (nth 0 (f_data f) 255 + 256 * nth 1 (f_data f) 255 + 65536 * nth 2 (f_data f) 255) mod 262144 in
        if p =? 60928 then Some (Some {| f_id := 6 * 67108864 + 60928 * 256 + 255 * 256 + ac_addr c; f_data := le64 (name_value (name_norm (ac_name c))) |})
        else if p =? 65242 then Some (Some {| f_id := 6 * 67108864 + 65242 * 256 + ac_addr c; f_data := [1; version_major; version_minor; version_patch; 42] |})
        else if p =? 65254 then Some None
        else None
      else None
  | None => None
  end.

Fixpoint c20_walk (c : acase) (first_tick : bool) (evs : list aevent) (steps : list astep) : bool :=
  match evs, steps with
  | [], [] => true
  | e :: evs', s :: steps' =>
      match e with
      | ASetup => (match as_frames s with [f] => claim_ok c f | _ => false end) && c20_walk c first_tick evs' steps'
      | AInject raw =>
          (* only frames that are a Request (or are no driver's business) are judged here *)
          (match of_can_frame raw with
           | Some f0 =>
               if id_pgn (f_id (normalise f0)) =? 59904 then
                 match expected_reply c raw, as_frames s with
                 | None, [] => true
                 | Some (Some f), [g] => frame_eqb f g
                 | Some None, [g] => (f_id g =? 6 * 67108864 + 65254 * 256 + ac_addr c) && (Z.of_nat (length (f_data g)) =? 8)
                 | _, _ => false end
                 && (match as_sigs s with [] => true | _ => false end)
               else (match as_frames s with [] => true | _ => false end)   (* drivers never transmit on receive *)
           | None => true end)
          && c20_walk c first_tick evs' steps'
      | ATick =>
          (if first_tick then
             (* the delayed per-driver setup: each driven unit with a setup is asked for its address
                claim first; the askers are exactly the known entries (Volvo has no setup), in order *)
             forallb2 setup_request_ok
               (filter (fun u => negb (fst (fst u) =? key_volvo_d7e)) (expected_units c))
               (filter is_ac_request (as_frames s))
           else negb (existsb is_ac_request (as_frames s)))
          && c20_walk c false evs' steps'
      | _ => c20_walk c first_tick evs' steps'
      end
  | _, _ => false
  end.

Definition c20_spec_ok (c : acase) (steps : list astep) : bool := c20_walk c true (ac_events c) steps.
