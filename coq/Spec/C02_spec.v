(* C02 — motion commands reach the bus bit-exact and correctly addressed; stated on the
   observed frames, independently of how the model builds them. *)
From Coq Require Import ZArith List Bool.
Import ListNotations.
Require Import GV.Model.J1939 GV.Model.Hcu.
Local Open Scope Z_scope.

Record c02_case := { k_da : Z; k_sa : Z; k_motion : motion }.

Definition is_byte (x : Z) : bool := (0 <=? x) && (x <? 256).
Definition is_i16 (x : Z) : bool := (-32768 <=? x) && (x <? 32768).
Definition is_actuator (a : Z) : bool := (0 <=? a) && (a <? 6).

Definition c02_wf (c : c02_case) : bool :=
  is_byte (k_da c) && is_byte (k_sa c) &&
  match k_motion c with
  | StraightDrive v => is_i16 v
  | Change cs => forallb (fun e => is_actuator (fst e) && is_i16 (snd e)) cs
  | _ => true
  end.

(* the value commanded for actuator a: the last entry that names it *)
Definition last_value (cs : list (Z * Z)) (a : Z) : option Z :=
  match find (fun e => fst e =? a) (rev cs) with
  | Some e => Some (snd e)
  | None => None
  end.

(* the 29-bit identifier of a PDU1 frame: priority, PGN, destination, source, nothing else *)
Definition exact_id (prio pgn da sa : Z) : Z := prio * 67108864 + pgn * 256 + da * 256 + sa.

Definition zlist_eqb (a b : list Z) : bool := if list_eq_dec Z.eq_dec a b then true else false.

Definition id_ok (c : c02_case) (pgn : Z) (f : frame) : bool :=
  (f_id f =? exact_id 3 pgn (k_da c) (k_sa c))
  && (id_priority (f_id f) =? 3) && (id_pgn (f_id f) =? pgn)
  && (match id_da (f_id f) with Some d => d =? k_da c | None => false end)
  && (id_sa (f_id f) =? k_sa c).

Definition config_ok (c : c02_case) (lock reset : Z) (fs : list frame) : bool :=
  match fs with
  | [f] => id_ok c 45824 f && zlist_eqb (f_data f) [90; 67; 255; lock; reset]
  | _ => false
  end.

Definition is_some {A} (o : option A) : bool := match o with Some _ => true | None => false end.

(* one actuator frame of bank b against the wanted slot values *)
Definition bank_frame_ok (c : c02_case) (want : Z -> option Z) (b : Z) (f : frame) : bool :=
  id_ok c (if b =? 0 then 40960 else 41216) f
  && (Z.of_nat (length (f_data f)) =? 8)
  && forallb (fun k =>
        let lo := nth (Z.to_nat (2 * k)) (f_data f) (-1) in
        let hi := nth (Z.to_nat (2 * k + 1)) (f_data f) (-1) in
        match want (4 * b + k) with
        | Some v =>
            (* little-endian two's complement of v in this actuator's slot ... *)
            (lo =? (v mod 65536) mod 256) && (hi =? (v mod 65536) / 256)
            (* ... and decoding yields v back, except for the not-available pattern -1 *)
            && (match nth (Z.to_nat k) (decode_slots (f_data f)) None with
                | Some v' => negb (v =? -1) && (v' =? v)
                | None => v =? -1
                end)
        | None => (lo =? 255) && (hi =? 255)
        end) [0; 1; 2; 3].

Fixpoint forallb2 {A B} (p : A -> B -> bool) (l : list A) (m : list B) : bool :=
  match l, m with
  | [], [] => true
  | a :: l', b :: m' => p a b && forallb2 p l' m'
  | _, _ => false
  end.

Definition actuator_ok (c : c02_case) (want : Z -> option Z) (fs : list frame) : bool :=
  let banks := filter (fun b => existsb (fun k => is_some (want (4 * b + k))) [0; 1; 2; 3]) [0; 1] in
  forallb2 (bank_frame_ok c want) banks fs.

Definition c02_spec_ok (c : c02_case) (fs : list frame) : bool :=
  match k_motion c with
  | StopAll => config_ok c 0 255 fs
  | ResumeAll => config_ok c 1 255 fs
  | ResetAll => config_ok c 255 1 fs
  | StraightDrive v => actuator_ok c (fun a => if (a =? 2) || (a =? 3) then Some v else None) fs
  | Change cs => actuator_ok c (last_value cs) fs
  end.

Definition c02_model (c : c02_case) : list frame := encode_motion (k_da c) (k_sa c) (k_motion c).
