(* C18 — operator front-ends, per event from any interlock state (which covers event sequences of
   any length by induction on the invariant). *)
From Coq Require Import ZArith List Bool.
Import ListNotations.
Require Import GV.Gen.Consts GV.Model.Governor GV.Model.Hcu GV.Model.Input.
Local Open Scope Z_scope.

Record c18_case := { i_mode : mode; i_state : dstate; i_ty : Z; i_num : Z; i_value : Z }.

Definition rpm_ok (r : Z) : bool := (r =? 0) || ((900 <=? r) && (r <=? 2100)).
Definition c18_wf (c : c18_case) : bool :=
  rpm_ok (engine_rpm (d_in (i_state c))) && (-32768 <=? i_value c) && (i_value c <? 32768)
  && (0 <=? i_num c) && (i_num c <? 256)
  && match etype_of (i_ty c) with Some _ => true | None => false end.

Definition deadband (a v : Z) : Z :=
  if a =? 1 then 1000 (* slew *) else if a =? 4 then 1500 (* arm *)
  else if a =? 5 then (if v <? 0 then 2000 else 4000) (* attachment *)
  else if a =? 0 then (if v <? 0 then 3500 else 1750) (* boom *)
  else 2000 (* tracks *).
Definition limited_direction (a v : Z) : bool :=
  (a =? 1) || (a =? 4) || ((a =? 5) && (v <? 0)) || ((a =? 0) && (0 <? v)).

Definition out_ok (before : istate) (o : option iout) : bool :=
  match o with
  | None => true
  | Some (IEngine r running) => if running then (900 <=? r) && (r <=? 2100) else r =? 0
  | Some (IMotion m) =>
      (* while the motion lock is engaged: nothing but stop, resume and neutral *)
      (if motion_lock before
       then match m with StopAll | ResumeAll => true | StraightDrive v => v =? 0 | _ => false end
       else true)
      && match m with
         | Change [(a, v)] =>
             (-32767 <=? v) && (v <=? 32767)
             && ((v =? 0) || (deadband a v <=? Z.abs v))
             && implb (limit_motion before && limited_direction a v) (Z.abs v <=? 16384)
         | Change _ => false
         | StraightDrive v => (-32767 <=? v) && (v <=? 32767) && ((v =? 0) || (2000 <=? Z.abs v))
         | ResetAll => false
         | _ => true
         end
  end.

(* is this record the Abort button being pressed, in this control mode? (button 1, value 1) *)
Definition is_abort_press (c : c18_case) : bool := (i_ty c =? 1) && (i_num c =? 1) && (i_value c =? 1).

(* "motion limiting is on": switched off while the override button of the control mode is held, on again when it
   is released, untouched by every other record - whether or not the motion lock is engaged at that moment *)
Definition limit_after (c : c18_case) : bool :=
  match decode_event (i_ty c) (i_num c) (i_value c) with
  | Some e => match snd (gp_map (i_mode c) (d_pad (i_state c)) e) with
              | Some (KLimitMotion Pressed) => false
              | Some (KLimitMotion Released) => true
              | _ => limit_motion (d_in (i_state c)) end
  | None => limit_motion (d_in (i_state c))
  end.

Definition c18_spec_ok (c : c18_case) (r : option (dstate * option iout)) : bool :=
  match r with
  | None => false                     (* a record of the four joystick types never crashes the daemon *)
  | Some (d', o) =>
      out_ok (d_in (i_state c)) o
      && rpm_ok (engine_rpm (d_in d'))
      && implb (is_abort_press c) (match o with Some (IMotion StopAll) => motion_lock (d_in d') | _ => false end)
      (* "engaged as at start-up": the state replay the kernel sends when the device is opened
         (records with the init flag, 0x80) never disengages the lock *)
      && implb ((128 <=? i_ty c) && motion_lock (d_in (i_state c))) (motion_lock (d_in d'))
      && Bool.eqb (limit_motion (d_in d')) (limit_after c)
  end.

Definition c18_model (c : c18_case) : option (dstate * option iout) :=
  daemon_step (i_mode c) (i_state c) (i_ty c) (i_num c) (i_value c).
