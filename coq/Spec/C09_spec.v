(* C09 — emergency stop on overspeed or excessive tilt, silent otherwise; on the commands observed
   after each processed signal, with "pending" tracked from the history alone. *)
From Coq Require Import ZArith List Bool.
Import ListNotations.
Require Import GV.Gen.Consts GV.Model.Director.
Local Open Scope Z_scope.

Record pend := { p_rpm : option Z; p_rot : option rreading }.
Definition pend0 : pend := {| p_rpm := None; p_rot := None |}.
Definition pend_step (p : pend) (s : dsignal) : pend :=
  match s with
  | SEngine rpm => {| p_rpm := Some rpm; p_rot := p_rot p |}
  | SRotator r => {| p_rpm := p_rpm p; p_rot := Some r |}
  | SOther => p end.

(* most recent engine reading above 2200 rpm, or most recent rotation reading an inclinometer
   reading of more than +45 degrees of roll or pitch *)
Definition pending (p : pend) : bool :=
  (match p_rpm p with Some rpm => 2200 <? rpm | None => false end)
  || (match p_rot p with
      | Some r => (rr_src r =? 122) && ((4500 <? rr_roll r) || (4500 <? rr_pitch r)) && rr_yaw0 r
      | None => false end).

Definition dcmd_eqb (a b : dcmd) : bool :=
  match a, b with
  | DControl k x, DControl k' y => (k =? k') && Bool.eqb x y
  | DStopAll, DStopAll | DEngineShutdown, DEngineShutdown => true
  | _, _ => false end.
Fixpoint dcmds_eqb (a b : list dcmd) : bool :=
  match a, b with [], [] => true | x :: a', y :: b' => dcmd_eqb x y && dcmds_eqb a' b' | _, _ => false end.

(* hydraulic lock, stop-all, boost off, travel alarm on, strobe light on, engine shutdown *)
Definition the_sequence : list dcmd :=
  [DControl 6 true; DStopAll; DControl 7 false; DControl 32 true; DControl 31 true; DEngineShutdown].

Fixpoint c09_walk (p : pend) (h : list dsignal) (obs : list (list dcmd)) : bool :=
  match h, obs with
  | [], [] => true
  | s :: h', o :: obs' =>
      let p' := pend_step p s in
      dcmds_eqb o (if pending p' then the_sequence else []) && c09_walk p' h' obs'
  | _, _ => false
  end.

(* domain: readings with roll strictly inside (-180, 180) and pitch strictly inside (-90, 90) degrees, where the Euler
   extraction returns the angles that went in (see DESIGN section 7) *)
Definition c09_wf (h : list dsignal) : bool :=
  forallb (fun s => match s with
                    | SRotator r => (-18000 <? rr_roll r) && (rr_roll r <? 18000) && (-9000 <? rr_pitch r) && (rr_pitch r <? 9000)
                    | SEngine rpm => (0 <=? rpm) && (rpm <? 65536)
                    | SOther => true end) h.

Definition c09_spec_ok (h : list dsignal) (obs : list (list dcmd)) : bool := c09_walk pend0 h obs.
Definition c09_model (h : list dsignal) : list (list dcmd) := drun dstate0 h.
