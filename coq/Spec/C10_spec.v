(* C10 — module status is truthful and fresh; stated on what each control cycle publishes, with the
   facts "heard", "time of the last accepted message" and "previously published status" tracked
   independently of the authority's own bookkeeping.  "Accepted" is the driver-level notion of C11. *)
From Coq Require Import ZArith List Bool.
Import ListNotations.
Require Import GV.Gen.Consts GV.Model.Outcome GV.Model.J1939 GV.Model.Governor GV.Model.Hcu GV.Model.Object
  GV.Model.HcuUnit GV.Model.Units GV.Model.Volvo GV.Model.CanNet GV.Model.Authority GV.Model.Auth_io.
Local Open Scope Z_scope.

Record uref := { r_kind : ukind; r_cfg : unit_cfg; r_tmo : option Z;
                 r_heard : bool; r_time : Z; r_prev : option (Z * option Z) }.

Definition uref_of (addr : Z) (c : dconf) : option uref :=
  match kind_of_key (c_key c) with
  | Some k => Some {| r_kind := k; r_cfg := {| u_da := c_da c; u_sa := match c_sa c with Some s => s | None => addr end |};
                      r_tmo := c_timeout c; r_heard := false; r_time := 0; r_prev := None |}
  | None => None end.

(* did unit r accept frame f? *)
Definition accepts (r : uref) (f : frame) : bool * bool :=   (* (accepted, produced a signal) *)
  let o := unit_recv (r_kind r) (r_cfg r) ctx0 f in
  (negb (rx_count (r_ctx o) =? 0) || (match r_sigs o with [] => false | _ => true end),
   match r_sigs o with [] => false | _ => true end).

Fixpoint hear (rs : list uref) (now : Z) (f : frame) : list uref :=
  match rs with
  | [] => []
  | r :: t =>
      let '(acc, sig) := accepts r f in
      let r' := if acc then {| r_kind := r_kind r; r_cfg := r_cfg r; r_tmo := r_tmo r; r_heard := true; r_time := now; r_prev := r_prev r |} else r in
      if sig then r' :: t else r' :: hear t now f    (* a unit that yields a signal ends the scan *)
  end.

Definition silent_too_long (r : uref) (now : Z) : bool :=
  match r_tmo r with Some t => t <=? now - r_time r | None => false end.

(* what the cycle with index k may / must publish for unit r, given what it published last *)
Definition is_healthy (s : Z * option Z) : bool := (fst s =? module_state_Healthy) && match snd s with None => true | _ => false end.
Definition is_timeout (s : Z * option Z) : bool := (fst s =? module_state_Faulty) && match snd s with Some e => e =? 2 | None => false end.

Definition cycle_ok (r : uref) (k now : Z) (pub : option (Z * option Z)) : bool :=
  let late := silent_too_long r now in
  let tenth := k mod 10 =? 0 in
  match pub with
  | Some s =>
      (* truthful: healthy only if heard and fresh; faulty/timeout exactly when silent too long *)
      (if late then is_timeout s else r_heard r && is_healthy s)
      (* published because it changed or because it is a tenth cycle *)
      && (tenth || match r_prev r with Some p => negb (status_eqb p s) | None => true end)
  | None =>
      if late then negb tenth && match r_prev r with Some p => is_timeout p | None => false end
      else if r_heard r then negb tenth && match r_prev r with Some p => is_healthy p | None => false end
      else true            (* never heard and not timed out: silence *)
  end.

(* statuses observed in one cycle, as (name, state, error) triples, matched to units by name *)
Definition obs_status := (list Z * Z * option Z)%type.

Definition find_pub (r : uref) (obs : list obs_status) : option (Z * option Z) * bool :=
  (* (the status published under this unit's canonical name, exactly-one flag) *)
  let nm := unit_name (r_kind r) (r_cfg r) in
  match filter (fun o => if list_eq_dec Z.eq_dec (fst (fst o)) nm then true else false) obs with
  | [] => (None, true)
  | [o] => (Some (snd (fst o), snd o), true)
  | _ => (None, false)
  end.

Fixpoint cycle_all (rs : list uref) (k now : Z) (obs : list obs_status) : bool * list uref :=
  match rs with
  | [] => (true, [])
  | r :: t =>
      let '(pub, one) := find_pub r obs in
      let '(ok, t') := cycle_all t k now obs in
      let r' := match pub with
                | Some s => {| r_kind := r_kind r; r_cfg := r_cfg r; r_tmo := r_tmo r; r_heard := r_heard r; r_time := r_time r; r_prev := Some s |}
                | None => r end in
      (one && cycle_ok r k now pub && ok, r' :: t')
  end.

Inductive c10_obs := OCycle (st : list obs_status) | OOther.

Fixpoint c10_walk (rs : list uref) (k now : Z) (evs : list aevent) (obs : list c10_obs) : bool :=
  match evs, obs with
  | [], [] => true
  | e :: evs', o :: obs' =>
      match e, o with
      | AInject raw, OOther =>
          (match of_can_frame raw with
           | Some f => if id_pgn (f_id f) =? PGN_REQUEST then c10_walk rs k now evs' obs'
                       else c10_walk (hear rs now (normalise f)) k now evs' obs'
           | None => c10_walk rs k now evs' obs' end)
      | ATick, OCycle st =>
          let '(ok, rs') := cycle_all rs k now st in
          (* nothing is published under a name that is not a configured unit's *)
          ok && forallb (fun s => existsb (fun r => if list_eq_dec Z.eq_dec (fst (fst s)) (unit_name (r_kind r) (r_cfg r)) then true else false) rs) st
          && c10_walk rs' (k + 1) now evs' obs'
      | AWait ms, OOther => c10_walk rs k (now + ms) evs' obs'
      | ACmd _, OOther | ASetup, OOther | ATeardown, OOther => c10_walk rs k now evs' obs'
      | _, _ => false
      end
  | _, _ => false
  end.

(* well-formed configuration for this property: known or unknown entries, distinct canonical
   names among the known ones (distinct unit addresses) *)
Definition names_distinct (rs : list uref) : bool :=
  let ns := map (fun r => unit_name (r_kind r) (r_cfg r)) rs in
  forallb (fun n => Nat.eqb (length (filter (fun m => if list_eq_dec Z.eq_dec m n then true else false) ns)) 1) ns.

Definition c10_refs (c : acase) : list uref := filter_map (uref_of (ac_addr c)) (ac_confs c).

Definition c10_wf (c : acase) : bool :=
  names_distinct (c10_refs c)
  && forallb (fun e => match e with AWait ms => 0 <=? ms | _ => true end) (ac_events c).

Definition status_of_sig (l : list Z) : option obs_status :=
  match l with
  | 7 :: n :: t =>
      if (n <? 0) || (Z.of_nat (length t) <? n + 3) then None else
      let nm := firstn (Z.to_nat n) t in
      match skipn (Z.to_nat n) t with
      | [st; 0; _] => Some (nm, st, None)
      | [st; 1; e] => Some (nm, st, Some e)
      | _ => None end
  | _ => None
  end.

Definition c10_obs_of (ev : aevent) (s : astep) : c10_obs :=
  match ev with
  | ATick => OCycle (filter_map status_of_sig (as_sigs s))
  | _ => OOther
  end.

Definition c10_spec_ok (c : acase) (steps : list astep) : bool :=
  (Nat.eqb (length steps) (length (ac_events c)))
  && c10_walk (c10_refs c) 0 0 (ac_events c) (map (fun p => c10_obs_of (fst p) (snd p)) (combine (ac_events c) steps)).
