Require Import ExtrOcamlBasic.
Require Import GV.Model.C16_io.
Definition vp_run := c16_run.
Definition vp_check := c16_check.
Definition vp_nontriv := c16_nontriv.
Extraction "model.ml" vp_run vp_check vp_nontriv.
