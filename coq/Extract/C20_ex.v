Require Import ExtrOcamlBasic.
Require Import GV.Model.C20_io.
Definition vp_run := c20_run.
Definition vp_check := c20_check.
Definition vp_nontriv := c20_nontriv.
Extraction "model.ml" vp_run vp_check vp_nontriv.
