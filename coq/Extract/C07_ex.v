Require Import ExtrOcamlBasic.
Require Import GV.Model.C07_io.
Definition vp_run := c07_run.
Definition vp_check := c07_check.
Definition vp_nontriv := c07_nontriv.
Extraction "model.ml" vp_run vp_check vp_nontriv.
