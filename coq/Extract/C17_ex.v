Require Import ExtrOcamlBasic.
Require Import GV.Model.C17_io.
Definition vp_run := c17_run.
Definition vp_check := c17_check.
Definition vp_nontriv := c17_nontriv.
Extraction "model.ml" vp_run vp_check vp_nontriv.
