Require Import ExtrOcamlBasic.
Require Import GV.Model.C09_io.
Definition vp_run := c09_run.
Definition vp_check := c09_check.
Definition vp_nontriv := c09_nontriv.
Extraction "model.ml" vp_run vp_check vp_nontriv.
