Require Import ExtrOcamlBasic.
Require Import GV.Model.C09_io.
Definition vp_run := c09x_run.
Definition vp_check := c09x_check.
Definition vp_nontriv := c09x_nontriv.
Extraction "model.ml" vp_run vp_check vp_nontriv.
