Require Import ExtrOcamlBasic.
Require Import GV.Model.C18_io.
Definition vp_run := c18_run.
Definition vp_check := c18_check.
Definition vp_nontriv := c18_nontriv.
Extraction "model.ml" vp_run vp_check vp_nontriv.
