Require Import ExtrOcamlBasic.
From Coq Require Import ZArith List.
Require Import GV.Model.C02_io GV.Model.C01a_io.
Import ListNotations.
Local Open Scope Z_scope.
(* cases "1000 :: <authority script>": the same frames through the real NetworkAuthority's command and
   tick handles (clones, as the runtime uses them), judged with the C02 frame predicate inside the
   authority-level walk of C01a_io (destination = unit, source = configured source address) *)
Definition vp_run (l : list Z) : list Z := match l with 1000 :: r => c01a_run r | _ => c02_run l end.
Definition vp_check (l o : list Z) : bool := match l with 1000 :: r => c01a_check r o | _ => c02_check l o end.
Definition vp_nontriv (l o : list Z) : bool := match l with 1000 :: r => c01a_nontriv r o | _ => c02_nontriv l o end.
Extraction "model.ml" vp_run vp_check vp_nontriv.
