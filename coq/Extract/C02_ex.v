Require Import ExtrOcamlBasic.
Require Import GV.Model.C02_io.
Definition vp_run := c02_run.
Definition vp_check := c02_check.
Definition vp_nontriv := c02_nontriv.
Extraction "model.ml" vp_run vp_check vp_nontriv.
