Require Import ExtrOcamlBasic.
Require Import GV.Model.C11_io.
Definition vp_run := c11_run.
Definition vp_check := c11_check_all.
Definition vp_nontriv := c11_nontriv_all.
Extraction "model.ml" vp_run vp_check vp_nontriv.
