Require Import ExtrOcamlBasic.
Require Import GV.Model.C14_io.
Definition vp_run := c14_run.
Definition vp_check := c14_check.
Definition vp_nontriv := c14_nontriv.
Extraction "model.ml" vp_run vp_check vp_nontriv.
