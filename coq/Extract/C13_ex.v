Require Import ExtrOcamlBasic.
Require Import GV.Model.C13_io.
Definition vp_run := c13_run.
Definition vp_check := c13_check.
Definition vp_nontriv := c13_nontriv.
Extraction "model.ml" vp_run vp_check vp_nontriv.
