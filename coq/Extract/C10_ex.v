Require Import ExtrOcamlBasic.
Require Import GV.Model.Auth_io GV.Model.C10_io.
Definition vp_run := c10x_run.
Definition vp_check := c10x_check.
Definition vp_nontriv := c10_nontriv.
Extraction "model.ml" vp_run vp_check vp_nontriv.
