Require Import ExtrOcamlBasic.
Require Import GV.Model.Units_io GV.Model.Auth_io GV.Model.C06_io.
Definition vp_run := c06x_run.
Definition vp_check := c06x_check.
Definition vp_nontriv := c06x_nontriv.
Extraction "model.ml" vp_run vp_check vp_nontriv.
