Require Import ExtrOcamlBasic.
Require Import GV.Model.Units_io.
Definition vp_run := units_run.
Definition vp_check := c06_check.
Definition vp_nontriv := units_nontriv.
Extraction "model.ml" vp_run vp_check vp_nontriv.
