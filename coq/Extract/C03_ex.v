Require Import ExtrOcamlBasic.
Require Import GV.Model.Sess_io.
Definition vp_run := sess_run.
Definition vp_check := script_check.
Definition vp_nontriv := c03_nontriv.
Extraction "model.ml" vp_run vp_check vp_nontriv.
