Require Import ExtrOcamlBasic.
Require Import GV.Model.C01_io.
Definition vp_run := c01_run_z.
Definition vp_check := c01_check.
Definition vp_nontriv := c01_nontriv.
Extraction "model.ml" vp_run vp_check vp_nontriv.
