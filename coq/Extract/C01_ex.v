Require Import ExtrOcamlBasic.
Require Import GV.Model.C01_io GV.Model.C01a_io.
Definition vp_run := c01x_run.
Definition vp_check := c01x_check.
Definition vp_nontriv := c01x_nontriv.
Extraction "model.ml" vp_run vp_check vp_nontriv.
