Require Import ExtrOcamlBasic.
Require Import GV.Model.C01_io GV.Model.C01a_io GV.Model.C01r_io.
Definition vp_run := c01y_run.
Definition vp_check := c01y_check.
Definition vp_nontriv := c01y_nontriv.
Extraction "model.ml" vp_run vp_check vp_nontriv.
