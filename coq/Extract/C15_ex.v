Require Import ExtrOcamlBasic.
Require Import GV.Model.C15_io.
Definition vp_run := c15_run_all.
Definition vp_check := c15_check_all.
Definition vp_nontriv := c15_nontriv_all.
Extraction "model.ml" vp_run vp_check vp_nontriv.
