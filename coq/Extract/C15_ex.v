Require Import ExtrOcamlBasic.
From Coq Require Import ZArith List.
Require Import GV.Model.C15_io GV.Model.C01a_io.
Import ListNotations.
Local Open Scope Z_scope.
(* cases "1000 :: <authority script>": accepted commands through the real NetworkAuthority command
   handle incl. commands accepted while the bus is stalled for a moment (event 9): every frame arrives *)
Definition vp_run (l : list Z) : list Z := match l with 1000 :: r => c01a_run r | _ => c15_run_all l end.
Definition vp_check (l o : list Z) : bool := match l with 1000 :: r => c01a_check r o | _ => c15_check_all l o end.
Definition vp_nontriv (l o : list Z) : bool := match l with 1000 :: r => c01a_nontriv r o | _ => c15_nontriv_all l o end.
Extraction "model.ml" vp_run vp_check vp_nontriv.
