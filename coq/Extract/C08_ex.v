Require Import ExtrOcamlBasic.
Require Import GV.Model.C08_io.
Definition vp_run := c08_run.
Definition vp_check := c08_check.
Definition vp_nontriv := c08_nontriv.
Extraction "model.ml" vp_run vp_check vp_nontriv.
