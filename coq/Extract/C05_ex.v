Require Import ExtrOcamlBasic.
Require Import GV.Model.Sess_io.
Definition vp_run := sess_run.
Definition vp_check := c05_check.
Definition vp_nontriv := c05_nontriv.
Extraction "model.ml" vp_run vp_check vp_nontriv.
