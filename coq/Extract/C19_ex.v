Require Import ExtrOcamlBasic.
Require Import GV.Model.C19_io.
Definition vp_run := c19_run.
Definition vp_check := c19_check.
Definition vp_nontriv := c19_nontriv.
Extraction "model.ml" vp_run vp_check vp_nontriv.
