From Coq Require Import ZArith List Bool Arith Lia Sorted.
Import ListNotations.
Require Import GV.Model.Broadcast.

Section Proofs.
Variable A : Type.
Variable cap : nat.
Variable dflt : A.
Hypothesis cap_pos : 0 < cap.

Notation sys := (sys A). Notation step := (step A cap dflt). Notation run := (run A cap dflt).

(* positions (indices into the history) the handler has taken, in order *)
(* invariant: there is a strictly increasing list of positions ps, all below the cursor, such that
   taken = the values at ps, and every position below the cursor that is NOT in ps is more than
   `cap` behind the tail (it was overwritten before it could be delivered) *)
Definition inv (s : sys) : Prop :=
  exists ps : list nat,
    taken A (s_h A s) = map (fun p => nth p (s_sent A s) dflt) ps
    /\ StronglySorted lt ps
    /\ (forall p, In p ps -> p < h_cursor A (s_h A s))
    /\ h_cursor A (s_h A s) <= length (s_sent A s)
    /\ (forall j, j < h_cursor A (s_h A s) -> ~ In j ps -> j + cap < length (s_sent A s)).

Lemma inv0 : inv (sys0 A).
Proof. exists []. cbn. repeat split; try constructor; intros; try contradiction; lia. Qed.

Lemma nth_app_l (l l' : list A) p : p < length l -> nth p (l ++ l') dflt = nth p l dflt.
Proof. intros H. apply app_nth1; exact H. Qed.

Lemma sorted_snoc ps c : StronglySorted lt ps -> (forall p, In p ps -> p < c) -> StronglySorted lt (ps ++ [c]).
Proof.
  induction 1 as [|a l Hl IH Ha]; intros Hb; cbn.
  - repeat constructor.
  - constructor.
    + apply IH. intros p Hp. apply Hb. right; exact Hp.
    + apply Forall_app. split; [exact Ha|]. constructor; [|constructor]. apply Hb. left; reflexivity.
Qed.

Lemma inv_step s m : inv s -> inv (step s m).
Proof.
  intros (ps & Ht & Hs & Hb & Hc & Hm). destruct s as [sent h]. cbn [s_sent s_h] in *.
  destruct m as [x| |]; cbn [Broadcast.step s_sent s_h].
  - (* send *)
    exists ps. cbn [s_sent s_h]. rewrite app_length. cbn [length]. repeat split; auto; try lia.
    + rewrite Ht. apply map_ext_in. intros p Hp. symmetry. apply nth_app_l. specialize (Hb p Hp). lia.
    + intros j Hj Hn. specialize (Hm j Hj Hn). lia.
  - (* recv *)
    destruct (h_holding A h) as [y|] eqn:Hh; [exists ps; cbn [s_sent s_h]; repeat split; auto|].
    unfold recv_at. destruct (h_cursor A h <? length sent - cap) eqn:E1.
    + (* lagged: the cursor jumps to the oldest retained position *)
      apply Nat.ltb_lt in E1. exists ps. cbn [s_sent s_h h_cursor h_holding h_done taken].
      unfold taken in Ht. rewrite Hh in Ht. repeat split; auto; try lia;
        try (intros p Hp; specialize (Hb p Hp); lia);
        try (intros j Hj Hn; destruct (Nat.lt_ge_cases j (h_cursor A h)) as [Hlt|Hge]; [apply Hm; auto | lia]).
    + destruct (h_cursor A h <? length sent) eqn:E2.
      * (* an item: position = cursor *)
        apply Nat.ltb_ge in E1. apply Nat.ltb_lt in E2.
        exists (ps ++ [h_cursor A h]). cbn [s_sent s_h h_cursor h_holding h_done taken].
        unfold taken in Ht. rewrite Hh, app_nil_r in Ht. repeat split.
        -- rewrite map_app, <- Ht. reflexivity.
        -- apply sorted_snoc; assumption.
        -- intros p Hp. apply in_app_or in Hp as [Hp|[<-|[]]]; [specialize (Hb p Hp)|]; lia.
        -- lia.
        -- intros j Hj Hn. assert (j <> h_cursor A h) by (intros ->; apply Hn, in_or_app; right; left; reflexivity).
           apply Hm; [lia|]. intros Hin. apply Hn, in_or_app. left; exact Hin.
      * exists ps. cbn [s_sent s_h]. repeat split; auto.
  - (* finish *)
    destruct (h_holding A h) as [y|] eqn:Hh; [|exists ps; cbn [s_sent s_h]; repeat split; auto].
    exists ps. unfold taken in *. cbn [s_sent s_h h_cursor h_holding h_done] in *. rewrite Hh in Ht.
    rewrite ?app_nil_r. repeat split; auto.
Qed.

Lemma inv_run : forall ms s, inv s -> inv (run s ms).
Proof. induction ms as [|m ms IH]; intros s H; [exact H|]. cbn. apply IH, inv_step, H. Qed.

(* in every schedule the commands taken are a subsequence of the commands sent, in order *)
Fixpoint subseq (a b : list A) : Prop :=
  match a, b with
  | [], _ => True
  | _ :: _, [] => False
  | x :: a', y :: b' => (x = y /\ subseq a' b') \/ subseq a b'
  end.

Lemma map_nth_subseq : forall (l : list A) ps off, StronglySorted lt ps -> (forall p, In p ps -> off <= p < off + length l) ->
  subseq (map (fun p => nth (p - off) l dflt) ps) l.
Proof.
  induction l as [|y l IH]; intros ps off Hs Hb.
  - destruct ps as [|p ps]; [exact I|]. exfalso. specialize (Hb p (or_introl eq_refl)). cbn in Hb. lia.
  - destruct ps as [|p ps]; [exact I|]. cbn [map subseq].
    inversion Hs as [|? ? Hs' Hall]; subst.
    destruct (Nat.eq_dec p off) as [->|Hne].
    + left. split; [rewrite Nat.sub_diag; reflexivity|].
      assert (E : map (fun p => nth (p - off) (y :: l) dflt) ps = map (fun p => nth (p - S off) l dflt) ps).
      { apply map_ext_in. intros q Hq. rewrite Forall_forall in Hall. specialize (Hall q Hq).
        replace (q - off) with (S (q - S off)) by lia. reflexivity. }
      rewrite E. apply IH; [exact Hs'|]. intros q Hq. rewrite Forall_forall in Hall. specialize (Hall q Hq).
      specialize (Hb q (or_intror Hq)). cbn [length] in Hb. lia.
    + right.
      assert (E : map (fun p => nth (p - off) (y :: l) dflt) (p :: ps) = map (fun p => nth (p - S off) l dflt) (p :: ps)).
      { apply map_ext_in. intros q Hq. assert (off < q).
        { destruct Hq as [<-|Hq]; [specialize (Hb p (or_introl eq_refl)); lia|].
          rewrite Forall_forall in Hall. specialize (Hall q Hq). specialize (Hb p (or_introl eq_refl)). lia. }
        replace (q - off) with (S (q - S off)) by lia. reflexivity. }
      change (subseq (map (fun p0 => nth (p0 - off) (y :: l) dflt) (p :: ps)) l). rewrite E.
      apply IH; [exact Hs|]. intros q Hq. pose proof (Hb p (or_introl eq_refl)) as Hbp. specialize (Hb q Hq). cbn [length] in Hb, Hbp.
      assert (off < q).
      { destruct Hq as [<-|Hq]; [lia|]. rewrite Forall_forall in Hall. specialize (Hall q Hq). lia. }
      lia.
Qed.

Theorem taken_subsequence : forall ms, subseq (taken A (s_h A (run (sys0 A) ms))) (s_sent A (run (sys0 A) ms)).
Proof.
  intros ms. destruct (inv_run ms (sys0 A) inv0) as (ps & Ht & Hs & Hb & Hc & _).
  rewrite Ht.
  assert (E : map (fun p => nth p (s_sent A (run (sys0 A) ms)) dflt) ps
              = map (fun p => nth (p - 0) (s_sent A (run (sys0 A) ms)) dflt) ps)
    by (apply map_ext; intros; rewrite Nat.sub_0_r; reflexivity).
  rewrite E. apply map_nth_subseq; [exact Hs|]. intros p Hp. specialize (Hb p Hp). lia.
Qed.

(* the newest commands always get through: once the handler has caught up (cursor = tail, nothing
   in hand), every one of the last `cap` commands sent - in particular the final one - has been processed *)
Theorem newest_survive : forall ms,
  let s := run (sys0 A) ms in
  h_cursor A (s_h A s) = length (s_sent A s) -> h_holding A (s_h A s) = None ->
  forall j, length (s_sent A s) - cap <= j < length (s_sent A s) ->
  exists ps, h_done A (s_h A s) = map (fun p => nth p (s_sent A s) dflt) ps /\ In j ps.
Proof.
  intros ms s Hq Hh j Hj. destruct (inv_run ms (sys0 A) inv0) as (ps & Ht & Hs & Hb & Hc & Hm).
  fold s in Ht, Hb, Hc, Hm. exists ps. unfold taken in Ht. rewrite Hh, app_nil_r in Ht. split; [exact Ht|].
  destruct (in_dec Nat.eq_dec j ps) as [Hin|Hn]; [exact Hin|]. exfalso.
  assert (j < h_cursor A (s_h A s)) by lia. specialize (Hm j H Hn). lia.
Qed.

(* no overrun, no loss: if at every poll of the handler fewer than `cap` commands are waiting
   beyond its cursor ... we state the consequence on the invariant: no position is ever skipped
   as long as the handler was never lagged *)
Lemma lags_zero_all_taken : forall ms,
  h_lags A (s_h A (run (sys0 A) ms)) = 0 ->
  taken A (s_h A (run (sys0 A) ms)) = firstn (h_cursor A (s_h A (run (sys0 A) ms))) (s_sent A (run (sys0 A) ms)).
Proof.
  induction ms as [|m ms IH] using rev_ind; [reflexivity|].
  unfold run in *. rewrite fold_left_app. cbn [fold_left].
  pose proof (inv_run ms (sys0 A) inv0) as (_ & _ & _ & _ & Hc & _). unfold run in Hc.
  destruct (fold_left step ms (sys0 A)) as [sent h]. cbn [s_sent s_h] in *.
  destruct m as [x| |]; cbn [Broadcast.step s_sent s_h].
  - intros Hl. rewrite IH by exact Hl. rewrite firstn_app. replace (h_cursor A h - length sent) with 0 by lia.
    cbn. symmetry. apply app_nil_r.
  - destruct (h_holding A h) as [y|] eqn:Hh; [exact IH|].
    unfold recv_at. destruct (h_cursor A h <? length sent - cap) eqn:E1; [cbn; discriminate|].
    destruct (h_cursor A h <? length sent) eqn:E2; [|exact IH].
    cbn [s_h s_sent h_cursor h_holding h_done h_lags]. intros Hl. specialize (IH Hl).
    unfold taken in *. cbn [h_holding h_done]. rewrite Hh, app_nil_r in IH. rewrite IH.
    apply Nat.ltb_lt in E2. clear - E2.
    revert sent E2. generalize (h_cursor A h) as c. induction c as [|c IHc]; intros sent E2.
    + destruct sent as [|z zs]; [cbn in E2; lia|]. reflexivity.
    + destruct sent as [|z zs]; [cbn in E2; lia|]. cbn [firstn nth app]. f_equal. apply IHc. cbn in E2. lia.
  - destruct (h_holding A h) as [y|] eqn:Hh; [|exact IH].
    cbn [s_h s_sent h_cursor h_holding h_done h_lags]. intros Hl. specialize (IH Hl).
    unfold taken in *. cbn [h_holding h_done]. rewrite Hh in IH. rewrite app_nil_r. exact IH.
Qed.

(* never wedges: a lag is one step that leaves the handler polling; sending is always possible *)
Theorem lag_does_not_stop : forall s, h_holding A (s_h A s) = None ->
  h_cursor A (s_h A s) < length (s_sent A s) - cap ->
  let s' := step s MRecv in
  h_holding A (s_h A s') = None /\ h_cursor A (s_h A s') = length (s_sent A s) - cap
  /\ exists x, h_holding A (s_h A (step s' MRecv)) = Some x.
Proof.
  intros [sent h] Hh Hc. cbn [s_sent s_h] in *. cbn [Broadcast.step s_sent s_h]. rewrite Hh. unfold recv_at.
  assert (E : h_cursor A h <? length sent - cap = true) by (apply Nat.ltb_lt; exact Hc). rewrite E.
  cbn [s_sent s_h h_holding h_cursor]. repeat split.
  assert (E2 : length sent - cap <? length sent - cap = false) by apply Nat.ltb_irrefl.
  assert (E3 : length sent - cap <? length sent = true) by (apply Nat.ltb_lt; lia).
  rewrite E2, E3. cbn. eexists; reflexivity.
Qed.

Theorem send_always_enabled : forall s x, s_sent A (step s (MSend x)) = s_sent A s ++ [x] /\ s_h A (step s (MSend x)) = s_h A s.
Proof. intros; split; reflexivity. Qed.
End Proofs.
