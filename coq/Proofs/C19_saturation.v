(* C19, Linear::update: "saturate at the signed 16-bit limits instead of wrapping", at the level of the binary32 arithmetic.
   Once the (rounded, overflow-saturated) proportional part reaches the room the offset leaves below -32768 + offset (above
   32767 - offset), the value before the final sign flip is the limit itself, up to the rounding of the two additions:
   within 2^-9 of -32768 (of 32767).  The check enforces the executable form (Spec/C19_spec.lu_sat, tolerance 2^-8). *)
From Coq Require Import ZArith Reals Lra Lia Bool List.
From Flocq Require Import Core Sterbenz BinarySingleNaN.
Require Import GV.Model.Outcome GV.Model.F32 GV.Model.Kinematics GV.Spec.C19_spec GV.Proofs.F32_lemmas GV.Proofs.C19_profile.
Local Open Scope R_scope.

(* the neighbours of the limits in binary32: -32768 + 2^-9 and 32767 + 2^-9 ... *)
Lemma fmt_m32768_up : fmt (-32768 + bpow2 (-9)).
Proof.
  replace (-32768 + bpow2 (-9)) with (F2R (Float radix2 (-16777215) (-9))).
  - apply fmt_small_F2R; lia.
  - unfold F2R. cbn [Fnum Fexp]. change (bpow2 (-9)) with (/ 512). lra.
Qed.
Lemma fmt_32767_up : fmt (32767 + bpow2 (-9)).
Proof.
  replace (32767 + bpow2 (-9)) with (F2R (Float radix2 16776705 (-9))).
  - apply fmt_small_F2R; lia.
  - unfold F2R. cbn [Fnum Fexp]. change (bpow2 (-9)) with (/ 512). lra.
Qed.
Lemma fmt_32767_down : fmt (32767 - bpow2 (-9)).
Proof.
  replace (32767 - bpow2 (-9)) with (F2R (Float radix2 16776703 (-9))).
  - apply fmt_small_F2R; lia.
  - unfold F2R. cbn [Fnum Fexp]. change (bpow2 (-9)) with (/ 512). lra.
Qed.

Section Saturation.
  Context (p : linear) (Hp : lin_ok p).

  (* the rounding of the room the offset leaves is within 2^-10 of it *)
  Lemma LO_close : Rabs (LO p - (-32768 + R32 (l_offset p))) <= bpow2 (-10).
  Proof.
    destruct Hp as [Fk Hk Fo Ho1 Ho2]. unfold LO.
    destruct (Req_dec (R32 (l_offset p)) 0) as [E|E].
    - rewrite E. replace (-32768 + 0) with (IZR (-32768)) by lra. rewrite rnd_Z by lia.
      replace (IZR (-32768) - IZR (-32768)) with 0 by lra. rewrite Rabs_R0. apply bpow_ge_0.
    - apply rnd_err_below_2p15. change (bpow2 15) with 32768. apply Rabs_lt. lra.
  Qed.
  Lemma HI_close : Rabs (HI p - (32767 - R32 (l_offset p))) <= bpow2 (-10).
  Proof.
    destruct Hp as [Fk Hk Fo Ho1 Ho2]. unfold HI.
    apply rnd_err_below_2p15. change (bpow2 15) with 32768. apply Rabs_lt. lra.
  Qed.

  (* negative error whose proportional part reaches the lower room: the value is the lower limit, up to 2^-9 *)
  Theorem lu_saturates_low (e : f32) : is_finite e = true -> Bsign e = true ->
    satR (rnd (R32 e * R32 (kp p))) <= LO p ->
    -32768 <= lu_real p e <= -32768 + bpow2 (-9).
  Proof.
    intros Fe Se Hx. split; [apply lu_real_ge_m32768; assumption|].
    generalize (LO_bounds p Hp) (HI_bounds p Hp) LO_close. intros HLO HHI HC.
    unfold lu_real, sgn. rewrite Se.
    assert (Ec : Rmax (LO p) (Rmin (satR (rnd (R32 e * R32 (kp p)))) (HI p)) = LO p).
    { rewrite Rmin_left by lra. apply Rmax_left. exact Hx. }
    rewrite Ec. rewrite <- (rnd_id _ fmt_m32768_up). apply rnd_le.
    apply Rabs_le_inv in HC. change (bpow2 (-10)) with (/ 1024) in HC. change (bpow2 (-9)) with (/ 512). lra.
  Qed.

  (* positive error whose proportional part reaches the upper room: the value is the upper limit, up to 2^-9 *)
  Theorem lu_saturates_high (e : f32) : is_finite e = true -> Bsign e = false -> 0 < R32 e ->
    HI p <= satR (rnd (R32 e * R32 (kp p))) ->
    32767 - bpow2 (-9) <= lu_real p e <= 32767 + bpow2 (-9).
  Proof.
    intros Fe Se Pe Hx.
    generalize (LO_bounds p Hp) (HI_bounds p Hp) HI_close. intros HLO HHI HC.
    unfold lu_real, sgn. rewrite Se. rewrite Rmult_1_r.
    assert (Ec : Rmax (LO p) (Rmin (satR (rnd (R32 e * R32 (kp p)))) (HI p)) = HI p).
    { rewrite Rmin_right by exact Hx. apply Rmax_right. lra. }
    rewrite Ec. apply Rabs_le_inv in HC. change (bpow2 (-10)) with (/ 1024) in HC.
    split.
    - rewrite <- (rnd_id _ fmt_32767_down). apply rnd_le. change (bpow2 (-9)) with (/ 512). lra.
    - rewrite <- (rnd_id _ fmt_32767_up). apply rnd_le. change (bpow2 (-9)) with (/ 512). lra.
  Qed.
End Saturation.
