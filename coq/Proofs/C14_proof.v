From Coq Require Import ZArith List Bool Arith Lia.
Import ListNotations.
Require Import GV.Gen.Consts GV.Model.Governor GV.Model.Hcu GV.Model.Packets GV.Model.Session GV.Model.Broadcast GV.Model.Stream.
Local Open Scope Z_scope.

(* a session upgrade that decodes is answered with exactly one instance record, and changes the flags *)
Theorem handshake_one_instance : forall flags payload f n,
  recv_packet type_session payload = DOk (PSession f n) ->
  handle flags type_session payload = Some (f, [AInstance]).
Proof. intros flags payload f n H. unfold handle. rewrite Z.eqb_refl, H. reflexivity. Qed.

Theorem failed_upgrade_silent : forall flags payload,
  recv_packet type_session payload = DErr -> handle flags type_session payload = Some (flags, []).
Proof. intros flags payload H. unfold handle. rewrite Z.eqb_refl, H. reflexivity. Qed.

Lemma skipn_nth_cons {X} (l : list X) (c : nat) (d : X) : (c < length l)%nat -> skipn c l = nth c l d :: skipn (S c) l.
Proof.
  revert l. induction c as [|c IH]; intros [|x l] H; cbn in *; try lia; [reflexivity|]. apply IH. lia.
Qed.

(* draining the signal receiver: the session ends at the tail and has been given exactly the
   retained signals from max(cursor, tail - capacity), in publication order, iff it streams *)
Theorem drain_signals_spec : forall fuel bus flags c,
  (c <= length bus)%nat -> (2 * (length bus - c) + 2 <= fuel)%nat ->
  drain_signals fuel bus flags c =
  (length bus, if has_flag flags session_mode_stream
               then map ASignal (skipn (Nat.max c (length bus - sigcap)) bus) else []).
Proof.
  induction fuel as [|fuel IH]; intros bus flags c Hc Hf; [lia|].
  cbn [drain_signals]. unfold recv_at.
  destruct (c <? length bus - sigcap)%nat eqn:E1.
  - apply Nat.ltb_lt in E1. rewrite IH by lia.
    replace (Nat.max (length bus - sigcap) (length bus - sigcap)) with (length bus - sigcap)%nat by lia.
    replace (Nat.max c (length bus - sigcap)) with (length bus - sigcap)%nat by lia. reflexivity.
  - apply Nat.ltb_ge in E1. destruct (c <? length bus)%nat eqn:E2.
    + apply Nat.ltb_lt in E2. rewrite IH by lia.
      replace (Nat.max (S c) (length bus - sigcap)) with (S c) by lia.
      replace (Nat.max c (length bus - sigcap)) with c by lia.
      rewrite (skipn_nth_cons bus c dflt_pkt E2).
      destruct (has_flag flags session_mode_stream); reflexivity.
    + apply Nat.ltb_ge in E2. assert (c = length bus) by lia. subst c.
      replace (Nat.max (length bus) (length bus - sigcap)) with (length bus) by lia.
      rewrite skipn_all. destruct (has_flag flags session_mode_stream); reflexivity.
Qed.

(* a session that did not ask for streaming receives nothing when signals are published *)
Corollary non_stream_silent : forall fuel bus flags c,
  (c <= length bus)%nat -> (2 * (length bus - c) + 2 <= fuel)%nat -> has_flag flags session_mode_stream = false ->
  snd (drain_signals fuel bus flags c) = [].
Proof. intros. rewrite drain_signals_spec by assumption. rewrite H1. reflexivity. Qed.

(* without overflow a streaming session receives every signal published since its cursor, in order *)
Corollary stream_complete : forall fuel bus flags c,
  (c <= length bus)%nat -> (2 * (length bus - c) + 2 <= fuel)%nat -> has_flag flags session_mode_stream = true ->
  (length bus - c <= sigcap)%nat ->
  snd (drain_signals fuel bus flags c) = map ASignal (skipn c bus).
Proof.
  intros. rewrite drain_signals_spec by assumption. rewrite H1. cbn [snd].
  replace (Nat.max c (length bus - sigcap)) with c by lia. reflexivity.
Qed.

(* under overflow exactly the oldest undelivered signals are lost: a contiguous block; the newest
   `capacity` signals are delivered, in order *)
Corollary lag_loses_oldest_block : forall fuel bus flags c,
  (c <= length bus)%nat -> (2 * (length bus - c) + 2 <= fuel)%nat -> has_flag flags session_mode_stream = true ->
  (sigcap < length bus - c)%nat ->
  snd (drain_signals fuel bus flags c) = map ASignal (skipn (length bus - sigcap) bus).
Proof.
  intros. rewrite drain_signals_spec by assumption. rewrite H1. cbn [snd].
  replace (Nat.max c (length bus - sigcap)) with (length bus - sigcap)%nat by lia. reflexivity.
Qed.

(* publishing never waits for any session: the new history is the old one plus the signals,
   whatever the sessions' cursors are; and what one session receives does not depend on the others *)
Theorem publish_never_blocks : forall bus ss sigs,
  fst (fst (op_step bus ss (OPublish sigs))) = bus ++ sigs.
Proof. reflexivity. Qed.

Theorem sessions_independent : forall bus ss sigs k s,
  nth_error ss k = Some s ->
  nth_error (snd (op_step bus ss (OPublish sigs))) k =
  Some (if ss_open s then
          match ss_state s with
          | Running flags _ => snd (drain_signals (2 * length (bus ++ sigs) + 2) (bus ++ sigs) flags (ss_cursor s))
          | Crashed => [] end
        else []).
Proof.
  intros bus ss sigs k s H. cbn [op_step snd]. rewrite map_map.
  rewrite nth_error_map, H. cbn [option_map]. f_equal.
  destruct (ss_open s); [|reflexivity]. destruct (ss_state s) as [flags buf|]; [|reflexivity].
  destruct (drain_signals _ _ flags (ss_cursor s)); reflexivity.
Qed.

Theorem compat_iff : forall ma mi, is_compatible ma mi = true <-> ma = version_major /\ mi = version_minor.
Proof. intros ma mi. unfold is_compatible. rewrite andb_true_iff, !Z.eqb_eq. tauto. Qed.
