From Coq Require Import ZArith List Bool Lia ZifyBool.
Import ListNotations.
Require Import GV.Gen.Consts GV.Model.Outcome GV.Model.J1939 GV.Model.Governor GV.Model.Hcu GV.Model.Object
  GV.Model.HcuUnit GV.Model.Units GV.Model.Volvo GV.Spec.C07_spec GV.Spec.C08_spec GV.Proofs.C07_proof.
Local Open Scope Z_scope.
Ltac Zify.zify_post_hook ::= Z.div_mod_to_equations.

(* the governor with the shipped setting *)
Lemma gov_ok sig cmd rpm a : exists e, next_state volvo_rpm_idle volvo_rpm_max sig cmd rpm a = Ok e
  /\ 800 <= e_rpm e <= 2100
  /\ (e_state e = Starting -> a <> Old /\ (cmd = Starting \/ cmd = Request \/ sig = Starting))
  /\ (cmd = NoRequest -> e_state e <> Starting)
  /\ (cmd = NoRequest -> sig = Request -> e_state e = Stopping).
Proof.
  unfold volvo_rpm_idle, volvo_rpm_max.
  destruct (next_state 800 2100 sig cmd rpm a) as [e|] eqn:E.
  - exists e. split; [reflexivity|].
    destruct (c07_envelope 800 2100 sig cmd rpm a e ltac:(lia) E) as (Hr & _ & Hs & _).
    split; [exact Hr|].
    unfold next_state, mk_engine in E. rewrite !clamp_ok in E by lia.
    destruct sig, cmd, a; cbn [expired obind] in E; inversion E; subst e; cbn [e_state];
      repeat split; try congruence; try (intros; auto; fail); try tauto.
  - exfalso. eapply (c07_never_panics 800 2100 sig cmd rpm a); [lia | exact E].
Qed.

Lemma speed_id sa : 0 <= sa < 256 -> id_build 3 65282 0 sa = 3 * 67108864 + 65282 * 256 + sa.
Proof.
  intros H. unfold id_build, id_is_pdu1, id_pf. replace (Z.min 3 7) with 3 by reflexivity.
  assert (E : ((3 * 67108864 + 65282 * 256 + sa) / 65536) mod 256 <? 240 = false) by lia.
  rewrite E. lia.
Qed.

(* link between the driver state and the independently tracked history summary *)
Definition linked (s : vstate) (now : Z) (t : track) : Prop :=
  reported (v_ctx s) = t_status t /\ t_now t = now
  /\ match t_cmd t with
     | Some (spd, tm) => 0 <= spd /\ tx_last (v_ctx s) = Some (OEngine (normalise_cmd {| e_demand := 0; e_actual := 0; e_rpm := spd; e_state := NoRequest |}))
                         /\ v_tx_time s = tm
     | None => tx_last (v_ctx s) = None
     end.

Lemma norm_state spd : 0 <= spd ->
  let c := normalise_cmd {| e_demand := 0; e_actual := 0; e_rpm := spd; e_state := NoRequest |} in
  e_state c = (if 0 <? spd then Request else NoRequest) /\ e_rpm c = spd.
Proof. intros H. unfold normalise_cmd. cbn [e_rpm]. destruct (0 <? spd) eqn:E; cbn; split; auto; lia. Qed.

Lemma norm_any cmd : normalise_cmd cmd = normalise_cmd {| e_demand := 0; e_actual := 0; e_rpm := e_rpm cmd; e_state := NoRequest |}.
Proof. reflexivity. Qed.

Lemma frame_ok_decision sa t with_age e :
  0 <= sa < 256 ->
  decision t with_age = Ok e ->
  800 <= e_rpm e <= 2100 ->
  (match t_cmd t with
   | Some (spd0, tm) =>
       (spd0 = 0 -> e_state e <> Starting)
       /\ (spd0 = 0 -> e_state (t_status t) = Request -> e_state e = Stopping)
       /\ (with_age = true -> volvo_timeout_ms <= t_now t - tm -> e_state e <> Starting)
   | None => True end) ->
  frame_ok sa t with_age (gov_frame sa (Ok e)) = true.
Proof.
  intros Hsa Hd Hr Hc. unfold frame_ok, gov_frame, frame_fields, speed_control. cbn [f_data f_id].
  rewrite speed_id by assumption. rewrite Z.eqb_refl, Hd.
  unfold speed_byte. replace (Z.min 255 (e_rpm e / 10)) with (e_rpm e / 10) by lia.
  unfold volvo_rpm_idle, volvo_rpm_max.
  assert (V : valid_code (code_of (e_state e)) = true) by (destruct (e_state e); reflexivity).
  rewrite V, !Z.eqb_refl.
  assert (R1 : 800 / 10 <=? e_rpm e / 10 = true) by lia.
  assert (R2 : e_rpm e / 10 <=? 2100 / 10 = true) by lia.
  rewrite R1, R2. cbn [andb].
  destruct (t_cmd t) as [[spd0 tm]|]; [|reflexivity].
  destruct Hc as (H1 & H2 & H3).
  assert (C195 : forall st, st <> Starting -> (code_of st =? 195) = false) by (intros st Hn; destruct st; try reflexivity; congruence).
  apply andb_true_intro; split; [apply andb_true_intro; split|].
  - destruct (spd0 =? 0) eqn:E; [|reflexivity]. cbn [implb]. rewrite C195; [reflexivity | apply H1; lia].
  - destruct ((spd0 =? 0) && estate_eqb (e_state (t_status t)) Request) eqn:E; [|reflexivity]. cbn [implb].
    apply andb_prop in E as [E1 E2].
    rewrite H2; [reflexivity | lia | destruct (e_state (t_status t)); try discriminate; reflexivity].
  - destruct (with_age && (volvo_timeout_ms <=? t_now t - tm)) eqn:E; [|reflexivity]. cbn [implb].
    apply andb_prop in E as [E1 E2]. rewrite C195; [reflexivity | apply H3; [exact E1 | lia]].
Qed.

Lemma c08_walk_run u : 0 <= u_sa u < 256 -> 0 <= u_da u < 256 ->
  forall evs s now t,
  forallb (fun e => match e with
                    | VStatus d => (Z.of_nat (length d) =? 8) && forallb is_byte d
                    | VCmd e => is_u16 (e_rpm e)
                    | VOther (OEngine _) => false
                    | VWait ms => 0 <=? ms
                    | _ => true end) evs = true ->
  linked s now t -> c08_walk u t evs (volvo_run u s now evs) = true.
Proof.
  intros Hsa Hda. induction evs as [|ev evs IH]; intros s now t Hwf L; [reflexivity|].
  cbn [forallb] in Hwf. apply andb_prop in Hwf as [Hev Hwf].
  destruct L as (Lst & Lnow & Lcmd).
  destruct ev as [d|c|o| |ms]; cbn [volvo_run c08_walk].
  - (* status frame: goes through the engine driver's EEC1 path *)
    apply IH; [exact Hwf|]. unfold linked, volvo_recv. cbn [v_ctx v_tx_time t_status t_cmd t_now].
    assert (R : r_ctx (ems_recv u (v_ctx s) (eec1_frame u d)) = set_rx (v_ctx s) (OEngine (eec1_engine d))).
    { unfold ems_recv, eec1_frame. cbn [f_id f_data].
      assert (P : id_pgn (3 * 67108864 + 61444 * 256 + u_da u) = 61444).
      { unfold id_pgn, id_is_pdu1, id_pf, id_ps.
        assert (E : ((3 * 67108864 + 61444 * 256 + u_da u) / 65536) mod 256 <? 240 = false) by lia. rewrite E. lia. }
      assert (S : id_sa (3 * 67108864 + 61444 * 256 + u_da u) = u_da u) by (unfold id_sa; lia).
      rewrite P, S. unfold PGN_TSC1, PGN_EEC1. cbn [Z.eqb Pos.eqb]. rewrite Z.eqb_refl. reflexivity. }
    rewrite R. unfold reported. cbn [set_rx rx_last tx_last]. repeat split; auto.
  - (* engine command *)
    cbn [volvo_trigger].
    set (t' := {| t_status := t_status t; t_cmd := Some (e_rpm c, t_now t); t_now := t_now t |}).
    assert (Hrpm : 0 <= e_rpm c) by (unfold is_u16 in Hev; lia).
    destruct (norm_state (e_rpm c) Hrpm) as [Ns Nr]. rewrite <- norm_any in Ns, Nr.
    destruct (gov_ok (e_state (reported (v_ctx s))) (e_state (normalise_cmd c)) (e_rpm (normalise_cmd c)) NoAge)
      as (e & He & Hr & Hs & Hn & Hq).
    rewrite He.
    assert (D : decision t' false = Ok e).
    { unfold decision, t'. cbn [t_cmd t_status]. rewrite <- Lst, <- Ns, <- Nr. exact He. }
    rewrite (frame_ok_decision (u_sa u) t' false e Hsa D Hr).
    + cbn [andb]. apply IH; [exact Hwf|]. unfold linked, t'. cbn [v_ctx v_tx_time t_status t_cmd t_now set_tx rx_last tx_last].
      repeat split; auto; try (unfold reported in *; cbn [rx_last]; exact Lst).
    + unfold t'. cbn [t_cmd t_status]. repeat split.
      * intros H0. apply Hn. rewrite Ns. rewrite H0. reflexivity.
      * intros H0 H1. apply Hq; [rewrite Ns, H0; reflexivity | rewrite Lst; exact H1].
      * discriminate.
  - (* other command *)
    destruct o; try discriminate; cbn [volvo_trigger]; apply IH; try assumption; repeat split; auto.
  - (* tick *)
    unfold volvo_tick.
    destruct (t_cmd t) as [[spd tm]|] eqn:Tc.
    + destruct Lcmd as (Hspd & Ltx & Ltm). rewrite Ltx.
      destruct (norm_state spd Hspd) as [Ns Nr].
      set (cn := normalise_cmd {| e_demand := 0; e_actual := 0; e_rpm := spd; e_state := NoRequest |}) in *.
      destruct (gov_ok (e_state (reported (v_ctx s))) (e_state cn) (e_rpm cn) (age_at s now)) as (e & He & Hr & Hs & Hn & Hq).
      rewrite He.
      assert (D : decision t true = Ok e).
      { unfold decision. rewrite Tc. rewrite <- Lst, <- Ns, <- Nr. unfold age_at in He. rewrite Ltm, <- Lnow in He. exact He. }
      rewrite (frame_ok_decision (u_sa u) t true e Hsa D Hr).
      * cbn [andb]. apply IH; [exact Hwf|]. unfold linked. rewrite Tc. repeat split; auto.
      * rewrite Tc. repeat split.
        -- intros H0. apply Hn. rewrite Ns, H0. reflexivity.
        -- intros H0 H1. apply Hq; [rewrite Ns, H0; reflexivity | rewrite Lst; exact H1].
        -- intros _ Hold Hst. destruct (Hs Hst) as [Ha _]. apply Ha. unfold age_at.
           assert (E : volvo_timeout_ms <=? now - v_tx_time s = true) by lia. rewrite E. reflexivity.
    + rewrite Lcmd.
      destruct (gov_ok (e_state (reported (v_ctx s))) (e_state (reported (v_ctx s))) (e_rpm (reported (v_ctx s))) NoAge) as (e & He & Hr & _).
      rewrite He.
      assert (D : decision t true = Ok e) by (unfold decision; rewrite Tc, <- Lst; exact He).
      rewrite (frame_ok_decision (u_sa u) t true e Hsa D Hr) by (rewrite Tc; exact I).
      cbn [andb]. apply IH; [exact Hwf|]. unfold linked. rewrite Tc. repeat split; auto.
  - (* wait *)
    apply IH; [exact Hwf|]. unfold linked in *. cbn [t_status t_cmd t_now]. repeat split; auto. lia.
Qed.

Theorem c08_holds : forall c, c08_wf c = true -> c08_spec_ok c (c08_model c) = true.
Proof.
  intros [u evs] Hwf. unfold c08_wf in Hwf. cbn [g_u g_events] in Hwf.
  apply andb_prop in Hwf as [Hwf He]. apply andb_prop in Hwf as [Hd Hs].
  unfold c08_spec_ok, c08_model. cbn [g_u g_events].
  apply c08_walk_run; try (unfold is_byte in *; lia); [exact He|].
  unfold linked, vstate0, track0. cbn. repeat split; reflexivity.
Qed.

(* a command means the same when accepted and on every later cycle within the timeout *)
Theorem c08_same_meaning : forall idle max sig cmd rpm,
  next_state idle max sig cmd rpm Young = next_state idle max sig cmd rpm NoAge.
Proof. intros. destruct sig, cmd; reflexivity. Qed.
