(* C19, law_of_cosines in binary32: if the triangle exists with the explicit margin
   D + S <= 2^21 (D - |N|)   (N = a^2+b^2-c^2, D = 2ab, S = a^2+b^2+c^2, i.e. 1 - |cos| >= 2^-21 (1 + S/D))
   the argument handed to acos is a finite float in [-1, 1]: no NaN.  Seven roundings are tracked
   with the standard model of Flocq (relative error 2^-24, one absolute term 2^-150 for the
   cancelling subtraction). *)
From Coq Require Import ZArith Reals Lra Lia Bool List.
From Flocq Require Import Core Relative BinarySingleNaN.
Require Import GV.Model.Outcome GV.Model.F32 GV.Model.Kinematics GV.Spec.C19_spec GV.Proofs.F32_lemmas GV.Proofs.C19_profile.
Local Open Scope R_scope.

Definition uu : R := bpow2 (-24).
Lemma uu_val : uu = / 16777216. Proof. reflexivity. Qed.

Lemma half_ulp_uu : / 2 * bpow2 (- (24) + 1) = uu.
Proof. unfold uu. change (- (24) + 1)%Z with (-23)%Z. change (-24)%Z with (-1 + -23)%Z. rewrite bpow_plus. reflexivity. Qed.
Lemma rel_err x : bpow2 (-126) <= Rabs x -> Rabs (rnd x - x) <= uu * Rabs x.
Proof.
  intros H. generalize (relative_error_N_FLT radix2 (-149) 24 Hprec32 (fun z => negb (Z.even z)) x H).
  rewrite half_ulp_uu. auto.
Qed.
Lemma abs_err x : exists eps eta, Rabs eps <= uu /\ Rabs eta <= bpow2 (-150) /\ rnd x = x * (1 + eps) + eta.
Proof.
  destruct (error_N_FLT radix2 (-149) 24 Hprec32 (fun z => negb (Z.even z)) x) as (eps & eta & H1 & H2 & _ & H3).
  exists eps, eta. rewrite half_ulp_uu in H1. split; [exact H1|]. split; [|exact H3].
  apply Rle_trans with (1 := H2). change (-150)%Z with (-1 + -149)%Z. rewrite bpow_plus. apply Rle_refl.
Qed.

Lemma fmul_finite x y : is_finite x = true -> is_finite y = true ->
  Rabs (rnd (R32 x * R32 y)) < bpow2 128 ->
  R32 (fmul x y) = rnd (R32 x * R32 y) /\ is_finite (fmul x y) = true.
Proof.
  intros Fx Fy Hb. generalize (Bmult_correct 24 128 Hprec32 Hemax32 mode_NE x y).
  change (round_mode mode_NE) with ZnearestE. change (SpecFloat.fexp 24 128) with fexp32.
  rewrite Rlt_bool_true by exact Hb. rewrite Fx, Fy. intros [H1 [H2 _]]. split; assumption.
Qed.
Lemma fdiv_finite x y : is_finite x = true -> is_finite y = true -> R32 y <> 0 ->
  Rabs (rnd (R32 x / R32 y)) < bpow2 128 ->
  R32 (fdiv x y) = rnd (R32 x / R32 y) /\ is_finite (fdiv x y) = true.
Proof.
  intros Fx Fy Hy Hb. generalize (Bdiv_correct 24 128 Hprec32 Hemax32 mode_NE x y Hy).
  change (round_mode mode_NE) with ZnearestE. change (SpecFloat.fexp 24 128) with fexp32.
  rewrite Rlt_bool_true by exact Hb. rewrite Fx. intros [H1 [H2 _]]. split; assumption.
Qed.
Lemma rnd_small x e : (e <= 127)%Z -> (-149 <= e)%Z -> Rabs x <= bpow2 e -> Rabs (rnd x) < bpow2 128.
Proof.
  intros He He' Hx. apply Rle_lt_trans with (bpow2 e); [|apply bpow_lt; lia].
  apply abs_round_le_generic; auto with typeclass_instances.
  apply generic_format_bpow. unfold FLT_exp. lia.
Qed.

(* magnitudes of "moderate" positive floats *)
Lemma moderate_range (a : f32) : moderate a = true -> fpos a = true ->
  is_finite a = true /\ bpow2 (-41) <= R32 a < bpow2 41.
Proof.
  destruct a as [s|s| |s m e Hb]; try discriminate. intros Hm Hp. split; [reflexivity|].
  cbn [moderate] in Hm. apply andb_prop in Hm as [He1 He2]. apply Z.leb_le in He1, He2.
  assert (Hs : s = false).
  { destruct s; [|reflexivity]. exfalso. unfold fpos, flt in Hp. change (f_of_Z 0) with (B754_zero false : f32) in Hp.
    rewrite (Bltb_correct 24 128 (B754_zero false) (B754_finite true m e Hb) eq_refl eq_refl) in Hp.
    cbn [B2R] in Hp. generalize (F2R_lt_0 radix2 (Float radix2 (cond_Zopp true (Zpos m)) e) eq_refl).
    destruct (Rlt_bool_spec 0 (F2R (Float radix2 (cond_Zopp true (Zpos m)) e))); [lra | discriminate]. }
  subst s. cbn [B2R cond_Zopp].
  destruct (bounded_inv _ _ Hb) as [Hm24 _].
  (* the mantissa has 24 digits because e > emin *)
  assert (Hm23 : (2 ^ 23 <= Zpos m)%Z).
  { pose proof Hb as Hb'. unfold SpecFloat.bounded, SpecFloat.canonical_mantissa in Hb'. apply andb_prop in Hb' as [Hc _].
    apply Zeq_bool_eq in Hc. unfold SpecFloat.fexp, SpecFloat.emin in Hc. rewrite Digits.Zpos_digits2_pos in Hc.
    assert (Hd : Zdigits radix2 (Zpos m) = 24%Z) by lia.
    generalize (Zdigits_correct radix2 (Zpos m)). rewrite Hd, Z.abs_eq by lia. intros [H _]. exact H. }
  unfold F2R; cbn [Fnum Fexp]. split.
  - apply Rle_trans with (IZR (2 ^ 23) * bpow2 e).
    + change (IZR (2 ^ 23)) with (bpow2 23). rewrite <- bpow_plus. apply bpow_le. lia.
    + apply Rmult_le_compat_r; [apply bpow_ge_0 | apply IZR_le; exact Hm23].
  - apply Rlt_le_trans with (IZR (2 ^ 24) * bpow2 e).
    + apply Rmult_lt_compat_r; [apply bpow_gt_0 | apply IZR_lt; exact Hm24].
    + change (IZR (2 ^ 24)) with (bpow2 24). rewrite <- bpow_plus. apply bpow_le. lia.
Qed.

Lemma abs_le_both x y : Rabs (x - y) <= uu * Rabs y -> 0 <= y ->
  (1 - / 16777216) * y <= x <= (1 + / 16777216) * y.
Proof. intros H Hy. rewrite uu_val in H. rewrite (Rabs_pos_eq y Hy) in H. apply Rabs_le_inv in H. lra. Qed.

Lemma sq_range x : bpow2 (-41) <= x < bpow2 41 -> bpow2 (-82) <= x * x < bpow2 82.
Proof.
  intros [H1 H2]. assert (0 < bpow2 (-41)) by apply bpow_gt_0.
  change (-82)%Z with (-41 + -41)%Z. change 82%Z with (41 + 41)%Z. rewrite !bpow_plus. split.
  - apply Rmult_le_compat; lra.
  - apply Rmult_le_0_lt_compat; lra.
Qed.
Lemma mul_range x y : bpow2 (-41) <= x < bpow2 41 -> bpow2 (-41) <= y < bpow2 41 -> bpow2 (-82) <= x * y < bpow2 82.
Proof.
  intros [H1 H2] [H3 H4]. assert (0 < bpow2 (-41)) by apply bpow_gt_0.
  change (-82)%Z with (-41 + -41)%Z. change 82%Z with (41 + 41)%Z. rewrite !bpow_plus. split.
  - apply Rmult_le_compat; lra.
  - apply Rmult_le_0_lt_compat; lra.
Qed.

Lemma loc_chain (a b c : f32) :
  tri_moderate a b c = true ->
  exists n d : f32,
    loc_arg a b c = fdiv n d /\ is_finite n = true /\ is_finite d = true /\ 0 < R32 d
    /\ (1 - / 16777216) * ((1 - / 16777216) * (2 * (R32 a * R32 b))) <= R32 d
        <= (1 + / 16777216) * ((1 + / 16777216) * (2 * (R32 a * R32 b)))
    /\ Rabs (R32 n - (R32 a * R32 a + R32 b * R32 b - R32 c * R32 c))
        <= 5 * / 16777216 * (R32 a * R32 a + R32 b * R32 b + R32 c * R32 c)
    /\ bpow2 (-82) <= R32 a * R32 b /\ 0 < R32 a * R32 a + R32 b * R32 b + R32 c * R32 c.
Proof.
  intros Hm. unfold tri_moderate in Hm.
  repeat (apply andb_prop in Hm as [Hm ?]).
  destruct (moderate_range a Hm ltac:(assumption)) as [Fa Ra].
  destruct (moderate_range b ltac:(assumption) ltac:(assumption)) as [Fb Rb].
  destruct (moderate_range c ltac:(assumption) ltac:(assumption)) as [Fc Rc].
  set (A := R32 a) in *. set (B := R32 b) in *. set (C := R32 c) in *.
  pose proof (sq_range A Ra) as RP. pose proof (sq_range B Rb) as RQ. pose proof (sq_range C Rc) as RW.
  pose proof (mul_range A B Ra Rb) as RM.
  set (P := A * A) in *. set (Q := B * B) in *. set (W := C * C) in *. set (M := A * B) in *.
  assert (Hu : uu = / 16777216) by reflexivity.
  assert (B126 : bpow2 (-126) <= bpow2 (-83)) by (apply bpow_le; lia).
  assert (B82 : bpow2 (-83) * 2 = bpow2 (-82)) by (change (-82)%Z with (-83 + 1)%Z; rewrite bpow_plus; reflexivity).
  assert (Bp82 : bpow2 82 <= bpow2 100) by (apply bpow_le; lia).
  assert (Bm : 0 < bpow2 (-83)) by apply bpow_gt_0.
  assert (Bm82 : 0 < bpow2 (-82)) by apply bpow_gt_0.
  (* squares *)
  destruct (fmul_finite a a Fa Fa) as [Ra2 Fa2]; [apply (rnd_small _ 82); [lia | lia | rewrite Rabs_pos_eq; fold A P; lra]|].
  destruct (fmul_finite b b Fb Fb) as [Rb2 Fb2]; [apply (rnd_small _ 82); [lia | lia | rewrite Rabs_pos_eq; fold B Q; lra]|].
  destruct (fmul_finite c c Fc Fc) as [Rc2 Fc2]; [apply (rnd_small _ 82); [lia | lia | rewrite Rabs_pos_eq; fold C W; lra]|].
  fold A P in Ra2. fold B Q in Rb2. fold C W in Rc2.
  assert (E1 := abs_le_both _ _ (rel_err P ltac:(rewrite Rabs_pos_eq; lra)) ltac:(lra)).
  assert (E2 := abs_le_both _ _ (rel_err Q ltac:(rewrite Rabs_pos_eq; lra)) ltac:(lra)).
  assert (E3 := abs_le_both _ _ (rel_err W ltac:(rewrite Rabs_pos_eq; lra)) ltac:(lra)).
  rewrite <- Ra2 in E1. rewrite <- Rb2 in E2. rewrite <- Rc2 in E3.
  set (x1 := R32 (fmul a a)) in *. set (x2 := R32 (fmul b b)) in *. set (x3 := R32 (fmul c c)) in *.
  (* the sum *)
  assert (Hs12 : bpow2 (-82) <= x1 + x2 <= bpow2 84).
  { assert (bpow2 84 = 4 * bpow2 82) by (change 84%Z with (2 + 82)%Z; rewrite bpow_plus; reflexivity). lra. }
  destruct (fadd_finite (fmul a a) (fmul b b) Fa2 Fb2) as [Rs Fs].
  { apply (rnd_small _ 84); [lia | lia | fold x1 x2; rewrite Rabs_pos_eq; lra]. }
  fold x1 x2 in Rs.
  assert (E4 := abs_le_both _ _ (rel_err (x1 + x2) ltac:(rewrite Rabs_pos_eq; lra)) ltac:(lra)).
  rewrite <- Rs in E4. set (y := R32 (fadd (fmul a a) (fmul b b))) in *.
  (* the cancelling subtraction *)
  assert (B85 : bpow2 85 = 8 * bpow2 82) by (change 85%Z with (3 + 82)%Z; rewrite bpow_plus; reflexivity).
  assert (B84 : bpow2 84 = 4 * bpow2 82) by (change 84%Z with (2 + 82)%Z; rewrite bpow_plus; reflexivity).
  destruct (fsub_finite _ _ Fs Fc2) as [Rn Fn].
  { apply (rnd_small _ 85); [lia | lia | fold y x3; apply Rabs_le; lra]. }
  fold y x3 in Rn.
  destruct (abs_err (y - x3)) as (eps & eta & He & Hh & Hz). rewrite Hz in Rn.
  set (n := R32 (fsub (fadd (fmul a a) (fmul b b)) (fmul c c))) in *.
  assert (Heta : bpow2 (-150) <= bpow2 (-60) * P).
  { apply Rle_trans with (bpow2 (-60) * bpow2 (-82)); [rewrite <- bpow_plus; apply bpow_le; lia|].
    apply Rmult_le_compat_l; [apply bpow_ge_0 | lra]. }
  assert (B60 : bpow2 (-60) <= / 1000000000) by (change (bpow2 (-60)) with (/ 1152921504606846976); apply Rinv_le_contravar; lra).
  assert (B60p : 0 < bpow2 (-60)) by apply bpow_gt_0.
  rewrite uu_val in He.
  assert (Heta' : bpow2 (-150) <= / 1000000000 * P).
  { apply Rle_trans with (1 := Heta). apply Rmult_le_compat_r; lra. }
  assert (Hzn : Rabs (n - (y - x3)) <= / 16777216 * Rabs (y - x3) + / 1000000000 * P).
  { rewrite Rn. replace ((y - x3) * (1 + eps) + eta - (y - x3)) with ((y - x3) * eps + eta) by ring.
    apply Rle_trans with (1 := Rabs_triang _ _). apply Rplus_le_compat; [|lra].
    rewrite Rabs_mult, Rmult_comm. apply Rmult_le_compat_r; [apply Rabs_pos | exact He]. }
  (* the denominator *)
  assert (R2 : R32 ftwo = 2) by (cbn; unfold F2R; cbn [Fnum Fexp]; change (IZR (Zpos 8388608)) with (bpow2 23); rewrite <- bpow_plus; reflexivity).
  assert (B42 : bpow2 42 = 2 * bpow2 41) by (change 42%Z with (1 + 41)%Z; rewrite bpow_plus; reflexivity).
  assert (Bm41 : 0 < bpow2 (-41)) by apply bpow_gt_0.
  destruct (fmul_finite ftwo a eq_refl Fa) as [Rt Ft]; [apply (rnd_small _ 42); [lia | lia | rewrite R2; fold A; rewrite Rabs_pos_eq; lra]|].
  rewrite R2 in Rt. fold A in Rt.
  assert (B126b : bpow2 (-126) <= bpow2 (-41)) by (apply bpow_le; lia).
  assert (E5 := abs_le_both _ _ (rel_err (2 * A) ltac:(rewrite Rabs_pos_eq; lra)) ltac:(lra)).
  rewrite <- Rt in E5. set (t := R32 (fmul ftwo a)) in *.
  assert (HtB : (1 - / 16777216) * (2 * M) <= t * B <= (1 + / 16777216) * (2 * M)).
  { unfold M. destruct E5 as [L U]. split.
    - replace ((1 - / 16777216) * (2 * (A * B))) with ((1 - / 16777216) * (2 * A) * B) by ring. apply Rmult_le_compat_r; lra.
    - replace ((1 + / 16777216) * (2 * (A * B))) with ((1 + / 16777216) * (2 * A) * B) by ring. apply Rmult_le_compat_r; lra. }
  assert (B84b : bpow2 (-126) <= bpow2 (-82)) by (apply bpow_le; lia).
  destruct (fmul_finite (fmul ftwo a) b Ft Fb) as [Rd Fd]; [apply (rnd_small _ 84); [lia | lia | fold t B; rewrite Rabs_pos_eq; lra]|].
  fold t B in Rd.
  assert (E6 := abs_le_both _ _ (rel_err (t * B) ltac:(rewrite Rabs_pos_eq; lra)) ltac:(lra)).
  rewrite <- Rd in E6. set (d := R32 (fmul (fmul ftwo a) b)) in *.
  exists (fsub (fadd (fmul a a) (fmul b b)) (fmul c c)), (fmul (fmul ftwo a) b).
  fold n d. fold A B C. fold P Q W M.
  split; [reflexivity|]. split; [exact Fn|]. split; [exact Fd|].
  apply Rabs_le_inv in Hzn.
  assert (Hzz : Rabs (y - x3 - (P + Q - W)) <= 3 * / 16777216 * (P + Q + W)) by (apply Rabs_le; split; lra).
  apply Rabs_le_inv in Hzz.
  split; [lra|]. split; [split; lra|]. split; [|split; lra].
  apply Rabs_le.
  destruct (Rle_dec 0 (y - x3)) as [Zp|Zn]; [rewrite (Rabs_pos_eq _ Zp) in Hzn | rewrite (Rabs_left1 (y - x3)) in Hzn by lra]; split; lra.
Qed.

Theorem loc_no_nan_with_margin (a b c : f32) :
  tri_moderate a b c = true ->
  2 * (R32 a * R32 b) + (R32 a * R32 a + R32 b * R32 b + R32 c * R32 c)
    <= 2097152 * (2 * (R32 a * R32 b) - Rabs (R32 a * R32 a + R32 b * R32 b - R32 c * R32 c)) ->
  loc_is_nan a b c = false.
Proof.
  intros Hm Hsafe. destruct (loc_chain a b c Hm) as (n & d & Eq & Fn & Fd & Hd0 & Hd & Hn & HM & HS).
  set (M := R32 a * R32 b) in *. set (S := R32 a * R32 a + R32 b * R32 b + R32 c * R32 c) in *.
  set (N := R32 a * R32 a + R32 b * R32 b - R32 c * R32 c) in *.
  assert (Hnd : Rabs (R32 n) <= R32 d).
  { apply Rabs_le_inv in Hn. apply Rabs_le.
    destruct (Rle_dec 0 N) as [Np|Nn]; [rewrite (Rabs_pos_eq _ Np) in Hsafe | rewrite (Rabs_left1 N) in Hsafe by lra]; split; lra. }
  assert (Hq : Rabs (R32 n / R32 d) <= 1).
  { unfold Rdiv. rewrite Rabs_mult, Rabs_inv. rewrite (Rabs_pos_eq (R32 d)) by lra.
    apply (Rmult_le_reg_r (R32 d)); [exact Hd0|]. rewrite Rmult_assoc, Rinv_l, Rmult_1_r, Rmult_1_l by lra. exact Hnd. }
  destruct (fdiv_finite _ _ Fn Fd) as [Rq Fq]; [lra | apply (rnd_small _ 0); [lia | lia | exact Hq] |].
  unfold loc_is_nan. rewrite Eq. unfold fis_nan, fgt, fabs.
  set (q := fdiv n d) in *.
  rewrite (finite_not_nan q Fq). cbn [orb].
  rewrite (Bltb_correct 24 128 fone (Babs q) eq_refl ltac:(rewrite is_finite_Babs; exact Fq)).
  rewrite B2R_Babs, R_fone, Rq. apply Rlt_bool_false.
  apply Rabs_le. apply Rabs_le_inv in Hq.
  generalize (rnd_between (-1) 1 (R32 n / R32 d) ltac:(vm_compute; discriminate) ltac:(vm_compute; discriminate)).
  change (IZR (-1)) with (- 1). intros G. apply G. exact Hq.
Qed.

(* ---- the same with the integer form the check evaluates (Spec/C19_spec.v: tri_ints, tri_safe) ---- *)
Lemma dyad_value (x : f32) m e : dyad x = Some (m, e) -> R32 x = IZR m * bpow2 e.
Proof.
  destruct x as [s|s| |s mm ee Hb]; cbn [dyad]; try discriminate; intros H; injection H as <- <-.
  - cbn. lra.
  - cbn [B2R]. unfold F2R; cbn [Fnum Fexp]. destruct s; reflexivity.
Qed.
Lemma dy_norm_value m e e0 : (e0 <= e)%Z -> IZR m * bpow2 e = IZR (dy_norm m e e0) * bpow2 e0.
Proof.
  intros H. unfold dy_norm. rewrite mult_IZR. rewrite (IZR_Zpower radix2) by lia.
  rewrite Rmult_assoc, <- bpow_plus. f_equal. f_equal. lia.
Qed.

Lemma tri_scale (a b c : f32) t : tri_ints a b c = Some t ->
  exists k, 0 < k
    /\ 2 * (R32 a * R32 b) = IZR (tri_D t) * k
    /\ R32 a * R32 a + R32 b * R32 b + R32 c * R32 c = IZR (tri_S t) * k
    /\ R32 a * R32 a + R32 b * R32 b - R32 c * R32 c = IZR (tri_N t) * k.
Proof.
  intros Ht. unfold tri_ints in Ht.
  destruct (dyad a) as [[ma ea]|] eqn:Da; [|discriminate]. destruct (dyad b) as [[mb eb]|] eqn:Db; [|discriminate].
  destruct (dyad c) as [[mc ec]|] eqn:Dc; [|discriminate]. injection Ht as <-.
  set (e0 := Z.min ea (Z.min eb ec)) in *.
  rewrite (dyad_value a _ _ Da), (dyad_value b _ _ Db), (dyad_value c _ _ Dc).
  rewrite (dy_norm_value ma ea e0), (dy_norm_value mb eb e0), (dy_norm_value mc ec e0) by (unfold e0; lia).
  set (A := dy_norm ma ea e0). set (B := dy_norm mb eb e0). set (C := dy_norm mc ec e0).
  exists (bpow2 e0 * bpow2 e0). split; [apply Rmult_lt_0_compat; apply bpow_gt_0|].
  unfold tri_D, tri_S, tri_N. repeat split.
  - rewrite !mult_IZR. ring.
  - rewrite !plus_IZR, !mult_IZR. ring.
  - rewrite minus_IZR, !plus_IZR, !mult_IZR. ring.
Qed.

Theorem loc_no_nan_when_safe (a b c : f32) t :
  tri_moderate a b c = true -> tri_ints a b c = Some t -> tri_safe t = true -> loc_is_nan a b c = false.
Proof.
  intros Hm Ht Hs. apply loc_no_nan_with_margin; [exact Hm|].
  destruct (tri_scale a b c t Ht) as (k & Hk & -> & -> & ->).
  unfold tri_safe in Hs. apply Z.leb_le in Hs.
  rewrite Rabs_mult, (Rabs_pos_eq k) by lra. rewrite <- abs_IZR.
  replace (IZR (tri_D t) * k + IZR (tri_S t) * k) with (IZR (tri_D t + tri_S t) * k) by (rewrite plus_IZR; ring).
  replace (2097152 * (IZR (tri_D t) * k - IZR (Z.abs (tri_N t)) * k))
    with (IZR (2097152 * (tri_D t - Z.abs (tri_N t))) * k) by (rewrite mult_IZR, minus_IZR; ring).
  apply Rmult_le_compat_r; [lra|]. apply IZR_le. exact Hs.
Qed.

(* 1 + 2^-23, the float after 1 *)
Lemma fmt_succ1 : fmt (1 + bpow2 (-23)).
Proof.
  replace (1 + bpow2 (-23)) with (F2R (Float radix2 (2 ^ 23 + 1) (-23))).
  - apply fmt_small_F2R; [vm_compute; reflexivity | lia].
  - unfold F2R; cbn [Fnum Fexp]. rewrite plus_IZR. change (IZR (2 ^ 23)) with (bpow2 23).
    rewrite Rmult_plus_distr_r, <- bpow_plus. change (bpow2 (23 + -23)) with 1. lra.
Qed.

(* a quotient beyond +-(1 + 2^-23) is seen as outside [-1, 1], finite or overflowed *)
Lemma fdiv_outside x y : is_finite x = true -> is_finite y = true -> 0 < R32 y ->
  1 + bpow2 (-23) <= Rabs (R32 x / R32 y) ->
  let q := fdiv x y in fis_nan q || fgt (fabs q) fone = true.
Proof.
  intros Fx Fy Hy Hq. cbv zeta. unfold fis_nan, fgt, fabs, fdiv.
  generalize (Bdiv_correct 24 128 Hprec32 Hemax32 mode_NE x y ltac:(lra)).
  change (round_mode mode_NE) with ZnearestE. change (SpecFloat.fexp 24 128) with fexp32.
  set (r := rnd (R32 x / R32 y)).
  assert (Hr : 1 + bpow2 (-23) <= Rabs r).
  { unfold r. destruct (Rle_dec 0 (R32 x / R32 y)) as [P|N].
    - rewrite Rabs_pos_eq in Hq by exact P. rewrite Rabs_pos_eq.
      + rewrite <- (rnd_id _ fmt_succ1). apply rnd_le. exact Hq.
      + rewrite <- rnd_0. apply rnd_le. exact P.
    - rewrite Rabs_left1 in Hq by lra. rewrite Rabs_left1.
      + assert (H : rnd (R32 x / R32 y) <= - (1 + bpow2 (-23))).
        { rewrite <- (rnd_id (- (1 + bpow2 (-23)))) by (apply generic_format_opp; exact fmt_succ1). apply rnd_le. lra. }
        lra.
      + rewrite <- rnd_0. apply rnd_le. lra. }
  assert (H23 : 0 < bpow2 (-23)) by apply bpow_gt_0.
  destruct (Rlt_bool_spec (Rabs r) (bpow2 128)) as [Hlt|Hge].
  - rewrite Fx. intros [H1 [H2 _]].
    set (q := Bdiv mode_NE x y) in *. rewrite (finite_not_nan q H2). cbn [orb].
    rewrite (Bltb_correct 24 128 fone (Babs q) eq_refl ltac:(rewrite is_finite_Babs; exact H2)).
    rewrite B2R_Babs, R_fone, H1. apply Rlt_bool_true. fold r. lra.
  - intros H. unfold binary_overflow in H. cbn [overflow_to_inf] in H.
    destruct (Bdiv mode_NE x y) as [s|s| |s m e Hb] eqn:E; try discriminate H. reflexivity.
Qed.

(* no triangle, with the same margin: the argument is outside [-1, 1] (or NaN / infinite) *)
Theorem loc_nan_when_safely_none (a b c : f32) :
  tri_moderate a b c = true ->
  2 * (R32 a * R32 b) + (R32 a * R32 a + R32 b * R32 b + R32 c * R32 c)
    <= 2097152 * (Rabs (R32 a * R32 a + R32 b * R32 b - R32 c * R32 c) - 2 * (R32 a * R32 b)) ->
  loc_is_nan a b c = true.
Proof.
  intros Hm Hnone. destruct (loc_chain a b c Hm) as (n & d & Eq & Fn & Fd & Hd0 & Hd & Hn & HM & HS).
  set (M := R32 a * R32 b) in *. set (S := R32 a * R32 a + R32 b * R32 b + R32 c * R32 c) in *.
  set (N := R32 a * R32 a + R32 b * R32 b - R32 c * R32 c) in *.
  assert (B82 : 0 < bpow2 (-82)) by apply bpow_gt_0.
  assert (H23 : bpow2 (-23) = 2 * / 16777216).
  { change (-23)%Z with (1 + -24)%Z. rewrite bpow_plus. reflexivity. }
  assert (Hnd : (1 + bpow2 (-23)) * R32 d <= Rabs (R32 n)).
  { rewrite H23. apply Rabs_le_inv in Hn.
    destruct (Rle_dec 0 N) as [Np|Nn]; [rewrite (Rabs_pos_eq _ Np) in Hnone | rewrite (Rabs_left1 N) in Hnone by lra].
    - rewrite Rabs_pos_eq by lra. lra.
    - rewrite Rabs_left1 by lra. lra. }
  unfold loc_is_nan. rewrite Eq. apply fdiv_outside; [exact Fn | exact Fd | exact Hd0 |].
  unfold Rdiv. rewrite Rabs_mult, Rabs_inv, (Rabs_pos_eq (R32 d)) by lra.
  apply (Rmult_le_reg_r (R32 d)); [exact Hd0|]. rewrite Rmult_assoc, Rinv_l, Rmult_1_r by lra. exact Hnd.
Qed.

Theorem loc_nan_when_none (a b c : f32) t :
  tri_moderate a b c = true -> tri_ints a b c = Some t -> tri_safely_none t = true -> loc_is_nan a b c = true.
Proof.
  intros Hm Ht Hs. apply loc_nan_when_safely_none; [exact Hm|].
  destruct (tri_scale a b c t Ht) as (k & Hk & -> & -> & ->).
  unfold tri_safely_none in Hs. apply Z.leb_le in Hs.
  rewrite Rabs_mult, (Rabs_pos_eq k) by lra. rewrite <- abs_IZR.
  replace (IZR (tri_D t) * k + IZR (tri_S t) * k) with (IZR (tri_D t + tri_S t) * k) by (rewrite plus_IZR; ring).
  replace (2097152 * (IZR (Z.abs (tri_N t)) * k - IZR (tri_D t) * k))
    with (IZR (2097152 * (Z.abs (tri_N t) - tri_D t)) * k) by (rewrite mult_IZR, minus_IZR; ring).
  apply Rmult_le_compat_r; [lra|]. apply IZR_le. exact Hs.
Qed.

(* hence: the model satisfies the NaN half of the margin reading the check enforces on the
   implementation (Spec/C19_spec.v loc_spec, non-strict): for every moderate input *)
Theorem loc_margin_spec_nan (a b c : f32) t :
  tri_moderate a b c = true -> tri_ints a b c = Some t ->
  (tri_safe t = true -> loc_is_nan a b c = false) /\ (tri_safely_none t = true -> loc_is_nan a b c = true).
Proof. intros Hm Ht. split; [apply loc_no_nan_when_safe | apply loc_nan_when_none]; assumption. Qed.
