(* C19, world location: the loop of Actor::world_location computes the ordered product of
   the transforms of the segments up to and including the first one carrying the name;
   segments after it do not contribute.  Proved for ANY type of transforms and ANY
   multiplication (no algebraic law is needed), hence for the exact integer and dyadic
   affine maps used by the correspondence and for nalgebra's f32 matrices alike. *)
From Coq Require Import ZArith List Bool Lia.
Import ListNotations.
Require Import GV.Model.Kinematics GV.Spec.C19_spec.
Local Open Scope Z_scope.

Section Chain.
  Context {T : Type} (one : T) (mul : T -> T -> T).

  Lemma chain_fold : forall segs acc name,
    chain mul acc segs name = fold_left mul (upto segs name) acc.
  Proof.
    induction segs as [|[n t] rest IH]; intros acc name; cbn [chain upto fold_left]; [reflexivity|].
    destruct (n =? name); cbn [fold_left]; [reflexivity | apply IH].
  Qed.

  Lemma world_transform_product segs name :
    world_transform one mul segs name = product one mul (upto segs name).
  Proof. unfold world_transform, product. apply chain_fold. Qed.

  (* what `upto` is: the whole list when the name does not occur, otherwise the prefix ending
     at its first occurrence *)
  Lemma upto_absent : forall segs name,
    (forall s, In s segs -> fst s <> name) -> upto segs name = map (@snd Z T) segs.
  Proof.
    induction segs as [|[n t] rest IH]; intros name H; cbn [upto map]; [reflexivity|]. cbn [snd].
    destruct (Z.eqb_spec n name) as [E|_].
    - exfalso. apply (H (n, t)); [left; reflexivity | exact E].
    - f_equal. apply IH. intros s Hs. apply H. right. exact Hs.
  Qed.

  Lemma upto_first : forall pre name t post,
    (forall s, In s pre -> fst s <> name) ->
    upto (pre ++ (name, t) :: post) name = map (@snd Z T) pre ++ [t].
  Proof.
    induction pre as [|[n u] rest IH]; intros name t post H; cbn [app upto map]. all: cbn [snd].
    - rewrite Z.eqb_refl. reflexivity.
    - destruct (Z.eqb_spec n name) as [E|_].
      + exfalso. apply (H (n, u)); [left; reflexivity | exact E].
      + f_equal. apply IH. intros s Hs. apply H. right. exact Hs.
  Qed.

  Theorem world_transform_named pre name t post :
    (forall s, In s pre -> fst s <> name) ->
    world_transform one mul (pre ++ (name, t) :: post) name
    = fold_left mul (map (@snd Z T) pre ++ [t]) one.
  Proof. intros H. rewrite world_transform_product. unfold product. rewrite upto_first by exact H. reflexivity. Qed.

  Theorem world_transform_unnamed segs name :
    (forall s, In s segs -> fst s <> name) ->
    world_transform one mul segs name = fold_left mul (map (@snd Z T) segs) one.
  Proof. intros H. rewrite world_transform_product. unfold product. rewrite upto_absent by exact H. reflexivity. Qed.

  (* later segments are irrelevant *)
  Corollary world_transform_suffix_irrelevant pre name t post post' :
    (forall s, In s pre -> fst s <> name) ->
    world_transform one mul (pre ++ (name, t) :: post) name
    = world_transform one mul (pre ++ (name, t) :: post') name.
  Proof. intros H. rewrite !world_transform_named by exact H. reflexivity. Qed.
End Chain.

(* the two instances the correspondence runs *)
Lemma world_location_Z_spec segs name : world_location_Z segs name = wl_exact segs name.
Proof. unfold world_location_Z, wl_exact. rewrite world_transform_product. reflexivity. Qed.
Lemma world_location_dy_spec segs name : world_location_dy segs name = wl_dy segs name.
Proof. unfold world_location_dy, wl_dy. rewrite world_transform_product. reflexivity. Qed.

(* affine maps over Z form a monoid: the ordered product is insensitive to bracketing, so
   `transform *= seg` (left-nested) is THE product of the segment transforms *)
Lemma zaff_mul_assoc (a b c : zaff) : zaff_mul (zaff_mul a b) c = zaff_mul a (zaff_mul b c).
Proof.
  destruct a as [[[[[a00 a01] a02] [[a10 a11] a12]] [[a20 a21] a22]] [[ta0 ta1] ta2]].
  destruct b as [[[[[b00 b01] b02] [[b10 b11] b12]] [[b20 b21] b22]] [[tb0 tb1] tb2]].
  destruct c as [[[[[c00 c01] c02] [[c10 c11] c12]] [[c20 c21] c22]] [[tc0 tc1] tc2]].
  unfold zaff_mul, aff_mul, mat_mul, mat_vec, vadd, dot, col; cbn [fst snd].
  repeat apply (f_equal2 pair); ring.
Qed.
Lemma zaff_one_l (a : zaff) : zaff_mul zaff_one a = a.
Proof.
  destruct a as [[[[[a00 a01] a02] [[a10 a11] a12]] [[a20 a21] a22]] [[ta0 ta1] ta2]].
  unfold zaff_mul, zaff_one, aff_mul, aff_one, mat_mul, mat_vec, vadd, dot, col; cbn [fst snd].
  repeat apply (f_equal2 pair); ring.
Qed.
Lemma zaff_one_r (a : zaff) : zaff_mul a zaff_one = a.
Proof.
  destruct a as [[[[[a00 a01] a02] [[a10 a11] a12]] [[a20 a21] a22]] [[ta0 ta1] ta2]].
  unfold zaff_mul, zaff_one, aff_mul, aff_one, mat_mul, mat_vec, vadd, dot, col; cbn [fst snd].
  repeat apply (f_equal2 pair); ring.
Qed.

(* the location itself: t1 + M1 t2 + M1 M2 t3 + ... *)
Fixpoint origin_sum (ts : list zaff) : Z * Z * Z :=
  match ts with
  | [] => (0, 0, 0)
  | (m, t) :: rest => vadd Z.add (mat_vec Z.add Z.mul m (origin_sum rest)) t
  end.
Lemma fold_zaff_mul : forall ts acc, fold_left zaff_mul ts acc = zaff_mul acc (fold_left zaff_mul ts zaff_one).
Proof.
  induction ts as [|t rest IH]; intros acc; cbn [fold_left].
  - rewrite zaff_one_r. reflexivity.
  - rewrite IH. rewrite (IH (zaff_mul zaff_one t)). rewrite zaff_one_l. apply zaff_mul_assoc.
Qed.
Theorem origin_of_product ts : aff_origin (product zaff_one zaff_mul ts) = origin_sum ts.
Proof.
  unfold product. induction ts as [|[m t] rest IH]; cbn [fold_left origin_sum].
  - reflexivity.
  - rewrite fold_zaff_mul, zaff_one_l. unfold aff_origin in *. unfold zaff_mul at 1, aff_mul; cbn [fst snd].
    rewrite IH. reflexivity.
Qed.

Lemma world_location_exact segs name : world_location_Z segs name = origin_sum (upto segs name).
Proof. rewrite world_location_Z_spec. apply origin_of_product. Qed.

Require Import GV.Model.Packets GV.Proofs.C13_roundtrip.
Lemma actor_roundtrip n segs : pwf (PActor n segs) ->
  Packets.run dec_actor (enc_payload (PActor n segs)) = DOk (PActor n segs).
Proof. intros H. apply (roundtrip (PActor n segs) H). Qed.
