From Coq Require Import ZArith List Bool Lia.
Import ListNotations.
Require Import GV.Model.J1939 GV.Model.Governor GV.Model.Hcu GV.Model.Object GV.Model.HcuUnit
  GV.Spec.C02_spec GV.Spec.C01_spec GV.Proofs.C02_proof.
Local Open Scope Z_scope.

(* received frames never touch the command register *)
Lemma hcu_recv_tx u c f : tx_last (r_ctx (hcu_recv u c f)) = tx_last c.
Proof.
  unfold hcu_recv.
  repeat match goal with |- context [if ?b then _ else _] => destruct b end; reflexivity.
Qed.

Lemma hcu_trigger_other u c o :
  (forall m, o <> OMotion m) -> hcu_trigger u c o = (c, []).
Proof. destruct o; intros H; try reflexivity. exfalso; eapply H; reflexivity. Qed.

(* invariant: the register holds the latest motion, or nothing and the latest is stop-all *)
Definition reg_inv (c : ctx) (cur : motion) : Prop :=
  tx_last c = Some (OMotion cur) \/ (tx_last c = None /\ cur = StopAll).

Lemma tick_motion_inv c cur : reg_inv c cur -> hcu_tick_motion c = cur.
Proof. unfold reg_inv, hcu_tick_motion. intros [-> | [-> ->]]; reflexivity. Qed.

Lemma wf_case u m : is_byte (u_da u) = true -> is_byte (u_sa u) = true -> motion_wf m = true ->
  c02_wf {| k_da := u_da u; k_sa := u_sa u; k_motion := m |} = true.
Proof.
  intros Hd Hs Hm. unfold motion_wf, c02_wf in *. cbn [k_da k_sa k_motion] in *.
  rewrite Hd, Hs. cbn [andb]. apply andb_prop in Hm as [_ Hm]. exact Hm.
Qed.

Lemma stop_frames u : is_byte (u_da u) = true -> is_byte (u_sa u) = true ->
  no_actuator_frame (encode_motion (u_da u) (u_sa u) StopAll) = true
  /\ length (encode_motion (u_da u) (u_sa u) StopAll) = 1%nat.
Proof.
  intros Hd Hs. apply byte_range in Hd, Hs. split; [|reflexivity].
  cbn [encode_motion no_actuator_frame forallb]. unfold lock_frame, motion_config_frame. cbn [f_id]. change PGN_PCM3 with 45824.
  rewrite id_build_pdu1 by (auto; tauto).
  destruct (exact_id_fields 45824 (u_da u) (u_sa u)) as (_ & H & _); auto; try tauto.
  rewrite H. reflexivity.
Qed.

Lemma c01_walk_run u : is_byte (u_da u) = true -> is_byte (u_sa u) = true ->
  forall evs c cur,
  forallb (fun e => match e with
                    | ECmd (OMotion m) => motion_wf m
                    | ERx f => Z.of_nat (length (f_data f)) =? 8
                    | _ => true end) evs = true ->
  reg_inv c cur -> motion_wf cur = true ->
  c01_walk u cur evs (c01_run u c evs) = true.
Proof.
  intros Hd Hs. induction evs as [|e evs IH]; intros c cur Hwf Hinv Hcur; [reflexivity|].
  cbn [forallb] in Hwf. apply andb_prop in Hwf as [He Hwf].
  destruct e as [o| |f]; cbn [c01_run].
  - destruct o as [k on|en|m|w|w|w]; cbn [hcu_trigger c01_walk];
      try (apply IH; assumption).
    change (encode_motion (u_da u) (u_sa u) m)
      with (c02_model {| k_da := u_da u; k_sa := u_sa u; k_motion := m |}).
    rewrite (c02_holds {| k_da := u_da u; k_sa := u_sa u; k_motion := m |})
      by (apply wf_case; assumption).
    cbn [andb]. apply IH; try assumption. left; reflexivity.
  - cbn [c01_walk]. unfold hcu_tick. rewrite (tick_motion_inv c cur Hinv).
    change (encode_motion (u_da u) (u_sa u) cur)
      with (c02_model {| k_da := u_da u; k_sa := u_sa u; k_motion := cur |}).
    rewrite c02_holds by (apply wf_case; assumption). cbn [andb].
    rewrite IH by assumption. rewrite andb_true_r.
    destruct cur; try reflexivity.
    unfold c02_model; cbn [k_da k_sa k_motion].
    destruct (stop_frames u Hd Hs) as [H1 H2]. rewrite H1, H2. reflexivity.
  - cbn [c01_walk]. apply IH; try assumption.
    unfold reg_inv in *. rewrite hcu_recv_tx. exact Hinv.
Qed.

Lemma c01_holds : forall c, c01_wf c = true -> c01_spec_ok c (c01_model c) = true.
Proof.
  intros [u evs] Hwf. unfold c01_wf in Hwf. cbn [h_u h_events] in Hwf.
  apply andb_prop in Hwf as [Hwf He]. apply andb_prop in Hwf as [Hd Hs].
  unfold c01_spec_ok, c01_model. cbn [h_u h_events].
  apply c01_walk_run; auto. right; split; reflexivity.
Qed.

(* full-strength Prop statements *)

(* every tick re-sends exactly the encoding of the latest motion command, for any history *)
Lemma c01_run_app u c e1 e2 :
  c01_run u c (e1 ++ e2) =
  c01_run u c e1 ++ c01_run u (fold_left (fun c e => match e with
        | ECmd o => fst (hcu_trigger u c o) | ETick => c | ERx f => r_ctx (hcu_recv u c f) end) e1 c) e2.
Proof.
  revert c. induction e1 as [|e e1 IH]; intros c; [reflexivity|].
  destruct e as [o| |f]; cbn [app c01_run fold_left].
  - destruct (hcu_trigger u c o) as [c' fs] eqn:E. cbn [fst]. rewrite IH. reflexivity.
  - rewrite IH. reflexivity.
  - rewrite IH. reflexivity.
Qed.

Definition ctx_after u evs := fold_left (fun c e => match e with
        | ECmd o => fst (hcu_trigger u c o) | ETick => c | ERx f => r_ctx (hcu_recv u c f) end) evs ctx0.

Lemma reg_after u evs : reg_inv (ctx_after u evs) (last_motion StopAll evs).
Proof.
  unfold ctx_after.
  assert (G : forall evs c cur, reg_inv c cur ->
     reg_inv (fold_left (fun c e => match e with
        | ECmd o => fst (hcu_trigger u c o) | ETick => c | ERx f => r_ctx (hcu_recv u c f) end) evs c)
        (last_motion cur evs)).
  { induction evs0 as [|e t IH]; intros c cur H; [exact H|].
    destruct e as [o| |f]; cbn [fold_left last_motion].
    - destruct o; cbn [hcu_trigger fst]; try (apply IH; exact H).
      apply IH. left; reflexivity.
    - apply IH; exact H.
    - apply IH. unfold reg_inv in *. rewrite hcu_recv_tx. exact H. }
  apply G. right; split; reflexivity.
Qed.

Lemma c01_reassert u evs :
  hcu_tick u (ctx_after u evs) = encode_motion (u_da u) (u_sa u) (last_motion StopAll evs).
Proof. unfold hcu_tick. rewrite (tick_motion_inv _ _ (reg_after u evs)). reflexivity. Qed.

(* inertness: non-motion commands, received frames and ticks leave the register alone *)
Lemma c01_inert u c :
  (forall o, (forall m, o <> OMotion m) -> tx_last (fst (hcu_trigger u c o)) = tx_last c)
  /\ (forall f, tx_last (r_ctx (hcu_recv u c f)) = tx_last c).
Proof.
  split.
  - intros o H. rewrite hcu_trigger_other by exact H. reflexivity.
  - intro f. apply hcu_recv_tx.
Qed.

Example c01_nonvacuous :
  let c := {| h_u := {| u_da := 74; u_sa := 39 |};
              h_events := [ETick; ECmd (OMotion (Change [(0, 500)])); ETick;
                           ERx {| f_id := exact_id 6 65288 0 74 - 0; f_data := [20;255;1;255;0;0;0;0] |};
                           ECmd (OControl 6 true); ETick; ECmd (OMotion StopAll); ETick] |} in
  c01_wf c = true /\ length (c01_model c) = 8%nat.
Proof. split; reflexivity. Qed.
