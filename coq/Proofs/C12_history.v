(* C12 over histories: what a frame means does not depend on what the driver context saw before. *)
From Coq Require Import ZArith List Bool Lia.
Import ListNotations.
Require Import GV.Gen.Consts GV.Model.Outcome GV.Model.J1939 GV.Model.Governor GV.Model.Hcu GV.Model.Object
  GV.Model.HcuUnit GV.Model.Units GV.Spec.Units_spec GV.Proofs.Units_proof GV.Proofs.C10_whole.
Local Open Scope Z_scope.

Lemma unit_recv_err_indep k u c f : r_err (unit_recv k u c f) = r_err (unit_recv k u ctx0 f).
Proof.
  destruct k; cbn [unit_recv];
  unfold hcu_recv, vcu_recv, ecu_recv, encoder_recv, inclino_recv, ems_recv, alive, ignore;
  repeat match goal with |- context [if ?b then _ else _] => destruct b end;
  cbn [r_err]; reflexivity.
Qed.

Lemma c12_spec_ext c r r' :
  r_sigs r = r_sigs r' -> r_err r = r_err r' -> c12_spec_ok c (Ok r) = c12_spec_ok c (Ok r').
Proof. intros Hs He. unfold c12_spec_ok, sig_is_motion. rewrite Hs, He. reflexivity. Qed.

(* the context a driver has after any sequence of frames *)
Definition ctx_after (k : ukind) (u : unit_cfg) (fs : list frame) : ctx :=
  fold_left (fun c f => r_ctx (unit_recv k u c f)) fs ctx0.

Theorem c12_any_context : forall c x, ucase_wf c = true ->
  c12_spec_ok c (Ok (unit_recv (uc_kind c) (uc_u c) x (uc_frame c))) = true.
Proof.
  intros c x Hwf.
  rewrite (c12_spec_ext c _ (unit_recv (uc_kind c) (uc_u c) ctx0 (uc_frame c))).
  - pose proof (c12_holds c Hwf) as H. unfold unit_model in H.
    destruct (wf_parts _ Hwf) as (_ & _ & _ & Hl). rewrite Hl in H. exact H.
  - apply (unit_recv_indep (uc_kind c) (uc_u c) x (uc_frame c)).
  - apply unit_recv_err_indep.
Qed.

Theorem c12_any_history : forall c fs, ucase_wf c = true ->
  c12_spec_ok c (Ok (unit_recv (uc_kind c) (uc_u c) (ctx_after (uc_kind c) (uc_u c) fs) (uc_frame c))) = true.
Proof. intros c fs. apply c12_any_context. Qed.

(* frames from other senders yield no measurement (from the attribution theorem c11_holds) *)
Theorem c12_foreign : forall c, ucase_wf c = true -> c12_foreign_ok c (unit_model c) = true.
Proof.
  intros c Hwf. pose proof (c11_holds c Hwf) as H.
  destruct (unit_model c) as [r|] eqn:E; [|discriminate H].
  unfold c11_spec_ok in H. unfold c12_foreign_ok.
  repeat (apply andb_prop in H as [H ?]).
  destruct (id_sa (f_id (uc_frame c)) =? u_da (uc_u c)) eqn:S; [reflexivity|].
  cbn [negb implb]. rewrite implb_false_r in H.
  unfold credited in H. destruct (r_sigs r); [reflexivity|].
  rewrite !orb_true_r in H. discriminate H.
Qed.

(* the engine state is the reference table of the starter-mode nibble and the speed word *)
Lemma eec1_ref_state d : bytes8 d -> e_state (eec1_engine d) = ref_estate d.
Proof.
  intros H. explode_bytes d H.
  unfold ref_estate, le16, eec1_engine, starter_of, rpm_dec, byte_at, u16le. cbn [nth e_state].
  assert (R : ((b3 =? 255) && (b4 =? 255)) = (b3 + 256 * b4 =? 65535)).
  { destruct ((b3 =? 255) && (b4 =? 255)) eqn:E; destruct (b3 + 256 * b4 =? 65535) eqn:E2; try reflexivity; lia. }
  rewrite R.
  destruct (b6 mod 16 =? 15) eqn:E15.
  - assert (E12 : (b6 mod 16 =? 1) || (b6 mod 16 =? 2) = false) by lia. rewrite E12.
    assert (E3 : b6 mod 16 =? 3 = false) by lia. rewrite E3. reflexivity.
  - destruct ((b6 mod 16 =? 1) || (b6 mod 16 =? 2)) eqn:E12; [reflexivity|].
    destruct (b6 mod 16 =? 3) eqn:E3; [reflexivity|].
    destruct ((b6 mod 16 =? 0) || (b6 mod 16 =? 4) || (b6 mod 16 =? 5) || (b6 mod 16 =? 6)
              || (b6 mod 16 =? 7) || (b6 mod 16 =? 8) || (b6 mod 16 =? 12)); reflexivity.
Qed.

Theorem c12_state : forall c, ucase_wf c = true -> c12_state_ok c (unit_model c) = true.
Proof.
  intros [k u f] Hwf. pose proof (wf_bytes8 _ Hwf) as B. destruct (wf_parts _ Hwf) as (_ & _ & _ & Hl).
  cbn [uc_kind uc_u uc_frame] in *.
  unfold unit_model. cbn [uc_frame uc_kind uc_u]. rewrite Hl. cbn [Z.of_nat Pos.of_succ_nat Pos.succ Z.eqb Pos.eqb].
  unfold c12_state_ok. cbn [uc_kind uc_frame uc_u].
  destruct k; try reflexivity;
    (destruct ((id_sa (f_id f) =? u_da u) && (id_pgn (f_id f) =? 61444)) eqn:G; [|reflexivity]; cbn [implb];
     apply andb_prop in G as [G1 G2]; cbn [unit_recv]; unfold ems_recv;
     assert (P : id_pgn (f_id f) = 61444) by lia; rewrite P, G1;
     unfold PGN_TSC1, PGN_EEC1; cbn [Z.eqb Pos.eqb r_sigs];
     rewrite (eec1_ref_state _ B); destruct (ref_estate (f_data f)); reflexivity).
Qed.
