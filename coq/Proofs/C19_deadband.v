(* C19, linear_motion (the deadbanded profile) at the binary32 level: no panic, no value
   exactly inside the deadband, range, sign, monotonicity. *)
From Coq Require Import ZArith Reals Lra Lia Bool List.
From Flocq Require Import Core Sterbenz BinarySingleNaN.
Require Import GV.Model.Outcome GV.Model.F32 GV.Model.Kinematics GV.Spec.C19_spec GV.Proofs.F32_lemmas GV.Proofs.C19_profile GV.Proofs.C19_actuator.
Import ListNotations.
Local Open Scope R_scope.


Lemma fmin_xval (m h : f32) : is_nan m = false -> is_finite h = true -> 0 <= xval m ->
  is_finite (fmin m h) = true /\ R32 (fmin m h) = Rmin (xval m) (R32 h).
Proof.
  intros Nm Fh Hm. unfold fmin, fis_nan, flt. rewrite Nm, (finite_not_nan h Fh).
  generalize (R32_lt_BIG h). intros Bh. apply Rabs_lt_inv in Bh. generalize BIG_pos. intros HB.
  destruct m as [s|s| |s mm e Hb] eqn:Em; try discriminate Nm.
  - rewrite (Bltb_correct 24 128 h (B754_zero s) Fh eq_refl). cbn [xval].
    destruct (Rlt_bool_spec (R32 h) (R32 (B754_zero s))) as [H|H].
    + split; [exact Fh|]. rewrite Rmin_right by lra. reflexivity.
    + split; [reflexivity|]. rewrite Rmin_left by lra. reflexivity.
  - destruct s; cbn [xval] in Hm; [lra|].
    assert (Hj : Bltb h (B754_infinity false) = true) by (destruct h as [sl|sl| |sl ml el Hl]; try discriminate Fh; reflexivity).
    rewrite Hj. split; [exact Fh|]. cbn [xval]. rewrite Rmin_right by lra. reflexivity.
  - rewrite (Bltb_correct 24 128 h (B754_finite s mm e Hb) Fh eq_refl). cbn [xval].
    destruct (Rlt_bool_spec (R32 h) (R32 (B754_finite s mm e Hb))) as [H|H].
    + split; [exact Fh|]. rewrite Rmin_right by lra. reflexivity.
    + split; [reflexivity|]. rewrite Rmin_left by lra. reflexivity.
Qed.

Lemma fround_correct (u : f32) : is_finite u = true ->
  is_finite (fround u) = true /\ R32 (fround u) = IZR (ZnearestA (R32 u)).
Proof.
  intros Fu. unfold fround. destruct (Bnearbyint_correct 24 128 Hemax32 mode_NA u) as [H1 [H2 _]].
  split; [rewrite H2; exact Fu|]. rewrite H1. apply round_FIX_IZR.
Qed.
Lemma ZnearestA_le x y : x <= y -> (ZnearestA x <= ZnearestA y)%Z.
Proof. intros H. apply Zrnd_le; [auto with typeclass_instances | exact H]. Qed.
Lemma ZnearestA_IZR n : ZnearestA (IZR n) = n.
Proof. apply Zrnd_IZR. auto with typeclass_instances. Qed.

Section Deadbanded.
  Context (p : linear) (Hp : lin_ok p).
  (* delta_normal, as a function of |delta| *)
  Definition lm_normal (a : R) : Z :=
    i16_of_R (IZR (ZnearestA (rnd (Rmin (satR (rnd (a * R32 (kp p)))) (HI p) + R32 (l_offset p))))).

  Lemma lm_normal_range a : 0 <= a -> (0 <= lm_normal a <= 32767)%Z.
  Proof.
    intros Ha. generalize (HI_bounds p Hp). intros HHI. destruct Hp as [Fk Hk Fo Ho1 Ho2].
    unfold lm_normal. split; [|apply i16_of_R_range].
    apply i16_of_R_nonneg. apply IZR_le. apply (Z.le_trans _ (ZnearestA (IZR 0))); [rewrite ZnearestA_IZR; lia|]. apply ZnearestA_le.
    rewrite <- rnd_0. apply rnd_le.
    assert (0 <= satR (rnd (a * R32 (kp p)))).
    { apply satR_nonneg. rewrite <- rnd_0. apply rnd_le. apply Rmult_le_pos; assumption. }
    assert (0 <= Rmin (satR (rnd (a * R32 (kp p)))) (HI p)) by (apply Rmin_glb; lra). lra.
  Qed.
  Lemma lm_normal_mono a b : a <= b -> (lm_normal a <= lm_normal b)%Z.
  Proof.
    intros H. destruct Hp as [Fk Hk Fo Ho1 Ho2]. unfold lm_normal. apply i16_of_R_mono. apply IZR_le. apply ZnearestA_le.
    apply rnd_le. apply Rplus_le_compat_r. apply Rle_min_compat_r. apply satR_mono. apply rnd_le.
    apply Rmult_le_compat_r; assumption.
  Qed.

  Definition lm_value (d : f32) : Z :=
    let n := lm_normal (Rabs (R32 d)) in
    let v := if Bsign d then n else (- n)%Z in
    if l_inverse p then (- v)%Z else v.

  Theorem linear_motion_value (lb d : f32) : is_finite d = true ->
    linear_motion d (Bsign d) lb (l_offset p) (kp p) (l_inverse p)
    = Ok (if flt (fabs d) lb then None else Some (lm_value d)).
  Proof.
    intros Fd. generalize (HI_bounds p Hp). intros HHI. generalize (lm_normal_range (Rabs (R32 d)) (Rabs_pos _)). intros HN.
    generalize Hp. intros [Fk Hk Fo Ho1 Ho2].
    unfold linear_motion. destruct (flt (fabs d) lb); [reflexivity|].
    assert (Fa : is_finite (fabs d) = true) by (unfold fabs; rewrite is_finite_Babs; exact Fd).
    assert (Ra : R32 (fabs d) = Rabs (R32 d)) by (unfold fabs; apply B2R_Babs).
    destruct (fmul_xval (fabs d) (kp p) Fa Fk Hk) as [Nm Xm]. rewrite Ra in Xm.
    destruct (fsub_finite fi16max (l_offset p) eq_refl Fo) as [Rhi Fhi].
    { rewrite R_fi16max. fold (HI p). apply Rabs_lt. assert (bpow2 16 <= bpow2 128) by (apply bpow_le; lia).
      change (bpow2 16) with 65536 in *. lra. }
    rewrite R_fi16max in Rhi. fold (HI p) in Rhi.
    assert (HX : 0 <= satR (rnd (Rabs (R32 d) * R32 (kp p)))).
    { apply satR_nonneg. rewrite <- rnd_0. apply rnd_le. apply Rmult_le_pos; [apply Rabs_pos | exact Hk]. }
    destruct (fmin_xval _ _ Nm Fhi) as [Fw Rw]; [rewrite Xm; exact HX|]. rewrite Xm, Rhi in Rw.
    set (w := fmin (fmul (fabs d) (kp p)) (fsub fi16max (l_offset p))) in *.
    assert (Hw : 0 <= R32 w <= HI p) by (rewrite Rw; split; [apply Rmin_glb; lra | apply Rmin_r]).
    assert (Hsum : 0 <= R32 w + R32 (l_offset p) <= 65535) by lra.
    destruct (fadd_finite w (l_offset p) Fw Fo) as [Ru Fu].
    { apply Rabs_lt. generalize (rnd_between 0 65535 _ ltac:(vm_compute; discriminate) ltac:(vm_compute; discriminate) Hsum).
      assert (bpow2 17 <= bpow2 128) by (apply bpow_le; lia). change (bpow2 17) with 131072 in *. lra. }
    destruct (fround_correct _ Fu) as [Fr Rr].
    rewrite (f2i16_finite _ Fr), Rr, Ru, Rw. fold (lm_normal (Rabs (R32 d))).
    unfold lm_value. set (n := lm_normal (Rabs (R32 d))) in *.
    unfold ineg16, I16_MIN. destruct (Bsign d); cbn [obind].
    - destruct (l_inverse p); [|reflexivity].
      replace (n =? -32768)%Z with false by (symmetry; apply Z.eqb_neq; lia). reflexivity.
    - replace (n =? -32768)%Z with false by (symmetry; apply Z.eqb_neq; lia). cbn [obind].
      destruct (l_inverse p); [|reflexivity].
      replace (- n =? -32768)%Z with false by (symmetry; apply Z.eqb_neq; lia). reflexivity.
  Qed.

  Theorem lm_value_range d : (-32767 <= lm_value d <= 32767)%Z.
  Proof. generalize (lm_normal_range (Rabs (R32 d)) (Rabs_pos _)). unfold lm_value. destruct (Bsign d), (l_inverse p); lia. Qed.

  Theorem lm_value_sign (d : f32) : is_finite d = true ->
    (0 < R32 d -> if l_inverse p then (0 <= lm_value d)%Z else (lm_value d <= 0)%Z)
    /\ (R32 d < 0 -> if l_inverse p then (lm_value d <= 0)%Z else (0 <= lm_value d)%Z).
  Proof.
    intros Fd. generalize (lm_normal_range (Rabs (R32 d)) (Rabs_pos _)). intros HN. unfold lm_value. split; intros H.
    - rewrite (Bsign_of_pos d Fd H). destruct (l_inverse p); lia.
    - rewrite (Bsign_of_neg d Fd H). destruct (l_inverse p); lia.
  Qed.

  Theorem lm_value_mono (d1 d2 : f32) : is_finite d1 = true -> is_finite d2 = true -> ord_le d1 d2 ->
    if l_inverse p then (lm_value d1 <= lm_value d2)%Z else (lm_value d2 <= lm_value d1)%Z.
  Proof.
    intros F1 F2 H.
    generalize (lm_normal_range (Rabs (R32 d1)) (Rabs_pos _)) (lm_normal_range (Rabs (R32 d2)) (Rabs_pos _)). intros N1 N2.
    assert (Hle : R32 d1 <= R32 d2) by (destruct H as [H|[H _]]; lra).
    unfold lm_value.
    destruct (Bsign d1) eqn:S1; destruct (Bsign d2) eqn:S2.
    - (* both <= 0: |d1| >= |d2| *)
      generalize (Bsign_true_le0 d1 F1 S1) (Bsign_true_le0 d2 F2 S2). intros A B.
      assert (lm_normal (Rabs (R32 d2)) <= lm_normal (Rabs (R32 d1)))%Z.
      { apply lm_normal_mono. rewrite !Rabs_left1 by assumption. lra. }
      destruct (l_inverse p); lia.
    - destruct (l_inverse p); lia.
    - (* d1 >= +0, d2 <= -0 and d1 <= d2: both zero, yet -0 < +0 is excluded by ord_le *)
      exfalso. generalize (Bsign_false_ge0 d1 F1 S1) (Bsign_true_le0 d2 F2 S2). intros A B.
      destruct H as [H|[_ H]]; [lra|]. specialize (H S2). congruence.
    - generalize (Bsign_false_ge0 d1 F1 S1) (Bsign_false_ge0 d2 F2 S2). intros A B.
      assert (lm_normal (Rabs (R32 d1)) <= lm_normal (Rabs (R32 d2)))%Z.
      { apply lm_normal_mono. rewrite !Rabs_pos_eq by assumption. lra. }
      destruct (l_inverse p); lia.
  Qed.
End Deadbanded.

Lemma lm_range_sign p : lin_ok p -> forall d : f32, is_finite d = true ->
  (-32767 <= lm_value p d <= 32767)%Z
  /\ (0 < R32 d -> if l_inverse p then (0 <= lm_value p d)%Z else (lm_value p d <= 0)%Z)
  /\ (R32 d < 0 -> if l_inverse p then (lm_value p d <= 0)%Z else (0 <= lm_value p d)%Z).
Proof. intros Hp d Fd. split; [apply lm_value_range; assumption | apply lm_value_sign; assumption]. Qed.
