(* C19, shortest_rotation, at the level of the binary32 arithmetic the code runs:
   for EVERY finite f32 d >= -2*PI_f the result is finite, lies in (-PI_f, PI_f] and differs
   from the (once rounded) sum d + 2*PI_f by an exact integer multiple of 2*PI_f, where
   PI_f = 13176795 * 2^-22 is the f32 constant std::f32::consts::PI. *)
From Coq Require Import ZArith Reals Lra Lia Bool.
From Flocq Require Import Core Sterbenz BinarySingleNaN.
Require Import GV.Model.F32 GV.Model.Kinematics GV.Proofs.F32_lemmas.
Local Open Scope R_scope.

Lemma R_ftwopi : R32 ftwopi = IZR 13176795 * bpow2 (-21).
Proof. reflexivity. Qed.
Lemma R_fpi : R32 fpi = IZR 13176795 * bpow2 (-22).
Proof. reflexivity. Qed.
Lemma twopi_pi : R32 ftwopi = 2 * R32 fpi.
Proof. rewrite R_ftwopi, R_fpi. change (-21)%Z with (1 + -22)%Z. rewrite bpow_plus. change (bpow2 1) with 2. lra. Qed.
Lemma fpi_bounds : 3 < R32 fpi < 4.
Proof. rewrite R_fpi. change (bpow2 (-22)) with (/ IZR 4194304). split.
  - apply (Rmult_lt_reg_r (IZR 4194304)); [apply IZR_lt; lia|]. rewrite Rmult_assoc, Rinv_l, Rmult_1_r by (apply IZR_neq; lia).
    rewrite <- mult_IZR. apply IZR_lt. lia.
  - apply (Rmult_lt_reg_r (IZR 4194304)); [apply IZR_lt; lia|]. rewrite Rmult_assoc, Rinv_l, Rmult_1_r by (apply IZR_neq; lia).
    rewrite <- mult_IZR. apply IZR_lt. lia.
Qed.

Theorem shortest_rotation_f32 (d : f32) :
  is_finite d = true -> - R32 ftwopi <= R32 d ->
  let r := shortest_rotation d in
  is_finite r = true /\ - R32 fpi < R32 r <= R32 fpi
  /\ exists k : Z, R32 r = rnd (R32 d + R32 ftwopi) - IZR k * R32 ftwopi.
Proof.
  intros Fd Hlo. cbv zeta. unfold shortest_rotation.
  generalize fpi_bounds twopi_pi. intros Hpi H2pi.
  assert (Hs : 0 <= rnd (R32 d + R32 ftwopi) <= FMAX).
  { split.
    - rewrite <- rnd_0. apply rnd_le. lra.
    - apply rnd_no_overflow. generalize (R32_le_FMAX d). intros Hd. apply Rabs_le_inv in Hd.
      assert (bpow2 4 <= bpow2 103) by (apply bpow_le; lia). change (bpow2 4) with 16 in *. lra. }
  assert (HUlt : FMAX < bpow2 128) by (unfold FMAX; generalize (bpow_gt_0 radix2 104); lra).
  destruct (fadd_finite d ftwopi Fd eq_refl) as [Rs Fs].
  { rewrite Rabs_pos_eq by lra. lra. }
  set (s := fadd d ftwopi) in *.
  destruct (frem_pos s ftwopi Fs eq_refl) as [Fn [[Hn0 Hn1] [k [Hk Hsk]]]].
  { rewrite Rs. lra. } { lra. }
  set (n := frem s ftwopi) in *.
  unfold fgt. rewrite (Bltb_correct 24 128 fpi n eq_refl Fn).
  destruct (Rlt_bool_spec (R32 fpi) (R32 n)) as [Hgt|Hle].
  - (* n > PI: n - 2PI, exact by Sterbenz *)
    assert (Hf : fmt (R32 n - R32 ftwopi)).
    { apply sterbenz; auto with typeclass_instances; try apply fmt_R32. lra. }
    destruct (fsub_finite n ftwopi Fn eq_refl) as [Rr Fr].
    { rewrite (rnd_id _ Hf). apply Rabs_lt. split; [|lra].
      assert (bpow2 3 <= bpow2 128) by (apply bpow_le; lia). change (bpow2 3) with 8 in *. lra. }
    rewrite (rnd_id _ Hf) in Rr.
    split; [exact Fr|]. rewrite Rr. split; [lra|].
    exists (k + 1)%Z. rewrite <- Rs, Hsk, plus_IZR. lra.
  - split; [exact Fn|]. split; [lra|]. exists k. rewrite <- Rs, Hsk. lra.
Qed.

Lemma rotation_premises : is_finite (f_of_Z 7) = true /\ - R32 ftwopi <= R32 (f_of_Z 7).
Proof.
  destruct (f_of_Z_correct 7) as [F R7]; [vm_compute; discriminate|]. split; [exact F|]. rewrite R7.
  generalize fpi_bounds twopi_pi. intros. lra.
Qed.
