(* The bounded command channel as the runtime-level C01 model abstracts it ("an idle command task finds the newest
   `cap` objects of what was published since it last ran", Model/C01r_io.lastn) IS what the cursor model of
   tokio's broadcast channel with the runtime's command loop (Model/Broadcast.v, the model the C15 check runs
   against the real Runtime) delivers: from a caught-up idle handler, after any burst, polling until the channel is
   empty hands on exactly the last `cap` objects of the burst, in order - an overrun costs one Lagged round and
   nothing else. *)
From Coq Require Import ZArith List Bool Arith Lia.
Import ListNotations.
Require Import GV.Model.Broadcast GV.Model.C01r_io.

Section Drain.
Context {A : Type} (cap : nat) (dflt : A).

(* one poll of the command loop followed by the return of on_command (a no-op if nothing was received) *)
Definition round (s : sys A) : sys A := step A cap dflt (step A cap dflt s MRecv) MFinish.
Fixpoint drain (fuel : nat) (s : sys A) : sys A := match fuel with O => s | S f => drain f (round s) end.

Lemma skipn_nth (l : list A) c : c < length l -> skipn c l = nth c l dflt :: skipn (S c) l.
Proof.
  revert c. induction l as [|x t IH]; intros c H; cbn [length] in H; [lia|].
  destruct c as [|c]; [reflexivity|]. cbn [skipn nth]. rewrite (IH c) by lia. reflexivity.
Qed.

Definition idle (sent : list A) (c : nat) (done : list A) (lags : nat) : sys A :=
  {| s_sent := sent; s_h := {| h_cursor := c; h_holding := None; h_done := done; h_lags := lags |} |}.

Lemma round_idle sent c done lags :
  round (idle sent c done lags) =
  if c <? length sent - cap then idle sent (length sent - cap) done (S lags)
  else if c <? length sent then idle sent (S c) (done ++ [nth c sent dflt]) lags
  else idle sent c done lags.
Proof.
  unfold round, idle. cbn [step s_h h_holding s_sent h_cursor]. unfold recv_at. cbv zeta.
  destruct (c <? length sent - cap); [reflexivity|]. destruct (c <? length sent); reflexivity.
Qed.

Lemma drain_spec : forall fuel sent c done lags,
  c <= length sent ->
  (length sent - c) + (if c <? length sent - cap then 1 else 0) <= fuel ->
  exists lags', drain fuel (idle sent c done lags) =
                idle sent (length sent) (done ++ skipn (Nat.max c (length sent - cap)) sent) lags'.
Proof.
  induction fuel as [|fuel IH]; intros sent c done lags Hc Hf.
  - cbn [drain]. destruct (c <? length sent - cap) eqn:E; [lia|]. apply Nat.ltb_ge in E.
    assert (c = length sent) by lia. subst c.
    rewrite Nat.max_l by lia. rewrite skipn_all, app_nil_r. exists lags. reflexivity.
  - cbn [drain]. rewrite round_idle. destruct (c <? length sent - cap) eqn:E1.
    + (* overrun: one Lagged round moves the cursor to the oldest retained object *)
      apply Nat.ltb_lt in E1.
      destruct (IH sent (length sent - cap) done (S lags)) as [l' H]; [lia | rewrite Nat.ltb_irrefl; lia |].
      exists l'. rewrite H. rewrite Nat.max_id. rewrite (Nat.max_r c) by lia. reflexivity.
    + apply Nat.ltb_ge in E1. destruct (c <? length sent) eqn:E2.
      * apply Nat.ltb_lt in E2.
        assert (E3 : (S c <? length sent - cap) = false) by (apply Nat.ltb_ge; lia).
        destruct (IH sent (S c) (done ++ [nth c sent dflt]) lags) as [l' H]; [lia | rewrite E3; lia |].
        exists l'. rewrite H. rewrite (Nat.max_l c) by lia. rewrite (Nat.max_l (S c)) by lia.
        rewrite <- app_assoc. cbn [app]. rewrite <- skipn_nth by lia. reflexivity.
      * apply Nat.ltb_ge in E2.
        assert (E3 : (c <? length sent - cap) = false) by (apply Nat.ltb_ge; lia).
        destruct (IH sent c done lags) as [l' H]; [lia | rewrite E3; lia |].
        exists l'. exact H.
Qed.

(* the abstraction used by Model/C01r_io.v *)
Theorem idle_task_takes_the_newest (sent0 pend done : list A) lags :
  forall fuel, length pend + 1 <= fuel ->
  h_done A (s_h A (drain fuel (idle (sent0 ++ pend) (length sent0) done lags))) = done ++ lastn cap pend
  /\ h_holding A (s_h A (drain fuel (idle (sent0 ++ pend) (length sent0) done lags))) = None.
Proof.
  intros fuel Hf.
  destruct (drain_spec fuel (sent0 ++ pend) (length sent0) done lags) as [l' H].
  - rewrite app_length. lia.
  - rewrite app_length. destruct (_ <? _); lia.
  - rewrite H. cbn [idle s_h h_done h_holding]. split; [|reflexivity]. f_equal. unfold lastn. rewrite app_length.
    destruct (Nat.le_ge_cases (length pend) cap) as [L|L].
    + rewrite Nat.max_l by lia. replace (length pend - cap) with 0 by lia.
      rewrite skipn_app, skipn_all, Nat.sub_diag. reflexivity.
    + rewrite Nat.max_r by lia. rewrite skipn_app.
      rewrite skipn_all2 by lia. cbn [app]. f_equal. lia.
Qed.
End Drain.
