(* C19, law_of_cosines.
   Over the reals: the acos argument lies in [-1, 1] exactly when the triangle exists, and
   then acos of it is the triangle's angle.
   Over binary32: the same formula leaves [-1, 1] for triangles that DO exist (rounding): the
   strict reading "NaN only when no such triangle exists" is refuted by a witness on which the
   bit-exact model, and the real function (known finding K03), return NaN. *)
From Coq Require Import Reals Lra Lia ZArith Bool List.
From Flocq Require Import Core.Raux.
Require Import GV.Model.F32 GV.Model.Kinematics GV.Spec.C19_spec.
Local Open Scope R_scope.

Definition loc_arg_R (a b c : R) : R := (a * a + b * b - c * c) / (2 * a * b).
Definition loc_R (a b c : R) : R := acos (loc_arg_R a b c).

Theorem loc_domain a b c : 0 < a -> 0 < b -> 0 <= c ->
  (-1 <= loc_arg_R a b c <= 1 <-> Rabs (a - b) <= c <= a + b).
Proof.
  intros Ha Hb Hc. unfold loc_arg_R.
  set (n := a * a + b * b - c * c). set (d := 2 * a * b).
  assert (Hd : 0 < d) by (unfold d; nra).
  assert (E : n = n / d * d) by (field; lra).
  set (q := n / d) in *.
  split.
  - intros [H1 H2].
    assert (Hn : - d <= n <= d) by (rewrite E; split; nra).
    unfold n, d in Hn. split; [apply Rabs_le; split; nra | nra].
  - intros [H1 H2]. apply Rabs_le_inv in H1. destruct H1 as [H1 H1'].
    assert (Hn : - d <= n <= d) by (unfold n, d; split; nra).
    rewrite E in Hn. split; nra.
Qed.

(* gamma is the angle between the sides a and b of the triangle with third side c *)
Theorem loc_angle a b c gamma : 0 < a -> 0 < b -> 0 <= gamma <= PI ->
  c * c = a * a + b * b - 2 * a * b * cos gamma ->
  loc_R a b c = gamma.
Proof.
  intros Ha Hb Hg Hc. unfold loc_R, loc_arg_R. rewrite Hc.
  replace ((a * a + b * b - (a * a + b * b - 2 * a * b * cos gamma)) / (2 * a * b)) with (cos gamma)
    by (field; lra).
  apply acos_cos. exact Hg.
Qed.

(* ---- binary32 ---- *)
Local Open Scope Z_scope.
Definition wa : Z := 1140699316.   (* 507.38049  *)
Definition wb : Z := 1136489420.   (* 378.90466  *)
Definition wc : Z := 1124104657.   (* 128.475845 *)

Theorem loc_strict_refuted :
  exists a b c t,
    tri_moderate a b c = true /\ tri_ints a b c = Some t
    /\ Z.abs (tri_N t) < tri_D t            (* a strictly non-degenerate triangle *)
    /\ loc_is_nan a b c = true.             (* and yet acos is handed a value outside [-1, 1] *)
Proof.
  exists (f32_of_bits wa), (f32_of_bits wb), (f32_of_bits wc).
  eexists. split; [vm_compute; reflexivity|]. split; [vm_compute; reflexivity|].
  split; vm_compute; reflexivity.
Qed.

(* the margin reading that the correspondence enforces on the implementation is consistent:
   the witness is NOT a safely existing triangle *)
Lemma witness_not_safe :
  match tri_ints (f32_of_bits wa) (f32_of_bits wb) (f32_of_bits wc) with
  | Some t => tri_safe t = false /\ tri_exists t = true
  | None => False end.
Proof. vm_compute. split; reflexivity. Qed.
