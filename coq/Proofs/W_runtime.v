(* The model abstracts from time on the premise that this file uses exactly these kinds of timing / readiness primitives
   (codes: 1 timeout 2 sleep 3 try_lock 4 try_send 5 try_recv() 6 try_read/try_write 7 elapsed 8 Instant::now
   9 interval 10 select! 11 tick()), re-extracted from the source on every run (Gen/Consts.v).
   runtime/mod.rs: one select! per scheduled task (service loop | shutdown), the interval sleep of the net tick task, the signal select *)
From Coq Require Import ZArith List.
Import ListNotations.
Require Import GV.Gen.Consts.
Local Open Scope Z_scope.
Lemma w_runtime : waits_runtime = [2; 10].
Proof. reflexivity. Qed.
