From Coq Require Import ZArith List Bool Lia.
Import ListNotations.
Require Import GV.Gen.Consts GV.Model.Outcome GV.Model.J1939 GV.Model.Governor GV.Model.Hcu GV.Model.Object
  GV.Model.HcuUnit GV.Model.Units GV.Model.Volvo GV.Model.CanNet GV.Model.Authority GV.Model.Auth_io GV.Spec.C10_spec GV.Proofs.C10_proof.
Local Open Scope Z_scope.

(* C10 over whole histories: the authority model and an independent reference bookkeeping are stepped
   side by side; every cycle decides, for every unit, a status satisfying the C10 cycle predicate. *)

(* what a driver does with a frame does not depend on its context: the count grows by a fixed
   amount and the signals are the same *)
Lemma unit_recv_indep k u c f :
  rx_count (r_ctx (unit_recv k u c f)) - rx_count c = rx_count (r_ctx (unit_recv k u ctx0 f))
  /\ r_sigs (unit_recv k u c f) = r_sigs (unit_recv k u ctx0 f)
  /\ 0 <= rx_count (r_ctx (unit_recv k u ctx0 f)).
Proof.
  destruct k; cbn [unit_recv];
  unfold hcu_recv, vcu_recv, ecu_recv, encoder_recv, inclino_recv, ems_recv, alive, ignore;
  repeat match goal with |- context [if ?b then _ else _] => destruct b end;
  cbn [r_ctx r_sigs rx_count rx_mark set_rx ctx0]; (split; [|split]); try reflexivity; try lia.
Qed.

(* ---------------------------------------------------------------- whole histories *)
Definition status := (Z * option Z)%type.

(* the reference bookkeeping stepped together with what each cycle decided per unit (by position) *)
Definition set_prev (r : uref) (p : option status) : uref :=
  match p with
  | Some s => {| r_kind := r_kind r; r_cfg := r_cfg r; r_tmo := r_tmo r; r_heard := r_heard r; r_time := r_time r; r_prev := Some s |}
  | None => r end.
Fixpoint cycle_pos (rs : list uref) (k now : Z) (pubs : list (option status)) : bool * list uref :=
  match rs, pubs with
  | [], [] => (true, [])
  | r :: t, p :: ps => let '(ok, t') := cycle_pos t k now ps in (cycle_ok r k now p && ok, set_prev r p :: t')
  | _, _ => (false, rs)
  end.

(* authority and reference run side by side over a history; true iff every cycle of the model
   satisfies the C10 cycle predicate for every unit *)
Fixpoint walk_model (a : auth) (rs : list uref) (now : Z) (evs : list aevent) : bool :=
  match evs with
  | [] => true
  | AInject raw :: t =>
      match of_can_frame raw with
      | Some f =>
          let '(a', _, _) := auth_recv a now (normalise f) in
          walk_model a' (if id_pgn (f_id (normalise f)) =? PGN_REQUEST then rs else hear rs now (normalise f)) now t
      | None => walk_model a rs now t
      end
  | ATick :: t =>
      let pubs := map (fun it => snd (item_status it (a_tick a) now)) (a_items a) in
      let '(ok, rs') := cycle_pos rs (a_tick a) now pubs in
      ok && walk_model (to_auth (auth_on_tick a now)) rs' now t
  | ACmd ob :: t => walk_model (fst (auth_on_command a now ob)) rs now t
  | AWait ms :: t => walk_model a rs (now + ms) t
  | ASetup :: t | ATeardown :: t => walk_model a rs now t
  end.

(* simulation between a driver item and its reference record *)
Definition rel (now : Z) (it : ditem) (r : uref) : Prop :=
  r_kind r = i_kind it /\ r_cfg r = i_cfg it /\ r_tmo r = i_timeout it
  /\ 0 <= rx_count (i_ctx it) /\ r_heard r = (0 <? rx_count (i_ctx it))
  /\ r_time r = i_rx_time it /\ r_prev r = i_last it
  /\ (forall l, i_last it = Some l -> (l = HEALTHY \/ l = TIMEOUT)
                /\ (l = HEALTHY -> 0 < rx_count (i_ctx it))
                /\ (0 < rx_count (i_ctx it) \/ timed_out it now = true)).

Lemma healthy_is : is_healthy HEALTHY = true /\ is_timeout HEALTHY = false.
Proof. split; reflexivity. Qed.
Lemma timeout_is : is_timeout TIMEOUT = true /\ is_healthy TIMEOUT = false.
Proof. split; reflexivity. Qed.

Lemma silent_rel now it r : rel now it r -> silent_too_long r now = timed_out it now.
Proof. intros (_ & _ & Ht & _ & _ & Hm & _). unfold silent_too_long, timed_out. rewrite Ht, Hm. reflexivity. Qed.

(* one unit in one cycle *)
Lemma tick_item k now it r : rel now it r ->
  cycle_ok r k now (snd (item_status it k now)) = true
  /\ rel now (fst (item_status it k now)) (set_prev r (snd (item_status it k now))).
Proof.
  intros H. generalize (silent_rel now it r H). intros Hlate.
  destruct H as (Hk & Hc & Ht & Hn & Hh & Hm & Hp & Hl).
  pose proof (item_status_spec it k now) as S.
  destruct (item_status it k now) as [it' pub]. cbn [fst snd].
  destruct S as (L & P & K' & C' & X' & M' & T').
  unfold decided in L, P. change status_refresh_cycles with 10 in P.
  unfold cycle_ok. rewrite Hlate, Hh, Hp.
  assert (Hrel : forall lnew, i_last it' = lnew ->
            (match pub with Some s => Some s | None => i_last it end) = lnew ->
            (forall l, lnew = Some l -> (l = HEALTHY \/ l = TIMEOUT) /\ (l = HEALTHY -> 0 < rx_count (i_ctx it)) /\ (0 < rx_count (i_ctx it) \/ timed_out it now = true)) ->
            rel now it' (set_prev r pub)).
  { intros lnew E1 E2 E3. unfold rel. rewrite K', C', X', M', T'.
    destruct pub as [s|]; cbn [set_prev r_kind r_cfg r_tmo r_heard r_time r_prev];
      (split; [assumption|]); (split; [assumption|]); (split; [assumption|]); (split; [assumption|]);
      (split; [assumption|]); (split; [assumption|]); (split; [rewrite E1; first [exact E2 | rewrite Hp; exact E2]|]);
      unfold timed_out in *; rewrite T', M', E1; exact E3. }
  assert (Hst : forall l, status_eqb l l = true) by apply status_eqb_refl.
  Ltac fin Hlate Hh Hp := unfold cycle_ok; rewrite Hlate, Hh, Hp;
    repeat match goal with H : _ = _ |- _ => rewrite H end.
  destruct (k mod 10 =? 0) eqn:Tn; cbn [orb] in P;
  destruct (timed_out it now) eqn:TO; [| destruct (0 <? rx_count (i_ctx it)) eqn:HR | | destruct (0 <? rx_count (i_ctx it)) eqn:HR];
  destruct (i_last it) as [l|] eqn:El;
  try (destruct (Hl l eq_refl) as (Hor & Hhe & Hcnt));
  cbn [negb] in L, P.
  all: try (destruct (status_eqb l TIMEOUT) eqn:Q; [apply status_eqb_eq in Q; subst l|]).
  all: try (destruct (status_eqb l HEALTHY) eqn:Q2; [apply status_eqb_eq in Q2; subst l|]).
  all: cbn [negb orb] in L, P; try rewrite L in P; subst pub.
  all: try (exfalso; destruct Hcnt as [Hc0|Hc0]; [lia | congruence]).
  all: split.
  all: try (unfold cycle_ok; rewrite Hlate, Hh, Hp, TO, ?HR, ?El, ?Tn; cbn [negb andb orb is_timeout is_healthy TIMEOUT HEALTHY fst snd];
            rewrite ?Q, ?Q2, ?Hst; cbn [negb andb orb]; try reflexivity; rewrite ?orb_true_r; reflexivity).
  all: try (apply (Hrel _ L); [try reflexivity; try (symmetry; exact El) | intros l0 E; try discriminate E; injection E as <-; repeat split; auto; try (intros E'; discriminate E'); lia]).
  all: rewrite ?Q, ?Q2; try reflexivity; vm_compute; reflexivity.
Qed.

(* all units in one cycle *)
Lemma tick_all k now : forall its rs, Forall2 (rel now) its rs ->
  fst (cycle_pos rs k now (map (fun it => snd (item_status it k now)) its)) = true
  /\ Forall2 (rel now) (map (fun it => fst (item_status it k now)) its)
                       (snd (cycle_pos rs k now (map (fun it => snd (item_status it k now)) its))).
Proof.
  induction 1 as [|it r its rs H HF IH]; cbn [map cycle_pos]; [split; [reflexivity | constructor]|].
  destruct IH as [IH1 IH2]. destruct (tick_item k now it r H) as [T1 T2].
  destruct (cycle_pos rs k now (map (fun it0 => snd (item_status it0 k now)) its)) as [ok t'].
  cbn [fst snd] in *. rewrite T1, IH1. split; [reflexivity|]. constructor; assumption.
Qed.

(* a received frame *)
Ltac rel7 := do 7 (split; [first [assumption | reflexivity | lia | (symmetry; apply Z.ltb_lt; lia)] |]).
Lemma scan_rel now f : forall its rs, Forall2 (rel now) its rs ->
  Forall2 (rel now) (fst (scan_items its now f)) (hear rs now f).
Proof.
  induction 1 as [|it r its rs H HF IH]; cbn [scan_items hear]; [constructor|].
  destruct H as (Hk & Hc & Ht & Hn & Hh & Hm & Hp & Hl).
  unfold accepts. rewrite Hk, Hc.
  destruct (unit_recv_indep (i_kind it) (i_cfg it) (i_ctx it) f) as (Ecnt & Esig & Hge).
  set (r0 := unit_recv (i_kind it) (i_cfg it) ctx0 f) in *.
  set (r1 := unit_recv (i_kind it) (i_cfg it) (i_ctx it) f) in *.
  rewrite <- Esig.
  destruct (r_sigs r1) as [|sg sgs] eqn:S.
  - (* no signal: the scan goes on *)
    rewrite orb_false_r.
    destruct (scan_items its now f) as [t' s'] eqn:E. cbn [fst] in *.
    constructor; [|exact IH].
    destruct (rx_count (r_ctx r0) =? 0) eqn:Z0; cbn [negb].
    + (* not accepted *)
      assert (Es : rx_count (r_ctx r1) = rx_count (i_ctx it)) by lia.
      rewrite Es, Z.eqb_refl. cbn [negb]. unfold rel. cbn [with_ctx i_kind i_cfg i_timeout i_ctx i_rx_time i_last].
      rewrite Es. rel7.
      intros st Est. destruct (Hl st Est) as (A & B & C). split; [exact A|]. split; [exact B|].
      unfold timed_out in *. cbn [i_timeout i_rx_time]. exact C.
    + assert (Es : rx_count (i_ctx it) < rx_count (r_ctx r1)) by lia.
      replace (rx_count (r_ctx r1) =? rx_count (i_ctx it)) with false by (symmetry; apply Z.eqb_neq; lia).
      cbn [negb]. unfold rel. cbn [with_ctx i_kind i_cfg i_timeout i_ctx i_rx_time i_last r_kind r_cfg r_tmo r_heard r_time r_prev].
      rel7.
      intros st Est. destruct (Hl st Est) as (A & B & C). split; [exact A|]. split; [intros _; lia|]. left. lia.
  - (* a signal: the unit is marked and the scan ends *)
    rewrite orb_true_r. cbn [fst].
    constructor; [|exact HF].
    unfold rel. cbn [with_ctx i_kind i_cfg i_timeout i_ctx i_rx_time i_last r_kind r_cfg r_tmo r_heard r_time r_prev rx_mark rx_count].
    assert (0 <= rx_count (r_ctx r1)) by lia.
    rel7.
    intros st Est. destruct (Hl st Est) as (A & B & C). split; [exact A|]. split; [intros _; lia|]. left. lia.
Qed.

(* a command touches the transmit side only *)
Lemma item_trigger_rel now o it r : rel now it r -> rel now (fst (item_trigger it now o)) r.
Proof.
  intros (Hk & Hc & Ht & Hn & Hh & Hm & Hp & Hl). unfold item_trigger.
  destruct (i_kind it) eqn:K; cbn [fst]; try (unfold rel; rewrite K; rel7; exact Hl).
  - destruct (hcu_trigger (i_cfg it) (i_ctx it) o) as [c fs] eqn:E. cbn [fst].
    assert (Ec : rx_count c = rx_count (i_ctx it)).
    { unfold hcu_trigger in E. destruct o; injection E as <- _; reflexivity. }
    unfold rel. cbn [with_ctx i_kind i_cfg i_timeout i_ctx i_rx_time i_last]. rewrite Ec, K. rel7.
    intros st Est. destruct (Hl st Est) as (A & B & C). split; [exact A|]. split; [exact B|].
    unfold timed_out in *. cbn [i_timeout i_rx_time]. exact C.
  - destruct (volvo_trigger (i_cfg it) {| v_ctx := i_ctx it; v_tx_time := i_tx_time it |} now o) as [s fs] eqn:E. cbn [fst].
    assert (Ec : rx_count (v_ctx s) = rx_count (i_ctx it)).
    { unfold volvo_trigger in E. destruct o; injection E as <- _; reflexivity. }
    unfold rel. cbn [with_ctx i_kind i_cfg i_timeout i_ctx i_rx_time i_last]. rewrite Ec, K. rel7.
    intros st Est. destruct (Hl st Est) as (A & B & C). split; [exact A|]. split; [exact B|].
    unfold timed_out in *. cbn [i_timeout i_rx_time]. exact C.
Qed.
Lemma on_command_rel now o : forall its rs, Forall2 (rel now) its rs ->
  Forall2 (rel now) (fst (on_command_items its now o)) rs.
Proof.
  induction 1 as [|it r its rs H HF IH]; cbn [on_command_items]; [constructor|].
  generalize (item_trigger_rel now o it r H). destruct (item_trigger it now o) as [it' fs].
  destruct (on_command_items its now o) as [t' fs']. cbn [fst] in *. intros H'. constructor; assumption.
Qed.

(* time passes *)
Lemma wait_rel now ms it r : 0 <= ms -> rel now it r -> rel (now + ms) it r.
Proof.
  intros Hms (Hk & Hc & Ht & Hn & Hh & Hm & Hp & Hl). unfold rel. rel7.
  intros st Est. destruct (Hl st Est) as (A & B & [C|C]); (split; [exact A|]); (split; [exact B|]); [left; exact C|].
  right. unfold timed_out in *. destruct (i_timeout it); [|discriminate C]. apply Z.leb_le in C. apply Z.leb_le. lia.
Qed.

(* the start *)
Lemma new_rel addr : forall cs, Forall2 (rel 0) (filter_map (new_item 0 addr) cs) (filter_map (uref_of addr) cs).
Proof.
  induction cs as [|c cs IH]; cbn [filter_map]; [constructor|].
  unfold new_item at 1, uref_of at 1. destruct (kind_of_key (c_key c)); [|exact IH].
  constructor; [|exact IH]. unfold rel. cbn. rel7. intros st E; discriminate E.
Qed.

(* EVERY history: every cycle decides, for every configured unit, a status that satisfies the C10
   cycle predicate against independently tracked facts *)
Theorem c10_whole_history : forall evs a rs now,
  Forall2 (rel now) (a_items a) rs ->
  forallb (fun e => match e with AWait ms => 0 <=? ms | _ => true end) evs = true ->
  walk_model a rs now evs = true.
Proof.
  induction evs as [|e t IH]; intros a rs now HR Hw; [reflexivity|].
  cbn [forallb] in Hw. apply andb_prop in Hw as [Hw0 Hw].
  destruct e as [raw| |ob|ms| |]; cbn [walk_model].
  - destruct (of_can_frame raw) as [f|]; [|apply IH; assumption].
    unfold auth_recv. destruct (id_pgn (f_id (normalise f)) =? PGN_REQUEST); [apply IH; assumption|].
    generalize (scan_rel now (normalise f) _ _ HR).
    destruct (scan_items (a_items a) now (normalise f)) as [its sigs]. cbn [fst]. intros HR'.
    apply IH; [exact HR' | exact Hw].
  - destruct (tick_all (a_tick a) now _ _ HR) as [T1 T2].
    destruct (cycle_pos rs (a_tick a) now (map (fun it => snd (item_status it (a_tick a) now)) (a_items a))) as [ok rs'].
    cbn [fst snd] in *. rewrite T1. cbn [andb]. apply IH; [|exact Hw].
    unfold auth_on_tick. cbn [to_auth a_items]. rewrite map_map in *. exact T2.
  - unfold auth_on_command. generalize (on_command_rel now ob _ _ HR).
    destruct (on_command_items (a_items a) now ob) as [its fs]. cbn [fst a_items]. intros HR'. apply IH; assumption.
  - apply IH; [|exact Hw]. apply Z.leb_le in Hw0.
    clear -HR Hw0. induction HR; constructor; [apply wait_rel; assumption | assumption].
  - apply IH; assumption.
  - apply IH; assumption.
Qed.

Corollary c10_whole_history_from_start addr nm cs evs :
  forallb (fun e => match e with AWait ms => 0 <=? ms | _ => true end) evs = true ->
  walk_model (auth_new 0 addr nm cs) (filter_map (uref_of addr) cs) 0 evs = true.
Proof. intros H. apply c10_whole_history; [apply new_rel | exact H]. Qed.

(* what walk_model judges is what the model publishes: the statuses of a cycle are exactly the
   decided ones, in driver order *)
Lemma tick_publishes a now :
  to_status (auth_on_tick a now)
  = flat_map (fun it => match snd (item_status it (a_tick a) now) with
                        | Some s => [(i_cfg (fst (item_status it (a_tick a) now)), i_kind (fst (item_status it (a_tick a) now)), s)]
                        | None => [] end) (a_items a).
Proof.
  unfold auth_on_tick. cbn [to_status]. induction (a_items a) as [|it t IH]; [reflexivity|].
  cbn [map flat_map]. rewrite IH. reflexivity.
Qed.
