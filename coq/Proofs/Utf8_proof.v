(* Sanity of the UTF-8 view used to decide which strings the codec ties compare byte for byte. *)
From Coq Require Import ZArith List Bool Lia.
Import ListNotations.
Require Import GV.Model.Utf8.
Local Open Scope Z_scope.

Definition ascii7 (l : list Z) : bool := forallb (fun x => (0 <=? x) && (x <? 128)) l.

Lemma utf8_next_ascii b t : (0 <=? b) && (b <? 128) = true -> utf8_next (b :: t) = Some ([b], t).
Proof. intros H. cbn [utf8_next]. unfold in_rng. replace ((0 <=? b) && (b <=? 127)) with true by lia. reflexivity. Qed.

(* on 7-bit text the UTF-8 view is the byte view: the first k characters are the first k bytes *)
Lemma utf8_take_f_ascii : forall l fuel k, ascii7 l = true -> (length l < fuel)%nat ->
  utf8_take_f fuel k l = Some (firstn k l).
Proof.
  induction l as [|b t IH]; intros fuel k Ha Hf.
  - destruct fuel; [lia|]. destruct k; reflexivity.
  - destruct fuel; [cbn in Hf; lia|]. cbn [ascii7 forallb] in Ha. apply andb_prop in Ha as [Hb Ht].
    destruct k; [reflexivity|]. cbn [utf8_take_f]. rewrite (utf8_next_ascii b t Hb).
    assert (is_replacement [b] = false) by reflexivity.
    rewrite H. rewrite (IH fuel k Ht) by (cbn in Hf; lia). reflexivity.
Qed.
Theorem utf8_take_ascii k l : ascii7 l = true -> utf8_take k l = Some (firstn k l).
Proof. intros H. unfold utf8_take. apply utf8_take_f_ascii; [exact H | lia]. Qed.
Theorem utf8_clean_ascii l : ascii7 l = true -> utf8_clean l = true.
Proof. intros H. unfold utf8_clean. rewrite (utf8_take_ascii _ _ H). reflexivity. Qed.

(* what is taken is a prefix of the input *)
Lemma utf8_next_split l c r : utf8_next l = Some (c, r) -> l = c ++ r.
Proof.
  destruct l as [|b0 t]; [discriminate|]. cbn [utf8_next].
  repeat match goal with
         | |- context [if ?b then _ else _] => destruct b
         | |- context [match ?t with [] => _ | _ :: _ => _ end] => destruct t
         end; intros H; try discriminate H; injection H as <- <-; reflexivity.
Qed.
Theorem utf8_take_prefix : forall fuel k l p, utf8_take_f fuel k l = Some p -> exists r, l = p ++ r.
Proof.
  induction fuel as [|f IH]; intros k l p H; [discriminate|]. cbn [utf8_take_f] in H.
  destruct k; [injection H as <-; exists l; reflexivity|].
  destruct l as [|b t]; [injection H as <-; exists []; reflexivity|].
  destruct (utf8_next (b :: t)) as [[c rest]|] eqn:E; [|discriminate].
  destruct (is_replacement c); [discriminate|].
  destruct (utf8_take_f f k rest) as [q|] eqn:E2; [|discriminate]. injection H as <-.
  destruct (IH k rest q E2) as [r Hr]. exists r. rewrite (utf8_next_split _ _ _ E), Hr, app_assoc. reflexivity.
Qed.
Lemma utf8_ascii_both k l : ascii7 l = true -> utf8_take k l = Some (firstn k l) /\ utf8_clean l = true.
Proof. intros H. split; [apply utf8_take_ascii | apply utf8_clean_ascii]; exact H. Qed.
