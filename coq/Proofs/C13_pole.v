(* The orientation a (roll, pitch, yaw) triple of the wire format describes: R = Rz(yaw) * Ry(pitch) * Rx(roll)
   (the matrix the harness uses as its double-precision reference for decoded Target / Rotator / Actor packets).
   At a pitch of a quarter turn the triple is not unique: the orientation depends on roll - yaw only (roll + yaw at
   minus a quarter turn).  This is why "decoding returns an equal object" is judged on the decoded rotation there,
   and what the repaired Target encoder (fix cfaadcb) relies on when it sends (roll -/+ yaw, +-pi/2, 0). *)
From Coq Require Import Reals Lra.
Local Open Scope R_scope.

Definition m00 (r p y : R) := cos y * cos p.
Definition m01 (r p y : R) := cos y * sin p * sin r - sin y * cos r.
Definition m02 (r p y : R) := cos y * sin p * cos r + sin y * sin r.
Definition m10 (r p y : R) := sin y * cos p.
Definition m11 (r p y : R) := sin y * sin p * sin r + cos y * cos r.
Definition m12 (r p y : R) := sin y * sin p * cos r - cos y * sin r.
Definition m20 (r p y : R) := - sin p.
Definition m21 (r p y : R) := cos p * sin r.
Definition m22 (r p y : R) := cos p * cos r.

Definition same_orientation (a b : R * R * R) : Prop :=
  let '(r, p, y) := a in let '(r', p', y') := b in
  m00 r p y = m00 r' p' y' /\ m01 r p y = m01 r' p' y' /\ m02 r p y = m02 r' p' y' /\
  m10 r p y = m10 r' p' y' /\ m11 r p y = m11 r' p' y' /\ m12 r p y = m12 r' p' y' /\
  m20 r p y = m20 r' p' y' /\ m21 r p y = m21 r' p' y' /\ m22 r p y = m22 r' p' y'.

Lemma pole_up r y : same_orientation (r, PI / 2, y) (r - y, PI / 2, 0).
Proof.
  unfold same_orientation, m00, m01, m02, m10, m11, m12, m20, m21, m22.
  rewrite sin_PI2, cos_PI2, sin_0, cos_0, sin_minus, cos_minus.
  repeat split; ring.
Qed.

Lemma pole_down r y : same_orientation (r, - (PI / 2), y) (r + y, - (PI / 2), 0).
Proof.
  unfold same_orientation, m00, m01, m02, m10, m11, m12, m20, m21, m22.
  rewrite sin_neg, cos_neg, sin_PI2, cos_PI2, sin_0, cos_0, sin_plus, cos_plus.
  repeat split; ring.
Qed.

(* every triple with the same roll - yaw describes the same orientation at the upper pole ... *)
Theorem pole_up_class r y r' y' : r - y = r' - y' -> same_orientation (r, PI / 2, y) (r', PI / 2, y').
Proof.
  intros H. pose proof (pole_up r y) as A. pose proof (pole_up r' y') as B. rewrite H in A.
  unfold same_orientation in *.
  destruct A as (a0&a1&a2&a3&a4&a5&a6&a7&a8). destruct B as (b0&b1&b2&b3&b4&b5&b6&b7&b8).
  repeat split; congruence.
Qed.
Theorem pole_down_class r y r' y' : r + y = r' + y' -> same_orientation (r, - (PI / 2), y) (r', - (PI / 2), y').
Proof.
  intros H. pose proof (pole_down r y) as A. pose proof (pole_down r' y') as B. rewrite H in A.
  unfold same_orientation in *.
  destruct A as (a0&a1&a2&a3&a4&a5&a6&a7&a8). destruct B as (b0&b1&b2&b3&b4&b5&b6&b7&b8).
  repeat split; congruence.
Qed.

(* ... and away from the poles the triple is determined (within the principal ranges): equal orientations with
   pitch strictly inside the quarter turn and roll, yaw inside the half turn have equal sines and cosines of all
   three angles - so the angle words can be compared directly there *)
Theorem off_pole_determined r p y r' p' y' :
  - (PI / 2) < p < PI / 2 -> - (PI / 2) < p' < PI / 2 ->
  same_orientation (r, p, y) (r', p', y') ->
  sin p = sin p' /\ cos p = cos p' /\ sin r = sin r' /\ cos r = cos r' /\ sin y = sin y' /\ cos y = cos y'.
Proof.
  intros Hp Hp' (e00 & _ & _ & e10 & _ & _ & e20 & e21 & e22).
  unfold m00, m10, m20, m21, m22 in *.
  assert (Sp : sin p = sin p') by lra.
  assert (Cp : 0 < cos p) by (apply cos_gt_0; lra).
  assert (Cp' : 0 < cos p') by (apply cos_gt_0; lra).
  assert (Cpe : cos p = cos p').
  { pose proof (sin2_cos2 p) as A. pose proof (sin2_cos2 p') as B. unfold Rsqr in *. rewrite Sp in A.
    assert (E : cos p * cos p = cos p' * cos p') by lra.
    assert (E2 : (cos p - cos p') * (cos p + cos p') = 0) by (ring_simplify; lra).
    apply Rmult_integral in E2. destruct E2; lra. }
  rewrite <- Cpe in *.
  repeat split; try assumption.
  - apply (Rmult_eq_reg_l (cos p)); lra.
  - apply (Rmult_eq_reg_l (cos p)); lra.
  - apply (Rmult_eq_reg_l (cos p)); lra.
  - apply (Rmult_eq_reg_l (cos p)); lra.
Qed.
