From Coq Require Import ZArith List Bool Lia.
Require Import GV.Model.Outcome GV.Model.Governor GV.Spec.C07_spec.
Local Open Scope Z_scope.

Lemma clamp_ok lo hi v : lo <= hi -> clamp lo hi v = Ok (ref_clamp lo hi v).
Proof.
  intros H. unfold clamp, ref_clamp.
  destruct (hi <? lo) eqn:E; [lia|].
  f_equal. destruct (v <? lo) eqn:E1; [lia|]. destruct (hi <? v) eqn:E2; lia.
Qed.

Lemma ref_clamp_range lo hi v : lo <= hi -> lo <= ref_clamp lo hi v <= hi.
Proof. unfold ref_clamp; lia. Qed.

Lemma c07_holds : forall c, c07_wf c = true -> c07_spec_ok c (c07_model c) = true.
Proof.
  intros [idle max sig cmd rpm a] Hwf. unfold c07_wf in Hwf; cbn in Hwf.
  assert (H : idle <= max) by lia.
  pose proof (ref_clamp_range idle max idle H) as Hi.
  pose proof (ref_clamp_range idle max rpm H) as Hr.
  unfold c07_model, next_state, mk_engine; cbn [c_idle c_max c_sig c_cmd c_rpm c_age].
  destruct sig, cmd, a; cbn [expired]; rewrite !clamp_ok by exact H;
    cbn [obind c07_spec_ok e_state e_rpm e_demand e_actual c_idle c_max c_sig c_cmd c_rpm c_age
         is_st estate_eqb implb' negb andb orb];
    rewrite ?Z.eqb_refl; cbn [andb];
    repeat (apply andb_true_intro; split); try reflexivity; lia.
Qed.

(* Prop-level corollaries, at full strength *)
Lemma c07_envelope : forall idle max sig cmd rpm a e,
  idle <= max -> next_state idle max sig cmd rpm a = Ok e ->
  idle <= e_rpm e <= max
  /\ (e_state e = Request -> sig = Request)
  /\ (e_state e = Starting ->
        ((sig = NoRequest /\ (cmd = Starting \/ cmd = Request)) \/ sig = Starting) /\ a <> Old)
  /\ (sig = NoRequest -> cmd = NoRequest \/ cmd = Stopping -> e_state e = NoRequest)
  /\ (sig = Request -> cmd = NoRequest \/ cmd = Stopping -> e_state e = Stopping)
  /\ (sig = Request -> cmd = Starting \/ cmd = Request ->
        e_state e = Request /\ e_rpm e = ref_clamp idle max rpm)
  /\ (sig = Stopping -> e_state e = Stopping).
Proof.
  intros idle max sig cmd rpm a e H.
  pose proof (ref_clamp_range idle max idle H) as Hi.
  pose proof (ref_clamp_range idle max rpm H) as Hr.
  unfold next_state, mk_engine.
  destruct sig, cmd, a; cbn [expired]; rewrite !clamp_ok by exact H; cbn [obind];
    intros E; inversion E; subst e; clear E; cbn [e_rpm e_state];
    repeat split; try congruence; try lia; try tauto;
    try (intros; intuition congruence).
Qed.

Lemma c07_never_panics : forall idle max sig cmd rpm a,
  idle <= max -> next_state idle max sig cmd rpm a <> Panic.
Proof.
  intros idle max sig cmd rpm a H. unfold next_state, mk_engine.
  destruct sig, cmd, a; cbn [expired]; rewrite !clamp_ok by exact H; cbn; discriminate.
Qed.

(* what the totalised clamp hides: with max < idle the real code panics *)
Lemma c07_panics_when_misconfigured : forall idle max sig cmd rpm a,
  max < idle -> next_state idle max sig cmd rpm a = Panic.
Proof.
  intros idle max sig cmd rpm a H. unfold next_state, mk_engine, clamp.
  assert (E : (max <? idle) = true) by lia.
  destruct sig, cmd, a; cbn [expired]; rewrite ?E; reflexivity.
Qed.

Example c07_nonvacuous :
  let c := {| c_idle := 800; c_max := 2100; c_sig := Request; c_cmd := Request;
              c_rpm := 5000; c_age := Young |} in
  c07_wf c = true /\ c07_model c = Ok {| e_demand := 0; e_actual := 0; e_rpm := 2100; e_state := Request |}.
Proof. split; reflexivity. Qed.
