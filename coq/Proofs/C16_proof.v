From Coq Require Import ZArith List Bool Arith Lia.
Import ListNotations.
Require Import GV.Gen.Consts GV.Model.J1939 GV.Model.Governor GV.Model.Hcu GV.Model.Object GV.Model.HcuUnit GV.Model.Units GV.Model.Volvo GV.Model.Authority GV.Model.Shutdown
  GV.Spec.C02_spec GV.Proofs.C02_proof.
Local Open Scope Z_scope.

(* teardown of a network: exactly one motion-reset frame per hydraulic unit, in configuration order,
   with the bytes of C02 (lock not-available, reset = 1), nothing for the other drivers *)
Theorem teardown_frames : forall a,
  auth_teardown a = map (fun it => reset_frame (u_da (i_cfg it)) (u_sa (i_cfg it)))
                        (filter (fun it => match i_kind it with KHcu => true | _ => false end) (a_items a)).
Proof.
  intros a. unfold auth_teardown. induction (a_items a) as [|it its IH]; [reflexivity|].
  cbn [flat_map filter]. destruct (i_kind it); cbn [teardown_frames app map]; rewrite IH; reflexivity.
Qed.

Theorem reset_frame_bytes : forall da sa, 0 <= da < 256 -> 0 <= sa < 256 ->
  reset_frame da sa = {| f_id := exact_id 3 45824 da sa; f_data := [90; 67; 255; 255; 1] |}.
Proof.
  intros da sa Hd Hs. destruct (c02_stop_frame da sa Hd Hs) as (_ & _ & H). cbn [encode_motion] in H. injection H as H.
  unfold reset_frame, motion_config_frame. rewrite H. reflexivity.
Qed.

Lemma nth_set_pc_same : forall ts i p t, nth_error ts i = Some t ->
  nth_error (set_pc ts i p) i = Some {| t_kind := t_kind t; t_pc := p |}.
Proof. induction ts as [|x ts IH]; intros [|i] p t H; cbn in *; try discriminate; [injection H as ->; reflexivity | apply IH; exact H]. Qed.

Lemma total_set_pc : forall ts i p t, nth_error ts i = Some t ->
  (total {| w_tasks := set_pc ts i p; w_nets := []; w_shutdown := true |} + measure t
   = total {| w_tasks := ts; w_nets := []; w_shutdown := true |} + measure {| t_kind := t_kind t; t_pc := p |})%nat.
Proof.
  unfold total. cbn [w_tasks]. induction ts as [|x ts IH]; intros [|i] p t H; cbn in *; try discriminate.
  - injection H as ->. lia.
  - specialize (IH i p t H). lia.
Qed.

Lemma total_indep w : total w = total {| w_tasks := w_tasks w; w_nets := []; w_shutdown := true |}.
Proof. reflexivity. Qed.

(* once everything is done nothing is ever emitted again *)
Theorem quiescent : forall w s, all_done w = true -> wstep w s = (fst (wstep w s), []) /\
  (forall s', s = s' -> match s with SSignal => True | _ => fst (wstep w s) = w end).
Proof.
  intros w s H. unfold all_done in H. rewrite forallb_forall in H.
  destruct s as [|i fs|i|i]; cbn [wstep]; [split; [reflexivity | auto]| | |];
    destruct (nth_error (w_tasks w) i) as [t|] eqn:E; try (split; [reflexivity | intros; reflexivity]);
    pose proof (H t (nth_error_In _ _ E)) as Hd; destruct (t_pc t); try discriminate; split; reflexivity || (intros; reflexivity).
Qed.

(* every effective step after the signal strictly decreases the remaining work; a body step after
   the signal is possible at most once per task *)
Theorem progress_decreases : forall w s, w_shutdown w = true ->
  (total (fst (wstep w s)) <= total w)%nat
  /\ (fst (wstep w s) <> w -> (total (fst (wstep w s)) < total w)%nat).
Proof.
  intros w s Hs. destruct s as [|i fs|i|i]; cbn [wstep].
  - split; [unfold total; cbn [fst w_tasks]; lia|]. intros H. exfalso. apply H. destruct w; cbn in *; subst; reflexivity.
  - destruct (nth_error (w_tasks w) i) as [t|] eqn:E; [|(cbn [fst]; split; [lia | congruence])].
    destruct (t_pc t) as [g| |] eqn:P; try ((cbn [fst]; split; [lia | congruence])). rewrite Hs.
    destruct g; [|(cbn [fst]; split; [lia | congruence])]. cbn [fst].
    rewrite (total_indep w), (total_indep {| w_tasks := _; w_nets := _; w_shutdown := _ |}). cbn [w_tasks].
    pose proof (total_set_pc (w_tasks w) i (PLoop false) t E) as T. unfold measure in T at 1 2. rewrite P in T. unfold total in *; cbn [w_tasks t_pc] in *. split; intros; lia.
  - destruct (nth_error (w_tasks w) i) as [t|] eqn:E; [|(cbn [fst]; split; [lia | congruence])].
    destruct (t_pc t) as [g| |] eqn:P; try ((cbn [fst]; split; [lia | congruence])). rewrite Hs. cbn [fst].
    rewrite (total_indep w), (total_indep {| w_tasks := _; w_nets := _; w_shutdown := _ |}). cbn [w_tasks].
    pose proof (total_set_pc (w_tasks w) i PTeardown t E) as T. unfold measure in T at 1 2. rewrite P in T. unfold total in *; cbn [w_tasks t_pc] in *.
    destruct g; split; intros; lia.
  - destruct (nth_error (w_tasks w) i) as [t|] eqn:E; [|(cbn [fst]; split; [lia | congruence])].
    destruct (t_pc t) as [g| |] eqn:P; try ((cbn [fst]; split; [lia | congruence])). cbn [fst].
    rewrite (total_indep w), (total_indep {| w_tasks := _; w_nets := _; w_shutdown := _ |}). cbn [w_tasks].
    pose proof (total_set_pc (w_tasks w) i PDone t E) as T. unfold measure in T at 1 2. rewrite P in T. unfold total in *; cbn [w_tasks t_pc] in *. split; intros; lia.
Qed.

(* the receive task's teardown step emits exactly the network's teardown frames *)
Theorem recv_task_teardown : forall w i n,
  nth_error (w_tasks w) i = Some {| t_kind := TRecv n; t_pc := PTeardown |} ->
  snd (wstep w (STeardown i)) = match nth_error (w_nets w) n with Some a => auth_teardown a | None => [] end.
Proof. intros w i n H. cbn [wstep]. rewrite H. reflexivity. Qed.

(* the bound: at most 3 effective steps per task after the signal *)
Definition sumM (l : list task) : nat := fold_right (fun t acc => (measure t + acc)%nat) 0%nat l.
Lemma sumM_app a b : sumM (a ++ b) = (sumM a + sumM b)%nat.
Proof. induction a as [|x a IH]; cbn; [reflexivity|]. unfold sumM in *. rewrite IH. lia. Qed.

Theorem initial_bound : forall n, total {| w_tasks := tasks_for n; w_nets := []; w_shutdown := true |} = (3 * (3 * n + 3))%nat.
Proof.
  intros n. unfold total, tasks_for. cbn [w_tasks]. fold (sumM (flat_map (fun n0 => [ {| t_kind := TRecv n0; t_pc := PLoop true |}; {| t_kind := TTick n0; t_pc := PLoop true |}; {| t_kind := TCmd n0; t_pc := PLoop true |} ]) (seq 0 n)
     ++ [ {| t_kind := TIo; t_pc := PLoop true |}; {| t_kind := TIo; t_pc := PLoop true |}; {| t_kind := TIo; t_pc := PLoop true |} ])).
  rewrite sumM_app. change (sumM [ {| t_kind := TIo; t_pc := PLoop true |}; {| t_kind := TIo; t_pc := PLoop true |}; {| t_kind := TIo; t_pc := PLoop true |} ]) with 9%nat.
  assert (H : forall k, sumM (flat_map (fun n0 => [ {| t_kind := TRecv n0; t_pc := PLoop true |}; {| t_kind := TTick n0; t_pc := PLoop true |}; {| t_kind := TCmd n0; t_pc := PLoop true |} ]) (seq 0 k)) = (9 * k)%nat).
  { induction k as [|k IH]; [reflexivity|]. rewrite seq_S, flat_map_app, sumM_app, IH. cbn. lia. }
  rewrite H. lia.
Qed.
