(* Lossless round trip at the wire level: decoding the payload an object encodes to returns the
   object, for every object of every packet type within the representable ranges. *)
From Coq Require Import ZArith List Bool Lia ZifyBool.
Import ListNotations.
Require Import GV.Gen.Consts GV.Model.Hcu GV.Model.Packets GV.Proofs.Cursor GV.Proofs.C13_total.
Local Open Scope Z_scope.
Ltac Zify.zify_post_hook ::= Z.div_mod_to_equations.

Definition isw (w : Z) : Prop := 0 <= w < 4294967296.
Definition isu16 (n : Z) : Prop := 0 <= n < 65536.
Definition isi16 (v : Z) : Prop := -32768 <= v < 32768.

Lemma lenb_be16 n : lenb (be16 n) = 2.
Proof. reflexivity. Qed.
Lemma get_u8_cons x rest : get_u8 (x :: rest) = DOk (x, rest).
Proof. reflexivity. Qed.
Lemma get_u16_be16 n rest : isu16 n -> get_u16 (be16 n ++ rest) = DOk (n, rest).
Proof. intros H. unfold isu16 in H. cbn. do 2 f_equal. lia. Qed.
Lemma get_u32_be32 w rest : isw w -> get_u32 (be32 w ++ rest) = DOk (w, rest).
Proof. intros H. unfold isw in H. cbn. do 2 f_equal. lia. Qed.
Lemma take_n_app n rest : take_n (lenb n) (n ++ rest) = DOk (n, rest).
Proof.
  unfold take_n. assert (lenb (n ++ rest) <? lenb n = false) by (rewrite lenb_app; pose proof (lenb_nonneg rest); lia).
  rewrite H. unfold lenb. rewrite Nat2Z.id, firstn_app, skipn_app, firstn_all, skipn_all, Nat.sub_diag.
  cbn. rewrite app_nil_r. reflexivity.
Qed.
Lemma remaining_app b : remaining b = DOk (lenb b, b).
Proof. reflexivity. Qed.

Lemma rd_words_enc : forall ws rest, Forall isw ws ->
  rd_words (length ws) (flat_map be32 ws ++ rest) = DOk (ws, rest).
Proof.
  induction ws as [|w ws IH]; intros rest H; [reflexivity|].
  inversion H; subst. cbn [length rd_words flat_map]. rewrite <- app_assoc.
  unfold bind at 1. rewrite get_u32_be32 by assumption.
  unfold bind at 1. rewrite IH by assumption. reflexivity.
Qed.

Lemma to_i16_roundtrip v : isi16 v -> to_i16 (v mod 65536) = v /\ isu16 (v mod 65536).
Proof. unfold isi16, isu16, to_i16. intros H. destruct (v mod 65536 <? 32768) eqn:E; lia. Qed.

Definition change_ok (e : Z * Z) : Prop := 0 <= fst e < 6 /\ isi16 (snd e).

Lemma rd_changes_enc : forall cs rest, Forall change_ok cs ->
  rd_changes (length cs) (flat_map (fun e => be16 (fst e) ++ be16 (snd e mod 65536)) cs ++ rest) = DOk (cs, rest).
Proof.
  induction cs as [|[a v] cs IH]; intros rest H; [reflexivity|].
  inversion H as [|? ? [Ha Hv] H']; subst. cbn [fst snd] in *.
  cbn [length rd_changes flat_map fst snd]. rewrite <- !app_assoc.
  unfold bind at 1. rewrite get_u16_be16 by (unfold isu16; lia).
  assert (E : actuator_ok_b a = true) by (unfold actuator_ok_b; lia). rewrite E.
  destruct (to_i16_roundtrip v Hv) as [Hr Hu].
  unfold bind at 1. rewrite get_u16_be16 by assumption.
  unfold bind at 1. rewrite IH by assumption. unfold ret. rewrite Hr. reflexivity.
Qed.

Definition seg_ok (s : list Z * list Z) : Prop := isu16 (lenb (fst s)) /\ length (snd s) = 6%nat /\ Forall isw (snd s).

Lemma rd_segments_enc : forall segs rest, Forall seg_ok segs ->
  rd_segments (length segs)
    (flat_map (fun s => be16 (lenb (fst s)) ++ fst s ++ flat_map be32 (snd s)) segs ++ rest) = DOk (segs, rest).
Proof.
  induction segs as [|[nm ws] segs IH]; intros rest H; [reflexivity|].
  inversion H as [|? ? (Hn & Hl & Hw) H']; subst. cbn [fst snd] in *.
  cbn [length rd_segments flat_map fst snd]. rewrite <- !app_assoc.
  assert (L24 : lenb (flat_map be32 ws) = 24).
  { destruct ws as [|a [|b [|c [|d [|e [|f [|? ?]]]]]]]; try discriminate. reflexivity. }
  unfold bind at 1. rewrite remaining_app.
  match goal with |- context [if ?c then _ else _] => assert (Hc : c = false); [|rewrite Hc] end.
  { rewrite !lenb_app. unfold isu16 in *. rewrite ?lenb_be16.
    pose proof (lenb_nonneg rest). pose proof (lenb_nonneg nm).
    pose proof (lenb_nonneg (flat_map (fun s => be16 (lenb (fst s)) ++ fst s ++ flat_map be32 (snd s)) segs)). lia. }
  unfold bind at 1. rewrite get_u16_be16 by assumption.
  unfold bind at 1. rewrite remaining_app.
  match goal with |- context [if ?c then _ else _] => assert (Hc2 : c = false); [|rewrite Hc2] end.
  { rewrite !lenb_app, L24. pose proof (lenb_nonneg rest).
    pose proof (lenb_nonneg (flat_map (fun s => be16 (lenb (fst s)) ++ fst s ++ flat_map be32 (snd s)) segs)). lia. }
  unfold bind at 1. rewrite take_n_app.
  unfold bind at 1. replace 6%nat with (length ws) by assumption. rewrite rd_words_enc by assumption.
  unfold bind at 1. rewrite IH by assumption. reflexivity.
Qed.

(* well-formed (representable) objects *)
Definition pwf (p : packet) : Prop :=
  match p with
  | PError c => 0 <= c <= 3
  | PSession f n => 0 <= f < 32
  | PRequest m => True
  | PInstance id ty a b c model serial =>
      length id = 16%nat /\ 1 <= ty <= 6 /\ isu16 (lenb model) /\ isu16 (lenb serial)
  | PStatus n st e => isu16 (lenb n) /\ In st module_states /\ match e with Some k => 0 <= k <= 4 | None => True end
  | PMotion (StraightDrive v) => isi16 v
  | PMotion (Change cs) => (length cs <= 32)%nat /\ Forall change_ok cs
  | PMotion _ => True
  | PGnss w sat st => length w = 5%nat /\ Forall isw w /\ In st gnss_statuses
  | PEngine dd ae rpm st => isu16 rpm /\ engine_state_ok st = true
  | PTarget w c => length w = 6%nat /\ Forall isw w /\ constraint_ok c = true
  | PControl k on => control_kind_ok k = true /\ (control_is_flagless k = true -> on = true)
  | PRotator s w r => length w = 3%nat /\ Forall isw w /\ (r = 0 \/ r = 1)
  | PActor n segs => isu16 (lenb n) /\ (length segs < 256)%nat /\ Forall seg_ok segs
  end.

Lemma land_small f : 0 <= f < 32 -> Z.land f session_flag_mask = 0.
Proof.
  intros H. unfold session_flag_mask.
  assert (E : forall k, (0 <= k < 32)%nat -> Z.land (Z.of_nat k) 224 = 0).
  { intros k Hk. do 32 (destruct k as [|k]; [reflexivity|]). lia. }
  rewrite <- (Z2Nat.id f) by lia. apply E. lia.
Qed.

Ltac bstep := unfold bind at 1; rewrite ?get_u8_cons, ?remaining_app.

Theorem roundtrip : forall p, pwf p -> run (dec_payload (ptype p)) (enc_payload p) = DOk p.
Proof.
  intros p H. destruct p; cbn [pwf ptype enc_payload] in *.
  - (* error *) change (dec_payload type_error) with dec_error. unfold run, dec_error. bstep.
    assert (E : (0 <=? code) && (code <=? 3) = true) by lia. rewrite E. reflexivity.
  - (* session *) change (dec_payload type_session) with dec_session. unfold run, dec_session. bstep.
    rewrite land_small by assumption. cbn [Z.eqb negb]. bstep.
    unfold bind at 1. rewrite <- (app_nil_r name) at 2. rewrite take_n_app. reflexivity.
  - (* request *) reflexivity.
  - (* instance *) change (dec_payload type_instance) with dec_instance. unfold run, dec_instance.
    destruct H as (Hid & Hty & Hm & Hs). bstep.
    match goal with |- context [if ?c then _ else _] => assert (Hc : c = false); [|rewrite Hc] end.
    { rewrite !lenb_app. rewrite ?lenb_be16, ?lenb_cons, ?lenb_nil. unfold lenb at 1. rewrite Hid.
      pose proof (lenb_nonneg model). pose proof (lenb_nonneg serial). lia. }
    unfold bind at 1. replace 16 with (lenb id) by (unfold lenb; rewrite Hid; reflexivity). rewrite take_n_app.
    cbn [app]. bstep.
    assert (E : negb ((1 <=? ty) && (ty <=? 6)) = false) by lia. rewrite E.
    bstep. bstep. bstep.
    unfold bind at 1. rewrite get_u16_be16 by assumption. bstep.
    match goal with |- context [if ?c then _ else _] => assert (Hc2 : c = false); [|rewrite Hc2] end.
    { rewrite !lenb_app. rewrite ?lenb_be16, ?lenb_cons, ?lenb_nil. pose proof (lenb_nonneg serial). lia. }
    unfold bind at 1. rewrite take_n_app.
    unfold bind at 1. rewrite get_u16_be16 by assumption. bstep.
    match goal with |- context [if ?c then _ else _] => assert (Hc3 : c = false); [|rewrite Hc3] end.
    { lia. }
    unfold bind at 1. rewrite <- (app_nil_r serial) at 2. rewrite take_n_app. reflexivity.
  - (* status *) change (dec_payload type_status) with dec_status. unfold run, dec_status.
    destruct H as (Hn & Hst & He). bstep.
    match goal with |- context [if ?c then _ else _] => assert (Hc : c = false); [|rewrite Hc] end.
    { rewrite !lenb_app. rewrite ?lenb_be16, ?lenb_cons, ?lenb_nil. pose proof (lenb_nonneg name).
      destruct err; rewrite ?lenb_cons, ?lenb_nil; lia. }
    unfold bind at 1. rewrite get_u16_be16 by assumption. bstep.
    match goal with |- context [if ?c then _ else _] => assert (Hc2 : c = false); [|rewrite Hc2] end.
    { rewrite !lenb_app. rewrite !lenb_cons, lenb_nil. destruct err; rewrite ?lenb_cons, ?lenb_nil; lia. }
    unfold bind at 1. rewrite take_n_app. cbn [app]. bstep.
    assert (Es : existsb (Z.eqb state) module_states = true).
    { apply existsb_exists. exists state. split; [assumption | apply Z.eqb_refl]. }
    rewrite Es. cbn [negb].
    destruct err as [k|]; cbn [app]; bstep.
    + change (1 =? 0) with false. change (1 =? 1) with true. cbn iota.
      bstep. change (lenb [k] <? 1) with false. cbn iota. bstep.
      assert (Ek : (0 <=? k) && (k <=? 4) = true) by lia. rewrite Ek. reflexivity.
    + reflexivity.
  - (* motion *) change (dec_payload type_motion) with dec_motion_p. unfold run, dec_motion_p, dec_motion_payload.
    destruct m as [| | |v|cs]; cbn [enc_motion_payload]; try reflexivity.
    + destruct (to_i16_roundtrip v H) as [Hr Hu].
      unfold bind at 1. unfold bind at 1. rewrite get_u8_cons. cbn [Z.eqb Pos.eqb].
      change (motion_type_straight_drive =? motion_type_stop_all) with false.
      change (motion_type_straight_drive =? motion_type_resume_all) with false.
      change (motion_type_straight_drive =? motion_type_reset_all) with false.
      change (motion_type_straight_drive =? motion_type_straight_drive) with true. cbn iota.
      bstep. change (lenb (be16 (v mod 65536)) =? 2) with true. cbn iota.
      unfold bind at 1. rewrite <- (app_nil_r (be16 (v mod 65536))). rewrite get_u16_be16 by assumption.
      unfold ret. rewrite Hr. reflexivity.
    + destruct H as (Hlen & Hcs).
      unfold bind at 1. unfold bind at 1. rewrite get_u8_cons.
      change (motion_type_change =? motion_type_stop_all) with false.
      change (motion_type_change =? motion_type_resume_all) with false.
      change (motion_type_change =? motion_type_reset_all) with false.
      change (motion_type_change =? motion_type_straight_drive) with false.
      change (motion_type_change =? motion_type_change) with true. cbn iota.
      bstep. rewrite lenb_cons.
      assert (E1 : lenb (flat_map (fun e => be16 (fst e) ++ be16 (snd e mod 65536)) cs) + 1 <? 1 = false)
        by (pose proof (lenb_nonneg (flat_map (fun e => be16 (fst e) ++ be16 (snd e mod 65536)) cs)); lia).
      rewrite E1. bstep.
      assert (Em : Z.of_nat (length cs) mod 256 = Z.of_nat (length cs)) by lia. rewrite Em.
      assert (E2 : motion_max_change_set_count <? Z.of_nat (length cs) = false) by (unfold motion_max_change_set_count; lia).
      rewrite E2. bstep.
      assert (L : lenb (flat_map (fun e => be16 (fst e) ++ be16 (snd e mod 65536)) cs) = Z.of_nat (length cs) * 4).
      { clear. induction cs as [|e cs IH]; [reflexivity|]. cbn [flat_map length]. rewrite lenb_app, IH.
        rewrite lenb_app, !lenb_be16. lia. }
      rewrite L, Z.eqb_refl. cbn [negb]. rewrite Nat2Z.id.
      unfold bind at 1.
      rewrite <- (app_nil_r (flat_map (fun e => be16 (fst e) ++ be16 (snd e mod 65536)) cs)).
      rewrite rd_changes_enc by assumption. reflexivity.
  - (* gnss *) change (dec_payload type_gnss) with dec_gnss. unfold run, dec_gnss.
    destruct H as (Hl & Hw & Hst). unfold bind at 1.
    replace 5%nat with (length w) by assumption. rewrite rd_words_enc by assumption.
    bstep. bstep.
    assert (Es : existsb (Z.eqb status) gnss_statuses = true).
    { apply existsb_exists. exists status. split; [assumption | apply Z.eqb_refl]. }
    rewrite Es. reflexivity.
  - (* engine *) change (dec_payload type_engine) with dec_engine. unfold run, dec_engine.
    destruct H as (Hr & Hs). cbn [app]. bstep. bstep.
    unfold bind at 1. rewrite get_u16_be16 by assumption. bstep. rewrite Hs. reflexivity.
  - (* target *) change (dec_payload type_target) with dec_target. unfold run, dec_target.
    destruct H as (Hl & Hw & Hc). unfold bind at 1.
    replace 6%nat with (length w) by assumption. rewrite rd_words_enc by assumption.
    bstep. rewrite Hc. reflexivity.
  - (* control *) change (dec_payload type_control) with dec_control. unfold run, dec_control.
    destruct H as (Hk & Hf). bstep. bstep. rewrite Hk.
    destruct (control_is_flagless kind) eqn:F.
    + rewrite (Hf eq_refl). reflexivity.
    + destruct on; reflexivity.
  - (* rotator *) change (dec_payload type_rotator) with dec_rotator. unfold run, dec_rotator.
    destruct H as (Hl & Hw & Hr). bstep. unfold bind at 1.
    replace 3%nat with (length w) by assumption. rewrite rd_words_enc by assumption.
    bstep. destruct Hr as [-> | ->]; reflexivity.
  - (* actor *) change (dec_payload type_actor) with dec_actor. unfold run, dec_actor.
    destruct H as (Hn & Hc & Hs). bstep.
    match goal with |- context [if ?c then _ else _] => assert (Hc1 : c = false); [|rewrite Hc1] end.
    { rewrite !lenb_app. rewrite ?lenb_be16, ?lenb_cons, ?lenb_nil. pose proof (lenb_nonneg name).
      pose proof (lenb_nonneg (flat_map (fun s => be16 (lenb (fst s)) ++ fst s ++ flat_map be32 (snd s)) segs)). lia. }
    unfold bind at 1. rewrite get_u16_be16 by assumption. bstep.
    match goal with |- context [if ?c then _ else _] => assert (Hc2 : c = false); [|rewrite Hc2] end.
    { rewrite !lenb_app, ?lenb_cons, ?lenb_nil.
      pose proof (lenb_nonneg (flat_map (fun s => be16 (lenb (fst s)) ++ fst s ++ flat_map be32 (snd s)) segs)). lia. }
    unfold bind at 1. rewrite take_n_app. cbn [app]. bstep.
    assert (Em : Z.of_nat (length segs) mod 256 = Z.of_nat (length segs)) by lia. rewrite Em, Nat2Z.id.
    unfold bind at 1.
    rewrite <- (app_nil_r (flat_map (fun s => be16 (lenb (fst s)) ++ fst s ++ flat_map be32 (snd s)) segs)).
    rewrite rd_segments_enc by assumption. reflexivity.
Qed.
