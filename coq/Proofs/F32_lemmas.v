(* Facts about the binary32 model (F32.v) on top of Flocq: the real value of each
   operation, exactness of the remainder, no-overflow conditions. *)
From Coq Require Import ZArith Reals Lra Lia Bool.
From Flocq Require Import Core Sterbenz BinarySingleNaN.
Require Import GV.Model.F32.
Local Open Scope Z_scope.

Notation fexp32 := (FLT_exp (-149) 24).
Notation rnd := (round radix2 fexp32 ZnearestE).
Notation fmt := (generic_format radix2 fexp32).
Notation R32 := (@B2R 24 128).
Notation bpow2 := (bpow radix2).
#[global] Instance prec32_gt_0 : Prec_gt_0 24 := Hprec32.

Lemma bounded_inv m e : SpecFloat.bounded 24 128 m e = true ->
  Zpos m < 2 ^ 24 /\ -149 <= e <= 104.
Proof.
  unfold SpecFloat.bounded, SpecFloat.canonical_mantissa. intros H.
  apply andb_prop in H. destruct H as [H1 H2].
  apply Zeq_bool_eq in H1. apply Zle_bool_imp_le in H2.
  unfold SpecFloat.fexp, SpecFloat.emin in H1.
  rewrite Digits.Zpos_digits2_pos in H1.
  assert (Hd : Zdigits radix2 (Zpos m) <= 24) by lia.
  split; [|lia].
  apply (Z.lt_le_trans _ (radix2 ^ Zdigits radix2 (Zpos m))).
  - generalize (Zdigits_correct radix2 (Zpos m)). rewrite Z.abs_eq by lia. intros [_ H]. exact H.
  - change (2 ^ 24) with (radix2 ^ 24). apply Zpower_le. exact Hd.
Qed.

Lemma fmt_small_F2R r e : Z.abs r < 2 ^ 24 -> -149 <= e -> fmt (F2R (Float radix2 r e)).
Proof.
  intros Hr He. apply generic_format_F2R. intros Hz.
  unfold cexp, FLT_exp. rewrite mag_F2R by exact Hz.
  assert (mag radix2 (IZR r) <= 24)%Z.
  { apply mag_le_bpow. apply IZR_neq; exact Hz. rewrite <- abs_IZR. change (bpow radix2 24) with (IZR (2 ^ 24)). apply IZR_lt. exact Hr. }
  lia.
Qed.

Lemma frem_pos (x y : f32) :
  is_finite x = true -> is_finite_strict y = true -> (0 <= R32 x)%R -> (0 < R32 y)%R ->
  is_finite (frem x y) = true /\ (0 <= R32 (frem x y) < R32 y)%R
  /\ exists k, 0 <= k /\ R32 x = (IZR k * R32 y + R32 (frem x y))%R.
Proof.
  intros Fx Fy Hx Hy.
  destruct y as [sy|sy| |sy my ey Hby]; try discriminate Fy.
  destruct x as [sx|sx| |sx mx ex Hbx]; try discriminate Fx.
  - cbn. split; [reflexivity|]. split; [cbn in Hy; lra|]. exists 0. split; [lia|]. cbn. lra.
  - destruct sx.
    { exfalso. cbn in Hx. generalize (F2R_lt_0 radix2 (Float radix2 (Zneg mx) ex)). cbn. intros H. specialize (H eq_refl). lra. }
    destruct sy.
    { exfalso. cbn in Hy. generalize (F2R_lt_0 radix2 (Float radix2 (Zneg my) ey)). cbn. intros H. specialize (H eq_refl). lra. }
    destruct (bounded_inv _ _ Hbx) as [Hmx Hex]. destruct (bounded_inv _ _ Hby) as [Hmy Hey].
    unfold frem.
    set (e := Z.min ex ey).
    set (X := Zpos mx * 2 ^ (ex - e)). set (Y := Zpos my * 2 ^ (ey - e)).
    assert (HYpos : 0 < Y) by (unfold Y; apply Z.mul_pos_pos; [lia | apply Z.pow_pos_nonneg; lia]).
    assert (HXnn : 0 <= X) by (unfold X; apply Z.mul_nonneg_nonneg; [lia | apply Z.pow_nonneg; lia]).
    set (r := X mod Y).
    assert (Hr : 0 <= r < Y) by (apply Z.mod_pos_bound; exact HYpos).
    assert (Hrs : r < 2 ^ 24).
    { destruct (Z.min_spec ex ey) as [[Hlt Hm]|[Hle Hm]]; fold e in Hm.
      - (* e = ex: X = mx *)
        assert (X = Zpos mx) by (unfold X; rewrite Hm, Z.sub_diag; lia).
        assert (r <= X) by (apply Z.mod_le; lia). lia.
      - assert (Y = Zpos my) by (unfold Y; rewrite Hm, Z.sub_diag; lia). lia. }
    assert (Hxe : R32 (B754_finite false mx ex Hbx) = F2R (Float radix2 X e)).
    { cbn [B2R cond_Zopp]. unfold X. apply F2R_change_exp. unfold e. lia. }
    assert (Hye : R32 (B754_finite false my ey Hby) = F2R (Float radix2 Y e)).
    { cbn [B2R cond_Zopp]. unfold Y. apply F2R_change_exp. unfold e. lia. }
    assert (Hfmt : fmt (F2R (Float radix2 r e))) by (apply fmt_small_F2R; [rewrite Z.abs_eq; lia | unfold e; lia]).
    assert (Hlt : (F2R (Float radix2 r e) < F2R (Float radix2 Y e))%R) by (apply F2R_lt; lia).
    assert (Hge : (0 <= F2R (Float radix2 r e))%R) by (apply F2R_ge_0; cbn; lia).
    generalize (binary_normalize_correct 24 128 Hprec32 Hemax32 mode_NE r e false).
    cbv zeta. change (round_mode mode_NE) with ZnearestE.
    change (SpecFloat.fexp 24 128) with fexp32.
    rewrite (round_generic radix2 fexp32 ZnearestE _ Hfmt).
    rewrite Rlt_bool_true.
    2:{ rewrite Rabs_pos_eq by exact Hge. apply Rlt_trans with (1 := Hlt). rewrite <- Hye.
        generalize (abs_B2R_lt_emax 24 128 (B754_finite false my ey Hby)). rewrite Rabs_pos_eq by lra. auto. }
    intros [HR [HF _]].
    change (binary_normalize 24 128 Hprec32 Hemax32 mode_NE (if false then - r else r) e false)
      with (binary_normalize 24 128 Hprec32 Hemax32 mode_NE r e false).
    split; [exact HF|]. rewrite HR. split; [rewrite Hye; lra|].
    exists (X / Y). split; [apply Z.div_pos; lia|].
    rewrite Hxe, Hye. unfold F2R; cbn [Fnum Fexp].
    rewrite <- Rmult_assoc, <- mult_IZR, <- Rmult_plus_distr_r, <- plus_IZR.
    f_equal. f_equal. unfold r. rewrite Z.mul_comm. apply Z.div_mod. lia.
Qed.

Local Open Scope R_scope.

Definition FMAX : R := bpow2 128 - bpow2 104.
Lemma FMAX_fmt : fmt FMAX.
Proof.
  replace FMAX with (F2R (Float radix2 (2 ^ 24 - 1) 104)).
  - apply fmt_small_F2R; [vm_compute; reflexivity | lia].
  - unfold FMAX, F2R; cbn [Fnum Fexp]. rewrite minus_IZR. change (IZR (2 ^ 24)) with (bpow2 24).
    rewrite Rmult_minus_distr_r, <- bpow_plus. change (24 + 104)%Z with 128%Z. lra.
Qed.
Lemma FMAX_pos : bpow2 127 <= FMAX.
Proof. unfold FMAX. change 128%Z with (1 + 127)%Z. rewrite (bpow_plus radix2 1 127). change (bpow2 1) with 2.
  assert (bpow2 104 <= bpow2 127) by (apply bpow_le; lia). lra. Qed.
Lemma succ_FMAX : succ radix2 fexp32 FMAX = bpow2 128.
Proof.
  generalize FMAX_pos. intros Hp. assert (0 < bpow2 127) by apply bpow_gt_0.
  rewrite succ_eq_pos by lra. rewrite ulp_neq_0 by lra.
  unfold cexp. rewrite (mag_unique radix2 FMAX 128).
  - unfold FLT_exp. change (Z.max (128 - 24) (-149)) with 104%Z. unfold FMAX. lra.
  - rewrite Rabs_pos_eq by lra. change (128 - 1)%Z with 127%Z. split; [exact Hp|].
    unfold FMAX. assert (0 < bpow2 104) by apply bpow_gt_0. lra.
Qed.
(* rounding a value below FMAX + half an ulp does not overflow *)
Lemma rnd_no_overflow v : v < FMAX + bpow2 103 -> rnd v <= FMAX.
Proof.
  intros Hv. apply round_N_le_midp; auto with typeclass_instances. apply FMAX_fmt.
  rewrite succ_FMAX. unfold FMAX.
  replace (bpow2 128 - bpow2 104 + bpow2 128) with (2 * (bpow2 128 - bpow2 104 + bpow2 103)).
  - unfold FMAX in Hv. lra.
  - change 104%Z with (1 + 103)%Z. rewrite (bpow_plus radix2 1 103). change (bpow2 1) with 2. lra.
Qed.
Lemma R32_le_FMAX (x : f32) : Rabs (R32 x) <= FMAX.
Proof. apply (abs_B2R_le_emax_minus_prec 24 128 Hprec32 x). Qed.

Lemma fadd_finite x y : is_finite x = true -> is_finite y = true ->
  Rabs (rnd (R32 x + R32 y)) < bpow2 128 ->
  R32 (fadd x y) = rnd (R32 x + R32 y) /\ is_finite (fadd x y) = true.
Proof.
  intros Fx Fy Hb. generalize (Bplus_correct 24 128 Hprec32 Hemax32 mode_NE x y Fx Fy).
  change (round_mode mode_NE) with ZnearestE. change (SpecFloat.fexp 24 128) with fexp32.
  rewrite Rlt_bool_true by exact Hb. intros [H1 [H2 _]]. split; assumption.
Qed.
Lemma fsub_finite x y : is_finite x = true -> is_finite y = true ->
  Rabs (rnd (R32 x - R32 y)) < bpow2 128 ->
  R32 (fsub x y) = rnd (R32 x - R32 y) /\ is_finite (fsub x y) = true.
Proof.
  intros Fx Fy Hb. generalize (Bminus_correct 24 128 Hprec32 Hemax32 mode_NE x y Fx Fy).
  change (round_mode mode_NE) with ZnearestE. change (SpecFloat.fexp 24 128) with fexp32.
  rewrite Rlt_bool_true by exact Hb. intros [H1 [H2 _]]. split; assumption.
Qed.
Lemma fmt_R32 (x : f32) : fmt (R32 x).
Proof. apply (generic_format_B2R 24 128). Qed.
Lemma rnd_le x y : x <= y -> rnd x <= rnd y.
Proof. intros H. apply round_le; auto with typeclass_instances. Qed.
Lemma rnd_id x : fmt x -> rnd x = x.
Proof. intros H. apply round_generic; auto with typeclass_instances. Qed.
Lemma rnd_0 : rnd 0 = 0.
Proof. apply round_0; auto with typeclass_instances. Qed.

Lemma fmt_Z (z : Z) : (Z.abs z <= 2 ^ 24)%Z -> fmt (IZR z).
Proof.
  intros H. destruct (Z.eq_dec (Z.abs z) (2 ^ 24)) as [E|E].
  - replace (IZR z) with (F2R (Float radix2 (z / 2) 1)).
    + apply fmt_small_F2R; [|lia]. destruct (Z.abs_spec z) as [[_ A]|[_ A]]; rewrite A in E.
      * subst z. vm_compute. reflexivity.
      * assert (z = - 2 ^ 24)%Z by lia. subst z. vm_compute. reflexivity.
    + unfold F2R; cbn [Fnum Fexp]. change (bpow2 1) with 2. rewrite <- (mult_IZR _ 2). f_equal.
      destruct (Z.abs_spec z) as [[_ A]|[_ A]]; rewrite A in E.
      * subst z. reflexivity.
      * assert (z = - 2 ^ 24)%Z by lia. subst z. reflexivity.
  - replace (IZR z) with (F2R (Float radix2 z 0)).
    + apply fmt_small_F2R; lia.
    + unfold F2R; cbn [Fnum Fexp]. change (bpow2 0) with 1. lra.
Qed.
Lemma rnd_Z z : (Z.abs z <= 2 ^ 24)%Z -> rnd (IZR z) = IZR z.
Proof. intros H. apply rnd_id. apply fmt_Z. exact H. Qed.

(* rounding keeps a value inside integer bounds *)
Lemma rnd_between (a b : Z) x : (Z.abs a <= 2 ^ 24)%Z -> (Z.abs b <= 2 ^ 24)%Z ->
  IZR a <= x <= IZR b -> IZR a <= rnd x <= IZR b.
Proof.
  intros Ha Hb [H1 H2]. rewrite <- (rnd_Z a Ha), <- (rnd_Z b Hb). split; apply rnd_le; assumption.
Qed.


(* integers up to 2^24 are floats *)
Lemma f_of_Z_correct z : (Z.abs z <= 2 ^ 24)%Z -> is_finite (f_of_Z z) = true /\ R32 (f_of_Z z) = IZR z.
Proof.
  intros Hz. unfold f_of_Z.
  generalize (binary_normalize_correct 24 128 Hprec32 Hemax32 mode_NE z 0 false).
  cbv zeta. change (round_mode mode_NE) with ZnearestE. change (SpecFloat.fexp 24 128) with fexp32.
  replace (F2R (Float radix2 z 0)) with (IZR z) by (unfold F2R; cbn [Fnum Fexp]; change (bpow2 0) with 1; lra).
  rewrite (rnd_Z z Hz). rewrite Rlt_bool_true.
  - intros [H1 [H2 _]]. split; assumption.
  - rewrite <- abs_IZR. apply Rle_lt_trans with (IZR (2 ^ 24)); [apply IZR_le; exact Hz|].
    change (IZR (2 ^ 24)) with (bpow2 24). apply bpow_lt. lia.
Qed.
