(* C01 at the runtime level: commands reach the drivers only through the command task, which takes
   from a bounded channel what the channel still holds (the newest QUEUE_SIZE_COMMAND objects of a
   burst; older ones are skipped and the task goes on).  For ANY driver list and ANY history of
   published objects, runs-until-blocked and cycles: every hydraulic-unit driver's register holds
   the most recent motion command the command task has DELIVERED, every cycle re-asserts exactly it,
   and a motion command followed by fewer than QUEUE_SIZE_COMMAND other objects is always delivered
   - in particular a final stop-all, however large the burst before it. *)
From Coq Require Import ZArith List Bool Lia.
Import ListNotations.
Require Import GV.Gen.Consts GV.Model.J1939 GV.Model.Governor GV.Model.Hcu GV.Model.Object GV.Model.HcuUnit GV.Model.Units
  GV.Model.Volvo GV.Model.CanNet GV.Model.Authority GV.Model.Auth_io GV.Model.C01a_io GV.Model.C01r_io
  GV.Spec.C02_spec GV.Spec.C01_spec GV.Proofs.C01_proof GV.Proofs.C01_auth.
Local Open Scope Z_scope.

Fixpoint rafter (a : auth) (pend : list object) (evs : list revent) : auth * list object :=
  match evs with
  | [] => (a, pend)
  | RSend o :: t => rafter a (pend ++ [o]) t
  | RSettle :: t => rafter (fst (deliver a (lastn qcap pend))) [] t
  | RTick :: t => rafter (to_auth (auth_on_tick (fst (deliver a (lastn qcap pend))) 0)) [] t
  end.

(* the latest DELIVERED motion command *)
Fixpoint r_accepted (cur : motion) (pend : list object) (evs : list revent) : motion :=
  match evs with
  | [] => cur
  | RSend o :: t => r_accepted cur (pend ++ [o]) t
  | RSettle :: t | RTick :: t => r_accepted (rlast_motion cur (lastn qcap pend)) [] t
  end.

Lemma last_motion_cons cur o t : rlast_motion cur (o :: t) = rlast_motion (accept cur o) t.
Proof. destruct o; reflexivity. Qed.

Lemma deliver_inv os : forall a cur,
  hcu_inv (a_items a) cur -> hcu_inv (a_items (fst (deliver a os))) (rlast_motion cur os).
Proof.
  induction os as [|o t IH]; intros a cur H; cbn [deliver]; [exact H|].
  rewrite last_motion_cons.
  assert (H1 : hcu_inv (a_items (fst (auth_on_command a 0 o))) (accept cur o)).
  { unfold auth_on_command. generalize (on_command_any (a_items a) 0 o cur H).
    destruct (on_command_items (a_items a) 0 o) as [its fs]. cbn [fst a_items]. auto. }
  destruct (auth_on_command a 0 o) as [a1 f1]. cbn [fst] in H1.
  specialize (IH a1 _ H1). destruct (deliver a1 t) as [a2 f2]. cbn [fst] in *. exact IH.
Qed.

Theorem runtime_register : forall evs a pend cur,
  hcu_inv (a_items a) cur ->
  hcu_inv (a_items (fst (rafter a pend evs))) (r_accepted cur pend evs).
Proof.
  induction evs as [|e t IH]; intros a pend cur H; cbn [rafter r_accepted]; [exact H|].
  destruct e.
  - apply IH. exact H.
  - apply IH. apply deliver_inv. exact H.
  - apply IH. apply tick_items_inv. apply deliver_inv. exact H.
Qed.

(* the state the start-up step leaves: constructed, first cycle done *)
Definition rstart (addr : Z) (nm : jname) (cs : list dconf) : auth := to_auth (auth_on_tick (auth_new 0 addr nm cs) 0).

Theorem runtime_reasserts addr nm cs evs :
  let a := fst (rafter (rstart addr nm cs) [] evs) in
  forall it now, In it (a_items a) -> i_kind it = KHcu ->
    item_tick_frames it now = encode_motion (u_da (i_cfg it)) (u_sa (i_cfg it)) (r_accepted StopAll [] evs).
Proof.
  cbv zeta. intros it now Hin K.
  assert (H0 : hcu_inv (a_items (rstart addr nm cs)) StopAll).
  { unfold rstart. apply tick_items_inv. apply hcu_inv_new. }
  generalize (runtime_register evs (rstart addr nm cs) [] StopAll H0).
  intros H. unfold hcu_inv in H. rewrite Forall_forall in H. apply tick_frames_hcu; [exact K | apply H; assumption].
Qed.

(* the observation list is the step outputs along the same transitions *)
Lemma rrun_tick : forall evs a pend,
  rrun a pend (evs ++ [RTick]) =
  rrun a pend evs ++
    [let '(a0, p0) := rafter a pend evs in
     snd (deliver a0 (lastn qcap p0)) ++ to_frames (auth_on_tick (fst (deliver a0 (lastn qcap p0))) 0)].
Proof.
  induction evs as [|e t IH]; intros a pend; cbn [app rrun rafter].
  - destruct (deliver a (lastn qcap pend)) as [a1 fs]. reflexivity.
  - destruct e; cbn [app rrun rafter].
    + apply IH.
    + destruct (deliver a (lastn qcap pend)) as [a1 fs]. cbn [fst app]. rewrite IH. reflexivity.
    + destruct (deliver a (lastn qcap pend)) as [a1 fs]. cbn [fst app]. rewrite IH. reflexivity.
Qed.

(* ---- what an overrun keeps ---- *)
Definition is_motion (o : object) : bool := match o with OMotion _ => true | _ => false end.

Lemma last_motion_app cur l1 l2 : rlast_motion cur (l1 ++ l2) = rlast_motion (rlast_motion cur l1) l2.
Proof. revert cur. induction l1 as [|o t IH]; intros cur; [reflexivity|]. destruct o; cbn [app rlast_motion]; apply IH. Qed.
Lemma last_motion_none cur l : forallb (fun o => negb (is_motion o)) l = true -> rlast_motion cur l = cur.
Proof.
  revert cur. induction l as [|o t IH]; intros cur H; [reflexivity|].
  cbn [forallb] in H. apply andb_prop in H. destruct H as [Ho Ht]. destruct o; cbn in Ho; try discriminate; cbn [rlast_motion]; apply IH; exact Ht.
Qed.

Lemma lastn_app_short {A} n (p s : list A) : (length s <= n)%nat -> lastn n (p ++ s) = lastn (n - length s) p ++ s.
Proof.
  intros H. unfold lastn. rewrite app_length.
  replace (length p + length s - n)%nat with (length p - (n - length s))%nat by lia.
  rewrite skipn_app.
  replace (length p - (n - length s) - length p)%nat with 0%nat by lia. reflexivity.
Qed.

(* a motion command followed by fewer than the capacity other objects is the one the drivers hold after
   the command task has run, whatever was published before it and however much of that was skipped *)
Theorem newest_motion_survives cur before m after :
  forallb (fun o => negb (is_motion o)) after = true -> (length after < qcap)%nat ->
  rlast_motion cur (lastn qcap (before ++ OMotion m :: after)) = m.
Proof.
  intros Hn Hl. rewrite (lastn_app_short qcap before (OMotion m :: after)) by (cbn [length]; lia).
  rewrite last_motion_app. cbn [rlast_motion]. apply last_motion_none. exact Hn.
Qed.

Corollary final_stop_all_is_reasserted addr nm cs evs before after :
  forallb (fun o => negb (is_motion o)) after = true -> (length after < qcap)%nat ->
  snd (rafter (rstart addr nm cs) [] evs) = before ->
  let a := fst (rafter (rstart addr nm cs) [] (evs ++ map RSend (OMotion StopAll :: after) ++ [RSettle])) in
  forall it now, In it (a_items a) -> i_kind it = KHcu ->
    item_tick_frames it now = encode_motion (u_da (i_cfg it)) (u_sa (i_cfg it)) StopAll.
Proof.
  intros Hn Hl Hb. cbv zeta. intros it now Hin K.
  rewrite (runtime_reasserts addr nm cs _ it now Hin K). f_equal.
  clear Hin K it now. revert Hb. generalize (rstart addr nm cs). generalize (@nil object) at 1 2. generalize StopAll at 1 as cur.
  induction evs as [|e t IH]; intros cur pend a Hb.
  - cbn [rafter snd] in Hb. subst pend. cbn [app].
    assert (G : forall l p c, r_accepted c p (map RSend l ++ [RSettle]) = rlast_motion c (lastn qcap (p ++ l))).
    { induction l as [|o l IHl]; intros p c; cbn [map app r_accepted]; [rewrite app_nil_r; reflexivity|].
      rewrite IHl. rewrite <- app_assoc. reflexivity. }
    rewrite G. apply newest_motion_survives; assumption.
  - cbn [app rafter r_accepted] in *. destruct e; eapply IH; exact Hb.
Qed.

