(* Theorems over ALL micro-step schedules (Model/Sched.v). *)
From Coq Require Import ZArith List Bool Lia.
Import ListNotations.
Require Import GV.Gen.Consts GV.Model.Outcome GV.Model.J1939 GV.Model.Governor GV.Model.Hcu GV.Model.Object
  GV.Model.HcuUnit GV.Model.Units GV.Model.Volvo GV.Spec.C02_spec GV.Spec.C01_spec GV.Proofs.C01_proof GV.Proofs.C08_proof.
Require Import GV.Model.Sched.
Local Open Scope Z_scope.

(* ------------------------------------------------------------------ hydraulic control unit *)
Definition hsim (s : hstate) (g : hghost) : Prop :=
  reg_inv (h_ctx s) (g_latest g) /\ h_tick s = g_tick g /\ h_cmd s = g_cmd g.

Lemma hstep_sim u s g e : hsim s g ->
  hsim (fst (hstep u s e)) (fst (gstep u g e)) /\ snd (hstep u s e) = snd (gstep u g e).
Proof.
  unfold hsim. intros (Hr & Ht & Hc). destruct e as [| |o| |f]; cbn [hstep gstep].
  - rewrite <- Ht. destruct (h_tick s) eqn:E; cbn [fst snd].
    + rewrite E. repeat split; congruence || assumption.
    + cbn [h_ctx h_tick h_cmd g_latest g_tick g_cmd]. rewrite (tick_motion_inv _ _ Hr). repeat split; assumption.
  - rewrite <- Ht. destruct (h_tick s) eqn:E; cbn [fst snd h_ctx h_tick h_cmd g_latest g_tick g_cmd].
    + repeat split; assumption.
    + rewrite E. repeat split; congruence || assumption.
  - rewrite <- Hc. destruct (h_cmd s) eqn:E; cbn [fst snd].
    + rewrite E. repeat split; congruence || assumption.
    + destruct o; cbn [hcu_trigger fst snd h_ctx h_tick h_cmd g_latest g_tick g_cmd];
        repeat split; try assumption; try reflexivity.
      left. reflexivity.
  - rewrite <- Hc. destruct (h_cmd s) eqn:E; cbn [fst snd h_ctx h_tick h_cmd g_latest g_tick g_cmd].
    + repeat split; assumption.
    + rewrite E. repeat split; congruence || assumption.
  - cbn [fst snd h_ctx h_tick h_cmd]. repeat split; try assumption.
    unfold reg_inv in *. rewrite hcu_recv_tx. exact Hr.
Qed.

(* for EVERY schedule: what reaches the bus is what the register-free specification says *)
Theorem hsched_all u : forall evs s g, hsim s g -> hrun u s evs = grun u g evs.
Proof.
  induction evs as [|e t IH]; intros s g H; cbn [hrun grun]; [reflexivity|].
  destruct (hstep_sim u s g e H) as [H' Ho].
  destruct (hstep u s e) as [s' o]. destruct (gstep u g e) as [g' o']. cbn [fst snd] in *.
  subst o'. f_equal. apply IH. exact H'.
Qed.
Theorem hsched u evs : hrun u hstate0 evs = grun u hghost0 evs.
Proof. apply hsched_all. repeat split. right. split; reflexivity. Qed.

(* in particular: a cycle that reads after a stop-all was accepted (and before any later motion
   command) sends the lock frame alone, whatever else is interleaved *)
Lemma ghost_emits_snapshot u g m :
  g_tick g = Some m -> snd (gstep u g HTickEmit) = encode_motion (u_da u) (u_sa u) m.
Proof. intros H. cbn [gstep]. rewrite H. reflexivity. Qed.
Lemma ghost_read_snapshots u g : g_tick g = None -> g_tick (fst (gstep u g HTickRead)) = Some (g_latest g).
Proof. intros H. cbn [gstep]. rewrite H. reflexivity. Qed.
Lemma ghost_snapshot_stable u g e m : g_tick g = Some m -> e <> HTickEmit -> g_tick (fst (gstep u g e)) = Some m.
Proof.
  intros H Hne. destruct e as [| |o| |f]; cbn [gstep].
  - rewrite H. exact H.
  - congruence.
  - destruct (g_cmd g); [exact H|]. destruct o; exact H.
  - destruct (g_cmd g); exact H.
  - exact H.
Qed.

(* handler-granular histories are the schedules whose steps are adjacent: same frames, same order *)
Definition hseq (e : c01_event) : list hmev :=
  match e with ECmd o => [HCmdAccess o; HCmdEmit] | ETick => [HTickRead; HTickEmit] | ERx f => [HRecv f] end.
Theorem hsched_sequential u : forall evs c,
  concat (hrun u {| h_ctx := c; h_tick := None; h_cmd := None |} (flat_map hseq evs)) = concat (c01_run u c evs).
Proof.
  induction evs as [|e t IH]; intros c; [reflexivity|].
  destruct e as [o| |f]; cbn [flat_map hseq app hrun hstep h_tick h_cmd h_ctx c01_run].
  - destruct (hcu_trigger u c o) as [c' fs]. cbn [h_cmd h_ctx h_tick]. cbn [concat app]. rewrite IH. reflexivity.
  - cbn [h_cmd h_ctx h_tick]. cbn [concat app]. rewrite IH. unfold hcu_tick. reflexivity.
  - cbn [h_cmd h_ctx h_tick]. cbn [concat app]. rewrite IH. reflexivity.
Qed.

(* ------------------------------------------------------------------ Volvo D7E *)
Lemma ems_recv_tx u c f : tx_last (r_ctx (ems_recv u c f)) = tx_last c.
Proof.
  unfold ems_recv, alive, ignore.
  repeat match goal with |- context [if ?b then _ else _] => destruct b end; reflexivity.
Qed.

(* the register holds nothing or an accepted, interpreted command *)
Definition vreg_ok (s : vmstate) : Prop :=
  tx_last (v_ctx (m_v s)) = None \/ exists cmd, tx_last (v_ctx (m_v s)) = Some (OEngine (normalise_cmd cmd)).
(* a cycle that has done both reads holds the governor's decision for what it read *)
Definition vtick_ok (u : unit_cfg) (s : vmstate) : Prop :=
  match m_tick s with
  | TReady fs => exists sig tx a, fs = tick_decide u sig tx a
                                  /\ (tx = None \/ exists cmd, tx = Some (OEngine (normalise_cmd cmd)))
  | _ => True
  end.

Lemma vmstep_inv u s e : vreg_ok s -> vtick_ok u s ->
  vreg_ok (fst (vmstep u s e)) /\ vtick_ok u (fst (vmstep u s e)).
Proof.
  intros Hr Ht. destruct e as [| | |cmd| | |f|ms]; cbn [vmstep].
  - destruct (m_tick s); cbn [fst]; split; try assumption. exact I.
  - destruct (m_tick s) eqn:E; cbn [fst]; split; try assumption.
    unfold vtick_ok. cbn [m_tick]. eexists _, _, _. split; [reflexivity|]. exact Hr.
  - destruct (m_tick s); cbn [fst]; split; try assumption. exact I.
  - destruct (m_cmd s); cbn [fst]; split; assumption.
  - destruct (m_cmd s) as [|sig cmd|fs] eqn:E; cbn [fst]; try (split; assumption).
    split.
    + right. exists cmd. reflexivity.
    + unfold vtick_ok in *. cbn [m_tick]. exact Ht.
  - destruct (m_cmd s); cbn [fst]; split; assumption.
  - cbn [fst]. split.
    + unfold vreg_ok in *. cbn [m_v volvo_recv v_ctx]. rewrite ems_recv_tx. exact Hr.
    + unfold vtick_ok in *. cbn [m_tick]. exact Ht.
  - cbn [fst]. split; [exact Hr | exact Ht].
Qed.

(* what a decision looks like *)
Definition no_start (fs : list frame) : Prop :=
  exists sa code rpm, fs = [speed_control sa code rpm] /\ code <> CODE_STARTING.
Lemma tick_decide_shutdown u sig a :
  exists code rpm, tick_decide u sig (Some (OEngine engine_off)) a = [speed_control (u_sa u) code rpm]
                   /\ code <> CODE_STARTING /\ (e_state sig = Request -> code = CODE_SHUTDOWN).
Proof.
  unfold tick_decide. cbn [engine_off e_state e_rpm].
  destruct (gov_ok (e_state sig) NoRequest 0 a) as (e & He & _ & _ & Hns & Hstop).
  rewrite He. cbn [gov_frame]. eexists _, _. split; [reflexivity|]. split.
  - specialize (Hns eq_refl). destruct (e_state e); cbn [code_of]; unfold CODE_NOMINAL, CODE_SHUTDOWN, CODE_STARTING; try lia. congruence.
  - intros Hs. rewrite (Hstop eq_refl Hs). reflexivity.
Qed.
Lemma tick_decide_single u sig tx a :
  (tx = None \/ exists cmd, tx = Some (OEngine (normalise_cmd cmd))) ->
  exists code rpm, tick_decide u sig tx a = [speed_control (u_sa u) code rpm] /\ 800 <= rpm <= 2100
                   /\ (code = CODE_NOMINAL \/ code = CODE_STARTING \/ code = CODE_SHUTDOWN).
Proof.
  intros H. unfold tick_decide.
  assert (G : forall s c r a0, exists code rpm,
            gov_frame (u_sa u) (next_state volvo_rpm_idle volvo_rpm_max s c r a0) = [speed_control (u_sa u) code rpm]
            /\ 800 <= rpm <= 2100 /\ (code = CODE_NOMINAL \/ code = CODE_STARTING \/ code = CODE_SHUTDOWN)).
  { intros s c r a0. destruct (gov_ok s c r a0) as (e & He & Hr & _). rewrite He. cbn [gov_frame].
    eexists _, _. split; [reflexivity|]. split; [exact Hr|]. destruct (e_state e); cbn [code_of]; auto. }
  destruct H as [-> | [cmd ->]]; apply G.
Qed.

(* for EVERY schedule, every frame a cycle puts on the bus is ONE well-formed speed-control frame
   carrying a governor decision for an accepted command (or none) *)
Theorem vsched_emissions u : forall evs s, vreg_ok s -> vtick_ok u s ->
  Forall2 (fun e out => e = VTickEmit -> out = [] \/
             exists code rpm, out = [speed_control (u_sa u) code rpm] /\ 800 <= rpm <= 2100
                              /\ (code = CODE_NOMINAL \/ code = CODE_STARTING \/ code = CODE_SHUTDOWN))
          evs (vmrun u s evs).
Proof.
  induction evs as [|e t IH]; intros s Hr Ht; cbn [vmrun]; [constructor|].
  destruct (vmstep_inv u s e Hr Ht) as [Hr' Ht'].
  destruct (vmstep u s e) as [s' out] eqn:E. cbn [fst] in *. constructor; [|apply IH; assumption].
  intros ->. cbn [vmstep] in E. unfold vtick_ok in Ht. destruct (m_tick s) as [|sig|fs].
  - injection E as _ <-. left. reflexivity.
  - injection E as _ <-. left. reflexivity.
  - injection E as _ <-. right. destruct Ht as (sig & tx & a & -> & Htx). apply tick_decide_single. exact Htx.
Qed.

(* stop is honoured under every interleaving: a cycle whose SECOND read finds a shutdown command in
   the register decides on a frame without the start code - the shutdown code when the status it
   read says running - however stale that status is and whatever happens before it is sent *)
Theorem vsched_stop_honoured u s sig :
  m_tick s = TSig sig -> tx_last (v_ctx (m_v s)) = Some (OEngine engine_off) ->
  exists code rpm,
    m_tick (fst (vmstep u s VTickRead2)) = TReady [speed_control (u_sa u) code rpm]
    /\ code <> CODE_STARTING /\ (e_state sig = Request -> code = CODE_SHUTDOWN).
Proof.
  intros Ht Hx. cbn [vmstep]. rewrite Ht, Hx. cbn [fst m_tick].
  destruct (tick_decide_shutdown u sig (age_at (m_v s) (m_now s))) as (code & rpm & E & H1 & H2).
  exists code, rpm. rewrite E. auto.
Qed.
(* and the decision, once taken, is what leaves: nothing between the second read and the emission
   changes it *)
Theorem vsched_decision_stable u s e fs :
  m_tick s = TReady fs -> e <> VTickEmit -> m_tick (fst (vmstep u s e)) = TReady fs.
Proof.
  intros H Hne. destruct e as [| | |cmd| | |f|ms]; cbn [vmstep].
  - rewrite H. exact H.
  - rewrite H. exact H.
  - congruence.
  - destruct (m_cmd s); cbn [fst m_tick]; exact H.
  - destruct (m_cmd s); cbn [fst m_tick]; exact H.
  - destruct (m_cmd s); cbn [fst m_tick]; exact H.
  - cbn [fst m_tick]. exact H.
  - cbn [fst m_tick]. exact H.
Qed.
Theorem vsched_emit_is_decision u s fs :
  m_tick s = TReady fs -> snd (vmstep u s VTickEmit) = fs.
Proof. intros H. cbn [vmstep]. rewrite H. reflexivity. Qed.
Lemma vsched_decision_leaves u s fs :
  m_tick s = TReady fs ->
  (forall e, e <> VTickEmit -> m_tick (fst (vmstep u s e)) = TReady fs) /\ snd (vmstep u s VTickEmit) = fs.
Proof. intros H. split; [intros e He; apply vsched_decision_stable; assumption | apply vsched_emit_is_decision; exact H]. Qed.
(* a zero-speed command is stored as the shutdown command *)
Lemma normalise_zero cmd : e_rpm cmd <= 0 -> normalise_cmd cmd = engine_off.
Proof. intros H. unfold normalise_cmd. destruct (0 <? e_rpm cmd) eqn:E; [apply Z.ltb_lt in E; lia | reflexivity]. Qed.

(* handler-granular histories are the schedules whose steps are adjacent *)
Theorem vsched_sequential u : forall evs v now,
  (forall o, In (VOther o) evs -> forall e, o <> OEngine e) ->
  concat (vmrun u {| m_v := v; m_now := now; m_tick := TIdle; m_cmd := CIdle |} (flat_map (fun e => vseq_of e u) evs))
  = concat (volvo_run u v now evs).
Proof.
  induction evs as [|e t IH]; intros v now Ho; [reflexivity|].
  assert (Ho' : forall o, In (VOther o) t -> forall e0, o <> OEngine e0) by (intros o Hin; apply Ho; right; exact Hin).
  destruct e as [d|c|o| |ms]; cbn [flat_map vseq_of app vmrun vmstep m_tick m_cmd m_v m_now volvo_run].
  - cbn [concat app]. rewrite IH by exact Ho'. reflexivity.
  - cbn [volvo_trigger concat app]. rewrite IH by exact Ho'. reflexivity.
  - assert (E : volvo_trigger u v now o = (v, [])).
    { destruct o; try reflexivity. exfalso. eapply (Ho (OEngine e)); [left; reflexivity | reflexivity]. }
    rewrite E. cbn [concat app]. apply IH. exact Ho'.
  - cbn [concat app]. rewrite IH by exact Ho'. unfold volvo_tick, tick_decide. reflexivity.
  - cbn [concat app]. rewrite IH by exact Ho'. reflexivity.
Qed.

(* ------------------------------------------------------------------ the tie to the source *)
(* the access sequences of the handlers, as re-extracted from the Rust source on every run, are
   the ones the micro-step programs above consist of: one read of the transmit register per HCU
   cycle, one write per accepted HCU command, receive-side accesses only in try_recv; the Volvo
   driver reads the receive register then the transmit register (tick) / writes it (trigger) and
   delegates try_recv to the engine-management driver, which touches the receive side only; the
   authority itself marks reception in recv, reads rx_count and is_rx_timeout in on_tick and
   touches nothing in on_command *)
Definition rx_side_only (l : list Z) : bool := forallb (fun a => (a =? ACC_SET_RX) || (a =? ACC_RX_MARK)) l.
Lemma shapes_match :
  shape_hcu_tick = [ACC_TX_LAST] /\ shape_hcu_trigger = [ACC_SET_TX] /\ rx_side_only shape_hcu_try_recv = true
  /\ shape_volvo_tick = [ACC_RX_LAST; ACC_TX_LAST] /\ shape_volvo_trigger = [ACC_RX_LAST; ACC_SET_TX]
  /\ shape_volvo_try_recv = [] /\ rx_side_only shape_ems_try_recv = true
  /\ shape_authority_recv = [ACC_RX_MARK] /\ shape_authority_on_tick = [6; 7] /\ shape_authority_on_command = [].
Proof. repeat split; reflexivity. Qed.
