From Coq Require Import ZArith List Bool Lia ZifyBool.
Import ListNotations.
Require Import GV.Gen.Consts GV.Model.Outcome GV.Model.J1939 GV.Model.Governor GV.Model.Hcu GV.Model.Object
  GV.Model.HcuUnit GV.Model.Units GV.Model.CanNet GV.Spec.Units_spec GV.Proofs.C17_proof.
Local Open Scope Z_scope.
Ltac Zify.zify_post_hook ::= Z.div_mod_to_equations.

(* ---------------------------------------------------------------- C06 *)
(* every frame the network layer hands to the drivers has exactly 8 data bytes, whatever was on
   the wire (any 32-bit can_id, any DLC 0..8, any data): the drivers' panic points (slices,
   try_into().unwrap() on the payload) are therefore unreachable *)
Lemma normalise_len f : length (f_data (normalise f)) = 8%nat.
Proof. apply pad_to_length. Qed.

Theorem c06_total : forall k u raw f,
  of_can_frame raw = Some f ->
  unit_model {| uc_kind := k; uc_u := u; uc_frame := normalise f |} <> Panic.
Proof.
  intros k u raw f _. unfold unit_model. cbn [uc_frame]. rewrite normalise_len. discriminate.
Qed.

Theorem c06_normalised : forall f, (length (f_data f) <= 8)%nat ->
  length (f_data (normalise f)) = 8%nat
  /\ firstn (length (f_data f)) (f_data (normalise f)) = f_data f
  /\ skipn (length (f_data f)) (f_data (normalise f)) = repeat 255 (8 - length (f_data f)).
Proof.
  intros f H. cbn [normalise f_data]. rewrite pad_to_prefix by exact H. repeat split.
  - rewrite app_length, repeat_length. lia.
  - rewrite firstn_app, firstn_all, Nat.sub_diag. cbn. apply app_nil_r.
  - rewrite skipn_app, skipn_all, Nat.sub_diag. reflexivity.
Qed.

(* ---------------------------------------------------------------- C11 *)
Definition changed (c : ctx) (r : recv_out) : Prop := r_ctx r <> c \/ r_sigs r <> [].

Ltac split_ifs :=
  repeat match goal with
  | |- context [if ?b then _ else _] => destruct b eqn:?
  end.

(* a frame whose source address is not the unit's address is ignored by the unit's driver *)
Theorem c11_foreign_ignore : forall k u c f, id_sa (f_id f) <> u_da u -> unit_recv k u c f = ignore c.
Proof.
  intros k u c f H.
  assert (E : id_sa (f_id f) =? u_da u = false) by lia.
  destruct k; cbn [unit_recv];
    unfold hcu_recv, vcu_recv, ecu_recv, encoder_recv, inclino_recv, ems_recv; rewrite E;
    cbn [andb]; split_ifs; reflexivity.
Qed.

(* a driver reacts to a frame only if the frame's source address is the unit's address *)
Theorem c11_source : forall k u c f, changed c (unit_recv k u c f) -> id_sa (f_id f) = u_da u.
Proof.
  intros k u c f H. destruct (Z.eq_dec (id_sa (f_id f)) (u_da u)) as [E|E]; [exact E|].
  exfalso. rewrite (c11_foreign_ignore k u c f E) in H. destruct H as [H|H]; apply H; reflexivity.
Qed.

(* a PDU1 frame addressed to another node (not global, not the unit) changes nothing *)
Theorem c11_addressed_elsewhere : forall k u c f d,
  id_da (f_id f) = Some d -> d <> 255 -> d <> u_da u -> unit_recv k u c f = ignore c.
Proof.
  intros k u c f d Hd H1 H2.
  assert (G : dest_guard u (f_id f) = false) by (unfold dest_guard; rewrite Hd; lia).
  assert (P1 : id_is_pdu1 (f_id f) = true) by (unfold id_da in Hd; destruct (id_is_pdu1 (f_id f)); [reflexivity|discriminate]).
  destruct k; cbn [unit_recv]; unfold hcu_recv, vcu_recv, ecu_recv, encoder_recv, inclino_recv; rewrite ?G; cbn [negb]; try reflexivity.
  - (* engine: only TSC1 is PDU1 *)
    unfold ems_recv. rewrite G, andb_false_r.
    assert (Hp : id_pgn (f_id f) < 61440) by (unfold id_pgn, id_is_pdu1 in *; rewrite P1; unfold id_pf in *; lia).
    destruct (id_pgn (f_id f) =? PGN_TSC1); [reflexivity|].
    assert (E1 : id_pgn (f_id f) =? PGN_EEC1 = false) by (unfold PGN_EEC1; lia). rewrite E1.
    assert (E2 : existsb (Z.eqb (id_pgn (f_id f))) ems_other_pgns = false).
    { unfold ems_other_pgns, ems_alive_pgns. cbn [existsb]. lia. }
    rewrite E2. reflexivity.
  - unfold ems_recv. rewrite G, andb_false_r.
    assert (Hp : id_pgn (f_id f) < 61440) by (unfold id_pgn, id_is_pdu1 in *; rewrite P1; unfold id_pf in *; lia).
    destruct (id_pgn (f_id f) =? PGN_TSC1); [reflexivity|].
    assert (E1 : id_pgn (f_id f) =? PGN_EEC1 = false) by (unfold PGN_EEC1; lia). rewrite E1.
    assert (E2 : existsb (Z.eqb (id_pgn (f_id f))) ems_other_pgns = false).
    { unfold ems_other_pgns, ems_alive_pgns. cbn [existsb]. lia. }
    rewrite E2. reflexivity.
Qed.

(* the rotation signals name the unit as their source *)
Theorem c11_names_source : forall k u c f o, In o (r_sigs (unit_recv k u c f)) ->
  match o with ORotator (src :: _) => src = u_da u | ORotator [] => False | _ => True end.
Proof.
  intros k u c f o H.
  destruct k; cbn [unit_recv] in H;
    unfold hcu_recv, vcu_recv, ecu_recv, encoder_recv, inclino_recv, ems_recv in H;
    revert H; split_ifs; unfold ignore, alive, rot_signal; cbn [r_sigs In];
    intros H; repeat (destruct H as [H|H]); try contradiction; subst; try exact I; lia.
Qed.

(* authority scan: a driver whose address differs from the frame's source keeps its context,
   so with pairwise distinct unit addresses at most one unit is credited per frame *)
Theorem c11_scan_foreign : forall ds f,
  Forall2 (fun d d' => id_sa (f_id f) <> u_da (d_cfg d) -> d_ctx d' = d_ctx d) ds (fst (scan ds f)).
Proof.
  induction ds as [|d ds IH]; intros f; cbn [scan]; [constructor|].
  destruct (r_sigs (unit_recv (d_kind d) (d_cfg d) (d_ctx d) f)) as [|s sigs] eqn:S.
  - specialize (IH f). destruct (scan ds f) as [t' s']. cbn [fst] in *. constructor; [|exact IH].
    cbn [d_ctx]. intros Hne. rewrite (c11_foreign_ignore _ _ _ _ Hne). reflexivity.
  - cbn [fst]. constructor.
    + intros Hne. rewrite (c11_foreign_ignore _ _ _ _ Hne) in S. discriminate.
    + clear. induction ds; constructor; auto.
Qed.

Theorem c11_request_inert : forall ds f, id_pgn (f_id f) = PGN_REQUEST -> authority_recv ds f = (ds, []).
Proof. intros ds f H. unfold authority_recv. rewrite H, Z.eqb_refl. reflexivity. Qed.

(* ---------------------------------------------------------------- the spec predicates hold *)
Lemma wf_parts c : ucase_wf c = true ->
  0 <= u_da (uc_u c) < 256 /\ 0 <= u_sa (uc_u c) < 256 /\ 0 <= f_id (uc_frame c) < 536870912
  /\ length (f_data (uc_frame c)) = 8%nat.
Proof. unfold ucase_wf, is_byte. intros H. repeat (apply andb_prop in H as [H ?]). lia. Qed.

Theorem c11_holds : forall c, ucase_wf c = true -> c11_spec_ok c (unit_model c) = true.
Proof.
  intros [k u f] Hwf. destruct (wf_parts _ Hwf) as (Hd & Hs & Hi & Hl). cbn [uc_kind uc_u uc_frame] in *.
  unfold unit_model. cbn [uc_frame uc_kind uc_u]. rewrite Hl. cbn [Z.of_nat Pos.of_succ_nat Pos.succ Z.eqb Pos.eqb].
  unfold c11_spec_ok. cbn [uc_frame uc_u].
  set (r := unit_recv k u ctx0 f).
  (* 1: credited -> source *)
  assert (H1 : implb (credited r) (id_sa (f_id f) =? u_da u) = true).
  { destruct (Z.eq_dec (id_sa (f_id f)) (u_da u)) as [E|E]; [rewrite (proj2 (Z.eqb_eq _ _) E); apply implb_true_r|].
    subst r. rewrite (c11_foreign_ignore k u ctx0 f E). reflexivity. }
  (* 2: names *)
  assert (H2 : forallb (names_unit u) (r_sigs r) = true).
  { apply forallb_forall. intros o Ho. pose proof (c11_names_source k u ctx0 f o Ho) as Hn.
    destruct o as [| | | |w|]; try reflexivity. destruct w as [|src w]; [contradiction|]. cbn [names_unit]. lia. }
  (* 3: addressed elsewhere *)
  assert (H3 : implb (addressed_elsewhere u (f_id f)) (negb (credited r)) = true).
  { unfold addressed_elsewhere. destruct (id_da (f_id f)) as [d|] eqn:Hda; [|reflexivity].
    destruct (negb ((d =? 255) || (d =? u_da u) || (d =? u_sa u))) eqn:E; [|reflexivity].
    subst r. rewrite (c11_addressed_elsewhere k u ctx0 f d Hda) by lia. reflexivity. }
  (* 4: requests *)
  assert (H4 : implb (id_pgn (f_id f) =? PGN_REQUEST) (negb (credited r)) = true).
  { destruct (id_pgn (f_id f) =? PGN_REQUEST) eqn:E; [|reflexivity].
    assert (Hp : id_pgn (f_id f) = 59904) by (unfold PGN_REQUEST in E; lia).
    assert (R : r = ignore ctx0).
    { subst r. destruct k; cbn [unit_recv];
        unfold hcu_recv, vcu_recv, ecu_recv, encoder_recv, inclino_recv, ems_recv; rewrite Hp;
        unfold PGN_SOFTWARE_IDENT, PGN_ADDRESS_CLAIMED, hcu_status_pgn, encoder_pgn, inclino_pgn, PGN_TSC1, PGN_EEC1,
               ems_other_pgns, ems_alive_pgns; cbn [Z.eqb Pos.eqb existsb orb]; split_ifs; reflexivity. }
    rewrite R. reflexivity. }
  rewrite H1, H2, H3, H4. reflexivity.
Qed.

Theorem c06_holds : forall c, ucase_wf c = true -> c06_spec_ok c (unit_model c) = true.
Proof.
  intros c Hwf. destruct (wf_parts _ Hwf) as (_ & _ & _ & Hl). unfold unit_model. rewrite Hl. reflexivity.
Qed.

(* ---------------------------------------------------------------- C12 *)
Definition bytes8 (d : list Z) : Prop := length d = 8%nat /\ Forall (fun x => 0 <= x < 256) d.

Lemma wf_bytes8 c : ucase_wf c = true -> bytes8 (f_data (uc_frame c)).
Proof.
  unfold ucase_wf. intros H. apply andb_prop in H as [H Hb]. apply andb_prop in H as [_ Hl].
  split; [lia|]. apply Forall_forall. intros x Hx. rewrite forallb_forall in Hb. specialize (Hb x Hx).
  unfold is_byte in Hb. lia.
Qed.

Ltac explode_bytes d H :=
  let Hl := fresh "Hlen" in let Hb := fresh "Hbytes" in
  destruct H as [Hl Hb];
  destruct d as [|b0 [|b1 [|b2 [|b3 [|b4 [|b5 [|b6 [|b7 [|? ?]]]]]]]]]; try discriminate Hl;
  repeat match goal with Hf : Forall _ (_ :: _) |- _ => inversion Hf; clear Hf; subst end.

(* EEC1: rpm, demand, load *)
Lemma eec1_fields d : bytes8 d ->
  let raw := le16 d 3 in let e := eec1_engine d in
  e_rpm e = (if raw =? 65535 then 0 else Z.min 8031 (raw / 8))
  /\ e_demand e = (let b := nth 1 d 255 in if b =? 255 then 0 else Z.min 125 (Z.max 0 (b - 125)))
  /\ e_actual e = (let b := nth 2 d 255 in if b =? 255 then 0 else Z.min 125 (Z.max 0 (b - 125))).
Proof.
  intros H. explode_bytes d H. cbv zeta. unfold le16, eec1_engine, rpm_dec, pct_dec, byte_at, u16le. cbn [nth e_rpm e_demand e_actual].
  repeat split.
  - destruct ((b3 =? 255) && (b4 =? 255)) eqn:E; destruct (b3 + 256 * b4 =? 65535) eqn:E2; try lia; reflexivity.
  - destruct (b1 =? 255); reflexivity.
  - destruct (b2 =? 255); reflexivity.
Qed.

(* never reports a 0 rpm engine as running; an active starter means starting *)
Lemma eec1_state d : bytes8 d ->
  let e := eec1_engine d in
  (e_state e = Request -> 0 < e_rpm e)
  /\ ((let n := nth 6 d 255 mod 16 in n = 1 \/ n = 2) -> e_state e = Starting).
Proof.
  intros H. explode_bytes d H. cbv zeta. unfold eec1_engine, starter_of, rpm_dec, byte_at, u16le. cbn [nth e_rpm e_state].
  split.
  - destruct (b6 mod 16 =? 15); [|destruct ((b6 mod 16 =? 1) || (b6 mod 16 =? 2)); [discriminate|
      destruct (b6 mod 16 =? 3); [|destruct ((b6 mod 16 =? 0) || (b6 mod 16 =? 4) || (b6 mod 16 =? 5) || (b6 mod 16 =? 6)
                                             || (b6 mod 16 =? 7) || (b6 mod 16 =? 8) || (b6 mod 16 =? 12)); discriminate]]];
    destruct ((b3 =? 255) && (b4 =? 255)); try discriminate.
    + destruct (Z.min 8031 ((b3 + 256 * b4) / 8) =? 0) eqn:E0; [discriminate|].
      destruct (Z.min 8031 ((b3 + 256 * b4) / 8) <? 500); [discriminate|]. intros _. lia.
    + destruct (0 <? Z.min 8031 ((b3 + 256 * b4) / 8)) eqn:E; [intros _; lia | discriminate].
  - intros Hn. assert (E15 : b6 mod 16 =? 15 = false) by lia. rewrite E15.
    assert (E12 : (b6 mod 16 =? 1) || (b6 mod 16 =? 2) = true) by lia. rewrite E12. reflexivity.
Qed.

Theorem c12_holds : forall c, ucase_wf c = true -> c12_spec_ok c (unit_model c) = true.
Proof.
  intros [k u f] Hwf. pose proof (wf_bytes8 _ Hwf) as B. destruct (wf_parts _ Hwf) as (Hd & Hs & Hi & Hl).
  cbn [uc_kind uc_u uc_frame] in *.
  unfold unit_model. cbn [uc_frame uc_kind uc_u]. rewrite Hl. cbn [Z.of_nat Pos.of_succ_nat Pos.succ Z.eqb Pos.eqb].
  unfold c12_spec_ok. cbn [uc_kind uc_frame uc_u].
  destruct k; try reflexivity.
  - (* hcu status *)
    destruct ((id_sa (f_id f) =? u_da u) && (id_pgn (f_id f) =? 65288)) eqn:G; [|reflexivity]. cbn [implb].
    apply andb_prop in G as [G1 G2]. cbn [unit_recv]. unfold hcu_recv.
    assert (DG : dest_guard u (f_id f) = true).
    { unfold dest_guard, id_da. assert (id_is_pdu1 (f_id f) = false) by (unfold id_pgn, id_is_pdu1 in *; destruct (id_pf (f_id f) <? 240) eqn:E; [unfold id_pf in *; lia | reflexivity]).
      rewrite H. reflexivity. }
    rewrite DG. cbn [negb].
    assert (P : id_pgn (f_id f) = 65288) by lia. rewrite P, G1.
    unfold PGN_SOFTWARE_IDENT, PGN_ADDRESS_CLAIMED, hcu_status_pgn. cbn [Z.eqb Pos.eqb].
    cbn [r_sigs r_err]. unfold sig_is_motion, byte_at, vecraft_error. cbn [r_sigs].
    destruct (nth 2 (f_data f) 255 =? 1); cbn; rewrite Z.eqb_refl; reflexivity.
  - (* encoder *)
    destruct ((id_sa (f_id f) =? u_da u) && (id_pgn (f_id f) =? 65450)) eqn:G; [|reflexivity]. cbn [implb].
    apply andb_prop in G as [G1 G2]. cbn [unit_recv]. unfold encoder_recv.
    assert (DG : dest_guard u (f_id f) = true).
    { unfold dest_guard, id_da. assert (id_is_pdu1 (f_id f) = false) by (unfold id_pgn, id_is_pdu1 in *; destruct (id_pf (f_id f) <? 240) eqn:E; [unfold id_pf in *; lia | reflexivity]).
      rewrite H. reflexivity. }
    rewrite DG. cbn [negb].
    assert (P : id_pgn (f_id f) = 65450) by lia. rewrite P, G1.
    unfold PGN_ADDRESS_CLAIMED, encoder_pgn. cbn [Z.eqb Pos.eqb]. cbn [r_sigs r_err]. unfold rot_signal.
    assert (Sa : id_sa (f_id f) = u_da u) by lia. rewrite Sa, !Z.eqb_refl. cbn [andb].
    destruct f as [fid d]. cbn [f_data] in *. explode_bytes d B.
    unfold enc_position, enc_error, byte_at, le32, le16, u16le. cbn [nth forallb]. cbv zeta.
    apply andb_true_intro; split.
    + destruct ((255 =? b0) && ((255 =? b1) && ((255 =? b2) && ((255 =? b3) && true)))) eqn:E;
        destruct (b0 + 256 * b1 + 65536 * (b2 + 256 * b3) =? 4294967295) eqn:E2; lia.
    + set (w := b6 + 256 * b7).
      assert (Hw : 0 <= w < 65536) by (subst w; lia).
      destruct ((b6 =? 255) && (b7 =? 255)) eqn:E.
      * assert (Hv : w = 65535) by (subst w; lia). rewrite Hv. reflexivity.
      * assert (Hv : w <> 65535) by (subst w; lia).
        destruct (Z.eq_dec w 0) as [H0|H0]; [rewrite H0; reflexivity|].
        assert (E1 : w =? 0 = false) by lia. assert (E2 : w =? 65535 = false) by lia. rewrite E1, E2. cbn [orb].
        destruct (w =? 60928); [reflexivity|].
        destruct ((w =? 60929) || (w =? 60930) || (w =? 60931)) eqn:E3.
        { assert (Hr : (60929 <=? w) && (w <=? 60931) = true) by lia. rewrite Hr. reflexivity. }
        assert (Hr : (60929 <=? w) && (w <=? 60931) = false) by lia. rewrite Hr. reflexivity.
  - (* inclinometer *)
    destruct ((id_sa (f_id f) =? u_da u) && (id_pgn (f_id f) =? 65451)) eqn:G; [|reflexivity]. cbn [implb].
    apply andb_prop in G as [G1 G2]. cbn [unit_recv]. unfold inclino_recv.
    assert (DG : dest_guard u (f_id f) = true).
    { unfold dest_guard, id_da. assert (id_is_pdu1 (f_id f) = false) by (unfold id_pgn, id_is_pdu1 in *; destruct (id_pf (f_id f) <? 240) eqn:E; [unfold id_pf in *; lia | reflexivity]).
      rewrite H. reflexivity. }
    rewrite DG. cbn [negb].
    assert (P : id_pgn (f_id f) = 65451) by lia. rewrite P, G1.
    unfold PGN_ADDRESS_CLAIMED, inclino_pgn. cbn [Z.eqb Pos.eqb]. cbn [r_sigs]. unfold rot_signal.
    assert (Sa : id_sa (f_id f) = u_da u) by lia. rewrite Sa, !Z.eqb_refl. cbn [andb].
    destruct f as [fid d]. cbn [f_data] in *. explode_bytes d B.
    unfold slope, byte_at, le16, u16le, i16of. cbn [nth]. cbv zeta.
    apply andb_true_intro; split.
    + split_ifs; lia.
    + split_ifs; lia.
  - (* ems *) 
    destruct ((id_sa (f_id f) =? u_da u) && (id_pgn (f_id f) =? 61444)) eqn:G; [|reflexivity]. cbn [implb].
    apply andb_prop in G as [G1 G2]. cbn [unit_recv]. unfold ems_recv.
    assert (P : id_pgn (f_id f) = 61444) by lia. rewrite P, G1. unfold PGN_TSC1, PGN_EEC1. cbn [Z.eqb Pos.eqb r_sigs r_err].
    destruct (eec1_fields (f_data f) B) as (F1 & F2 & F3). destruct (eec1_state (f_data f) B) as (S1 & S2).
    cbn zeta in F1, F2, F3, S1, S2. rewrite F1, F2, F3, !Z.eqb_refl. cbn [andb].
    apply andb_true_intro; split; [apply andb_true_intro; split|reflexivity].
    + destruct (e_state (eec1_engine (f_data f))) eqn:Es; cbn [estate_eqb implb]; try reflexivity.
      rewrite <- F1. specialize (S1 eq_refl). lia.
    + destruct ((nth 6 (f_data f) 255 mod 16 =? 1) || (nth 6 (f_data f) 255 mod 16 =? 2)) eqn:E; [|reflexivity].
      rewrite S2 by lia. reflexivity.
  - (* volvo: same receive path *)
    destruct ((id_sa (f_id f) =? u_da u) && (id_pgn (f_id f) =? 61444)) eqn:G; [|reflexivity]. cbn [implb].
    apply andb_prop in G as [G1 G2]. cbn [unit_recv]. unfold ems_recv.
    assert (P : id_pgn (f_id f) = 61444) by lia. rewrite P, G1. unfold PGN_TSC1, PGN_EEC1. cbn [Z.eqb Pos.eqb r_sigs r_err].
    destruct (eec1_fields (f_data f) B) as (F1 & F2 & F3). destruct (eec1_state (f_data f) B) as (S1 & S2).
    cbn zeta in F1, F2, F3, S1, S2. rewrite F1, F2, F3, !Z.eqb_refl. cbn [andb].
    apply andb_true_intro; split; [apply andb_true_intro; split|reflexivity].
    + destruct (e_state (eec1_engine (f_data f))) eqn:Es; cbn [estate_eqb implb]; try reflexivity.
      rewrite <- F1. specialize (S1 eq_refl). lia.
    + destruct ((nth 6 (f_data f) 255 mod 16 =? 1) || (nth 6 (f_data f) 255 mod 16 =? 2)) eqn:E; [|reflexivity].
      rewrite S2 by lia. reflexivity.
Qed.
