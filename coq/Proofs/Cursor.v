(* Lemmas about the byte cursor of Model/Packets.v: when each primitive succeeds, how much it
   consumes, and a small tactic that walks a decoder. *)
From Coq Require Import ZArith List Bool Lia.
Import ListNotations.
Require Import GV.Gen.Consts GV.Model.Hcu GV.Model.Packets.
Local Open Scope Z_scope.

Lemma lenb_nonneg l : 0 <= lenb l.
Proof. unfold lenb; lia. Qed.
Lemma lenb_cons x l : lenb (x :: l) = lenb l + 1.
Proof. unfold lenb; cbn [length]; lia. Qed.
Lemma lenb_nil : lenb [] = 0.
Proof. reflexivity. Qed.
Lemma lenb_app a b : lenb (a ++ b) = lenb a + lenb b.
Proof. unfold lenb; rewrite app_length; lia. Qed.

(* "m does not panic on b, and what is left is no longer than b" *)
Definition okish {A} (m : rd A) (b : list Z) : Prop :=
  match m b with
  | DOk (_, t) => lenb t <= lenb b
  | DErr => True
  | DPanic => False
  end.

Lemma get_u8_spec b : 1 <= lenb b ->
  exists x t, get_u8 b = DOk (x, t) /\ lenb t = lenb b - 1 /\ b = x :: t.
Proof.
  destruct b as [|x t]; [rewrite lenb_nil; lia|]. intros _. exists x, t.
  rewrite lenb_cons. repeat split; lia.
Qed.
Lemma get_u16_spec b : 2 <= lenb b ->
  exists x y t, get_u16 b = DOk (x * 256 + y, t) /\ lenb t = lenb b - 2 /\ b = x :: y :: t.
Proof.
  destruct b as [|x [|y t]]; rewrite ?lenb_cons, ?lenb_nil; try lia.
  intros _. exists x, y, t. repeat split; lia.
Qed.
Lemma get_u32_spec b : 4 <= lenb b ->
  exists x y z w t, get_u32 b = DOk (((x * 256 + y) * 256 + z) * 256 + w, t)
                    /\ lenb t = lenb b - 4 /\ b = x :: y :: z :: w :: t.
Proof.
  destruct b as [|x [|y [|z [|w t]]]]; rewrite ?lenb_cons, ?lenb_nil; try lia.
  intros _. exists x, y, z, w, t. repeat split; lia.
Qed.
Lemma take_n_spec n b : 0 <= n <= lenb b ->
  take_n n b = DOk (firstn (Z.to_nat n) b, skipn (Z.to_nat n) b)
  /\ lenb (skipn (Z.to_nat n) b) = lenb b - n /\ lenb (firstn (Z.to_nat n) b) = n.
Proof.
  intros H. unfold take_n. destruct (lenb b <? n) eqn:E; [lia|].
  split; [reflexivity|]. unfold lenb in *.
  rewrite skipn_length, firstn_length. lia.
Qed.
Lemma remaining_spec b : remaining b = DOk (lenb b, b).
Proof. reflexivity. Qed.

Lemma rd_words_spec n : forall b, 4 * Z.of_nat n <= lenb b ->
  exists ws t, rd_words n b = DOk (ws, t) /\ lenb t = lenb b - 4 * Z.of_nat n /\ length ws = n.
Proof.
  induction n as [|n IH]; intros b H.
  - exists [], b. cbn. repeat split; lia.
  - cbn [rd_words]. unfold bind.
    destruct (get_u32_spec b) as (x & y & z & w & t & -> & Hl & _); [lia|].
    destruct (IH t) as (ws & t' & -> & Hl' & Hn); [lia|].
    eexists _, t'. cbn [ret]. repeat split; [lia | cbn; lia].
Qed.

(* a decoder built from primitives never panics when a guard bounds what it reads: generic
   never-panic facts for the unconditional primitives *)
Lemma okish_ret {A} (a : A) b : okish (ret a) b.
Proof. unfold okish, ret. lia. Qed.
Lemma okish_fail {A} b : okish (@fail A) b.
Proof. exact I. Qed.

Lemma okish_bind {A B} (m : rd A) (f : A -> rd B) b :
  (match m b with
   | DOk (a, t) => lenb t <= lenb b /\ okish (f a) t
   | DErr => True
   | DPanic => False end) -> okish (bind m f) b.
Proof.
  unfold okish, bind. destruct (m b) as [[a t]| |]; auto.
  intros [H1 H2]. destruct (f a t) as [[c t']| |]; auto. lia.
Qed.
