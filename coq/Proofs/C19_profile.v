(* C19, Linear::update at the level of the binary32 arithmetic the code runs.
   The multiplication error*kp may overflow to an infinity: `xval`/`satR` give the clamp a
   real-valued meaning that is monotone across the overflow.  Main results:
   linear_update_value (no panic, finite result, its real value), lu_real_mono,
   lu_real_nonneg, lu_real_nonpos. *)
From Coq Require Import ZArith Reals Lra Lia Bool List.
From Flocq Require Import Core Sterbenz BinarySingleNaN.
Require Import GV.Model.Outcome GV.Model.F32 GV.Model.Kinematics GV.Spec.C19_spec GV.Proofs.F32_lemmas.
Import ListNotations.
Local Open Scope R_scope.


Definition BIG : R := bpow2 128.
Definition xval (m : f32) : R :=
  match m with B754_infinity s => if s then - BIG else BIG | _ => R32 m end.
Definition satR (p : R) : R :=
  if Rlt_bool (Rabs p) BIG then p else if Rlt_bool 0 p then BIG else - BIG.

Lemma BIG_pos : 0 < BIG. Proof. apply bpow_gt_0. Qed.
Lemma R32_lt_BIG (x : f32) : Rabs (R32 x) < BIG.
Proof. apply (abs_B2R_lt_emax 24 128 x). Qed.

Lemma Bsign_true_le0 (x : f32) : is_finite x = true -> Bsign x = true -> R32 x <= 0.
Proof.
  destruct x as [s|s| |s m e H]; try discriminate; cbn; intros _ Hs; [lra|]. subst s.
  apply Rlt_le. apply F2R_lt_0. reflexivity.
Qed.
Lemma Bsign_false_ge0 (x : f32) : is_finite x = true -> Bsign x = false -> 0 <= R32 x.
Proof.
  destruct x as [s|s| |s m e H]; try discriminate; cbn; intros _ Hs; [lra|]. subst s.
  apply Rlt_le. apply F2R_gt_0. reflexivity.
Qed.
Lemma Bsign_of_pos (x : f32) : is_finite x = true -> 0 < R32 x -> Bsign x = false.
Proof. intros F H. destruct (Bsign x) eqn:E; [|reflexivity]. generalize (Bsign_true_le0 x F E). lra. Qed.
Lemma Bsign_of_neg (x : f32) : is_finite x = true -> R32 x < 0 -> Bsign x = true.
Proof. intros F H. destruct (Bsign x) eqn:E; [reflexivity|]. generalize (Bsign_false_ge0 x F E). lra. Qed.
Lemma finite_not_nan (x : f32) : is_finite x = true -> is_nan x = false.
Proof. destruct x; try discriminate; reflexivity. Qed.
Lemma xval_finite (x : f32) : is_finite x = true -> xval x = R32 x.
Proof. destruct x; try discriminate; reflexivity. Qed.

Lemma satR_mono p q : p <= q -> satR p <= satR q.
Proof.
  intros H. unfold satR. generalize BIG_pos. intros HB.
  destruct (Rlt_bool_spec (Rabs p) BIG) as [Hp|Hp]; destruct (Rlt_bool_spec (Rabs q) BIG) as [Hq|Hq].
  - exact H.
  - apply Rabs_lt_inv in Hp. destruct (Rlt_bool_spec 0 q) as [Hq0|Hq0]; [lra|].
    rewrite Rabs_left1 in Hq by lra. lra.
  - apply Rabs_lt_inv in Hq. destruct (Rlt_bool_spec 0 p) as [Hp0|Hp0]; [|lra].
    rewrite Rabs_pos_eq in Hp by lra. lra.
  - destruct (Rlt_bool_spec 0 p) as [Hp0|Hp0]; destruct (Rlt_bool_spec 0 q) as [Hq0|Hq0]; lra.
Qed.
Lemma satR_nonneg p : 0 <= p -> 0 <= satR p.
Proof. intros H. unfold satR. generalize BIG_pos. intros HB.
  destruct (Rlt_bool_spec (Rabs p) BIG); [exact H|]. destruct (Rlt_bool_spec 0 p); [lra|].
  assert (p = 0) by lra. subst p. rewrite Rabs_R0 in *. lra. Qed.
Lemma satR_nonpos p : p <= 0 -> satR p <= 0.
Proof. intros H. unfold satR. generalize BIG_pos. intros HB.
  destruct (Rlt_bool_spec (Rabs p) BIG); [exact H|]. destruct (Rlt_bool_spec 0 p); lra. Qed.

Lemma fmul_xval (e k : f32) : is_finite e = true -> is_finite k = true -> 0 <= R32 k ->
  is_nan (fmul e k) = false /\ xval (fmul e k) = satR (rnd (R32 e * R32 k)).
Proof.
  intros Fe Fk Hk. unfold fmul, satR.
  generalize (Bmult_correct 24 128 Hprec32 Hemax32 mode_NE e k).
  change (round_mode mode_NE) with ZnearestE. change (SpecFloat.fexp 24 128) with fexp32.
  fold BIG. set (p := rnd (R32 e * R32 k)).
  destruct (Rlt_bool_spec (Rabs p) BIG) as [Hlt|Hge].
  - rewrite Fe, Fk. intros [H1 [H2 _]]. cbn in H2. split; [apply finite_not_nan; exact H2|].
    rewrite xval_finite by exact H2. exact H1.
  - intros H. unfold binary_overflow in H. cbn [overflow_to_inf] in H.
    destruct (Bmult mode_NE e k) as [s|s| |s m ex Hb] eqn:E; try discriminate H.
    cbn in H. injection H as Hs. split; [reflexivity|]. cbn [xval].
    generalize BIG_pos. intros HB.
    destruct (Rlt_bool_spec 0 p) as [Hp|Hp].
    + assert (Hek : 0 < R32 e * R32 k).
      { destruct (Rlt_le_dec 0 (R32 e * R32 k)) as [G|G]; [exact G|]. apply rnd_le in G. rewrite rnd_0 in G. fold p in G. lra. }
      assert (Hk0 : 0 < R32 k) by (destruct Hk as [Hk|Hk]; [exact Hk | rewrite <- Hk, Rmult_0_r in Hek; lra]).
      assert (0 < R32 e) by (destruct (Rlt_le_dec 0 (R32 e)) as [G|G]; [exact G | assert (R32 e * R32 k <= 0) by nra; lra]).
      rewrite Hs, (Bsign_of_pos e), (Bsign_of_pos k) by assumption. reflexivity.
    + assert (Hp' : p < 0).
      { destruct (Req_dec p 0) as [Z|Z]; [rewrite Z, Rabs_R0 in Hge; lra | lra]. }
      assert (Hek : R32 e * R32 k < 0).
      { destruct (Rlt_le_dec (R32 e * R32 k) 0) as [G|G]; [exact G|]. apply rnd_le in G. rewrite rnd_0 in G. fold p in G. lra. }
      assert (Hk0 : 0 < R32 k) by (destruct Hk as [Hk|Hk]; [exact Hk | rewrite <- Hk, Rmult_0_r in Hek; lra]).
      assert (R32 e < 0) by (destruct (Rlt_le_dec (R32 e) 0) as [G|G]; [exact G | assert (0 <= R32 e * R32 k) by nra; lra]).
      rewrite Hs, (Bsign_of_neg e), (Bsign_of_pos k) by assumption. reflexivity.
Qed.

Lemma fclamp_xval (m lo hi : f32) :
  is_nan m = false -> is_finite lo = true -> is_finite hi = true -> R32 lo <= R32 hi ->
  exists c, fclamp m lo hi = Ok c /\ is_finite c = true
            /\ R32 c = Rmax (R32 lo) (Rmin (xval m) (R32 hi)).
Proof.
  intros Nm Flo Fhi Hle. unfold fclamp, fle, flt, fgt.
  rewrite (Bleb_correct 24 128 lo hi Flo Fhi), Rle_bool_true by exact Hle. cbn [negb].
  generalize (R32_lt_BIG lo) (R32_lt_BIG hi). intros Blo Bhi.
  apply Rabs_lt_inv in Blo. apply Rabs_lt_inv in Bhi.
  assert (Hhl : Bltb hi lo = false).
  { rewrite (Bltb_correct 24 128 hi lo Fhi Flo). apply Rlt_bool_false. exact Hle. }
  destruct m as [s|s| |s mm e Hb] eqn:Em; try discriminate Nm.
  - (* zero *)
    rewrite (Bltb_correct 24 128 (B754_zero s) lo eq_refl Flo).
    destruct (Rlt_bool_spec (R32 (B754_zero s)) (R32 lo)) as [H1|H1].
    + rewrite Hhl. eexists; split; [reflexivity|]. split; [exact Flo|]. cbn [xval].
      rewrite Rmin_left by lra. rewrite Rmax_left by lra. reflexivity.
    + rewrite (Bltb_correct 24 128 hi (B754_zero s) Fhi eq_refl).
      destruct (Rlt_bool_spec (R32 hi) (R32 (B754_zero s))) as [H2|H2].
      * eexists; split; [reflexivity|]. split; [exact Fhi|]. cbn [xval]. rewrite Rmin_right by lra. rewrite Rmax_right by lra. reflexivity.
      * eexists; split; [reflexivity|]. split; [reflexivity|]. cbn [xval]. rewrite Rmin_left by lra. rewrite Rmax_right by lra. reflexivity.
  - (* infinity *)
    destruct s.
    + assert (Hi : Bltb (B754_infinity true) lo = true) by (destruct lo as [sl|sl| |sl ml el Hl]; try discriminate Flo; reflexivity).
      rewrite Hi, Hhl. eexists; split; [reflexivity|]. split; [exact Flo|]. cbn [xval].
      rewrite Rmin_left by lra. rewrite Rmax_left by lra. reflexivity.
    + assert (Hi : Bltb (B754_infinity false) lo = false) by (destruct lo as [sl|sl| |sl ml el Hl]; try discriminate Flo; reflexivity).
      assert (Hj : Bltb hi (B754_infinity false) = true) by (destruct hi as [sl|sl| |sl ml el Hl]; try discriminate Fhi; reflexivity).
      rewrite Hi, Hj. eexists; split; [reflexivity|]. split; [exact Fhi|]. cbn [xval].
      rewrite Rmin_right by lra. rewrite Rmax_right by lra. reflexivity.
  - (* finite *)
    rewrite (Bltb_correct 24 128 (B754_finite s mm e Hb) lo eq_refl Flo).
    destruct (Rlt_bool_spec (R32 (B754_finite s mm e Hb)) (R32 lo)) as [H1|H1].
    + rewrite Hhl. eexists; split; [reflexivity|]. split; [exact Flo|]. cbn [xval].
      rewrite Rmin_left by lra. rewrite Rmax_left by lra. reflexivity.
    + rewrite (Bltb_correct 24 128 hi (B754_finite s mm e Hb) Fhi eq_refl).
      destruct (Rlt_bool_spec (R32 hi) (R32 (B754_finite s mm e Hb))) as [H2|H2].
      * eexists; split; [reflexivity|]. split; [exact Fhi|]. cbn [xval]. rewrite Rmin_right by lra. rewrite Rmax_right by lra. reflexivity.
      * eexists; split; [reflexivity|]. split; [reflexivity|]. cbn [xval]. rewrite Rmin_left by lra. rewrite Rmax_right by lra. reflexivity.
Qed.



Definition sgn (e : f32) : R := if Bsign e then -1 else 1.

Lemma R_fone : R32 fone = 1.
Proof. cbn. unfold F2R; cbn [Fnum Fexp]. change (IZR (Zpos 8388608)) with (bpow2 23). rewrite <- bpow_plus. reflexivity. Qed.
Lemma R_fi16max : R32 fi16max = 32767.
Proof. cbn. unfold F2R; cbn [Fnum Fexp]. change (bpow2 (-9)) with (/ 512). apply (Rmult_eq_reg_r 512); [|lra]. rewrite Rmult_assoc, Rinv_l by lra. lra. Qed.
Lemma R_fi16min : R32 fi16min = -32768.
Proof. cbn. unfold F2R; cbn [Fnum Fexp]. change (bpow2 (-8)) with (/ 256). apply (Rmult_eq_reg_r 256); [|lra]. rewrite Rmult_assoc, Rinv_l by lra. lra. Qed.

Lemma fsignum_correct (e : f32) : is_finite e = true ->
  is_finite (fsignum e) = true /\ R32 (fsignum e) = sgn e.
Proof.
  intros Fe. unfold fsignum, fis_nan, fsign, sgn. rewrite (finite_not_nan e Fe).
  destruct (Bsign e).
  - split; [reflexivity|]. unfold fneg. rewrite B2R_Bopp, R_fone. reflexivity.
  - split; [reflexivity|]. apply R_fone.
Qed.

(* exact product with +-1 *)
Lemma fmul_sign (o s : f32) (sg : R) : is_finite o = true -> is_finite s = true ->
  R32 s = sg -> (sg = 1 \/ sg = -1) ->
  is_finite (fmul o s) = true /\ R32 (fmul o s) = R32 o * sg.
Proof.
  intros Fo Fs Hs Hsg. unfold fmul.
  generalize (Bmult_correct 24 128 Hprec32 Hemax32 mode_NE o s).
  change (round_mode mode_NE) with ZnearestE. change (SpecFloat.fexp 24 128) with fexp32.
  rewrite Hs.
  assert (Hf : fmt (R32 o * sg)).
  { destruct Hsg as [-> | ->]; [rewrite Rmult_1_r; apply fmt_R32|].
    replace (R32 o * -1) with (- R32 o) by lra. apply generic_format_opp. apply fmt_R32. }
  rewrite (rnd_id _ Hf). rewrite Rlt_bool_true.
  - rewrite Fo, Fs. intros [H1 [H2 _]]. split; [exact H2 | exact H1].
  - generalize (R32_lt_BIG o). unfold BIG. destruct Hsg as [-> | ->]; [rewrite Rmult_1_r; auto|].
    replace (R32 o * -1) with (- R32 o) by lra. rewrite Rabs_Ropp. auto.
Qed.

Record lin_ok (p : linear) : Prop := {
  kp_fin : is_finite (kp p) = true;
  kp_nonneg : 0 <= R32 (kp p);
  off_fin : is_finite (l_offset p) = true;
  off_lo : 0 <= R32 (l_offset p);
  off_hi : R32 (l_offset p) <= 32767 }.

Section Profile.
  Context (p : linear) (Hp : lin_ok p).
  Let K := R32 (kp p).
  Let OFF := R32 (l_offset p).
  Definition LO : R := rnd (-32768 + R32 (l_offset p)).
  Definition HI : R := rnd (32767 - R32 (l_offset p)).
  (* `value` of Linear::update before the final sign flip, as a real number *)
  Definition lu_real (e : f32) : R :=
    rnd (Rmax LO (Rmin (satR (rnd (R32 e * R32 (kp p)))) HI) + R32 (l_offset p) * sgn e).

  Lemma LO_bounds : -32768 <= LO <= -1.
  Proof. destruct Hp. unfold LO. apply (rnd_between (-32768) (-1)); [vm_compute; discriminate..|]. lra. Qed.
  Lemma HI_bounds : 0 <= HI <= 32767.
  Proof. destruct Hp. unfold HI. apply (rnd_between 0 32767); [vm_compute; discriminate..|]. lra. Qed.

  Theorem linear_update_value (e : f32) : is_finite e = true ->
    exists v, linear_update p e = Ok v /\ is_finite v = true
              /\ R32 v = (if l_inverse p then 1 else -1) * lu_real e.
  Proof.
    intros Fe. generalize LO_bounds HI_bounds. intros HLO HHI. destruct Hp as [Fk Hk Fo Ho1 Ho2].
    unfold linear_update.
    destruct (fadd_finite fi16min (l_offset p) eq_refl Fo) as [Rlo Flo].
    { rewrite R_fi16min. fold LO. apply Rabs_lt. assert (bpow2 16 <= bpow2 128) by (apply bpow_le; lia).
      change (bpow2 16) with 65536 in *. lra. }
    destruct (fsub_finite fi16max (l_offset p) eq_refl Fo) as [Rhi Fhi].
    { rewrite R_fi16max. fold HI. apply Rabs_lt. assert (bpow2 16 <= bpow2 128) by (apply bpow_le; lia).
      change (bpow2 16) with 65536 in *. lra. }
    rewrite R_fi16min in Rlo. rewrite R_fi16max in Rhi. fold LO in Rlo. fold HI in Rhi.
    destruct (fmul_xval e (kp p) Fe Fk Hk) as [Nm Xm].
    destruct (fclamp_xval _ _ _ Nm Flo Fhi) as [c [Ec [Fc Rc]]]; [rewrite Rlo, Rhi; lra|].
    rewrite Ec. cbn [obind]. rewrite Rlo, Rhi, Xm in Rc.
    destruct (fsignum_correct e Fe) as [Fs Rs].
    destruct (fmul_sign (l_offset p) (fsignum e) (sgn e) Fo Fs Rs) as [Ft Rt].
    { unfold sgn. destruct (Bsign e); [right|left]; reflexivity. }
    assert (Hc : LO <= R32 c <= HI).
    { rewrite Rc. split; [apply Rmax_l|]. apply Rmax_lub; [lra | apply Rmin_r]. }
    assert (Hsg : -1 <= sgn e <= 1) by (unfold sgn; destruct (Bsign e); lra).
    assert (Hsum : -65535 <= R32 c + R32 (l_offset p) * sgn e <= 65535) by nra.
    destruct (fadd_finite c (fmul (l_offset p) (fsignum e)) Fc Ft) as [Rv Fv].
    { rewrite Rt. apply Rabs_lt. generalize (rnd_between (-65535) 65535 _ ltac:(vm_compute; discriminate) ltac:(vm_compute; discriminate) Hsum).
      assert (bpow2 17 <= bpow2 128) by (apply bpow_le; lia). change (bpow2 17) with 131072 in *. lra. }
    rewrite Rt, Rc in Rv. fold (lu_real e) in Rv.
    destruct (l_inverse p).
    - eexists. split; [reflexivity|]. split; [exact Fv|]. rewrite Rv. lra.
    - eexists. split; [reflexivity|]. split; [unfold fneg; rewrite is_finite_Bopp; exact Fv|].
      unfold fneg. rewrite B2R_Bopp, Rv. lra.
  Qed.
End Profile.



(* numeric order refined by the sign of zero: -0.0 < +0.0 *)
Definition ord_le (x y : f32) : Prop :=
  R32 x < R32 y \/ (R32 x = R32 y /\ (Bsign y = true -> Bsign x = true)).

Lemma sgn_mono (x y : f32) : is_finite x = true -> is_finite y = true -> ord_le x y -> sgn x <= sgn y.
Proof.
  intros Fx Fy H. unfold sgn. destruct (Bsign x) eqn:Sx; destruct (Bsign y) eqn:Sy; try lra.
  exfalso. generalize (Bsign_false_ge0 x Fx Sx) (Bsign_true_le0 y Fy Sy). intros Hx Hy.
  destruct H as [H|[H1 H2]]; [lra|]. specialize (H2 Sy). congruence.
Qed.

(* rounding moves a moderate value by less than one *)
Lemma rnd_within_1 x : Rabs x <= 16777215 -> x - 1 < rnd x < x + 1.
Proof.
  intros Hx. apply Rabs_le_inv in Hx. split.
  - apply Rlt_le_trans with (IZR (Zfloor x)); [generalize (Zfloor_ub x); lra|].
    rewrite <- (rnd_Z (Zfloor x)).
    + apply rnd_le. apply Zfloor_lb.
    + assert (-16777215 <= Zfloor x)%Z by (apply Zfloor_lub; lra).
      assert (Zfloor x <= 16777215)%Z by (apply le_IZR; generalize (Zfloor_lb x); lra). lia.
  - apply Rle_lt_trans with (IZR (Zceil x)).
    + rewrite <- (rnd_Z (Zceil x)).
      * apply rnd_le. apply Zceil_ub.
      * assert (Zceil x <= 16777215)%Z by (apply Zceil_glb; lra).
        assert (-16777215 <= Zceil x)%Z by (apply le_IZR; generalize (Zceil_ub x); lra). lia.
    + unfold Zceil. rewrite opp_IZR. generalize (Zfloor_ub (- x)). lra.
Qed.

Section ProfileReal.
  Context (p : linear) (Hp : lin_ok p).

  Lemma clampX_mono a b : a <= b -> Rmax (LO p) (Rmin a (HI p)) <= Rmax (LO p) (Rmin b (HI p)).
  Proof. intros H. apply Rle_max_compat_l. apply Rle_min_compat_r. exact H. Qed.

  Theorem lu_real_mono (e1 e2 : f32) : is_finite e1 = true -> is_finite e2 = true ->
    ord_le e1 e2 -> lu_real p e1 <= lu_real p e2.
  Proof.
    intros F1 F2 H. destruct Hp as [Fk Hk Fo Ho1 Ho2]. unfold lu_real. apply rnd_le.
    apply Rplus_le_compat.
    - apply clampX_mono. apply satR_mono. apply rnd_le. apply Rmult_le_compat_r; [exact Hk|].
      destruct H as [H|[H _]]; lra.
    - apply Rmult_le_compat_l; [exact Ho1|]. apply sgn_mono; assumption.
  Qed.

  Theorem lu_real_nonneg (e : f32) : is_finite e = true -> Bsign e = false ->
    0 <= lu_real p e <= 32768.
  Proof.
    intros Fe Se. generalize (LO_bounds p Hp) (HI_bounds p Hp). intros HLO HHI. destruct Hp as [Fk Hk Fo Ho1 Ho2].
    unfold lu_real, sgn. rewrite Se. rewrite Rmult_1_r.
    assert (HX : 0 <= satR (rnd (R32 e * R32 (kp p)))).
    { apply satR_nonneg. rewrite <- rnd_0. apply rnd_le. apply Rmult_le_pos; [apply Bsign_false_ge0; assumption | exact Hk]. }
    set (c := Rmax (LO p) (Rmin (satR (rnd (R32 e * R32 (kp p)))) (HI p))).
    assert (Hc : 0 <= c <= HI p).
    { unfold c. split.
      - apply Rle_trans with (2 := Rmax_r _ _). apply Rmin_glb; lra.
      - apply Rmax_lub; [lra | apply Rmin_r]. }
    assert (HH : HI p < 32767 - R32 (l_offset p) + 1).
    { unfold HI. apply rnd_within_1. apply Rabs_le. lra. }
    apply (rnd_between 0 32768); [vm_compute; discriminate..|]. lra.
  Qed.

  Theorem lu_real_nonpos (e : f32) : is_finite e = true -> Bsign e = true ->
    -32769 <= lu_real p e <= 0.
  Proof.
    intros Fe Se. generalize (LO_bounds p Hp) (HI_bounds p Hp). intros HLO HHI. destruct Hp as [Fk Hk Fo Ho1 Ho2].
    unfold lu_real, sgn. rewrite Se.
    assert (HX : satR (rnd (R32 e * R32 (kp p))) <= 0).
    { apply satR_nonpos. rewrite <- rnd_0. apply rnd_le.
      generalize (Bsign_true_le0 e Fe Se). intros He. nra. }
    set (c := Rmax (LO p) (Rmin (satR (rnd (R32 e * R32 (kp p)))) (HI p))).
    assert (Hc : LO p <= c <= 0).
    { unfold c. split; [apply Rmax_l|]. apply Rmax_lub; [lra|]. apply Rle_trans with (1 := Rmin_l _ _). exact HX. }
    assert (HL : -32768 + R32 (l_offset p) - 1 < LO p).
    { unfold LO. apply rnd_within_1. apply Rabs_le. lra. }
    apply (rnd_between (-32769) 0); [vm_compute; discriminate..|]. lra.
  Qed.
End ProfileReal.

(* rounding error below 2^15 is at most 2^-10 *)
Lemma ulp_below_2p15 x : Rabs x < bpow2 15 -> ulp radix2 fexp32 x <= bpow2 (-9).
Proof.
  intros H. destruct (Req_dec x 0) as [->|Hx].
  - rewrite ulp_FLT_0 by auto with typeclass_instances. apply bpow_le. lia.
  - rewrite ulp_neq_0 by exact Hx. apply bpow_le. unfold cexp, FLT_exp.
    assert (mag radix2 x <= 15)%Z by (apply mag_le_bpow; assumption). lia.
Qed.
Lemma rnd_err_below_2p15 x : Rabs x < bpow2 15 -> Rabs (rnd x - x) <= bpow2 (-10).
Proof.
  intros H. apply Rle_trans with (/2 * ulp radix2 fexp32 x).
  - apply error_le_half_ulp; auto with typeclass_instances.
  - generalize (ulp_below_2p15 x H). replace (bpow2 (-9)) with (2 * bpow2 (-10)) by (change (-9)%Z with (1 + -10)%Z; rewrite bpow_plus; reflexivity). intros. lra.
Qed.

Lemma pred_m32768 : pred radix2 fexp32 (-32768) = - (32768 + bpow2 (-8)).
Proof.
  change (IZR (-32768)) with (- IZR 32768). rewrite pred_opp. f_equal. rewrite succ_eq_pos by lra.
  rewrite ulp_neq_0 by lra. unfold cexp.
  rewrite (mag_unique radix2 32768 16).
  - unfold FLT_exp. change (Z.max (16 - 24) (-149)) with (-8)%Z. reflexivity.
  - rewrite Rabs_pos_eq by lra. change (bpow2 (16 - 1)) with 32768. change (bpow2 16) with 65536. lra.
Qed.

(* a value at most 2^-10 below -32768 rounds to at least -32768 *)
Lemma rnd_ge_m32768 g : -32768 - bpow2 (-10) <= g -> -32768 <= rnd g.
Proof.
  intros H. apply round_N_ge_midp; auto with typeclass_instances.
  - apply (fmt_Z (-32768)). vm_compute. discriminate.
  - rewrite pred_m32768. assert (bpow2 (-10) < bpow2 (-9)) by (apply bpow_lt; lia).
    replace (bpow2 (-8)) with (2 * bpow2 (-9)) by (change (-8)%Z with (1 + -9)%Z; rewrite bpow_plus; reflexivity). lra.
Qed.

Section Tight.
  Context (p : linear) (Hp : lin_ok p).
  Theorem lu_real_ge_m32768 (e : f32) : is_finite e = true -> -32768 <= lu_real p e.
  Proof.
    intros Fe. generalize (LO_bounds p Hp) (HI_bounds p Hp). intros HLO HHI.
    destruct (Bsign e) eqn:Se.
    2:{ generalize (lu_real_nonneg p Hp e Fe Se). lra. }
    generalize Hp. intros [Fk Hk Fo Ho1 Ho2].
    unfold lu_real, sgn. rewrite Se.
    set (c := Rmax (LO p) (Rmin (satR (rnd (R32 e * R32 (kp p)))) (HI p))).
    assert (Hc : LO p <= c) by (unfold c; apply Rmax_l).
    apply rnd_ge_m32768.
    destruct (Req_dec (R32 (l_offset p)) 0) as [Z0|Z0].
    - (* offset 0: LO = -32768 exactly *)
      assert (HL : LO p = -32768).
      { unfold LO. rewrite Z0, Rplus_0_r. apply (rnd_Z (-32768)). vm_compute. discriminate. }
      assert (0 < bpow2 (-10)) by apply bpow_gt_0. rewrite Z0. lra.
    - assert (HL : Rabs (LO p - (-32768 + R32 (l_offset p))) <= bpow2 (-10)).
      { unfold LO. apply rnd_err_below_2p15. change (bpow2 15) with 32768. apply Rabs_lt. lra. }
      apply Rabs_le_inv in HL. lra.
  Qed.
End Tight.

Lemma lu_sign_range p : lin_ok p -> forall e : f32, is_finite e = true ->
  (Bsign e = false -> 0 <= lu_real p e <= 32768) /\ (Bsign e = true -> -32768 <= lu_real p e <= 0).
Proof.
  intros Hp e Fe. split; [apply lu_real_nonneg; assumption|]. intros Se.
  generalize (lu_real_nonpos p Hp e Fe Se) (lu_real_ge_m32768 p Hp e Fe). lra.
Qed.
