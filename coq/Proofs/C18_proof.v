From Coq Require Import ZArith List Bool Lia ZifyBool.
Import ListNotations.
Require Import GV.Gen.Consts GV.Model.Governor GV.Model.Hcu GV.Model.Input GV.Spec.C18_spec.
Local Open Scope Z_scope.
Ltac Zify.zify_post_hook ::= Z.to_euclidean_division_equations.

Ltac split_ifs :=
  repeat match goal with |- context [if ?b then _ else _] => destruct b eqn:? end.

Lemma sat_neg_range v : -32768 <= v < 32768 -> -32767 <= sat_neg v <= 32767.
Proof. unfold sat_neg. intros H. destruct (v =? -32768) eqn:E; lia. Qed.

Lemma trigger_range v : -32767 <= v <= 32767 -> 0 <= trigger v <= 32767.
Proof. unfold trigger. intros H. lia. Qed.

Lemma ramp_cases v l : 0 < l -> (ramp v l = 0 /\ - l < v < l) \/ (ramp v l = v /\ (l <= v \/ v <= - l)).
Proof. intros H. unfold ramp. destruct ((v <? l) && (- l <? v)) eqn:E; [left | right]; lia. Qed.

(* the event value the gamepad maps see *)
Definition evalue (c : c18_case) : Z :=
  match etype_of (i_ty c) with Some TAxis | Some TAxisInit => sat_neg (i_value c) | _ => i_value c end.

(* per scancode: what InputState::try_from produces, for values in the i16 range *)
Lemma input_step_ok s k :
  rpm_ok (engine_rpm s) = true ->
  (match k with
   | KSlew v | KArm v | KAttachment v | KBoom v | KLeftTrack v | KRightTrack v => -32767 <= v <= 32767
   | _ => True end) ->
  out_ok s (snd (input_step s k)) = true /\ rpm_ok (engine_rpm (fst (input_step s k))) = true.
Proof.
  intros Hr Hv. unfold rpm_ok in Hr.
  destruct k as [v|v|v|v|v|v|[|]|[|]|[|]|[|]|[|]|[|]]; cbn [input_step];
    try (destruct (motion_lock s) eqn:ML; cbn [fst snd out_ok]; [split; [reflexivity | unfold rpm_ok; exact Hr]|]).
  all: unfold actuator_Slew, actuator_Arm, actuator_Attachment, actuator_Boom, actuator_LimpLeft, actuator_LimpRight, one.
  - (* slew *) split; [|unfold rpm_ok; exact Hr]. cbn [out_ok]. rewrite ML. unfold deadband, limited_direction. cbn [Z.eqb Pos.eqb orb andb].
    destruct (limit_motion s); [destruct (ramp_cases (half v) 1000 ltac:(lia)) as [[-> H]|[-> H]] | destruct (ramp_cases v 1000 ltac:(lia)) as [[-> H]|[-> H]]];
      unfold half in *; cbn [implb]; lia.
  - (* arm *) split; [|unfold rpm_ok; exact Hr]. cbn [out_ok]. rewrite ML. unfold deadband, limited_direction. cbn [Z.eqb Pos.eqb orb andb].
    destruct (limit_motion s); [destruct (ramp_cases (half v) 1500 ltac:(lia)) as [[-> H]|[-> H]] | destruct (ramp_cases v 1500 ltac:(lia)) as [[-> H]|[-> H]]];
      unfold half in *; cbn [implb]; lia.
  - (* attachment *) split; [|unfold rpm_ok; exact Hr]. cbn [out_ok]. rewrite ML. unfold deadband, limited_direction. cbn [Z.eqb Pos.eqb orb andb].
    destruct (v <? 0) eqn:Neg.
    + destruct (limit_motion s); [destruct (ramp_cases (half v) 2000 ltac:(lia)) as [[-> H]|[-> H]] | destruct (ramp_cases v 2000 ltac:(lia)) as [[-> H]|[-> H]]];
        unfold half in *; cbn [implb]; split_ifs; lia.
    + destruct (ramp_cases v 4000 ltac:(lia)) as [[-> H]|[-> H]]; destruct (limit_motion s); cbn [implb]; split_ifs; lia.
  - (* boom *) split; [|unfold rpm_ok; exact Hr]. cbn [out_ok]. rewrite ML. unfold deadband, limited_direction. cbn [Z.eqb Pos.eqb orb andb].
    destruct (v <? 0) eqn:Neg.
    + destruct (ramp_cases v 3500 ltac:(lia)) as [[-> H]|[-> H]]; destruct (limit_motion s); cbn [implb]; split_ifs; lia.
    + destruct (limit_motion s); [destruct (ramp_cases (half v) 1750 ltac:(lia)) as [[-> H]|[-> H]] | destruct (ramp_cases v 1750 ltac:(lia)) as [[-> H]|[-> H]]];
        unfold half in *; cbn [implb]; split_ifs; lia.
  - (* left track *) split; [|unfold rpm_ok; exact Hr]. destruct (drive_lock s); cbn [out_ok]; rewrite ML;
      unfold deadband, limited_direction; cbn [Z.eqb Pos.eqb orb andb];
      destruct (ramp_cases v 2000 ltac:(lia)) as [[-> H]|[-> H]]; destruct (limit_motion s); cbn [implb]; lia.
  - (* right track *) split; [|unfold rpm_ok; exact Hr]. destruct (drive_lock s); cbn [out_ok]; rewrite ML;
      unfold deadband, limited_direction; cbn [Z.eqb Pos.eqb orb andb];
      destruct (ramp_cases v 2000 ltac:(lia)) as [[-> H]|[-> H]]; destruct (limit_motion s); cbn [implb]; lia.
  - (* abort pressed *) cbn [fst snd out_ok engine_rpm]. split; [destruct (motion_lock s); reflexivity | unfold rpm_ok; exact Hr].
  - cbn [fst snd out_ok engine_rpm]. split; [destruct (motion_lock s); reflexivity | unfold rpm_ok; exact Hr].
  - split; [reflexivity | unfold rpm_ok; exact Hr].
  - split; [reflexivity | unfold rpm_ok; exact Hr].
  - cbn [fst snd out_ok engine_rpm]. split; [reflexivity | unfold rpm_ok; exact Hr].
  - cbn [fst snd out_ok engine_rpm]. split; [destruct (motion_lock s); reflexivity | unfold rpm_ok; exact Hr].
  - cbn [fst snd out_ok engine_rpm]. split; [reflexivity | unfold rpm_ok; exact Hr].
  - cbn [fst snd out_ok engine_rpm]. split; [reflexivity | unfold rpm_ok; exact Hr].
  - (* up pressed *) destruct (negb (motion_lock s)); cbn [fst snd out_ok engine_rpm]; [split; [reflexivity | unfold rpm_ok; exact Hr]|].
    unfold clamp_rpm, rpm_ok. split; lia.
  - split; [reflexivity | unfold rpm_ok; exact Hr].
  - (* down pressed *) destruct (engine_rpm s <=? 900) eqn:E; cbn [fst snd out_ok engine_rpm]; unfold clamp_rpm, rpm_ok; split; lia.
  - split; [reflexivity | unfold rpm_ok; exact Hr].
Qed.

(* what the gamepad maps produce stays inside the i16 range *)
Lemma gp_map_range m g e : (ev_ty e = TAxis -> -32767 <= ev_val e <= 32767) ->
  match snd (gp_map m g e) with
  | Some (KSlew v) | Some (KArm v) | Some (KAttachment v) | Some (KBoom v) | Some (KLeftTrack v) | Some (KRightTrack v) => -32767 <= v <= 32767
  | _ => True end.
Proof.
  intros Ha. destruct e as [t n v]. cbn [ev_val ev_ty] in Ha.
  destruct m; cbn [gp_map ev_ty ev_num ev_val]; destruct t; try exact I; try specialize (Ha eq_refl);
    split_ifs; cbn [snd]; try exact I; try lia;
    try (pose proof (trigger_range v Ha); lia);
    try (unfold ramp, half; split_ifs; lia).
Qed.

(* pressing Abort always yields stop-all and engages the motion lock, in every mode and state *)
Lemma abort_press m g s num v :
  num = 1 -> v = 1 ->
  let e := {| ev_ty := TButton; ev_num := num; ev_val := v |} in
  snd (gp_map m g e) = Some (KAbort Pressed)
  /\ snd (input_step s (KAbort Pressed)) = Some (IMotion StopAll)
  /\ motion_lock (fst (input_step s (KAbort Pressed))) = true.
Proof. intros -> ->. destruct m; repeat split; reflexivity. Qed.

(* records carrying the init flag map to no input code in any mode *)
Lemma gp_map_init m g e : ev_ty e = TButtonInit \/ ev_ty e = TAxisInit -> snd (gp_map m g e) = None.
Proof. destruct e as [t n v]. cbn [ev_ty]. intros [-> | ->]; destruct m; reflexivity. Qed.
Lemma init_type ty t : etype_of ty = Some t -> (128 <=? ty) = true -> t = TButtonInit \/ t = TAxisInit.
Proof.
  unfold etype_of. intros H Hge. apply Z.leb_le in Hge.
  destruct (ty =? 1) eqn:E1; [lia|]. destruct (ty =? 2) eqn:E2; [lia|].
  destruct (ty =? 129); [injection H as <-; left; reflexivity|]. destruct (ty =? 130); [injection H as <-; right; reflexivity | discriminate].
Qed.

(* the limiting flag follows the override button alone *)
Lemma input_step_limit s k :
  limit_motion (fst (input_step s k)) =
  match k with KLimitMotion Pressed => false | KLimitMotion Released => true | _ => limit_motion s end.
Proof.
  destruct k as [v|v|v|v|v|v|[|]|[|]|[|]|[|]|[|]|[|]]; cbn [input_step];
    repeat match goal with |- context [if ?b then _ else _] => destruct b eqn:? end; cbn [fst limit_motion]; try reflexivity; congruence.
Qed.

Theorem c18_holds : forall c, c18_wf c = true -> c18_spec_ok c (c18_model c) = true.
Proof.
  intros [m d ty num v] Hwf. unfold c18_wf in Hwf. cbn [i_mode i_state i_ty i_num i_value] in Hwf.
  repeat (apply andb_prop in Hwf as [Hwf ?]).
  unfold c18_model, daemon_step, decode_event. cbn [i_mode i_state i_ty i_num i_value].
  destruct (etype_of ty) as [t|] eqn:Et; [|discriminate].
  set (e := {| ev_ty := t; ev_num := num; ev_val := match t with TAxis | TAxisInit => sat_neg v | _ => v end |}).
  assert (Hrange : ev_ty e = TAxis -> -32767 <= ev_val e <= 32767).
  { subst e. cbn [ev_val ev_ty]. intros ->. apply sat_neg_range. lia. }
  pose proof (gp_map_range m (d_pad d) e Hrange) as Hk.
  destruct (gp_map m (d_pad d) e) as [g k] eqn:Gm. cbn [snd] in Hk.
  unfold c18_spec_ok. cbn [i_state i_ty i_num i_value].
  destruct k as [code|].
  - destruct (input_step_ok (d_in d) code Hwf) as [Ho Hr].
    { destruct code; try exact I; exact Hk. }
    destruct (input_step (d_in d) code) as [s' o] eqn:Is. cbn [fst snd d_in] in *.
    rewrite Ho, Hr. cbn [andb]. apply andb_true_intro. split; [apply andb_true_intro; split|].
    3: { (* the limiting flag *)
      unfold limit_after, decode_event. cbn [i_mode i_state i_ty i_num i_value]. rewrite Et.
      subst e. rewrite Gm. cbn [snd].
      pose proof (input_step_limit (d_in d) code) as Hl. rewrite Is in Hl. cbn [fst] in Hl. rewrite Hl.
      destruct code as [x|x|x|x|x|x|[|]|[|]|[|]|[|]|[|]|[|]]; apply Bool.eqb_reflx. }
    + unfold is_abort_press. cbn [i_ty i_num i_value].
      destruct ((ty =? 1) && (num =? 1) && (v =? 1)) eqn:Ab; [|reflexivity]. cbn [implb].
      assert (ty = 1 /\ num = 1 /\ v = 1) as (-> & -> & ->) by lia.
      cbn in Et. injection Et as <-. subst e.
      destruct (abort_press m (d_pad d) (d_in d) 1 1 eq_refl eq_refl) as (A1 & A2 & A3).
      rewrite Gm in A1. cbn [snd] in A1. injection A1 as ->. rewrite Is in A2, A3. cbn [fst snd] in *. subst o. exact A3.
    + destruct (128 <=? ty) eqn:Hi; [|reflexivity]. exfalso.
      pose proof (gp_map_init m (d_pad d) e) as Gi. subst e. cbn [ev_ty] in Gi.
      rewrite Gm in Gi. cbn [snd] in Gi. specialize (Gi (init_type ty t Et Hi)). discriminate Gi.
  - cbn [out_ok d_in]. rewrite Hwf. cbn [andb]. apply andb_true_intro. split; [apply andb_true_intro; split;
      [|destruct (128 <=? ty); destruct (motion_lock (d_in d)); reflexivity] |].
    2: { unfold limit_after, decode_event. cbn [i_mode i_state i_ty i_num i_value]. rewrite Et.
         subst e. rewrite Gm. cbn [snd]. apply Bool.eqb_reflx. }
    unfold is_abort_press. cbn [i_ty i_num i_value].
    destruct ((ty =? 1) && (num =? 1) && (v =? 1)) eqn:Ab; [|reflexivity]. exfalso.
    assert (ty = 1 /\ num = 1 /\ v = 1) as (-> & -> & ->) by lia.
    cbn in Et. injection Et as <-. subst e.
    destruct (abort_press m (d_pad d) (d_in d) 1 1 eq_refl eq_refl) as (A1 & _).
    rewrite Gm in A1. discriminate.
Qed.

(* the invariant on the engine request survives every record, so it holds along every sequence *)
Theorem c18_invariant_sequences : forall m evs d,
  rpm_ok (engine_rpm (d_in d)) = true ->
  Forall (fun r => let '(ty, num, v) := r in -32768 <= v < 32768 /\ 0 <= num < 256 /\ etype_of ty <> None) evs ->
  rpm_ok (engine_rpm (d_in (fold_left (fun d r => let '(ty, num, v) := r in
                                          match daemon_step m d ty num v with Some (d', _) => d' | None => d end) evs d))) = true.
Proof.
  intros m evs. induction evs as [|[[ty num] v] evs IH]; intros d Hd Hall; [exact Hd|].
  inversion Hall as [|? ? Hx Hall']; subst. cbn beta iota in Hx. destruct Hx as (Hv & Hn & Ht). cbn [fold_left]. apply IH; [|exact Hall'].
  pose proof (c18_holds {| i_mode := m; i_state := d; i_ty := ty; i_num := num; i_value := v |}) as H.
  unfold c18_wf, c18_model, c18_spec_ok in H. cbn [i_mode i_state i_ty i_num i_value] in H.
  destruct (etype_of ty) eqn:E; [|congruence].
  assert (W : rpm_ok (engine_rpm (d_in d)) && (-32768 <=? v) && (v <? 32768) && (0 <=? num) && (num <? 256) && true = true) by (rewrite Hd; lia).
  specialize (H W). destruct (daemon_step m d ty num v) as [[d' o]|]; [|exact Hd].
  apply andb_prop in H as [H _]. apply andb_prop in H as [H _]. apply andb_prop in H as [H _]. apply andb_prop in H as [_ H]. exact H.
Qed.

(* the command-line client: the six words in any letter case, nothing else *)
Theorem word_bool_cases : forall w, word_bool w = Some true \/ word_bool w = Some false \/ word_bool w = None.
Proof. intros w. destruct (word_bool w) as [[|]|]; auto. Qed.

Theorem word_bool_true_iff : forall w, word_bool w = Some true <->
  map lower w = [49] \/ map lower w = [111; 110] \/ map lower w = [116; 114; 117; 101].
Proof.
  intros w. unfold word_bool.
  destruct (list_eq_dec Z.eq_dec (map lower w) [49]) as [E1|E1]; [split; auto|].
  destruct (list_eq_dec Z.eq_dec (map lower w) [111; 110]) as [E2|E2]; [split; auto|].
  destruct (list_eq_dec Z.eq_dec (map lower w) [116; 114; 117; 101]) as [E3|E3]; [split; auto|].
  cbn [orb]. split.
  - repeat match goal with |- context [if ?b then _ else _] => destruct b end; discriminate.
  - intros [H|[H|H]]; congruence.
Qed.

Theorem word_bool_false_iff : forall w, word_bool w = Some false <->
  map lower w = [48] \/ map lower w = [111; 102; 102] \/ map lower w = [102; 97; 108; 115; 101].
Proof.
  intros w. unfold word_bool.
  destruct (list_eq_dec Z.eq_dec (map lower w) [49]) as [E1|E1]; [split; [discriminate | intros [H|[H|H]]; congruence]|].
  destruct (list_eq_dec Z.eq_dec (map lower w) [111; 110]) as [E2|E2]; [split; [discriminate | intros [H|[H|H]]; congruence]|].
  destruct (list_eq_dec Z.eq_dec (map lower w) [116; 114; 117; 101]) as [E3|E3]; [split; [discriminate | intros [H|[H|H]]; congruence]|].
  cbn [orb].
  destruct (list_eq_dec Z.eq_dec (map lower w) [48]) as [F1|F1]; [split; auto|].
  destruct (list_eq_dec Z.eq_dec (map lower w) [111; 102; 102]) as [F2|F2]; [split; auto|].
  destruct (list_eq_dec Z.eq_dec (map lower w) [102; 97; 108; 115; 101]) as [F3|F3]; [split; auto|].
  cbn [orb]. split; [discriminate | intros [H|[H|H]]; congruence].
Qed.
