From Coq Require Import ZArith List Bool Lia ZifyBool.
Import ListNotations.
Require Import GV.Gen.Consts GV.Model.Hcu GV.Model.Packets GV.Proofs.Cursor GV.Proofs.C13_total GV.Proofs.C13_roundtrip.
Local Open Scope Z_scope.

(* the protocol bounds of the property: at most 32 change sets, strings up to 255 bytes
   (a session name is at most 64 characters = 256 bytes) *)
Definition in_bounds (p : packet) : Prop :=
  match p with
  | PSession _ n => lenb n <= 256
  | PInstance id _ _ _ _ model serial => length id = 16%nat /\ lenb model <= 255 /\ lenb serial <= 255
  | PStatus n _ _ => lenb n <= 255
  | PMotion (Change cs) => (length cs <= 32)%nat
  | PGnss w _ _ => length w = 5%nat
  | PTarget w _ => length w = 6%nat
  | PRotator _ w _ => length w = 3%nat
  | PActor n segs => lenb n <= 255 /\ Forall (fun s => lenb (fst s) <= 255 /\ length (snd s) = 6%nat) segs
  | _ => True
  end.

Lemma lenb_words ws : lenb (flat_map be32 ws) = 4 * lenb ws.
Proof.
  induction ws as [|w ws IH]; [reflexivity|]. cbn [flat_map]. rewrite lenb_app, IH, lenb_cons.
  change (lenb (be32 w)) with 4. lia.
Qed.

Lemma lenb_changes cs : lenb (flat_map (fun e : Z * Z => be16 (fst e) ++ be16 (snd e mod 65536)) cs) = 4 * Z.of_nat (length cs).
Proof.
  induction cs as [|e cs IH]; [reflexivity|]. cbn [flat_map length]. rewrite lenb_app, IH, lenb_app, !lenb_be16. lia.
Qed.

Lemma lenb_segs segs : Forall (fun s => lenb (fst s) <= 255 /\ length (snd s) = 6%nat) segs ->
  lenb (flat_map (fun s : list Z * list Z => be16 (lenb (fst s)) ++ fst s ++ flat_map be32 (snd s)) segs)
  <= 281 * Z.of_nat (length segs).
Proof.
  induction 1 as [|s segs [Hn Hw] _ IH]; [cbn; lia|].
  cbn [flat_map length]. rewrite !lenb_app, lenb_be16, lenb_words. unfold lenb at 2. rewrite Hw. lia.
Qed.

(* every object within the protocol bounds encodes to at most 1024 payload bytes — for an Actor
   this needs at most two segments; the general Actor case is FALSE (see actor_size_refuted) *)
Theorem size_bound : forall p, in_bounds p ->
  (forall n segs, p = PActor n segs -> (length segs <= 2)%nat) ->
  lenb (enc_payload p) <= 1024.
Proof.
  intros p H Ha. destruct p; cbn [in_bounds enc_payload] in *;
    try (destruct err); try (destruct m; cbn [enc_motion_payload in_bounds] in * );
    repeat (rewrite lenb_app || rewrite lenb_cons || rewrite lenb_nil || rewrite lenb_be16 || rewrite lenb_words || rewrite lenb_changes);
    try (destruct H as (Hn & Hs); pose proof (lenb_segs segs Hs); specialize (Ha name segs eq_refl));
    unfold lenb in *; lia.
Qed.

(* a three-segment actor with 255-byte names is within the stated bounds and representable, yet
   its payload has 1101 bytes: send_packet has no guard, the receiver rejects the frame *)
Definition big_name : list Z := repeat 65 255.
Definition big_actor : packet :=
  PActor big_name [(big_name, [0;0;0;0;0;0]); (big_name, [0;0;0;0;0;0]); (big_name, [0;0;0;0;0;0])].

Theorem actor_size_refuted : pwf big_actor /\ in_bounds big_actor /\ lenb (enc_payload big_actor) = 1101.
Proof.
  split; [|split].
  - cbn [pwf big_actor]. split; [vm_compute; split; [discriminate | reflexivity]|]. split; [cbn; lia|].
    repeat constructor; vm_compute; try discriminate; try reflexivity.
  - cbn [in_bounds big_actor]. split; [vm_compute; discriminate|].
    repeat constructor; vm_compute; try discriminate; reflexivity.
  - vm_compute. reflexivity.
Qed.

(* the exact size of an Actor payload: 3 + |name| + sum over segments of (26 + |segment name|);
   hence the 1024-byte limit holds exactly when that sum allows it — K01 is every Actor beyond *)
Definition seg_cost (s : list Z * list Z) : Z := 26 + lenb (fst s).
Lemma lenb_segs_exact segs : Forall (fun s => length (snd s) = 6%nat) segs ->
  lenb (flat_map (fun s : list Z * list Z => be16 (lenb (fst s)) ++ fst s ++ flat_map be32 (snd s)) segs)
  = fold_right (fun s acc => seg_cost s + acc) 0 segs.
Proof.
  induction 1 as [|s segs Hw _ IH]; [reflexivity|].
  cbn [flat_map fold_right]. rewrite !lenb_app, lenb_be16, lenb_words, IH. unfold seg_cost, lenb at 2. rewrite Hw. lia.
Qed.
Theorem actor_size_exact n segs : Forall (fun s => length (snd s) = 6%nat) segs -> (length segs < 256)%nat ->
  lenb (enc_payload (PActor n segs)) = 3 + lenb n + fold_right (fun s acc => seg_cost s + acc) 0 segs.
Proof.
  intros Hs Hl. cbn [enc_payload]. rewrite !lenb_app, lenb_be16, lenb_cons, lenb_nil, (lenb_segs_exact segs Hs). lia.
Qed.
