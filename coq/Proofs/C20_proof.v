From Coq Require Import ZArith List Bool Lia ZifyBool.
Import ListNotations.
Require Import GV.Gen.Consts GV.Model.Outcome GV.Model.J1939 GV.Model.Governor GV.Model.Hcu GV.Model.Object
  GV.Model.HcuUnit GV.Model.Units GV.Model.Volvo GV.Model.CanNet GV.Model.Authority GV.Model.Auth_io GV.Spec.C20_spec.
Local Open Scope Z_scope.
Ltac Zify.zify_post_hook ::= Z.div_mod_to_equations.

(* the NAME on the wire is the little-endian image of the J1939-81 bit layout *)
Theorem name_layout : forall n, name_in_range n = true -> name_bytes n = le64 (name_value n).
Proof.
  intros [mfr fi ecu fn vs vsi ig] H. unfold name_in_range in H. cbn [n_mfr n_finst n_ecu n_func n_vs n_vsi n_ig] in H.
  repeat (apply andb_prop in H as [H ?]).
  unfold name_bytes, le64, name_value. cbn [n_mfr n_finst n_ecu n_func n_vs n_vsi n_ig map].
  change (2 ^ (8 * 0)) with 1; change (2 ^ (8 * 1)) with 256; change (2 ^ (8 * 2)) with 65536;
  change (2 ^ (8 * 3)) with 16777216; change (2 ^ (8 * 4)) with 4294967296; change (2 ^ (8 * 5)) with 1099511627776;
  change (2 ^ (8 * 6)) with 281474976710656; change (2 ^ (8 * 7)) with 72057594037927936.
  repeat (f_equal; try lia).
Qed.

(* Name::from_bytes (Name::to_bytes n) = n, field by field *)
(* ... and for EVERY value the configuration types admit: what reaches the wire is the layout of the fields reduced to
   their widths - a wide value never spills into a neighbouring field *)
Lemma name_norm_in_range n : name_in_range (name_norm n) = true.
Proof.
  destruct n as [mfr fi ecu fn vs vsi ig]. unfold name_in_range, name_norm. cbn [n_mfr n_finst n_ecu n_func n_vs n_vsi n_ig].
  pose proof (Z.mod_pos_bound mfr 2048 ltac:(lia)). pose proof (Z.mod_pos_bound fi 32 ltac:(lia)).
  pose proof (Z.mod_pos_bound ecu 8 ltac:(lia)). pose proof (Z.mod_pos_bound fn 256 ltac:(lia)).
  pose proof (Z.mod_pos_bound vs 128 ltac:(lia)). pose proof (Z.mod_pos_bound vsi 16 ltac:(lia)).
  pose proof (Z.mod_pos_bound ig 8 ltac:(lia)). lia.
Qed.
Lemma name_bytes_norm n : name_bytes n = name_bytes (name_norm n).
Proof.
  destruct n as [mfr fi ecu fn vs vsi ig]. unfold name_bytes, name_norm. cbn [n_mfr n_finst n_ecu n_func n_vs n_vsi n_ig].
  rewrite !Z.mod_mod by lia.
  replace ((vs mod 128 * 2) mod 256) with ((vs * 2) mod 256) by lia.
  reflexivity.
Qed.
Theorem name_layout_any : forall n, name_bytes n = le64 (name_value (name_norm n)).
Proof. intros n. rewrite name_bytes_norm. apply name_layout. apply name_norm_in_range. Qed.

Theorem name_roundtrip : forall n, name_in_range n = true ->
  match name_bytes n with
  | [b0; b1; b2; b3; b4; b5; b6; b7] =>
      b0 + 256 * b1 + 65536 * (b2 mod 32) = 1
      /\ b2 / 32 + 8 * b3 = n_mfr n /\ b4 / 8 = n_finst n /\ b4 mod 8 = n_ecu n /\ b5 = n_func n
      /\ b6 / 2 = n_vs n /\ b7 mod 16 = n_vsi n /\ (b7 / 16) mod 8 = n_ig n /\ b7 / 128 = 0
  | _ => False end.
Proof.
  intros [mfr fi ecu fn vs vsi ig] H. unfold name_in_range in H. cbn [n_mfr n_finst n_ecu n_func n_vs n_vsi n_ig] in H.
  repeat (apply andb_prop in H as [H ?]).
  unfold name_bytes. cbn [n_mfr n_finst n_ecu n_func n_vs n_vsi n_ig]. repeat split; lia.
Qed.

(* the driven units are exactly the known entries, in order, with their configured unit address and
   the network's or the overridden source address *)
Theorem units_exact : forall now addr n cs,
  map (fun it => (kind_key (i_kind it), u_da (i_cfg it), u_sa (i_cfg it))) (a_items (auth_new now addr n cs))
  = flat_map (fun d => match kind_of_key (c_key d) with
                       | Some _ => [(c_key d, c_da d, match c_sa d with Some s => s | None => addr end)]
                       | None => [] end) cs.
Proof.
  intros now addr n cs. unfold auth_new. cbn [a_items].
  induction cs as [|d cs IH]; [reflexivity|]. cbn [filter_map flat_map]. unfold new_item at 1.
  destruct (kind_of_key (c_key d)) as [k|] eqn:K; [|exact IH].
  cbn [map app i_kind i_cfg u_da u_sa]. rewrite IH. f_equal. f_equal. f_equal.
  unfold kind_of_key in K.
  repeat match type of K with (if ?b then _ else _) = _ => destruct b eqn:? end; inversion K; subst; cbn [kind_key]; lia.
Qed.

(* an unknown entry anywhere in the list does not disturb the others *)
Theorem unknown_skipped : forall now addr n cs1 d cs2, kind_of_key (c_key d) = None ->
  a_items (auth_new now addr n (cs1 ++ d :: cs2)) = a_items (auth_new now addr n (cs1 ++ cs2)).
Proof.
  intros now addr n cs1 d cs2 H. unfold auth_new. cbn [a_items].
  induction cs1 as [|c cs1 IH]; cbn [app filter_map].
  - unfold new_item at 1. rewrite H. reflexivity.
  - rewrite IH. reflexivity.
Qed.

(* every setup request is addressed to the unit and sent from the daemon's (or overridden) address *)
Theorem setup_addressing : forall k u f, 0 <= u_da u < 256 -> 0 <= u_sa u < 256 ->
  In f (setup_frames k u) -> id_pgn (f_id f) = PGN_REQUEST -> id_da (f_id f) = Some (u_da u) /\ id_sa (f_id f) = u_sa u.
Proof.
  intros k u f Hd Hs Hin Hp.
  assert (R : forall p, id_da (f_id (request_frame (u_da u) (u_sa u) p)) = Some (u_da u)
                        /\ id_sa (f_id (request_frame (u_da u) (u_sa u) p)) = u_sa u).
  { intro p. unfold request_frame, id_build, id_da, id_sa, id_is_pdu1, id_pf, id_ps, PGN_REQUEST. cbn [f_id].
    replace (Z.min 6 7) with 6 by reflexivity.
    assert (E : ((6 * 67108864 + 59904 * 256 + u_sa u) / 65536) mod 256 <? 240 = true) by lia. rewrite E.
    assert (E2 : (((6 * 67108864 + 59904 * 256 + u_sa u + u_da u * 256) mod 536870912) / 65536) mod 256 <? 240 = true) by lia.
    rewrite E2. split; [f_equal|]; lia. }
  destruct k; cbn [setup_frames In] in Hin;
    repeat (destruct Hin as [Hin|Hin]; [subst f; try apply R|]); try contradiction.
  all: exfalso; revert Hp; unfold reset_frame, ident_frame, motion_config_frame, id_build, id_pgn, id_is_pdu1, id_pf, id_ps,
         PGN_PCM3, PGN_PCM1, PGN_REQUEST; cbn [f_id];
       replace (Z.min 3 7) with 3 by reflexivity; replace (Z.min 6 7) with 6 by reflexivity; intros Hp;
       repeat match type of Hp with context [if ?b then _ else _] => destruct b eqn:? end; lia.
Qed.

(* requests: answered exactly when addressed to us for address claim, software id or time/date *)
Theorem responds_iff : forall a f,
  auth_request_reply a f <> [] <->
  id_da (f_id f) = Some (a_addr a)
  /\ (requested_pgn (f_data f) = PGN_ADDRESS_CLAIMED \/ requested_pgn (f_data f) = PGN_SOFTWARE_IDENT \/ requested_pgn (f_data f) = PGN_TIME_DATE).
Proof.
  intros a f. unfold auth_request_reply. destruct (id_da (f_id f)) as [d|]; [|split; [congruence | intros [H _]; discriminate]].
  destruct (d =? a_addr a) eqn:E.
  - assert (d = a_addr a) by lia. subst d.
    destruct (requested_pgn (f_data f) =? PGN_ADDRESS_CLAIMED) eqn:E1; [split; [intros _; split; [reflexivity | left; lia] | discriminate]|].
    destruct (requested_pgn (f_data f) =? PGN_SOFTWARE_IDENT) eqn:E2; [split; [intros _; split; [reflexivity | right; left; lia] | discriminate]|].
    destruct (requested_pgn (f_data f) =? PGN_TIME_DATE) eqn:E3; [split; [intros _; split; [reflexivity | right; right; lia] | discriminate]|].
    split; [congruence | intros [_ [H|[H|H]]]; lia].
  - split; [congruence | intros [H _]; injection H as ->; lia].
Qed.

(* cloning the authority looks every driver up again by its own vendor()/product(): each driver's
   strings must be a key of the factory that yields the same driver *)
Theorem factory_consistent :
  forallb (fun r => match find (fun t => (if list_eq_dec Z.eq_dec (fst (fst t)) (snd (fst r)) then true else false)
                                          && (if list_eq_dec Z.eq_dec (snd (fst t)) (snd r) then true else false)) factory_table with
                    | Some t => snd t =? fst (fst r)
                    | None => false end) driver_names = true.
Proof. vm_compute. reflexivity. Qed.
