(* C10 when the interface refuses writes during control cycles: the published statuses are those of the
   same history with working cycles, so the property holds for them as well. *)
From Coq Require Import ZArith List Bool Lia.
Import ListNotations.
Require Import GV.Model.Authority GV.Model.Auth_io GV.Model.C01a_io GV.Model.C10_io GV.Spec.C10_spec
  GV.Proofs.C01_auth GV.Proofs.C10_names.
Local Open Scope Z_scope.

Lemma frun_sigs : forall fe a now,
  map as_sigs (frun a now fe) = map as_sigs (arun a now (map ferase fe)).
Proof.
  induction fe as [|e t IH]; intros a now; [reflexivity|].
  cbn [map frun]. rewrite arun_astep1.
  destruct e as [e|]; cbn [fstep ferase].
  - destruct (astep1 a now e) as [[a' now'] s]. cbn [map]. f_equal. apply IH.
  - destruct (astep1 a now ATick) as [[a' now'] s]. cbn [map as_sigs]. f_equal. apply IH.
Qed.

Lemma c10_obs_sigs e s s' : as_sigs s = as_sigs s' -> c10_obs_of e s = c10_obs_of e s'.
Proof. intros H. unfold c10_obs_of. rewrite H. reflexivity. Qed.

Lemma combine_obs_sigs : forall evs st st',
  map as_sigs st = map as_sigs st' ->
  map (fun p => c10_obs_of (fst p) (snd p)) (combine evs st)
  = map (fun p => c10_obs_of (fst p) (snd p)) (combine evs st').
Proof.
  induction evs as [|e evs IH]; intros st st' H; [reflexivity|].
  destruct st as [|s st]; destruct st' as [|s' st']; cbn [map] in H; try discriminate; [reflexivity|].
  injection H as H1 H2. cbn [combine map fst snd]. rewrite (c10_obs_sigs e s s' H1). f_equal. apply IH, H2.
Qed.

Lemma c10_spec_sigs c st st' :
  map as_sigs st = map as_sigs st' -> c10_spec_ok c st = c10_spec_ok c st'.
Proof.
  intros H. unfold c10_spec_ok. rewrite (combine_obs_sigs _ _ _ H).
  assert (L : length st = length st') by (rewrite <- (map_length as_sigs st), H, map_length; reflexivity).
  rewrite L. reflexivity.
Qed.

Theorem c10_under_write_failures : forall c fe,
  ac_events c = map ferase fe -> c10_wf c = true -> c10_spec_ok c (fmodel c fe) = true.
Proof.
  intros c fe He Hwf. rewrite (c10_spec_sigs c _ (amodel c)).
  - apply c10_holds_all, Hwf.
  - unfold fmodel, amodel. rewrite He. apply frun_sigs.
Qed.
