From Coq Require Import ZArith List Bool Lia ZifyBool.
Import ListNotations.
Require Import GV.Gen.Consts GV.Model.Director GV.Spec.C09_spec.
Local Open Scope Z_scope.

Lemma dcmd_eqb_refl c : dcmd_eqb c c = true.
Proof. destruct c as [k [|]| |]; cbn; rewrite ?Z.eqb_refl; reflexivity. Qed.
Lemma dcmds_eqb_refl l : dcmds_eqb l l = true.
Proof. induction l as [|c l IH]; cbn; [reflexivity|]. rewrite dcmd_eqb_refl, IH. reflexivity. Qed.

Lemma sequence_is : emergency_sequence = the_sequence.
Proof. reflexivity. Qed.

(* the verdict of a rotation reading is Emergency exactly for an inclinometer reading over 45 degrees *)
Lemma rotator_emergency r :
  elect_rotator r = VEmergency <->
  (rr_src r = 122 /\ (4500 < rr_roll r \/ 4500 < rr_pitch r) /\ rr_yaw0 r = true).
Proof.
  unfold elect_rotator, tilt_over, director_encoder_frame, director_encoder_boom, director_encoder_arm,
    director_encoder_attachment, director_inclinometer, director_tilt_1_deg, director_tilt_2_deg,
    director_tilt_1_emergency, director_tilt_2_emergency.
  repeat match goal with |- context [if ?b then _ else _] => destruct b eqn:? end;
    split; intros H; try discriminate; try (destruct H as (H1 & H2 & H3)); try lia; try (repeat split; lia).
Qed.

Lemma engine_emergency rpm : elect_engine rpm = VEmergency <-> 2200 < rpm.
Proof.
  unfold elect_engine, director_rpm_low, director_rpm_high.
  destruct (rpm <? 900) eqn:E; destruct (2200 <? rpm) eqn:E2; split; intros H; try discriminate; try lia; reflexivity.
Qed.

Lemma vmax_emergency a b : vmax a b = VEmergency <-> a = VEmergency \/ b = VEmergency.
Proof. destruct a, b; unfold vmax; cbn; split; intros H; try discriminate; auto; destruct H; try discriminate; auto. Qed.

(* the slots hold the verdicts of the latest readings *)
Definition linked (s : dstate) (p : pend) : Prop :=
  d_rot s = option_map elect_rotator (p_rot p) /\ d_eng s = option_map elect_engine (p_rpm p).

Lemma dmax_emergency s p : linked s p -> (dmax s = VEmergency <-> pending p = true).
Proof.
  intros [Hr He]. unfold dmax, pending. rewrite Hr, He.
  destruct (p_rot p) as [r|], (p_rpm p) as [rpm|]; cbn [option_map].
  - rewrite vmax_emergency, rotator_emergency, engine_emergency. split.
    + intros [(H1 & H2 & H3)|H]; [|assert (E : 2200 <? rpm = true) by lia; rewrite E; reflexivity].
      rewrite H3. assert (E : (rr_src r =? 122) && ((4500 <? rr_roll r) || (4500 <? rr_pitch r)) = true) by lia.
      rewrite E. apply orb_true_r.
    + intros H. apply orb_prop in H as [H|H]; [right; lia|left].
      apply andb_prop in H as [H H3]. apply andb_prop in H as [H1 H2]. repeat split; lia || assumption.
  - rewrite rotator_emergency. cbn [orb]. split.
    + intros (H1 & H2 & H3). rewrite H3. assert (E : (rr_src r =? 122) && ((4500 <? rr_roll r) || (4500 <? rr_pitch r)) = true) by lia.
      rewrite E. reflexivity.
    + intros H. apply andb_prop in H as [H H3]. apply andb_prop in H as [H1 H2]. repeat split; lia || assumption.
  - rewrite engine_emergency. rewrite orb_false_r. split; intros H; lia.
  - split; intros H; discriminate.
Qed.

Lemma dstep_linked s p sg : linked s p -> linked (fst (dstep s sg)) (pend_step p sg).
Proof. intros [Hr He]. destruct sg; unfold dstep, linked; cbn [fst pend_step d_rot d_eng p_rot p_rpm option_map]; auto. Qed.

Lemma dstep_out s p sg : linked s p ->
  snd (dstep s sg) = if pending (pend_step p sg) then the_sequence else [].
Proof.
  intros L. pose proof (dstep_linked s p sg L) as L'. pose proof (dmax_emergency _ _ L') as E.
  unfold dstep in *. cbn [fst snd] in *.
  set (s' := match sg with SEngine rpm => _ | SRotator r => _ | SOther => s end) in *.
  destruct (pending (pend_step p sg)).
  - rewrite (proj2 E eq_refl). reflexivity.
  - destruct (dmax s') eqn:D; try reflexivity. exfalso. assert (true = false) by (symmetry; apply E; reflexivity). discriminate.
Qed.

Theorem c09_holds : forall h, c09_spec_ok h (c09_model h) = true.
Proof.
  intros h. unfold c09_spec_ok, c09_model.
  assert (G : forall h s p, linked s p -> c09_walk p h (drun s h) = true).
  { induction h0 as [|sg t IH]; intros s p L; [reflexivity|]. cbn [drun c09_walk].
    pose proof (dstep_out s p sg L) as O. pose proof (dstep_linked s p sg L) as L'.
    destruct (dstep s sg) as [s' out]. cbn [fst snd] in *. rewrite O, dcmds_eqb_refl. cbn [andb]. apply IH. exact L'. }
  apply G. split; reflexivity.
Qed.

(* never a motion-change command: the only motion the director can emit is stop-all *)
Theorem c09_no_motion_change : forall s sg c, In c (snd (dstep s sg)) ->
  match c with DControl _ _ | DStopAll | DEngineShutdown => True end.
Proof. intros s sg c _. destruct c; exact I. Qed.
