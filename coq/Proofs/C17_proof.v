From Coq Require Import ZArith List Bool Lia ZifyBool.
Import ListNotations.
Require Import GV.Model.J1939 GV.Model.CanNet.
Local Open Scope Z_scope.
Ltac Zify.zify_post_hook ::= Z.div_mod_to_equations.

Definition bytes (l : list Z) : Prop := Forall (fun x => 0 <= x < 256) l.

Lemma le32_roundtrip x : 0 <= x < 4294967296 ->
  match le32 x with [a; b; c; d] => of_le32 a b c d = x /\ bytes [a; b; c; d] | _ => False end.
Proof. intros H. unfold le32, of_le32, bytes. split; [lia|]. repeat constructor; lia. Qed.

Lemma pad_to_length n fill d : length (pad_to n fill d) = n.
Proof. unfold pad_to. rewrite firstn_length, app_length, repeat_length. lia. Qed.

Lemma firstn_repeat_le {A} (x : A) k n : (k <= n)%nat -> firstn k (repeat x n) = repeat x k.
Proof.
  revert n. induction k as [|k IH]; intros n H; [reflexivity|].
  destruct n as [|n]; [lia|]. cbn. f_equal. apply IH. lia.
Qed.

Lemma pad_to_prefix n fill d : (length d <= n)%nat ->
  pad_to n fill d = d ++ repeat fill (n - length d).
Proof.
  intros H. unfold pad_to. rewrite firstn_app, firstn_all2 by lia. f_equal.
  apply firstn_repeat_le. lia.
Qed.

(* transmit: the 16 raw bytes carry the EFF flag, the 29-bit identifier, the length and the data,
   and reading them back gives the frame that was sent *)
Theorem tx_exact : forall f, 0 <= f_id f < 536870912 -> (length (f_data f) <= 8)%nat -> bytes (f_data f) ->
  length (to_can_frame f) = 16%nat
  /\ (exists b0 b1 b2 b3 rest, to_can_frame f = b0 :: b1 :: b2 :: b3 :: rest
        /\ of_le32 b0 b1 b2 b3 = f_id f + 2147483648
        /\ 128 <= b3)                                   (* bit 31: extended frame format *)
  /\ nth 4 (to_can_frame f) 0 = Z.of_nat (length (f_data f))
  /\ of_can_frame (to_can_frame f) = Some f.
Proof.
  intros [id d] Hid Hl Hb. cbn [f_id f_data] in *.
  unfold to_can_frame. cbn [f_id f_data].
  assert (Hp : pad_to 8 0 d = d ++ repeat 0 (8 - length d)) by (apply pad_to_prefix; exact Hl).
  split; [|split; [|split]].
  - rewrite !app_length, pad_to_length. reflexivity.
  - unfold le32, CAN_EFF_FLAG. eexists _, _, _, _, _. split; [reflexivity|]. unfold of_le32. lia.
  - reflexivity.
  - destruct d as [|d0 [|d1 [|d2 [|d3 [|d4 [|d5 [|d6 [|d7 [|? ?]]]]]]]]]; cbn [length] in Hl; try lia;
      unfold le32, CAN_EFF_FLAG, pad_to; cbn [app repeat firstn length Z.of_nat of_can_frame Pos.of_succ_nat Pos.succ];
      cbn [Z.ltb Z.compare Pos.compare Pos.compare_cont orb Z.to_nat Pos.to_nat Pos.iter_op Nat.add firstn];
      (f_equal; f_equal; unfold of_le32, ID_MASK; lia).
Qed.

(* receive: identifier masked to 29 bits, data padded with 0xFF to eight bytes, prefix preserved *)
Theorem rx_exact : forall b0 b1 b2 b3 dlc p1 p2 p3 d, bytes [b0; b1; b2; b3] -> 0 <= dlc <= 8 -> length d = 8%nat ->
  exists f, of_can_frame ([b0; b1; b2; b3; dlc; p1; p2; p3] ++ d) = Some f
    /\ f_id (normalise f) = of_le32 b0 b1 b2 b3 mod 536870912
    /\ length (f_data (normalise f)) = 8%nat
    /\ firstn (Z.to_nat dlc) (f_data (normalise f)) = firstn (Z.to_nat dlc) d
    /\ skipn (Z.to_nat dlc) (f_data (normalise f)) = repeat 255 (8 - Z.to_nat dlc).
Proof.
  intros b0 b1 b2 b3 dlc p1 p2 p3 d Hb Hd Hl.
  destruct d as [|d0 [|d1 [|d2 [|d3 [|d4 [|d5 [|d6 [|d7 [|? ?]]]]]]]]]; try discriminate.
  cbn [app of_can_frame]. assert (E : (dlc <? 0) || (8 <? dlc) = false) by lia. rewrite E.
  eexists. split; [reflexivity|]. cbn [normalise f_id f_data].
  assert (Hf : length (firstn (Z.to_nat dlc) [d0; d1; d2; d3; d4; d5; d6; d7]) = Z.to_nat dlc)
    by (rewrite firstn_length; cbn [length]; lia).
  repeat split.
  - apply pad_to_length.
  - rewrite pad_to_prefix by lia. rewrite firstn_app, Hf, Nat.sub_diag. cbn [firstn]. rewrite app_nil_r.
    rewrite firstn_firstn, Nat.min_id. reflexivity.
  - rewrite pad_to_prefix by lia. rewrite skipn_app, Hf, Nat.sub_diag.
    rewrite skipn_all2 by lia. cbn [skipn app]. reflexivity.
Qed.

(* filter semantics *)
Theorem accept_iff : forall items id,
  filter_matches true items id = true <-> (items = [] \/ exists it, In it items /\ item_matches it id = true).
Proof.
  intros items id. unfold filter_matches. cbn [andb negb orb]. rewrite orb_false_r. split.
  - destruct items as [|i items]; [left; reflexivity|]. intros H. right. cbn [orb] in H.
    apply existsb_exists in H. exact H.
  - intros [-> | H]; [reflexivity|]. destruct items as [|i items]; [reflexivity|].
    cbn [orb]. apply existsb_exists. exact H.
Qed.

Theorem reject_iff : forall items id,
  filter_matches false items id = true <-> (forall it, In it items -> item_matches it id = false).
Proof.
  intros items id. unfold filter_matches. cbn [andb negb orb]. split.
  - destruct items as [|i items]; [intros _ it []|]. cbn [orb]. intros H it Hin.
    apply negb_true_iff in H. destruct (item_matches it id) eqn:E; [|reflexivity].
    assert (existsb (fun it => item_matches it id) (i :: items) = true) by (apply existsb_exists; eauto). congruence.
  - intros H. destruct items as [|i items]; [reflexivity|]. cbn [orb]. apply negb_true_iff.
    destruct (existsb (fun it => item_matches it id) (i :: items)) eqn:E; [|reflexivity].
    apply existsb_exists in E as (it & Hin & Hm). rewrite (H it Hin) in Hm. discriminate.
Qed.

(* an item matches exactly when every field it specifies equals the identifier's field; a
   destination constraint never matches a PDU2 (broadcast) identifier *)
Theorem item_iff : forall it id, item_matches it id = true <->
  (forall p, fi_prio it = Some p -> p = id_priority id)
  /\ (forall g, fi_pgn it = Some g -> g = id_pgn id)
  /\ (forall s, fi_sa it = Some s -> s = id_sa id)
  /\ (forall d, fi_da it = Some d -> id_da id = Some d).
Proof.
  intros [p g s d] id. unfold item_matches, opt_ok. cbn [fi_prio fi_pgn fi_sa fi_da]. split.
  - intros H. apply andb_prop in H as [H Hd]. apply andb_prop in H as [H Hs]. apply andb_prop in H as [Hp Hg].
    repeat split; intros x E; subst.
    + lia. + lia. + lia.
    + destruct (id_da id) as [y|]; [|discriminate]. f_equal. lia.
  - intros (Hp & Hg & Hs & Hd).
    destruct p as [p|]; [rewrite (Hp p eq_refl), Z.eqb_refl|];
    destruct g as [g|]; [rewrite (Hg g eq_refl), Z.eqb_refl| |rewrite (Hg g eq_refl), Z.eqb_refl|];
    destruct s as [s|]; try rewrite (Hs s eq_refl), Z.eqb_refl;
    destruct d as [d|]; try rewrite (Hd d eq_refl), Z.eqb_refl; reflexivity.
Qed.

Theorem da_never_matches_pdu2 : forall it id d, fi_da it = Some d -> id_is_pdu1 id = false -> item_matches it id = false.
Proof.
  intros it id d H Hp. unfold item_matches. rewrite H. unfold id_da. rewrite Hp. apply andb_false_r.
Qed.
