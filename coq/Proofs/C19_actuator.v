(* C19, `as i16` and ActuatorState::update: range, sign, monotonicity of the value the
   director receives, and the stop-once behaviour along any sequence of updates. *)
From Coq Require Import ZArith Reals Lra Lia Bool List.
From Flocq Require Import Core Sterbenz BinarySingleNaN.
Require Import GV.Model.Outcome GV.Model.F32 GV.Model.Kinematics GV.Spec.C19_spec GV.Proofs.F32_lemmas GV.Proofs.C19_profile.
Import ListNotations.
Local Open Scope R_scope.


(* `as i16` on a finite float: truncate, then saturate *)
Definition i16_of_R (x : R) : Z := Z.max (-32768) (Z.min 32767 (Ztrunc x)).
Lemma f2i16_finite (v : f32) : is_finite v = true -> f2i16 v = i16_of_R (R32 v).
Proof.
  intros Fv. unfold i16_of_R.
  assert (E : Btrunc v = Ztrunc (R32 v)).
  { apply eq_IZR. rewrite (Btrunc_correct 24 128 Hemax32). apply round_FIX_IZR. }
  destruct v as [s|s| |s m e H]; try discriminate Fv; unfold f2i16, I16_MIN, I16_MAX; rewrite E; reflexivity.
Qed.
Lemma i16_of_R_range x : (-32768 <= i16_of_R x <= 32767)%Z.
Proof. unfold i16_of_R. lia. Qed.
Lemma i16_of_R_mono x y : x <= y -> (i16_of_R x <= i16_of_R y)%Z.
Proof. intros H. unfold i16_of_R. apply Ztrunc_le in H. lia. Qed.
Lemma i16_of_R_nonpos x : x <= 0 -> (i16_of_R x <= 0)%Z.
Proof. intros H. apply Ztrunc_le in H. rewrite (Ztrunc_IZR 0) in H. unfold i16_of_R. lia. Qed.
Lemma i16_of_R_nonneg x : 0 <= x -> (0 <= i16_of_R x)%Z.
Proof. intros H. apply Ztrunc_le in H. rewrite (Ztrunc_IZR 0) in H. unfold i16_of_R. lia. Qed.

Lemma fpos_correct (e : f32) : is_finite e = true -> fpos e = true -> 0 < R32 e.
Proof.
  intros Fe. unfold fpos, flt. change (f_of_Z 0) with (B754_zero false : f32).
  rewrite (Bltb_correct 24 128 (B754_zero false) e eq_refl Fe). cbn [B2R]. destruct (Rlt_bool_spec 0 (R32 e)); [auto | discriminate].
Qed.
Lemma fnegative_correct (e : f32) : is_finite e = true -> fnegative e = true -> R32 e < 0.
Proof.
  intros Fe. unfold fnegative, flt. change (f_of_Z 0) with (B754_zero false : f32).
  rewrite (Bltb_correct 24 128 e (B754_zero false) Fe eq_refl). cbn [B2R]. destruct (Rlt_bool_spec (R32 e) 0); [auto | discriminate].
Qed.

Section Actuator.
  Context (p : linear) (Hp : lin_ok p).
  Definition flip : R := if l_inverse p then 1 else -1.
  (* the i16 the director receives for an error e *)
  Definition act_value (e : f32) : Z := i16_of_R (flip * lu_real p e).

  Theorem actuator_some act stop (e : f32) : is_finite e = true ->
    actuator_update {| a_profile := p; a_actuator := act; a_stop := stop |} (Some e)
    = Ok ({| a_profile := p; a_actuator := act; a_stop := false |}, Some (act, e, act_value e)).
  Proof.
    intros Fe. destruct (linear_update_value p Hp e Fe) as [v [Ev [Fv Rv]]].
    unfold actuator_update; cbn [a_profile a_actuator a_stop]. rewrite Ev. cbn [obind].
    rewrite (f2i16_finite v Fv), Rv. reflexivity.
  Qed.

  Theorem act_value_range e : (-32768 <= act_value e <= 32767)%Z.
  Proof. apply i16_of_R_range. Qed.

  (* opposes the sign of the error unless inverted *)
  Theorem act_value_sign (e : f32) : is_finite e = true ->
    (0 < R32 e -> if l_inverse p then (0 <= act_value e)%Z else (act_value e <= 0)%Z)
    /\ (R32 e < 0 -> if l_inverse p then (act_value e <= 0)%Z else (0 <= act_value e)%Z).
  Proof.
    intros Fe. unfold act_value, flip. split; intros He.
    - generalize (lu_real_nonneg p Hp e Fe (Bsign_of_pos e Fe He)). intros [H _].
      destruct (l_inverse p); [apply i16_of_R_nonneg | apply i16_of_R_nonpos]; lra.
    - generalize (lu_real_nonpos p Hp e Fe (Bsign_of_neg e Fe He)). intros [_ H].
      destruct (l_inverse p); [apply i16_of_R_nonpos | apply i16_of_R_nonneg]; lra.
  Qed.

  (* monotone in the error: decreasing, increasing when inverted *)
  Theorem act_value_mono (e1 e2 : f32) : is_finite e1 = true -> is_finite e2 = true -> ord_le e1 e2 ->
    if l_inverse p then (act_value e1 <= act_value e2)%Z else (act_value e2 <= act_value e1)%Z.
  Proof.
    intros F1 F2 H. generalize (lu_real_mono p Hp e1 e2 F1 F2 H). intros Hm. unfold act_value, flip.
    destruct (l_inverse p); apply i16_of_R_mono; lra.
  Qed.

  (* whole sequences: one event per error, one neutral event when the errors stop, then silence *)
  Theorem act_run_spec : forall steps act stop,
    Forall (fun o => match o with Some e => is_finite e = true | None => True end) steps ->
    exists evs,
      act_run {| a_profile := p; a_actuator := act; a_stop := stop |} steps = Ok evs
      /\ act_spec act (l_inverse p) (negb stop) steps evs = true.
  Proof.
    induction steps as [|st rest IH]; intros act stop HF.
    - exists []. split; reflexivity.
    - inversion HF as [|x l Hx Hl]; subst. cbn [act_run]. destruct st as [e|].
      + destruct (IH act false Hl) as [evs [Er Es]].
        eexists. split.
        { change (binary_float 24 128) with f32. rewrite (actuator_some act stop e Hx). cbn [obind fst snd]. rewrite Er. cbn [obind]. reflexivity. }
        cbn [act_spec]. rewrite Z.eqb_refl, Z.eqb_refl. cbn [andb].
        generalize (act_value_range e) (act_value_sign e Hx). intros [R1 R2] [S1 S2].
        unfold I16_MIN, I16_MAX.
        replace (-32768 <=? act_value e)%Z with true by (symmetry; apply Z.leb_le; exact R1).
        replace (act_value e <=? 32767)%Z with true by (symmetry; apply Z.leb_le; exact R2).
        cbn [andb]. unfold ffinite. rewrite Hx. cbn [andb].
        assert (G1 : implb (fpos e) (if l_inverse p then (0 <=? act_value e)%Z else (act_value e <=? 0)%Z) = true).
        { destruct (fpos e) eqn:P; [|reflexivity]. cbn [implb]. specialize (S1 (fpos_correct e Hx P)).
          destruct (l_inverse p); apply Z.leb_le; exact S1. }
        assert (G2 : implb (fnegative e) (if l_inverse p then (act_value e <=? 0)%Z else (0 <=? act_value e)%Z) = true).
        { destruct (fnegative e) eqn:P; [|reflexivity]. cbn [implb]. specialize (S2 (fnegative_correct e Hx P)).
          destruct (l_inverse p); apply Z.leb_le; exact S2. }
        rewrite G1, G2. cbn [andb]. exact Es.
      + unfold actuator_update; cbn [a_profile a_actuator a_stop]. destruct stop; cbn [negb obind fst snd].
        * destruct (IH act true Hl) as [evs [Er Es]].
          eexists. split; [rewrite Er; cbn [obind]; reflexivity|]. cbn [act_spec negb andb]. exact Es.
        * destruct (IH act true Hl) as [evs [Er Es]].
          eexists. split; [rewrite Er; cbn [obind]; reflexivity|]. cbn [act_spec negb andb]. rewrite Z.eqb_refl. cbn [andb]. exact Es.
  Qed.
End Actuator.

(* the profiles the director binds (regenerated from director.rs) are inside the domain *)
Require Import GV.Gen.Consts.
Lemma lin_ok_of_Z (k o : Z) (inv : bool) : (0 <= k <= 2 ^ 24)%Z -> (0 <= o <= 32767)%Z ->
  lin_ok {| kp := f_of_Z k; l_offset := f_of_Z o; l_inverse := inv |}.
Proof.
  intros Hk Ho.
  destruct (f_of_Z_correct k) as [Fk Rk]; [lia|]. destruct (f_of_Z_correct o) as [Fo Ro]; [lia|].
  constructor; cbn [kp l_offset]; try assumption.
  - rewrite Rk. apply IZR_le. lia.
  - rewrite Ro. apply IZR_le. lia.
  - rewrite Ro. apply IZR_le. lia.
Qed.
Lemma director_profiles_ok :
  Forall (fun q => lin_ok {| kp := f_of_Z (fst (fst q)); l_offset := f_of_Z (snd (fst q)); l_inverse := snd q |})
         director_profiles.
Proof. unfold director_profiles. repeat (apply Forall_cons; [apply lin_ok_of_Z; cbn [fst snd]; lia|]). apply Forall_nil. Qed.

Lemma actuator_value_all p : lin_ok p -> forall act stop (e : f32), is_finite e = true ->
  actuator_update {| a_profile := p; a_actuator := act; a_stop := stop |} (Some e)
  = Ok ({| a_profile := p; a_actuator := act; a_stop := false |}, Some (act, e, act_value p e))
  /\ (-32768 <= act_value p e <= 32767)%Z
  /\ (0 < R32 e -> if l_inverse p then (0 <= act_value p e)%Z else (act_value p e <= 0)%Z)
  /\ (R32 e < 0 -> if l_inverse p then (act_value p e <= 0)%Z else (0 <= act_value p e)%Z).
Proof.
  intros Hp act stop e Fe. split; [apply actuator_some; assumption|]. split; [apply act_value_range|].
  apply act_value_sign; assumption.
Qed.
