From Coq Require Import ZArith List Bool Lia ZifyBool.
Import ListNotations.
Require Import GV.Gen.Consts GV.Model.Governor GV.Model.Hcu GV.Model.Packets GV.Model.Session
  GV.Spec.C04_spec GV.Proofs.Cursor GV.Proofs.C13_total GV.Proofs.C13_header.
Local Open Scope Z_scope.

(* ---------------------------------------------------------------- the session never crashes *)
Lemma handle_total flags t payload : wfb payload -> handle flags t payload <> None.
Proof.
  intros W. unfold handle. pose proof (recv_packet_total t payload W) as H.
  destruct (t =? type_session).
  - destruct (recv_packet t payload) as [[]| |]; try discriminate. congruence.
  - destruct ((t =? type_engine) || (t =? type_motion) || (t =? type_target) || (t =? type_control));
      [|discriminate].
    destruct (recv_packet t payload); try discriminate. congruence.
Qed.

Lemma wfb_firstn n : forall b, wfb b -> wfb (firstn n b).
Proof.
  induction n as [|n IH]; intros [|x b] H; cbn; try (constructor; fail).
  inversion H; subst. constructor; [assumption | apply IH; assumption].
Qed.
Lemma wfb_app a b : wfb a -> wfb b -> wfb (a ++ b).
Proof. unfold wfb. intros; apply Forall_app; auto. Qed.

Lemma drain_no_crash : forall fuel flags buf, wfb buf -> fst (drain fuel flags buf) <> Crashed.
Proof.
  induction fuel as [|fuel IH]; intros flags buf W; cbn [drain]; [discriminate|].
  destruct (lenb buf <? 10); [discriminate|].
  destruct (parse_header (firstn 10 buf)) as [[t n]|e].
  - destruct (lenb (skipn 10 buf) <? n); [discriminate|].
    destruct (handle flags t (firstn (Z.to_nat n) (skipn 10 buf))) as [[flags' acts]|] eqn:H.
    + specialize (IH flags' (skipn (Z.to_nat n) (skipn 10 buf))).
      destruct (drain fuel flags' (skipn (Z.to_nat n) (skipn 10 buf))) as [st acts'].
      cbn [fst] in *. apply IH. apply wfb_skipn, wfb_skipn, W.
    + exfalso. eapply handle_total; [|exact H]. apply wfb_firstn, wfb_skipn, W.
  - apply IH. apply wfb_skipn, W.
Qed.

Definition ev_wfb (e : sevent) : Prop := match e with EBytes bs => wfb bs | _ => True end.
Definition st_wfb (st : sstate) : Prop := match st with Running _ buf => wfb buf | Crashed => False end.

Lemma drain_wfb : forall fuel flags buf, wfb buf -> st_wfb (fst (drain fuel flags buf)).
Proof.
  induction fuel as [|fuel IH]; intros flags buf W; cbn [drain]; [exact W|].
  destruct (lenb buf <? 10); [exact W|].
  destruct (parse_header (firstn 10 buf)) as [[t n]|e].
  - destruct (lenb (skipn 10 buf) <? n); [exact W|].
    destruct (handle flags t (firstn (Z.to_nat n) (skipn 10 buf))) as [[flags' acts]|] eqn:H.
    + specialize (IH flags' (skipn (Z.to_nat n) (skipn 10 buf))).
      destruct (drain fuel flags' (skipn (Z.to_nat n) (skipn 10 buf))) as [st acts'].
      cbn [fst] in *. apply IH. apply wfb_skipn, wfb_skipn, W.
    + exfalso. eapply handle_total; [|exact H]. apply wfb_firstn, wfb_skipn, W.
  - apply IH. apply wfb_skipn, W.
Qed.

Lemma sstep_wfb st e : st_wfb st -> ev_wfb e -> st_wfb (fst (sstep st e)).
Proof.
  destruct st as [flags buf|]; [|contradiction]. intros W We.
  destruct e as [bs|p|]; cbn [sstep fst]; try exact W.
  apply drain_wfb. apply wfb_app; assumption.
Qed.

(* C05: for every sequence of chunks of bytes, signals and end, the session task never panics *)
Theorem session_never_crashes : forall evs st, st_wfb st -> Forall ev_wfb evs ->
  st_wfb (fst (srun st evs)).
Proof.
  induction evs as [|e evs IH]; intros st W We; cbn [srun]; [exact W|].
  inversion We as [|? ? He We']; subst.
  pose proof (sstep_wfb st e W He) as W'.
  destruct (sstep st e) as [st' a]. cbn [fst] in W'.
  specialize (IH st' W' We'). destruct (srun st' evs) as [st'' a']. exact IH.
Qed.

(* ---------------------------------------------------------------- fuel does not matter *)
Lemma lenb_len l : lenb l = Z.of_nat (length l).
Proof. reflexivity. Qed.

Lemma skipn_len_lt {A} n (l : list A) : (0 < n)%nat -> (n <= length l)%nat -> (length (skipn n l) < length l)%nat.
Proof. intros. rewrite skipn_length. lia. Qed.

Lemma drain_fuel : forall f1 f2 flags buf, (length buf < f1)%nat -> (length buf < f2)%nat ->
  drain f1 flags buf = drain f2 flags buf.
Proof.
  induction f1 as [|f1 IH]; intros f2 flags buf H1 H2; [lia|].
  destruct f2 as [|f2]; [lia|]. cbn [drain].
  destruct (lenb buf <? 10) eqn:E10; [reflexivity|].
  assert (L10 : (10 <= length buf)%nat) by (unfold lenb in E10; lia).
  assert (Ls : (length (skipn 10 buf) < length buf)%nat) by (apply skipn_len_lt; lia).
  destruct (parse_header (firstn 10 buf)) as [[t n]|e].
  - destruct (lenb (skipn 10 buf) <? n); [reflexivity|].
    destruct (handle flags t (firstn (Z.to_nat n) (skipn 10 buf))) as [[flags' acts]|]; [|reflexivity].
    assert (Ls2 : (length (skipn (Z.to_nat n) (skipn 10 buf)) <= length (skipn 10 buf))%nat)
      by (rewrite skipn_length; lia).
    rewrite (IH f2 flags' _) by lia. reflexivity.
  - apply IH; lia.
Qed.

(* ---------------------------------------------------------------- chunking does not matter *)
Lemma firstn_app_le {A} n (a b : list A) : (n <= length a)%nat -> firstn n (a ++ b) = firstn n a.
Proof. intros H. rewrite firstn_app. replace (n - length a)%nat with 0%nat by lia. cbn. apply app_nil_r. Qed.
Lemma skipn_app_le {A} n (a b : list A) : (n <= length a)%nat -> skipn n (a ++ b) = skipn n a ++ b.
Proof. intros H. rewrite skipn_app. replace (n - length a)%nat with 0%nat by lia. reflexivity. Qed.

Lemma drain_app : forall f1 flags b1 b2 fl' b1' acts1,
  (length b1 < f1)%nat ->
  drain f1 flags b1 = (Running fl' b1', acts1) ->
  forall f2 f3, (length (b1 ++ b2) < f2)%nat -> (length (b1' ++ b2) < f3)%nat ->
  drain f2 flags (b1 ++ b2) =
    (let '(st, acts2) := drain f3 fl' (b1' ++ b2) in (st, acts1 ++ acts2)).
Proof.
  induction f1 as [|f1 IH]; intros flags b1 b2 fl' b1' acts1 Hf1 D f2 f3 Hf2 Hf3; [lia|].
  cbn [drain] in D.
  destruct (lenb b1 <? 10) eqn:E10.
  { injection D as <- <- <-. rewrite (drain_fuel f2 f3) by assumption.
    destruct (drain f3 flags (b1 ++ b2)); reflexivity. }
  assert (L10 : (10 <= length b1)%nat) by (unfold lenb in E10; lia).
  destruct f2 as [|f2]; [lia|]. cbn [drain].
  assert (E10' : lenb (b1 ++ b2) <? 10 = false) by (unfold lenb in *; rewrite app_length; lia).
  rewrite E10'. rewrite firstn_app_le, skipn_app_le by lia.
  assert (Ls : (length (skipn 10 b1) < length b1)%nat) by (apply skipn_len_lt; lia).
  destruct (parse_header (firstn 10 b1)) as [[t n]|e] eqn:PH.
  - destruct (lenb (skipn 10 b1) <? n) eqn:En.
    + injection D as <- <- <-.
      (* the payload was incomplete: the whole of b1 is still buffered; redo the step on b1 ++ b2 *)
      destruct f3 as [|f3]; [lia|].
      transitivity (drain (S f3) flags (b1 ++ b2)).
      * rewrite <- (drain_fuel (S f2) (S f3)) by (cbn; lia). cbn [drain].
        rewrite E10', (firstn_app_le 10 b1 b2), (skipn_app_le 10 b1 b2) by lia. rewrite PH. reflexivity.
      * destruct (drain (S f3) flags (b1 ++ b2)); reflexivity.
    + assert (Ln : (Z.to_nat n <= length (skipn 10 b1))%nat) by (unfold lenb in En; lia).
      assert (En' : lenb (skipn 10 b1 ++ b2) <? n = false)
        by (unfold lenb in *; rewrite app_length; lia).
      rewrite En'. rewrite firstn_app_le, skipn_app_le by lia.
      destruct (handle flags t (firstn (Z.to_nat n) (skipn 10 b1))) as [[flags' acts]|]; [|discriminate].
      destruct (drain f1 flags' (skipn (Z.to_nat n) (skipn 10 b1))) as [st0 acts0] eqn:D0.
      injection D as -> <-.
      assert (Ls2 : (length (skipn (Z.to_nat n) (skipn 10 b1)) <= length (skipn 10 b1))%nat)
        by (rewrite skipn_length; lia).
      rewrite (IH flags' _ b2 fl' b1' acts0) with (f3 := f3); try assumption; try lia.
      * destruct (drain f3 fl' (b1' ++ b2)) as [st acts2]. rewrite app_assoc. reflexivity.
      * rewrite app_length in *. lia.
  - rewrite (IH flags _ b2 fl' b1' acts1) with (f3 := f3); try assumption; try lia.
    + reflexivity.
    + rewrite app_length in *. lia.
Qed.

(* ---------------------------------------------------------------- one frame at the front *)
Lemma wframe_wfb f : wframe_wf f = true -> wfb (w_payload f) /\ isb (w_type f)
  /\ 1 <= lenb (w_payload f) <= 1024.
Proof.
  unfold wframe_wf. intros H.
  apply andb_prop in H as [H Hp]. apply andb_prop in H as [H H3]. apply andb_prop in H as [H1 H2].
  repeat split; try lia.
  - unfold wfb. apply Forall_forall. intros x Hx. rewrite forallb_forall in Hp.
    specialize (Hp x Hx). unfold C04_spec.is_byte in Hp. unfold isb. lia.
  - unfold C04_spec.is_byte in H1. lia.
  - unfold C04_spec.is_byte in H1. lia.
Qed.

Ltac Zify.zify_post_hook ::= Z.div_mod_to_equations.

Lemma header_roundtrip t n : isb t -> 1 <= n <= 1024 -> parse_header (enc_header t n) = inl (t, n).
Proof.
  intros Ht Hn.
  assert (W : wfb (enc_header t n)).
  { rewrite header_canonical. unfold wfb, isb in *. repeat constructor; lia. }
  apply (proj2 (parser_exact (enc_header t n) t n W ltac:(lia))). split; [reflexivity|lia].
Qed.

Lemma enc_header_len t n : length (enc_header t n) = 10%nat.
Proof. reflexivity. Qed.

Lemma drain_frame fuel flags f rest :
  wframe_wf f = true -> (length (wframe_bytes f ++ rest) < S fuel)%nat ->
  drain (S fuel) flags (wframe_bytes f ++ rest) =
    match handle flags (w_type f) (w_payload f) with
    | None => (Crashed, [])
    | Some (flags', acts) => let '(st, acts') := drain fuel flags' rest in (st, acts ++ acts')
    end.
Proof.
  intros Hwf Hf. destruct (wframe_wfb f Hwf) as (Wp & Wt & Hn).
  unfold wframe_bytes in *. cbn [drain].
  assert (E10 : lenb ((enc_header (w_type f) (lenb (w_payload f)) ++ w_payload f) ++ rest) <? 10 = false).
  { unfold lenb. rewrite !app_length, enc_header_len. lia. }
  rewrite E10. rewrite <- app_assoc.
  rewrite firstn_app_le by (rewrite enc_header_len; lia).
  rewrite skipn_app_le by (rewrite enc_header_len; lia).
  replace (firstn 10 (enc_header (w_type f) (lenb (w_payload f)))) with (enc_header (w_type f) (lenb (w_payload f))) by reflexivity.
  replace (skipn 10 (enc_header (w_type f) (lenb (w_payload f)))) with (@nil Z) by reflexivity.
  cbn [app]. rewrite header_roundtrip by assumption.
  assert (En : lenb (w_payload f ++ rest) <? lenb (w_payload f) = false)
    by (unfold lenb; rewrite app_length; lia).
  rewrite En. unfold lenb at 1 2. rewrite Nat2Z.id.
  rewrite firstn_app_le, skipn_app_le by lia.
  rewrite firstn_all, skipn_all. cbn [app]. reflexivity.
Qed.

(* a proper prefix of a frame is only buffered *)
Lemma drain_partial fuel flags f k :
  wframe_wf f = true -> 0 <= k < lenb (wframe_bytes f) ->
  drain fuel flags (firstn (Z.to_nat k) (wframe_bytes f)) = (Running flags (firstn (Z.to_nat k) (wframe_bytes f)), []).
Proof.
  intros Hwf Hk. destruct (wframe_wfb f Hwf) as (Wp & Wt & Hn).
  destruct fuel as [|fuel]; [reflexivity|]. cbn [drain].
  set (p := firstn (Z.to_nat k) (wframe_bytes f)).
  assert (Lp : length p = Z.to_nat k).
  { subst p. rewrite firstn_length. unfold lenb in Hk. lia. }
  destruct (lenb p <? 10) eqn:E10; [reflexivity|].
  assert (K10 : 10 <= k) by (unfold lenb in E10; lia).
  assert (Hh : firstn 10 p = enc_header (w_type f) (lenb (w_payload f))).
  { subst p. rewrite firstn_firstn. replace (Init.Nat.min 10 (Z.to_nat k)) with 10%nat by lia.
    unfold wframe_bytes. rewrite firstn_app_le by (rewrite enc_header_len; lia). reflexivity. }
  rewrite Hh, header_roundtrip by assumption.
  assert (En : lenb (skipn 10 p) <? lenb (w_payload f) = true).
  { unfold lenb in *. rewrite skipn_length, Lp.
    unfold wframe_bytes in Hk. rewrite app_length, enc_header_len in Hk. lia. }
  rewrite En. reflexivity.
Qed.

(* handle agrees with the reference decoding of one frame *)
Lemma handle_frame flags f : wframe_wf f = true ->
  exists acts, handle flags (w_type f) (w_payload f) = Some (frame_flags flags f, acts)
               /\ cmds_of acts = frame_cmd f.
Proof.
  intros Hwf. destruct (wframe_wfb f Hwf) as (Wp & _ & _).
  pose proof (recv_packet_total (w_type f) (w_payload f) Wp) as NP.
  unfold handle, frame_flags, frame_cmd, is_command_type.
  destruct (w_type f =? type_session) eqn:Es.
  - assert (w_type f = type_session) by lia.
    replace ((w_type f =? type_engine) || (w_type f =? type_motion) || (w_type f =? type_target) || (w_type f =? type_control)) with false
      by (rewrite H; reflexivity).
    destruct (recv_packet (w_type f) (w_payload f)) as [[]| |]; try congruence; eexists; split; reflexivity.
  - destruct ((w_type f =? type_engine) || (w_type f =? type_motion) || (w_type f =? type_target) || (w_type f =? type_control)).
    + destruct (recv_packet (w_type f) (w_payload f)) as [p| |]; try congruence; eexists; split; reflexivity.
    + eexists; split; reflexivity.
Qed.

Lemma cmds_of_app a b : cmds_of (a ++ b) = cmds_of a ++ cmds_of b.
Proof. unfold cmds_of. apply flat_map_app. Qed.

(* the whole stream at once: complete frames then a partial tail *)
Lemma drain_frames : forall fs flags tail fuel,
  forallb wframe_wf fs = true ->
  (forall fl fu, drain fu fl tail = (Running fl tail, [])) ->
  (length (concat (map wframe_bytes fs) ++ tail) < fuel)%nat ->
  exists acts, drain fuel flags (concat (map wframe_bytes fs) ++ tail)
               = (Running (fold_left frame_flags fs flags) tail, acts)
               /\ cmds_of acts = flat_map frame_cmd fs.
Proof.
  induction fs as [|f fs IH]; intros flags tail fuel Hwf Htail Hf.
  - cbn [map concat app fold_left flat_map]. exists []. split; [apply Htail | reflexivity].
  - cbn [forallb] in Hwf. apply andb_prop in Hwf as [Hf0 Hwf].
    cbn [map concat fold_left flat_map]. rewrite <- app_assoc.
    destruct fuel as [|fuel]; [lia|].
    rewrite drain_frame; [| assumption | cbn [map concat] in Hf; rewrite <- app_assoc in Hf; exact Hf].
    destruct (handle_frame flags f Hf0) as (acts0 & -> & Hc0).
    destruct (IH (frame_flags flags f) tail fuel Hwf Htail) as (acts1 & -> & Hc1).
    { cbn [map concat] in Hf. rewrite <- app_assoc, app_length in Hf.
      assert (0 < length (wframe_bytes f))%nat by (unfold wframe_bytes; rewrite app_length, enc_header_len; lia).
      lia. }
    exists (acts0 ++ acts1). split; [reflexivity|]. rewrite cmds_of_app, Hc0, Hc1. reflexivity.
Qed.

(* ---------------------------------------------------------------- chunks, signals, end *)
Lemma drain_quiescent f1 flags b fl' b' acts :
  (length b < f1)%nat -> drain f1 flags b = (Running fl' b', acts) ->
  forall f2, (length b' < f2)%nat -> drain f2 fl' b' = (Running fl' b', []).
Proof.
  intros Hf D f2 Hf2.
  pose proof (drain_app f1 flags b [] fl' b' acts Hf D f1 f2) as H.
  rewrite !app_nil_r in H. specialize (H Hf Hf2). rewrite D in H.
  destruct (drain f2 fl' b') as [st a2]. injection H as <- H.
  assert (a2 = []) by (apply (app_inv_head acts); rewrite app_nil_r; auto). subst. reflexivity.
Qed.

Lemma srun_app : forall e1 e2 st,
  srun st (e1 ++ e2) =
  (let '(st', x) := srun st e1 in let '(st'', y) := srun st' e2 in (st'', x ++ y)).
Proof.
  induction e1 as [|e e1 IH]; intros e2 st; cbn [app srun].
  - destruct (srun st e2); reflexivity.
  - destruct (sstep st e) as [st1 a]. rewrite IH.
    destruct (srun st1 e1) as [st2 x]. destruct (srun st2 e2) as [st3 y].
    rewrite app_assoc. reflexivity.
Qed.

Lemma srun_weave : forall cs i sigs flags buf,
  wfb buf -> Forall wfb cs ->
  (forall f, (length buf < f)%nat -> drain f flags buf = (Running flags buf, [])) ->
  exists fl' b' acts acts',
    drain (fuel_for (buf ++ concat cs)) flags (buf ++ concat cs) = (Running fl' b', acts)
    /\ srun (Running flags buf) (weave i cs sigs) = (Running fl' b', acts')
    /\ cmds_of acts' = cmds_of acts
    /\ wfb b'.
Proof.
  induction cs as [|c cs IH]; intros i sigs flags buf W Wc Q.
  - cbn [concat weave srun]. rewrite app_nil_r. exists flags, buf, [], [].
    repeat split; auto; try (apply Q; unfold fuel_for; lia).
  - inversion Wc as [|? ? Wc0 Wcs]; subst. cbn [concat weave].
    (* the chunk arrives *)
    destruct (drain (fuel_for (buf ++ c)) flags (buf ++ c)) as [st1 a1] eqn:D1.
    pose proof (drain_no_crash (fuel_for (buf ++ c)) flags (buf ++ c) (wfb_app _ _ W Wc0)) as NC.
    pose proof (drain_wfb (fuel_for (buf ++ c)) flags (buf ++ c) (wfb_app _ _ W Wc0)) as W1.
    rewrite D1 in NC, W1. cbn [fst] in NC, W1.
    destruct st1 as [fl1 b1|]; [|congruence]. cbn [st_wfb] in W1.
    assert (Q1 : forall f, (length b1 < f)%nat -> drain f fl1 b1 = (Running fl1 b1, [])).
    { intros f Hf. eapply drain_quiescent; [|exact D1|exact Hf]. unfold fuel_for. lia. }
    destruct (IH (i + 1) sigs fl1 b1 W1 Wcs Q1) as (fl' & b' & acts & acts' & Dr & Sr & Hc & Wb').
    (* the total drain decomposes along the chunk boundary *)
    pose proof (drain_app (fuel_for (buf ++ c)) flags (buf ++ c) (concat cs) fl1 b1 a1
                  ltac:(unfold fuel_for; lia) D1
                  (fuel_for (buf ++ c ++ concat cs)) (fuel_for (b1 ++ concat cs))) as DA.
    rewrite <- app_assoc in DA. specialize (DA ltac:(unfold fuel_for; lia) ltac:(unfold fuel_for; lia)).
    rewrite Dr in DA.
    exists fl', b', (a1 ++ acts).
    set (sig := if existsb (Z.eqb i) sigs then [ESignal the_signal] else []).
    assert (Hs : exists x, srun (Running fl1 b1) (sig ++ weave (i + 1) cs sigs) = (Running fl' b', x)
                           /\ cmds_of x = cmds_of acts).
    { subst sig. destruct (existsb (Z.eqb i) sigs).
      - cbn [app srun sstep]. rewrite Sr.
        eexists; split; [reflexivity|]. rewrite cmds_of_app, Hc.
        destruct (has_flag fl1 session_mode_stream); reflexivity.
      - cbn [app]. rewrite Sr. eexists; split; [reflexivity | exact Hc]. }
    destruct Hs as (x & Hx & Hcx).
    exists (a1 ++ x). repeat split; auto.
    + cbn [srun sstep]. rewrite D1, Hx. reflexivity.
    + rewrite !cmds_of_app, Hcx. reflexivity.
Qed.

Lemma concat_chunks : forall cuts bs, concat (chunks cuts bs) = bs.
Proof.
  induction cuts as [|c cuts IH]; intros bs; cbn [chunks concat]; [apply app_nil_r|].
  rewrite IH. apply firstn_skipn.
Qed.
Lemma chunks_wfb : forall cuts bs, wfb bs -> Forall wfb (chunks cuts bs).
Proof.
  induction cuts as [|c cuts IH]; intros bs W; cbn [chunks]; constructor; auto.
  - apply wfb_firstn; exact W.
  - apply IH, wfb_skipn, W.
Qed.

Lemma wfb_header t n : isb t -> 0 <= n -> wfb (enc_header t n).
Proof. intros Ht Hn. rewrite header_canonical. unfold wfb, isb in *. repeat constructor; lia. Qed.
Lemma wfb_frame f : wframe_wf f = true -> wfb (wframe_bytes f).
Proof.
  intros H. destruct (wframe_wfb f H) as (Wp & Wt & Hn). unfold wframe_bytes.
  apply wfb_app; [apply wfb_header; [assumption | lia] | assumption].
Qed.
Lemma wfb_frames fs : forallb wframe_wf fs = true -> wfb (concat (map wframe_bytes fs)).
Proof.
  induction fs as [|f fs IH]; cbn [forallb map concat]; intros H; [constructor|].
  apply andb_prop in H as [H1 H2]. apply wfb_app; [apply wfb_frame; exact H1 | apply IH; exact H2].
Qed.

Lemma packet_eqb_refl p : packet_eqb p p = true.
Proof. unfold packet_eqb. destruct (list_eq_dec _ _ _); congruence. Qed.
Lemma plist_eqb_refl l : plist_eqb l l = true.
Proof. induction l as [|p l IH]; cbn; [reflexivity|]. rewrite packet_eqb_refl, IH. reflexivity. Qed.

(* C03 + C04 (+ the liveness half of C05) for every script *)
Theorem script_holds : forall s, script_wf s = true -> script_spec_ok s (script_model s) = true.
Proof.
  intros s Hwf. unfold script_wf in Hwf.
  apply andb_prop in Hwf as [Hwf Hcuts]. apply andb_prop in Hwf as [Hfs Htail].
  set (tail := match sc_tail s with Some (f, k) => firstn (Z.to_nat k) (wframe_bytes f) | None => [] end).
  assert (Wtail : wfb tail).
  { subst tail. destruct (sc_tail s) as [[f k]|]; [|constructor].
    apply andb_prop in Htail as [Ht _]. apply andb_prop in Ht as [Ht _].
    apply wfb_firstn, wfb_frame, Ht. }
  assert (Qtail : forall fl fu, drain fu fl tail = (Running fl tail, [])).
  { subst tail. destruct (sc_tail s) as [[f k]|].
    - apply andb_prop in Htail as [Ht Hk2]. apply andb_prop in Ht as [Ht Hk1].
      intros fl fu. apply drain_partial; [exact Ht | lia].
    - intros fl [|fu]; reflexivity. }
  assert (Wstream : wfb (stream_of s)).
  { unfold stream_of. fold tail. apply wfb_app; [apply wfb_frames; exact Hfs | exact Wtail]. }
  unfold script_model, events_of. rewrite srun_app.
  destruct (srun_weave (chunks (sc_cuts s) (stream_of s)) 0 (sc_sigs s) 0 [])
    as (fl' & b' & acts & acts' & Dr & Sr & Hc & Wb').
  { constructor. } { apply chunks_wfb; exact Wstream. } { intros [|f] _; reflexivity. }
  unfold session0. rewrite Sr. cbn [app] in Dr. rewrite concat_chunks in Dr.
  destruct (drain_frames (sc_frames s) 0 tail (fuel_for (stream_of s)) Hfs Qtail) as (acts0 & D0 & Hc0).
  { unfold stream_of, fuel_for. fold tail. lia. }
  unfold stream_of in Dr. fold tail in Dr. unfold stream_of in D0. fold tail in D0.
  rewrite D0 in Dr. injection Dr as <- <- <-.
  cbn [srun sstep]. unfold script_spec_ok. cbn [o_crashed o_cmds negb andb].
  rewrite !cmds_of_app, Hc, Hc0. unfold expected_cmds, armed, flags_after.
  rewrite app_nil_r.
  destruct (has_flag (fold_left frame_flags (sc_frames s) 0) session_mode_failsafe);
    cbn [cmds_of flat_map app]; apply plist_eqb_refl.
Qed.
