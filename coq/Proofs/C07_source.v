(* The hand-written model of Governor::next_state IS the arm table that tools/rs2v.py translates from
   driver/governor.rs on every run (Gen/Consts.v governor_arms): first matching arm, expired branch if the
   arm has one and the command is older than the transition timeout. *)
From Coq Require Import ZArith List Bool.
Import ListNotations.
Require Import GV.Gen.Consts GV.Model.Outcome GV.Model.Governor.
Local Open Scope Z_scope.

Definition st_code (s : estate) : Z := match s with NoRequest => 0 | Starting => 1 | Stopping => 2 | Request => 3 end.
Definition st_of (z : Z) : estate := match z with 0 => NoRequest | 1 => Starting | 2 => Stopping | _ => Request end.

Definition arm := (Z * list Z * option (Z * Z) * (Z * Z))%type.
Fixpoint eval_arms (arms : list arm) (sig cmd : Z) (exp : bool) : option (Z * Z) :=
  match arms with
  | [] => None
  | (s, cs, e, n) :: t =>
      if (s =? sig) && (match cs with [] => true | _ => existsb (Z.eqb cmd) cs end)
      then Some (match e with Some b => if exp then b else n | None => n end)
      else eval_arms t sig cmd exp
  end.

(* what the translated source computes *)
Definition next_state_src (idle max : Z) (sig cmd : estate) (cmd_rpm : Z) (a : age) : option (outcome engine) :=
  match eval_arms governor_arms (st_code sig) (st_code cmd) (expired a) with
  | Some (src, st) => Some (mk_engine idle max (st_of st) (if src =? 0 then idle else cmd_rpm))
  | None => None        (* a non-exhaustive match does not compile *)
  end.

(* governor_translated = false (the source was rewritten into a shape the translator does not understand) leaves
   this theorem without content; the check then says so in its evidence and rests on the correspondence *)
Theorem next_state_is_the_source : forall idle max sig cmd cmd_rpm a,
  governor_translated = true ->
  next_state_src idle max sig cmd cmd_rpm a = Some (next_state idle max sig cmd cmd_rpm a).
Proof.
  intros idle max sig cmd cmd_rpm a H.
  destruct sig, cmd, a; first [ reflexivity | vm_compute in H; discriminate H ].
Qed.

Lemma reshape_is_clamp : governor_reshape_is_clamp = true.
Proof. reflexivity. Qed.
