From Coq Require Import ZArith List Bool Lia.
Import ListNotations.
Require Import GV.Gen.Consts GV.Model.J1939 GV.Model.Hcu GV.Spec.C02_spec.
Local Open Scope Z_scope.
Ltac Zify.zify_post_hook ::= Z.div_mod_to_equations.

Lemma find_app {A} (p : A -> bool) l1 l2 :
  find p (l1 ++ l2) = match find p l1 with Some x => Some x | None => find p l2 end.
Proof. induction l1 as [|x l1 IH]; cbn; [reflexivity|]. destruct (p x); auto. Qed.

(* the array filled left to right holds, for every actuator, the last entry naming it *)
Lemma fold_slots cs : forall f a,
  fold_left slot_step cs f a = match last_value cs a with Some v => Some v | None => f a end.
Proof.
  induction cs as [|[b v] cs IH]; intros f a; cbn [fold_left].
  - reflexivity.
  - rewrite IH. unfold last_value. cbn [rev]. rewrite find_app.
    destruct (find (fun e => fst e =? a) (rev cs)) as [e|]; [reflexivity|].
    cbn [find fst snd]. unfold slot_step; cbn [fst snd].
    rewrite (Z.eqb_sym a b). destruct (b =? a); reflexivity.
Qed.

Lemma slots_of_last cs a : slots_of cs a = last_value cs a.
Proof. unfold slots_of. rewrite fold_slots. destruct (last_value cs a); reflexivity. Qed.

Lemma byte_range x : is_byte x = true -> 0 <= x < 256.
Proof. unfold is_byte. lia. Qed.
Lemma i16_range x : is_i16 x = true -> -32768 <= x < 32768.
Proof. unfold is_i16. lia. Qed.

(* IdBuilder on the three PDU1 groups the HCU uses gives exactly prio|pgn|da|sa *)
Lemma id_build_pdu1 pgn da sa :
  (pgn = 40960 \/ pgn = 41216 \/ pgn = 45824) -> 0 <= da < 256 -> 0 <= sa < 256 ->
  id_build 3 pgn da sa = exact_id 3 pgn da sa.
Proof.
  intros Hp Hd Hs. unfold id_build, exact_id, id_is_pdu1, id_pf.
  replace (Z.min 3 7) with 3 by reflexivity.
  assert (E : ((3 * 67108864 + pgn * 256 + sa) / 65536) mod 256 <? 240 = true)
    by (destruct Hp as [->|[->| ->]]; lia).
  rewrite E. destruct Hp as [->|[->| ->]]; lia.
Qed.

Lemma exact_id_fields pgn da sa :
  (pgn = 40960 \/ pgn = 41216 \/ pgn = 45824) -> 0 <= da < 256 -> 0 <= sa < 256 ->
  let id := exact_id 3 pgn da sa in
  id_priority id = 3 /\ id_pgn id = pgn /\ id_da id = Some da /\ id_sa id = sa.
Proof.
  intros Hp Hd Hs id. subst id.
  unfold id_priority, id_pgn, id_da, id_sa, id_is_pdu1, id_pf, id_ps, exact_id.
  assert (E : ((3 * 67108864 + pgn * 256 + da * 256 + sa) / 65536) mod 256 <? 240 = true)
    by (destruct Hp as [->|[->| ->]]; lia).
  rewrite E.
  repeat split; try (f_equal); destruct Hp as [->|[->| ->]]; lia.
Qed.

Lemma id_ok_build c pgn f :
  c02_wf c = true -> (pgn = 40960 \/ pgn = 41216 \/ pgn = 45824) ->
  f_id f = id_build 3 pgn (k_da c) (k_sa c) -> id_ok c pgn f = true.
Proof.
  intros Hwf Hp Hid. unfold c02_wf in Hwf.
  apply andb_prop in Hwf as [Hwf _]. apply andb_prop in Hwf as [Hd Hs].
  apply byte_range in Hd, Hs.
  unfold id_ok. rewrite Hid, id_build_pdu1 by assumption.
  destruct (exact_id_fields pgn (k_da c) (k_sa c) Hp Hd Hs) as (H1 & H2 & H3 & H4).
  rewrite H1, H2, H3, H4, !Z.eqb_refl. reflexivity.
Qed.

(* slot bytes: little endian, and decoding gives the value back unless it is -1 *)
Lemma le16_roundtrip v : -32768 <= v < 32768 ->
  let lo := (v mod 65536) mod 256 in let hi := (v mod 65536) / 256 in
  0 <= lo < 256 /\ 0 <= hi < 256 /\ of_le16 lo hi = v /\ ((lo = 255 /\ hi = 255) <-> v = -1).
Proof.
  intros H lo hi. subst lo hi. unfold of_le16.
  destruct ((v mod 65536) mod 256 + 256 * ((v mod 65536) / 256) <? 32768) eqn:E; lia.
Qed.

Definition slot_ok (w : option Z) (lo hi : Z) (d : option Z) : bool :=
  match w with
  | Some v => (lo =? (v mod 65536) mod 256) && (hi =? (v mod 65536) / 256)
              && (match d with Some v' => negb (v =? -1) && (v' =? v) | None => v =? -1 end)
  | None => (lo =? 255) && (hi =? 255)
  end.

Definition wf_slot (w : option Z) : Prop := match w with Some v => -32768 <= v < 32768 | None => True end.

Lemma slot_bytes_ok w : wf_slot w ->
  match slot_bytes w with
  | [lo; hi] => slot_ok w lo hi (if (lo =? 255) && (hi =? 255) then None else Some (of_le16 lo hi)) = true
  | _ => False
  end.
Proof.
  destruct w as [v|]; cbn [wf_slot slot_bytes le16 slot_ok]; intros H.
  - destruct (le16_roundtrip v H) as (Hlo & Hhi & Hrt & Hm1).
    rewrite !Z.eqb_refl. cbn [andb].
    destruct (((v mod 65536) mod 256 =? 255) && ((v mod 65536) / 256 =? 255)) eqn:E.
    + assert (v = -1) by (apply Hm1; lia). lia.
    + rewrite Hrt, Z.eqb_refl. assert (v <> -1) by (intro; apply Hm1 in H0; lia). lia.
  - reflexivity.
Qed.

Lemma bank_frame_model c want b :
  c02_wf c = true -> (b = 0 \/ b = 1) -> (forall a, wf_slot (want a)) ->
  bank_frame_ok c want b
    {| f_id := id_build 3 (bank_pgn b) (k_da c) (k_sa c);
       f_data := flat_map slot_bytes (bank_slots want b) |} = true.
Proof.
  intros Hwf Hb Hw. unfold bank_frame_ok. cbn [f_id f_data].
  assert (Hpgn : bank_pgn b = if b =? 0 then 40960 else 41216)
    by (destruct Hb as [->| ->]; reflexivity).
  rewrite id_ok_build with (pgn := if b =? 0 then 40960 else 41216);
    [| assumption | destruct Hb as [->| ->]; cbn; tauto | cbn [f_id]; rewrite Hpgn; reflexivity ].
  unfold bank_slots, hcu_bank_slots. cbn [map flat_map].
  replace (b * 4 + 0) with (4 * b + 0) by lia. replace (b * 4 + 1) with (4 * b + 1) by lia.
  replace (b * 4 + 2) with (4 * b + 2) by lia. replace (b * 4 + 3) with (4 * b + 3) by lia.
  pose proof (slot_bytes_ok _ (Hw (4 * b + 0))) as H0.
  pose proof (slot_bytes_ok _ (Hw (4 * b + 1))) as H1.
  pose proof (slot_bytes_ok _ (Hw (4 * b + 2))) as H2.
  pose proof (slot_bytes_ok _ (Hw (4 * b + 3))) as H3.
  destruct (slot_bytes (want (4 * b + 0))) as [|a0 [|a1 [|? ?]]]; try contradiction.
  destruct (slot_bytes (want (4 * b + 1))) as [|b0 [|b1 [|? ?]]]; try contradiction.
  destruct (slot_bytes (want (4 * b + 2))) as [|c0 [|c1 [|? ?]]]; try contradiction.
  destruct (slot_bytes (want (4 * b + 3))) as [|d0 [|d1 [|? ?]]]; try contradiction.
  cbn [app length forallb andb Z.of_nat]. 
  change (Z.to_nat (2 * 0)) with 0%nat; change (Z.to_nat (2 * 0 + 1)) with 1%nat.
  change (Z.to_nat (2 * 1)) with 2%nat; change (Z.to_nat (2 * 1 + 1)) with 3%nat.
  change (Z.to_nat (2 * 2)) with 4%nat; change (Z.to_nat (2 * 2 + 1)) with 5%nat.
  change (Z.to_nat (2 * 3)) with 6%nat; change (Z.to_nat (2 * 3 + 1)) with 7%nat.
  change (Z.to_nat 0) with 0%nat; change (Z.to_nat 1) with 1%nat;
  change (Z.to_nat 2) with 2%nat; change (Z.to_nat 3) with 3%nat.
  cbn [nth decode_slots].
  unfold slot_ok in H0, H1, H2, H3.
  rewrite H0, H1, H2, H3. reflexivity.
Qed.

Lemma actuator_model c want :
  c02_wf c = true -> (forall a, wf_slot (want a)) ->
  actuator_ok c want (actuator_frames (k_da c) (k_sa c) want) = true.
Proof.
  intros Hwf Hw. unfold actuator_ok, actuator_frames. cbn [flat_map filter].
  assert (E : forall b, existsb (fun s : option Z => match s with Some _ => true | None => false end)
                          (bank_slots want b)
                        = existsb (fun k => is_some (want (4 * b + k))) [0; 1; 2; 3]).
  { intro b. unfold bank_slots, hcu_bank_slots. cbn [map existsb].
    replace (b * 4 + 0) with (4 * b + 0) by lia. replace (b * 4 + 1) with (4 * b + 1) by lia.
    replace (b * 4 + 2) with (4 * b + 2) by lia. replace (b * 4 + 3) with (4 * b + 3) by lia.
    reflexivity. }
  rewrite !E.
  destruct (existsb (fun k => is_some (want (4 * 0 + k))) [0; 1; 2; 3]);
  destruct (existsb (fun k => is_some (want (4 * 1 + k))) [0; 1; 2; 3]);
    cbn [app forallb2]; rewrite ?bank_frame_model by (auto; tauto); reflexivity.
Qed.

Lemma config_model c l r lock reset :
  c02_wf c = true ->
  optbyte l 0 1 = lock -> optbyte r 1 0 = reset ->
  config_ok c lock reset [motion_config_frame (k_da c) (k_sa c) l r] = true.
Proof.
  intros Hwf <- <-. unfold config_ok, motion_config_frame.
  rewrite id_ok_build with (pgn := 45824); [| assumption | tauto | reflexivity ].
  cbn [f_data]. unfold zlist_eqb. destruct (list_eq_dec _ _ _); [reflexivity | congruence].
Qed.

Lemma wf_last_value cs :
  forallb (fun e => is_actuator (fst e) && is_i16 (snd e)) cs = true ->
  forall a, wf_slot (last_value cs a).
Proof.
  intros H a. unfold last_value.
  destruct (find (fun e => fst e =? a) (rev cs)) as [e|] eqn:F; [|exact I].
  apply find_some in F as [Hin _]. apply in_rev in Hin.
  rewrite forallb_forall in H. specialize (H e Hin). apply andb_prop in H as [_ H].
  cbn [wf_slot]. apply i16_range; exact H.
Qed.

Lemma c02_holds : forall c, c02_wf c = true -> c02_spec_ok c (c02_model c) = true.
Proof.
  intros c Hwf. unfold c02_spec_ok, c02_model, encode_motion.
  pose proof Hwf as Hwf'. unfold c02_wf in Hwf'. apply andb_prop in Hwf' as [_ Hm].
  destruct (k_motion c) as [| | |v|cs] eqn:M.
  - apply config_model; auto.
  - apply config_model; auto.
  - apply config_model; auto.
  - assert (Hw : forall a, wf_slot ((fun a => if (a =? 2) || (a =? 3) then Some v else None) a)).
    { intro a. destruct ((a =? 2) || (a =? 3)); cbn; [apply i16_range; exact Hm | exact I]. }
    pose proof (actuator_model c _ Hwf Hw) as H.
    assert (Eq : forall f g : Z -> option Z, (forall a, f a = g a) ->
                 actuator_frames (k_da c) (k_sa c) f = actuator_frames (k_da c) (k_sa c) g).
    { intros f g Hfg. unfold actuator_frames, bank_slots. cbn [flat_map map]. rewrite !Hfg. reflexivity. }
    rewrite (Eq (slots_of [(2, v); (3, v)]) (fun a => if (a =? 2) || (a =? 3) then Some v else None)).
    + exact H.
    + intro a. unfold slots_of. cbn [fold_left]. unfold slot_step; cbn [fst snd].
      destruct (a =? 3) eqn:E3; destruct (a =? 2) eqn:E2; reflexivity.
  - pose proof (actuator_model c (last_value cs) Hwf (wf_last_value cs Hm)) as H.
    assert (Eq : actuator_frames (k_da c) (k_sa c) (slots_of cs)
                 = actuator_frames (k_da c) (k_sa c) (last_value cs)).
    { unfold actuator_frames, bank_slots. cbn [flat_map map]. rewrite !slots_of_last. reflexivity. }
    rewrite Eq. exact H.
Qed.

(* Prop-level corollaries *)
Lemma c02_stop_frame da sa : 0 <= da < 256 -> 0 <= sa < 256 ->
  encode_motion da sa StopAll = [ {| f_id := exact_id 3 45824 da sa; f_data := [90; 67; 255; 0; 255] |} ]
  /\ encode_motion da sa ResumeAll = [ {| f_id := exact_id 3 45824 da sa; f_data := [90; 67; 255; 1; 255] |} ]
  /\ encode_motion da sa ResetAll = [ {| f_id := exact_id 3 45824 da sa; f_data := [90; 67; 255; 255; 1] |} ].
Proof.
  intros Hd Hs. cbn [encode_motion]. unfold lock_frame, unlock_frame, reset_frame, motion_config_frame.
  rewrite id_build_pdu1 by (auto; tauto). cbn [optbyte]. auto.
Qed.

Lemma c02_empty_change da sa : encode_motion da sa (Change []) = [].
Proof. reflexivity. Qed.

Example c02_nonvacuous :
  let c := {| k_da := 74; k_sa := 39; k_motion := Change [(0, 100); (4, -1); (0, -32768)] |} in
  c02_wf c = true /\
  c02_model c = [ {| f_id := exact_id 3 40960 74 39; f_data := [0; 128; 255; 255; 255; 255; 255; 255] |};
                  {| f_id := exact_id 3 41216 74 39; f_data := [255; 255; 255; 255; 255; 255; 255; 255] |} ].
Proof. split; reflexivity. Qed.
