(* C10 end to end: the name-based predicate the check evaluates on the real publications holds of
   the authority model for EVERY well-formed case (distinct unit names, non-negative waits). *)
From Coq Require Import ZArith List Bool Lia.
Import ListNotations.
Require Import GV.Gen.Consts GV.Model.Outcome GV.Model.J1939 GV.Model.Governor GV.Model.Hcu GV.Model.Object
  GV.Model.HcuUnit GV.Model.Units GV.Model.Volvo GV.Model.CanNet GV.Model.Authority GV.Model.Auth_io GV.Spec.C10_spec
  GV.Proofs.C10_proof GV.Proofs.C10_whole.
Local Open Scope Z_scope.

Local Notation ost := (list Z * Z * option Z)%type.
Definition nameb (n : list Z) (m : list Z) : bool := if list_eq_dec Z.eq_dec m n then true else false.
Lemma nameb_refl n : nameb n n = true.
Proof. unfold nameb. destruct (list_eq_dec Z.eq_dec n n); [reflexivity | congruence]. Qed.
Lemma nameb_true n m : nameb n m = true -> m = n.
Proof. unfold nameb. destruct (list_eq_dec Z.eq_dec m n); [auto | discriminate]. Qed.

(* the published statuses decode back *)
Lemma status_roundtrip u k st e :
  status_of_sig (enc_status (u, k, (st, e))) = Some (unit_name k u, st, e).
Proof.
  unfold enc_status, status_of_sig. set (nm := unit_name k u).
  assert (Hl : 0 <= Z.of_nat (length nm)) by lia.
  replace (Z.of_nat (length nm) <? 0) with false by (symmetry; apply Z.ltb_ge; lia).
  rewrite !app_length. cbn [orb].
  replace (Z.of_nat (length nm + (length [st] + length (match e with Some x => [1; x] | None => [0; 0] end))) <? Z.of_nat (length nm) + 3)
    with false by (symmetry; apply Z.ltb_ge; destruct e; cbn [length]; lia).
  rewrite Nat2Z.id. rewrite firstn_app, firstn_all, Nat.sub_diag. cbn [firstn]. rewrite app_nil_r.
  rewrite skipn_app, skipn_all, Nat.sub_diag. cbn [skipn app].
  destruct e; reflexivity.
Qed.

Definition name_of_ref (r : uref) : list Z := unit_name (r_kind r) (r_cfg r).
Definition name_of_item (it : ditem) : list Z := unit_name (i_kind it) (i_cfg it).

(* names_distinct gives NoDup *)
Lemma count_one_nodup : forall (ns : list (list Z)),
  forallb (fun n => Nat.eqb (length (filter (nameb n) ns)) 1) ns = true -> NoDup ns.
Proof.
  induction ns as [|a t IH]; intros H; [constructor|].
  cbn [forallb filter] in H. rewrite nameb_refl in H. apply andb_prop in H as [Ha Ht].
  cbn [length] in Ha. apply Nat.eqb_eq in Ha.
  constructor.
  - intros Hin. assert (In a (filter (nameb a) t)) by (apply filter_In; split; [exact Hin | apply nameb_refl]).
    destruct (filter (nameb a) t); [contradiction | discriminate Ha].
  - apply IH. apply forallb_forall. intros n Hn. rewrite forallb_forall in Ht. specialize (Ht n Hn).
    cbn [filter] in Ht. destruct (nameb n a) eqn:E.
    + apply nameb_true in E. subst a. exfalso.
      assert (In n (filter (nameb n) t)) by (apply filter_In; split; [exact Hn | apply nameb_refl]).
      destruct (filter (nameb n) t); [contradiction | discriminate Ha].
    + exact Ht.
Qed.
Lemma names_distinct_nodup rs : names_distinct rs = true -> NoDup (map name_of_ref rs).
Proof. unfold names_distinct. intros H. apply count_one_nodup. exact H. Qed.

(* the statuses of one cycle, as the check sees them *)
Definition pub_entry (it : ditem) (p : option status) : list ost :=
  match p with Some s => [(name_of_item it, fst s, snd s)] | None => [] end.
Fixpoint entries (its : list ditem) (ps : list (option status)) : list ost :=
  match its, ps with
  | it :: t, p :: pt => pub_entry it p ++ entries t pt
  | _, _ => []
  end.

Definition byname (n : list Z) (o : ost) : bool := nameb n (fst (fst o)).
Lemma filter_entries_absent n : forall its ps, ~ In n (map name_of_item its) ->
  filter (byname n) (entries its ps) = [].
Proof.
  induction its as [|it t IH]; intros ps Hn; [reflexivity|]. destruct ps as [|p pt]; [reflexivity|].
  cbn [entries]. rewrite filter_app. rewrite IH by (intros H; apply Hn; right; exact H).
  destruct p as [s|]; cbn [pub_entry filter]; [|reflexivity]. unfold byname at 1. cbn [fst].
  destruct (nameb n (name_of_item it)) eqn:E; [|reflexivity].
  apply nameb_true in E. exfalso. apply Hn. left. exact E.
Qed.

Definition find_pub' (n : list Z) (obs : list ost) : option status * bool :=
  match filter (byname n) obs with
  | [] => (None, true)
  | [o] => (Some (snd (fst o), snd o), true)
  | _ => (None, false)
  end.
Lemma find_pub_eq r obs : find_pub r obs = find_pub' (name_of_ref r) obs.
Proof. reflexivity. Qed.

Lemma find_pub_head r it p t pt :
  name_of_ref r = name_of_item it -> ~ In (name_of_item it) (map name_of_item t) ->
  find_pub r (entries (it :: t) (p :: pt)) = (p, true).
Proof.
  intros Hn Hnot. rewrite find_pub_eq, Hn. unfold find_pub'.
  cbn [entries]. rewrite filter_app, (filter_entries_absent _ t pt Hnot), app_nil_r.
  destruct p as [[st e]|]; cbn [pub_entry filter]; [unfold byname; cbn [fst snd]; rewrite nameb_refl|]; reflexivity.
Qed.
Lemma find_pub_skip r it p t pt :
  name_of_ref r <> name_of_item it ->
  find_pub r (entries (it :: t) (p :: pt)) = find_pub r (entries t pt).
Proof.
  intros Hn. rewrite !find_pub_eq. unfold find_pub'.
  cbn [entries]. rewrite filter_app.
  destruct p as [s|]; cbn [pub_entry filter]; [|reflexivity]. unfold byname at 1. cbn [fst].
  destruct (nameb (name_of_ref r) (name_of_item it)) eqn:E; [|reflexivity].
  apply nameb_true in E. congruence.
Qed.

(* position-based and name-based judgement of a cycle agree when the names are distinct *)
Definition aligned (its : list ditem) (rs : list uref) : Prop :=
  Forall2 (fun it r => name_of_ref r = name_of_item it) its rs.

Lemma filter_pre_absent n (pre : list ost) :
  (forall o, In o pre -> fst (fst o) <> n) -> filter (byname n) pre = [].
Proof.
  induction pre as [|o t IH]; intros H; [reflexivity|]. cbn [filter]. unfold byname at 1.
  destruct (nameb n (fst (fst o))) eqn:E.
  - apply nameb_true in E. exfalso. apply (H o); [left; reflexivity | exact E].
  - apply IH. intros o' Ho'. apply H. right. exact Ho'.
Qed.

Lemma find_pub_pre r pre obs :
  (forall o, In o pre -> fst (fst o) <> name_of_ref r) -> find_pub r (pre ++ obs) = find_pub r obs.
Proof. intros H. rewrite !find_pub_eq. unfold find_pub'. rewrite filter_app, (filter_pre_absent _ pre H). reflexivity. Qed.

Lemma cycle_all_pos k now : forall its rs, aligned its rs -> forall pubs pre,
  length pubs = length its -> NoDup (map name_of_item its) ->
  (forall o, In o pre -> ~ In (fst (fst o)) (map name_of_item its)) ->
  cycle_all rs k now (pre ++ entries its pubs) = cycle_pos rs k now pubs.
Proof.
  induction 1 as [|it r its rs Hn HF IH]; intros pubs pre Hlen Hnd Hpre.
  - destruct pubs; [reflexivity | discriminate Hlen].
  - destruct pubs as [|p pt]; [discriminate Hlen|]. cbn [cycle_all cycle_pos].
    inversion Hnd as [|x l Hnotin Hnd']; subst.
    rewrite find_pub_pre by (intros o Ho; rewrite Hn; intros E; apply (Hpre o Ho); left; symmetry; exact E).
    rewrite (find_pub_head r it p its pt Hn Hnotin).
    replace (pre ++ entries (it :: its) (p :: pt)) with ((pre ++ pub_entry it p) ++ entries its pt)
      by (cbn [entries]; rewrite app_assoc; reflexivity).
    rewrite IH.
    + destruct (cycle_pos rs k now pt) as [ok t']. cbn [andb]. destruct p; reflexivity.
    + cbn [length] in Hlen. lia.
    + exact Hnd'.
    + intros o Ho. apply in_app_or in Ho. destruct Ho as [Ho|Ho].
      * intros Hin. apply (Hpre o Ho). right. exact Hin.
      * destruct p as [s|]; cbn [pub_entry] in Ho; [|contradiction]. destruct Ho as [<-|[]]. cbn [fst]. exact Hnotin.
Qed.

Lemma filter_map_app {A B} (f : A -> option B) (a b : list A) :
  filter_map f (a ++ b) = filter_map f a ++ filter_map f b.
Proof. induction a as [|x t IH]; [reflexivity|]. cbn [app filter_map]. destruct (f x); [cbn [app]; f_equal|]; exact IH. Qed.

(* what the check decodes from the model's publications of one cycle *)
Lemma decoded_cycle a now :
  filter_map status_of_sig (map enc_status (to_status (auth_on_tick a now)))
  = entries (a_items a) (map (fun it => snd (item_status it (a_tick a) now)) (a_items a)).
Proof.
  rewrite tick_publishes. induction (a_items a) as [|it t IH]; [reflexivity|].
  cbn [flat_map map entries]. rewrite map_app, filter_map_app.
  rewrite IH. f_equal.
    pose proof (item_status_spec it (a_tick a) now) as S.
    destruct (item_status it (a_tick a) now) as [it' [[st e]|]]; cbn [fst snd pub_entry map filter_map]; [|reflexivity].
    destruct S as (_ & _ & K & C & _). rewrite status_roundtrip. unfold name_of_item. rewrite K, C. reflexivity.
Qed.

Lemma rel_names now its rs : Forall2 (rel now) its rs -> aligned its rs /\ map name_of_ref rs = map name_of_item its.
Proof.
  induction 1 as [|it r its rs H HF [IH1 IH2]]; [split; [constructor | reflexivity]|].
  destruct H as (Hk & Hc & _). assert (E : name_of_ref r = name_of_item it) by (unfold name_of_ref, name_of_item; rewrite Hk, Hc; reflexivity).
  split; [constructor; assumption | cbn [map]; rewrite E, IH2; reflexivity].
Qed.

Lemma entries_named : forall its ps o, In o (entries its ps) -> In (fst (fst o)) (map name_of_item its).
Proof.
  induction its as [|it t IH]; intros ps o H; [destruct ps; contradiction|]. destruct ps as [|p pt]; [contradiction|].
  cbn [entries] in H. apply in_app_or in H. destruct H as [H|H].
  - destruct p as [s|]; cbn [pub_entry] in H; [|contradiction]. destruct H as [<-|[]]. left. reflexivity.
  - right. apply (IH pt). exact H.
Qed.

Lemma named_ok rs (st : list ost) :
  (forall o, In o st -> In (fst (fst o)) (map name_of_ref rs)) ->
  forallb (fun s => existsb (fun r => if list_eq_dec Z.eq_dec (fst (fst s)) (unit_name (r_kind r) (r_cfg r)) then true else false) rs) st = true.
Proof.
  intros H. apply forallb_forall. intros s Hs. apply existsb_exists.
  specialize (H s Hs). apply in_map_iff in H. destruct H as (r & Hr & Hin). exists r. split; [exact Hin|].
  unfold name_of_ref in Hr. destruct (list_eq_dec Z.eq_dec (fst (fst s)) (unit_name (r_kind r) (r_cfg r))); [reflexivity | congruence].
Qed.

Lemma hear_names now f : forall rs, map name_of_ref (hear rs now f) = map name_of_ref rs.
Proof.
  induction rs as [|r t IH]; [reflexivity|]. cbn [hear]. destruct (accepts r f) as [acc sg].
  destruct sg; cbn [map]; [|rewrite IH]; destruct acc; reflexivity.
Qed.
Lemma set_prev_name r p : name_of_ref (set_prev r p) = name_of_ref r.
Proof. destruct p; reflexivity. Qed.
Lemma cycle_pos_names k now : forall rs pubs, length pubs = length rs ->
  map name_of_ref (snd (cycle_pos rs k now pubs)) = map name_of_ref rs.
Proof.
  induction rs as [|r t IH]; intros pubs H; destruct pubs as [|p pt]; try discriminate H; [reflexivity|].
  cbn [cycle_pos]. specialize (IH pt ltac:(cbn [length] in H; lia)).
  destruct (cycle_pos t k now pt) as [ok t']. cbn [snd map] in *. rewrite set_prev_name, IH. reflexivity.
Qed.

Lemma Forall2_len {A B} (R : A -> B -> Prop) l l' : Forall2 R l l' -> length l = length l'.
Proof. induction 1; [reflexivity | cbn [length]; f_equal; assumption]. Qed.

Theorem c10_walk_model : forall evs a rs now,
  Forall2 (rel now) (a_items a) rs -> NoDup (map name_of_ref rs) ->
  forallb (fun e => match e with AWait ms => 0 <=? ms | _ => true end) evs = true ->
  c10_walk rs (a_tick a) now evs (map (fun p => c10_obs_of (fst p) (snd p)) (combine evs (arun a now evs))) = true.
Proof.
  induction evs as [|e t IH]; intros a rs now HR Hnd Hw; [reflexivity|].
  cbn [forallb] in Hw. apply andb_prop in Hw as [Hw0 Hw].
  destruct e as [raw| |ob|ms| |]; cbn [arun].
  - destruct (of_can_frame raw) as [f|] eqn:Ef.
    + destruct (auth_recv a now (normalise f)) as [[a' rs0] sigs] eqn:Er.
      cbn [combine map fst snd c10_obs_of c10_walk]. rewrite Ef.
      unfold auth_recv in Er. change (f_id (normalise f)) with (f_id f) in Er. destruct (id_pgn (f_id f) =? PGN_REQUEST).
      * injection Er as <- _ _. apply IH; assumption.
      * generalize (scan_rel now (normalise f) _ _ HR).
        destruct (scan_items (a_items a) now (normalise f)) as [its sg]. injection Er as <- _ _. cbn [fst]. intros HR'.
        apply (IH {| a_items := its; a_tick := a_tick a; a_setup := a_setup a; a_addr := a_addr a; a_name := a_name a |});
          [exact HR' | rewrite hear_names; exact Hnd | exact Hw].
    + cbn [combine map fst snd c10_obs_of c10_walk]. rewrite Ef. apply IH; assumption.
  - cbn [combine map fst snd c10_obs_of c10_walk as_sigs].
    rewrite decoded_cycle.
    destruct (rel_names _ _ _ HR) as [Hal Hnames].
    set (pubs := map (fun it => snd (item_status it (a_tick a) now)) (a_items a)).
    assert (Hlen : length pubs = length (a_items a)) by (unfold pubs; apply map_length).
    assert (Hnd' : NoDup (map name_of_item (a_items a))) by (rewrite <- Hnames; exact Hnd).
    pose proof (cycle_all_pos (a_tick a) now _ _ Hal pubs [] Hlen Hnd' ltac:(intros o [])) as Hc. cbn [app] in Hc. rewrite Hc. clear Hc.
    destruct (tick_all (a_tick a) now _ _ HR) as [T1 T2]. fold pubs in T1, T2.
    assert (Hlen2 : length pubs = length rs) by (rewrite Hlen; apply (Forall2_len _ _ _ HR)).
    generalize (cycle_pos_names (a_tick a) now rs pubs Hlen2).
    destruct (cycle_pos rs (a_tick a) now pubs) as [ok rs']. cbn [fst snd] in *. intros Hn'. subst ok. cbn [andb].
    rewrite named_ok by (intros o Ho; rewrite Hnames; apply (entries_named _ _ _ Ho)). cbn [andb].
    apply (IH (to_auth (auth_on_tick a now)) rs' now); [|rewrite Hn'; exact Hnd | exact Hw].
    unfold auth_on_tick. cbn [to_auth a_items]. rewrite map_map. exact T2.
  - destruct (auth_on_command a now ob) as [a' fs] eqn:Ec. cbn [combine map fst snd c10_obs_of c10_walk].
    unfold auth_on_command in Ec. generalize (on_command_rel now ob _ _ HR).
    destruct (on_command_items (a_items a) now ob) as [its fs']. injection Ec as <- _. cbn [fst]. intros HR'.
    apply (IH {| a_items := its; a_tick := a_tick a; a_setup := a_setup a; a_addr := a_addr a; a_name := a_name a |}); assumption.
  - cbn [combine map fst snd c10_obs_of c10_walk]. apply IH; [|exact Hnd | exact Hw]. apply Z.leb_le in Hw0.
    clear -HR Hw0. induction HR; constructor; [apply wait_rel; assumption | assumption].
  - cbn [combine map fst snd c10_obs_of c10_walk]. apply IH; assumption.
  - cbn [combine map fst snd c10_obs_of c10_walk]. apply IH; assumption.
Qed.

Lemma arun_length : forall evs a now, length (arun a now evs) = length evs.
Proof.
  induction evs as [|e t IH]; intros a now; [reflexivity|].
  destruct e as [raw| |ob|ms| |]; cbn [arun length]; try (f_equal; apply IH).
  - destruct (of_can_frame raw); [destruct (auth_recv a now (normalise f)) as [[a' r0] sg]|]; cbn [length]; f_equal; apply IH.
  - destruct (auth_on_command a now ob). cbn [length]. f_equal. apply IH.
Qed.

(* the property predicate of the C10 check, for EVERY well-formed case *)
Theorem c10_holds_all : forall c, c10_wf c = true -> c10_spec_ok c (amodel c) = true.
Proof.
  intros c H. unfold c10_wf in H. apply andb_prop in H as [Hn Hw].
  unfold c10_spec_ok, amodel. apply andb_true_intro. split.
  - apply Nat.eqb_eq. apply arun_length.
  - apply (c10_walk_model (ac_events c) (auth_new 0 (ac_addr c) (ac_name c) (ac_confs c)) (c10_refs c) 0).
    + apply new_rel.
    + apply names_distinct_nodup. exact Hn.
    + exact Hw.
Qed.
