(* C09 with signals queued in bursts: regrouping the per-signal outputs loses and reorders nothing. *)
From Coq Require Import ZArith List Bool Lia.
Import ListNotations.
Require Import GV.Model.Director GV.Spec.C09_spec GV.Model.C09_io.

Lemma regroup_concat : forall fuel g (o : list (list dcmd)),
  (0 < g)%nat -> (length o <= fuel)%nat -> concat (regroup fuel g o) = concat o.
Proof.
  induction fuel as [|f IH]; intros g o Hg Hl.
  - destruct o; [reflexivity | cbn in Hl; lia].
  - destruct o as [|x o']; [reflexivity|].
    cbn [regroup]. cbn [concat].
    rewrite IH; [| exact Hg | rewrite skipn_length; cbn [length] in *; lia].
    rewrite <- concat_app, firstn_skipn. reflexivity.
Qed.

Lemma drun_length : forall h s, length (drun s h) = length h.
Proof.
  induction h as [|sg t IH]; intros s; [reflexivity|].
  cbn [drun]. destruct (dstep s sg) as [s' out]. cbn [length]. rewrite IH. reflexivity.
Qed.

Theorem burst_preserves_commands : forall g h,
  (0 < g)%nat -> concat (regroup (length h) g (GV.Spec.C09_spec.c09_model h)) = concat (GV.Spec.C09_spec.c09_model h).
Proof.
  intros g h Hg. apply regroup_concat; [exact Hg|].
  unfold GV.Spec.C09_spec.c09_model. rewrite drun_length. lia.
Qed.
