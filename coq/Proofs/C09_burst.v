(* C09 with signals queued in bursts: regrouping the per-signal outputs loses and reorders nothing. *)
From Coq Require Import ZArith List Bool Lia.
Import ListNotations.
Require Import GV.Model.Director GV.Spec.C09_spec GV.Model.C09_io.

Lemma regroup_concat : forall fuel g (o : list (list dcmd)),
  (0 < g)%nat -> (length o <= fuel)%nat -> concat (regroup fuel g o) = concat o.
Proof.
  induction fuel as [|f IH]; intros g o Hg Hl.
  - destruct o; [reflexivity | cbn in Hl; lia].
  - destruct o as [|x o']; [reflexivity|].
    cbn [regroup]. cbn [concat].
    rewrite IH; [| exact Hg | rewrite skipn_length; cbn [length] in *; lia].
    rewrite <- concat_app, firstn_skipn. reflexivity.
Qed.

Lemma drun_length : forall h s, length (drun s h) = length h.
Proof.
  induction h as [|sg t IH]; intros s; [reflexivity|].
  cbn [drun]. destruct (dstep s sg) as [s' out]. cbn [length]. rewrite IH. reflexivity.
Qed.

Theorem burst_preserves_commands : forall g h,
  (0 < g)%nat -> concat (regroup (length h) g (GV.Spec.C09_spec.c09_model h)) = concat (GV.Spec.C09_spec.c09_model h).
Proof.
  intros g h Hg. apply regroup_concat; [exact Hg|].
  unfold GV.Spec.C09_spec.c09_model. rewrite drun_length. lia.
Qed.

(* ---- the director as the runtime schedules it: lagging loses whole groups of signals, never the verdicts elected
   from the signals that were processed ---- *)
Lemma drun_st_snd : forall h s, snd (drun_st s h) = drun s h.
Proof.
  induction h as [|sg t IH]; intros s; [reflexivity|].
  cbn [drun_st drun]. destruct (dstep s sg) as [s' out]. specialize (IH s').
  destruct (drun_st s' t) as [s'' outs]. cbn [snd] in *. rewrite IH. reflexivity.
Qed.

Lemma drun_st_app : forall a b s,
  drun_st s (a ++ b) =
  (fst (drun_st (fst (drun_st s a)) b), snd (drun_st s a) ++ snd (drun_st (fst (drun_st s a)) b)).
Proof.
  induction a as [|x a IH]; intros b s.
  - cbn [app drun_st fst snd]. destruct (drun_st s b); reflexivity.
  - cbn [app drun_st]. destruct (dstep s x) as [s' out]. rewrite IH.
    destruct (drun_st s' a) as [s'' outs]. cbn [fst snd]. reflexivity.
Qed.

(* the signals that are processed: the groups (sizes 3, g, 3, g, ...) of at most 16 *)
Fixpoint kept (fuel : nat) (small : bool) (g : nat) (h : list dsignal) : list dsignal :=
  match fuel with
  | O => []
  | S f => match h with
           | [] => []
           | _ => let n := if small then 3%nat else g in
                  let grp := firstn n h in
                  (if Nat.leb (length grp) 16 then grp else []) ++ kept f (negb small) g (skipn n h)
           end
  end.

Theorem lag_loses_groups_not_verdicts : forall fuel s small g h,
  concat (drun_groups fuel s small g h) = concat (drun s (kept fuel small g h)).
Proof.
  induction fuel as [|f IH]; intros s small g h; [reflexivity|].
  cbn [drun_groups kept]. destruct h as [|x h']; [reflexivity|].
  set (n := if small then 3%nat else g). set (grp := firstn n (x :: h')).
  destruct (Nat.leb (length grp) 16).
  - destruct (drun_st s grp) as [s' outs] eqn:E. cbn [concat].
    rewrite IH. rewrite <- (drun_st_snd (grp ++ _) s), drun_st_app. cbn [snd]. rewrite E. cbn [fst snd].
    rewrite concat_app, drun_st_snd. reflexivity.
  - cbn [concat app]. apply IH.
Qed.
