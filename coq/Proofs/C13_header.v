From Coq Require Import ZArith List Bool Lia ZifyBool.
Import ListNotations.
Require Import GV.Gen.Consts GV.Model.Hcu GV.Model.Packets GV.Proofs.Cursor GV.Proofs.C13_total.
Local Open Scope Z_scope.
Ltac Zify.zify_post_hook ::= Z.div_mod_to_equations.

Lemma header_canonical t n :
  enc_header t n = [76; 88; 82; 3; t; (n / 256) mod 256; n mod 256; 0; 0; 0].
Proof. reflexivity. Qed.

(* the header parser accepts exactly the canonical headers with 1 <= length <= 1024 *)
Lemma parser_exact : forall h t n, wfb h -> 0 <= n < 65536 ->
  (parse_header h = inl (t, n) <-> h = enc_header t n /\ 1 <= n <= 1024).
Proof.
  intros h t n W Hn. rewrite header_canonical. split.
  - destruct h as [|b0 [|b1 [|b2 [|b3 [|b4 [|b5 [|b6 [|b7 [|b8 [|b9 [|? ?]]]]]]]]]]]; cbn [parse_header]; try discriminate.
    unfold proto_header, proto_version, max_payload_size.
    destruct (list_eq_dec Z.eq_dec [b0; b1; b2] [76; 88; 82]) as [E|E]; cbn [negb]; [|discriminate].
    destruct (b3 =? 3) eqn:E3; cbn [negb]; [|discriminate].
    destruct (b5 * 256 + b6 =? 0) eqn:E0; [discriminate|].
    destruct (1024 <? b5 * 256 + b6) eqn:E1; [discriminate|].
    destruct ((b7 =? 0) && (b8 =? 0) && (b9 =? 0)) eqn:E7; cbn [negb]; [|discriminate].
    intros H. injection H as <- <-. injection E as -> -> ->.
    unfold wfb in W. repeat (match goal with H : Forall _ (_ :: _) |- _ => inversion H; clear H; subst end).
    unfold isb in *.
    assert (b3 = 3) by lia. assert (b7 = 0) by lia. assert (b8 = 0) by lia. assert (b9 = 0) by lia. subst.
    split; [|lia]. repeat f_equal; lia.
  - intros [-> Hr]. cbn [parse_header]. unfold proto_header, proto_version, max_payload_size.
    destruct (list_eq_dec Z.eq_dec [76; 88; 82] [76; 88; 82]) as [_|E]; [|congruence]. cbn [negb Z.eqb Pos.eqb].
    assert (E : (n / 256) mod 256 * 256 + n mod 256 = n) by lia. rewrite E.
    destruct (n =? 0) eqn:E0; [lia|]. destruct (1024 <? n) eqn:E1; [lia|]. reflexivity.
Qed.

(* every rejection is one of the named errors, in the code's check order (used by C04/C05) *)
Lemma parser_rejects_misc h : length h <> 10%nat -> parse_header h = inr HTooSmall.
Proof.
  destruct h as [|b0 [|b1 [|b2 [|b3 [|b4 [|b5 [|b6 [|b7 [|b8 [|b9 [|? ?]]]]]]]]]]]; cbn; try reflexivity; congruence.
Qed.

Lemma types_distinct : NoDup all_types.
Proof.
  unfold all_types.
  repeat (constructor; [cbn [In]; intros H; repeat (destruct H as [H|H]; [discriminate|]); exact H|]).
  constructor.
Qed.

Lemma fixed_sizes :
  fixed_size type_error = Some 1 /\ fixed_size type_request = Some 1 /\ fixed_size type_gnss = Some 22
  /\ fixed_size type_engine = Some 5 /\ fixed_size type_target = Some 25 /\ fixed_size type_control = Some 2
  /\ fixed_size type_rotator = Some 14
  /\ fixed_size type_session = None /\ fixed_size type_instance = None /\ fixed_size type_status = None
  /\ fixed_size type_motion = None /\ fixed_size type_actor = None.
Proof. repeat split; reflexivity. Qed.
