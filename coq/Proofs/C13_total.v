(* Totality of packet reception: recv_packet never reaches a panic point, for every type code,
   every declared length and every payload (list of arbitrary integers). *)
From Coq Require Import ZArith List Bool Lia ZifyBool.
Import ListNotations.
Require Import GV.Gen.Consts GV.Model.Hcu GV.Model.Packets GV.Proofs.Cursor.
Local Open Scope Z_scope.

Definition nopanic {A} (r : dres A) : Prop := r <> DPanic.
Definition isb (x : Z) : Prop := 0 <= x < 256.
Definition wfb (b : list Z) : Prop := Forall isb b.

Lemma wfb_skipn n : forall b, wfb b -> wfb (skipn n b).
Proof. induction n as [|n IH]; intros [|x b] H; cbn; auto. apply IH. inversion H; auto. Qed.

Lemma np_ret {A} (a : A) b : nopanic (ret a b).
Proof. discriminate. Qed.
Lemma np_fail {A} b : nopanic (@fail A b).
Proof. discriminate. Qed.
Lemma np_bind_rem {A} (f : Z -> rd A) b : nopanic (f (lenb b) b) -> nopanic (bind remaining f b).
Proof. unfold bind; rewrite remaining_spec; auto. Qed.
Lemma np_bind_u8 {A} (f : Z -> rd A) b : wfb b -> 1 <= lenb b ->
  (forall x t, wfb t -> isb x -> lenb t = lenb b - 1 -> nopanic (f x t)) -> nopanic (bind get_u8 f b).
Proof.
  intros W H K. destruct (get_u8_spec b H) as (x & t & E & Hl & ->). unfold bind; rewrite E.
  inversion W; subst. auto.
Qed.
Lemma np_bind_u16 {A} (f : Z -> rd A) b : wfb b -> 2 <= lenb b ->
  (forall x t, wfb t -> 0 <= x < 65536 -> lenb t = lenb b - 2 -> nopanic (f x t)) -> nopanic (bind get_u16 f b).
Proof.
  intros W H K. destruct (get_u16_spec b H) as (x & y & t & E & Hl & ->). unfold bind; rewrite E.
  inversion W as [|? ? Hx W']; subst. inversion W' as [|? ? Hy W'']; subst.
  apply K; auto. unfold isb in *. lia.
Qed.
Lemma np_bind_take {A} (f : list Z -> rd A) n b : wfb b -> 0 <= n <= lenb b ->
  (forall x t, wfb t -> lenb t = lenb b - n -> nopanic (f x t)) -> nopanic (bind (take_n n) f b).
Proof.
  intros W H K. destruct (take_n_spec n b H) as (E & Hl & _). unfold bind; rewrite E.
  apply K; auto. apply wfb_skipn; exact W.
Qed.
Lemma rd_words_wfb n : forall b ws t, wfb b -> rd_words n b = DOk (ws, t) -> wfb t.
Proof.
  induction n as [|n IH]; intros b ws t W; cbn [rd_words].
  - unfold ret. intros E; inversion E; subst; exact W.
  - unfold bind. destruct b as [|x [|y [|z [|w b']]]]; cbn [get_u32]; try discriminate.
    destruct (rd_words n b') as [[ws' t']| |] eqn:E'; try discriminate.
    unfold ret. intros E; inversion E; subst. eapply IH; [|exact E'].
    inversion W as [|? ? _ W1]; inversion W1 as [|? ? _ W2]; inversion W2 as [|? ? _ W3]; inversion W3; auto.
Qed.
Lemma np_bind_words {A} (f : list Z -> rd A) n b : wfb b -> 4 * Z.of_nat n <= lenb b ->
  (forall x t, wfb t -> lenb t = lenb b - 4 * Z.of_nat n -> nopanic (f x t)) -> nopanic (bind (rd_words n) f b).
Proof.
  intros W H K. destruct (rd_words_spec n b H) as (ws & t & E & Hl & _). unfold bind; rewrite E.
  apply K; auto. eapply rd_words_wfb; eauto.
Qed.

Ltac np :=
  repeat first
  [ apply np_ret | apply np_fail
  | apply np_bind_rem
  | apply np_bind_u8; [assumption | lia | intros ? ? ? ? ?]
  | apply np_bind_u16; [assumption | lia | intros ? ? ? ? ?]
  | apply np_bind_words; [assumption | cbn; lia | intros ? ? ? ?]
  | apply np_bind_take; [assumption | lia | intros ? ? ? ?]
  | match goal with |- nopanic ((if ?c then _ else _) _) => destruct c eqn:? end ].

Lemma np_bind_gen {A B} (m : rd A) (k : A -> rd B) b :
  nopanic (m b) -> (forall a t, nopanic (k a t)) -> nopanic (bind m k b).
Proof. unfold nopanic, bind. destruct (m b) as [[a t]| |]; auto; discriminate. Qed.

Lemma np_changes : forall n b, wfb b -> lenb b = 4 * Z.of_nat n -> nopanic (rd_changes n b).
Proof.
  induction n as [|n IH]; intros b W Hl; cbn [rd_changes]; [apply np_ret|].
  apply np_bind_u16; [assumption | lia | intros x t Wt Hx Ht].
  destruct (actuator_ok_b x); [|apply np_fail].
  apply np_bind_u16; [assumption | lia | intros y t2 Wt2 Hy Ht2].
  apply np_bind_gen; [apply IH; [assumption | lia] | intros; apply np_ret].
Qed.

Lemma np_segments : forall n b, wfb b -> nopanic (rd_segments n b).
Proof.
  induction n as [|n IH]; intros b W; cbn [rd_segments]; [apply np_ret|].
  np. apply np_bind_gen; [apply IH; assumption | intros; apply np_ret].
Qed.

Lemma np_motion b : wfb b -> 1 <= lenb b -> nopanic (dec_motion_payload b).
Proof.
  intros W H. unfold dec_motion_payload. np.
  apply np_bind_gen; [|intros; apply np_ret].
  apply np_changes; [assumption|]. unfold isb in *. lia.
Qed.

(* every decoder, guarded only by "the payload is not empty" and, for the fixed-size types, by
   the size gate of recv_packet *)
Lemma np_dec_payload t b :
  wfb b -> 1 <= lenb b -> (forall s, fixed_size t = Some s -> lenb b = s) -> nopanic (dec_payload t b).
Proof.
  intros W H1 Hfix. unfold dec_payload, dec_error, dec_session, dec_request, dec_instance, dec_status,
    dec_motion_p, dec_gnss, dec_engine, dec_target, dec_control, dec_rotator, dec_actor.
  destruct (t =? type_error) eqn:E0; [np|].
  destruct (t =? type_session) eqn:E1; [np|].
  destruct (t =? type_request) eqn:E2; [np|].
  destruct (t =? type_instance) eqn:E3; [np|].
  destruct (t =? type_status) eqn:E4; [np|].
  destruct (t =? type_motion) eqn:E5.
  { apply np_bind_gen; [apply np_motion; assumption | intros; apply np_ret]. }
  destruct (t =? type_gnss) eqn:E6.
  { assert (lenb b = size_gnss) by (apply Hfix; unfold fixed_size; rewrite E0, E2, E6; reflexivity).
    unfold size_gnss in *. np. }
  destruct (t =? type_engine) eqn:E7.
  { assert (lenb b = size_engine) by (apply Hfix; unfold fixed_size; rewrite E0, E2, E6, E7; reflexivity).
    unfold size_engine in *. np. }
  destruct (t =? type_target) eqn:E8.
  { assert (lenb b = size_target) by (apply Hfix; unfold fixed_size; rewrite E0, E2, E6, E7, E8; reflexivity).
    unfold size_target in *. np. }
  destruct (t =? type_control) eqn:E9.
  { assert (lenb b = size_control) by (apply Hfix; unfold fixed_size; rewrite E0, E2, E6, E7, E8, E9; reflexivity).
    unfold size_control in *. np. }
  destruct (t =? type_rotator) eqn:E10.
  { assert (lenb b = size_rotator) by (apply Hfix; unfold fixed_size; rewrite E0, E2, E6, E7, E8, E9, E10; reflexivity).
    unfold size_rotator in *. np. }
  destruct (t =? type_actor) eqn:E11.
  { np. apply np_bind_gen; [apply np_segments; assumption | intros; apply np_ret]. }
  apply np_fail.
Qed.

Lemma np_run {A} (m : rd A) b : nopanic (m b) -> nopanic (run m b).
Proof. unfold nopanic, run. destruct (m b) as [[a t]| |]; auto; discriminate. Qed.

Theorem recv_packet_total : forall t payload, wfb payload -> recv_packet t payload <> DPanic.
Proof.
  intros t payload W. unfold recv_packet.
  destruct (lenb payload =? 0) eqn:E0; [discriminate|].
  pose proof (lenb_nonneg payload).
  destruct (fixed_size t) as [s|] eqn:F.
  - destruct (negb (lenb payload =? s)) eqn:E1; [discriminate|].
    destruct (max_payload_size <? lenb payload); [discriminate|].
    apply np_run, np_dec_payload; [assumption | lia |]. intros s' Hs'. rewrite F in Hs'. injection Hs' as <-.
    apply negb_false_iff in E1. apply Z.eqb_eq in E1. exact E1.
  - destruct (max_payload_size <? lenb payload); [discriminate|].
    apply np_run, np_dec_payload; [assumption | lia |]. intros s' Hs'. rewrite F in Hs'. discriminate.
Qed.
