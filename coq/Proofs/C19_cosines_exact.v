(* C19, law_of_cosines in binary32, exact case: sides that are small integers over a common power of two.
   Every intermediate (the squares, the sum, the difference, 2a, 2ab) is representable, so the quotient is the
   correctly rounded exact cosine and an existing triangle - degenerate ones included - does not give NaN. *)
From Coq Require Import ZArith Reals Lra Lia Bool List.
From Flocq Require Import Core Relative BinarySingleNaN.
Require Import GV.Model.Outcome GV.Model.F32 GV.Model.Kinematics GV.Spec.C19_spec GV.Proofs.F32_lemmas GV.Proofs.C19_profile GV.Proofs.C19_cosines_f32.
Local Open Scope R_scope.

(* an integer below 2^23 times a power of two in range is a float, and small *)
Lemma small_val z ee : (Z.abs z <= 2 ^ 23)%Z -> (-149 <= ee <= 82)%Z ->
  fmt (IZR z * bpow2 ee) /\ Rabs (IZR z * bpow2 ee) <= bpow2 105.
Proof.
  intros Hz He. split.
  - change (IZR z * bpow2 ee) with (F2R (Float radix2 z ee)). apply fmt_small_F2R; lia.
  - rewrite Rabs_mult, (Rabs_pos_eq (bpow2 ee)) by apply bpow_ge_0. rewrite <- abs_IZR.
    apply Rle_trans with (IZR (2 ^ 23) * bpow2 82).
    + apply Rmult_le_compat; [apply IZR_le, Z.abs_nonneg | apply bpow_ge_0 | apply IZR_le; exact Hz | apply bpow_le; lia].
    + change (IZR (2 ^ 23)) with (bpow2 23). rewrite <- bpow_plus. apply bpow_le. lia.
Qed.
Lemma rnd_exact z ee : (Z.abs z <= 2 ^ 23)%Z -> (-149 <= ee <= 82)%Z ->
  rnd (IZR z * bpow2 ee) = IZR z * bpow2 ee /\ Rabs (rnd (IZR z * bpow2 ee)) < bpow2 128.
Proof.
  intros Hz He. destruct (small_val z ee Hz He) as [F B]. rewrite (rnd_id _ F). split; [reflexivity|].
  apply Rle_lt_trans with (1 := B). apply bpow_lt. lia.
Qed.

Lemma loc_exact_core (a b c : f32) (A B C e : Z) :
  is_finite a = true -> is_finite b = true -> is_finite c = true ->
  R32 a = IZR A * bpow2 e -> R32 b = IZR B * bpow2 e -> R32 c = IZR C * bpow2 e ->
  (0 < A < 2048)%Z -> (0 < B < 2048)%Z -> (0 < C < 2048)%Z -> (-64 <= e <= 41)%Z ->
  (Z.abs (A * A + B * B - C * C) <= 2 * A * B)%Z ->
  loc_is_nan a b c = false.
Proof.
  intros Fa Fb Fc Ra Rb Rc HA HB HC He Hex.
  assert (K : bpow2 e * bpow2 e = bpow2 (2 * e)) by (rewrite <- bpow_plus; f_equal; lia).
  (* squares *)
  assert (Pa : R32 a * R32 a = IZR (A * A) * bpow2 (2 * e)) by (rewrite Ra, mult_IZR, <- K; ring).
  assert (Pb : R32 b * R32 b = IZR (B * B) * bpow2 (2 * e)) by (rewrite Rb, mult_IZR, <- K; ring).
  assert (Pc : R32 c * R32 c = IZR (C * C) * bpow2 (2 * e)) by (rewrite Rc, mult_IZR, <- K; ring).
  destruct (rnd_exact (A * A) (2 * e) ltac:(nia) ltac:(lia)) as [Ea Ba].
  destruct (rnd_exact (B * B) (2 * e) ltac:(nia) ltac:(lia)) as [Eb Bb].
  destruct (rnd_exact (C * C) (2 * e) ltac:(nia) ltac:(lia)) as [Ec Bc].
  destruct (fmul_finite a a Fa Fa) as [Ra2 Fa2]; [rewrite Pa; exact Ba|]. rewrite Pa, Ea in Ra2.
  destruct (fmul_finite b b Fb Fb) as [Rb2 Fb2]; [rewrite Pb; exact Bb|]. rewrite Pb, Eb in Rb2.
  destruct (fmul_finite c c Fc Fc) as [Rc2 Fc2]; [rewrite Pc; exact Bc|]. rewrite Pc, Ec in Rc2.
  (* sum and difference *)
  assert (Ps : R32 (fmul a a) + R32 (fmul b b) = IZR (A * A + B * B) * bpow2 (2 * e)) by (rewrite Ra2, Rb2, plus_IZR; ring).
  destruct (rnd_exact (A * A + B * B) (2 * e) ltac:(nia) ltac:(lia)) as [Es Bs].
  destruct (fadd_finite _ _ Fa2 Fb2) as [Rs Fs]; [rewrite Ps; exact Bs|]. rewrite Ps, Es in Rs.
  assert (Pn : R32 (fadd (fmul a a) (fmul b b)) - R32 (fmul c c) = IZR (A * A + B * B - C * C) * bpow2 (2 * e))
    by (rewrite Rs, Rc2, minus_IZR; ring).
  destruct (rnd_exact (A * A + B * B - C * C) (2 * e) ltac:(nia) ltac:(lia)) as [En Bn].
  destruct (fsub_finite _ _ Fs Fc2) as [Rn Fn]; [rewrite Pn; exact Bn|]. rewrite Pn, En in Rn.
  (* denominator *)
  assert (R2 : R32 ftwo = 2) by (cbn; unfold F2R; cbn [Fnum Fexp]; change (IZR (Zpos 8388608)) with (bpow2 23); rewrite <- bpow_plus; reflexivity).
  assert (Pt : R32 ftwo * R32 a = IZR (2 * A) * bpow2 e) by (rewrite R2, Ra, mult_IZR; ring).
  destruct (rnd_exact (2 * A) e ltac:(nia) ltac:(lia)) as [Et Bt].
  destruct (fmul_finite ftwo a eq_refl Fa) as [Rt Ft]; [rewrite Pt; exact Bt|]. rewrite Pt, Et in Rt.
  assert (Pd : R32 (fmul ftwo a) * R32 b = IZR (2 * A * B) * bpow2 (2 * e)) by (rewrite Rt, Rb, !mult_IZR, <- K; ring).
  destruct (rnd_exact (2 * A * B) (2 * e) ltac:(nia) ltac:(lia)) as [Ed Bd].
  destruct (fmul_finite _ _ Ft Fb) as [Rd Fd]; [rewrite Pd; exact Bd|]. rewrite Pd, Ed in Rd.
  (* the quotient *)
  set (n := fsub (fadd (fmul a a) (fmul b b)) (fmul c c)) in *.
  set (d := fmul (fmul ftwo a) b) in *.
  assert (Kp : 0 < bpow2 (2 * e)) by apply bpow_gt_0.
  assert (Dp : 0 < IZR (2 * A * B)) by (apply IZR_lt; nia).
  assert (Hd0 : 0 < R32 d) by (rewrite Rd; apply Rmult_lt_0_compat; assumption).
  assert (Hq : Rabs (R32 n / R32 d) <= 1).
  { rewrite Rn, Rd. replace (IZR (A * A + B * B - C * C) * bpow2 (2 * e) / (IZR (2 * A * B) * bpow2 (2 * e)))
      with (IZR (A * A + B * B - C * C) / IZR (2 * A * B)) by (field; split; lra).
    unfold Rdiv. rewrite Rabs_mult, Rabs_inv, (Rabs_pos_eq (IZR (2 * A * B))) by lra.
    apply (Rmult_le_reg_r (IZR (2 * A * B))); [exact Dp|]. rewrite Rmult_assoc, Rinv_l, Rmult_1_r, Rmult_1_l by lra.
    rewrite <- abs_IZR. apply IZR_le. exact Hex. }
  destruct (fdiv_finite _ _ Fn Fd) as [Rq Fq]; [lra | apply (rnd_small _ 0); [lia | lia | exact Hq] |].
  unfold loc_is_nan, loc_arg. fold n d. unfold fis_nan, fgt, fabs.
  set (q := fdiv n d) in *.
  rewrite (finite_not_nan q Fq). cbn [orb].
  rewrite (Bltb_correct 24 128 fone (Babs q) eq_refl ltac:(rewrite is_finite_Babs; exact Fq)).
  rewrite B2R_Babs, R_fone, Rq. apply Rlt_bool_false.
  apply Rabs_le. apply Rabs_le_inv in Hq.
  generalize (rnd_between (-1) 1 (R32 n / R32 d) ltac:(vm_compute; discriminate) ltac:(vm_compute; discriminate)).
  change (IZR (-1)) with (- 1). intros G. apply G. exact Hq.
Qed.

(* ---- from the integer form the check evaluates (tri_ints, tri_small, tri_exists) to the core lemma ---- *)
Local Open Scope Z_scope.
Lemma strip_twos_spec : forall fuel t, exists j, 0 <= j /\
  let '(A, B, C) := strip_twos fuel t in t = (A * 2 ^ j, B * 2 ^ j, C * 2 ^ j).
Proof.
  induction fuel as [|f IH]; intros [[A0 B0] C0].
  - exists 0. split; [lia|]. cbn [strip_twos]. rewrite !Z.mul_1_r. reflexivity.
  - cbn [strip_twos].
    destruct (Z.even A0 && Z.even B0 && Z.even C0 && negb ((A0 =? 0) && (B0 =? 0) && (C0 =? 0))) eqn:E.
    + apply andb_prop in E as [E _]. apply andb_prop in E as [E EC]. apply andb_prop in E as [EA EB].
      destruct (IH (A0 / 2, B0 / 2, C0 / 2)) as (j & Hj & H).
      destruct (strip_twos f (A0 / 2, B0 / 2, C0 / 2)) as [[A B] C]. injection H as HA HB HC.
      exists (j + 1). split; [lia|].
      rewrite Z.pow_add_r, Z.pow_1_r by lia.
      apply Z.even_spec in EA, EB, EC. destruct EA as [a ->], EB as [b ->], EC as [c ->].
      rewrite !(Z.mul_comm 2), !Z.div_mul in HA, HB, HC by lia. subst. f_equal; [f_equal|]; ring.
    + exists 0. split; [lia|]. rewrite !Z.mul_1_r. reflexivity.
Qed.

Lemma fpos_R (x : f32) : fpos x = true -> is_finite x = true -> (0 < R32 x)%R.
Proof.
  intros Hp Fx. unfold fpos, flt in Hp. change (f_of_Z 0) with (B754_zero false : f32) in Hp.
  rewrite (Bltb_correct 24 128 (B754_zero false) x eq_refl Fx) in Hp. cbn [B2R] in Hp.
  destruct (Rlt_bool_spec 0 (B2R x)) as [H|H]; [exact H | discriminate].
Qed.

Theorem loc_exact_no_nan (a b c : f32) t :
  tri_moderate a b c = true -> tri_ints a b c = Some t -> tri_small t = true -> tri_exists t = true ->
  loc_is_nan a b c = false.
Proof.
  intros Hm Ht Hs Hx.
  assert (Hm' := Hm). unfold tri_moderate in Hm'. repeat (apply andb_prop in Hm' as [Hm' ?]).
  destruct (moderate_range a Hm' ltac:(assumption)) as [Fa Ra].
  destruct (moderate_range b ltac:(assumption) ltac:(assumption)) as [Fb Rb].
  destruct (moderate_range c ltac:(assumption) ltac:(assumption)) as [Fc Rc].
  (* the integer form *)
  unfold tri_ints in Ht.
  destruct (dyad a) as [[ma ea]|] eqn:Da; [|discriminate]. destruct (dyad b) as [[mb eb]|] eqn:Db; [|discriminate].
  destruct (dyad c) as [[mc ec]|] eqn:Dc; [|discriminate]. injection Ht as <-.
  set (e0 := Z.min ea (Z.min eb ec)) in *.
  pose proof (dyad_value a _ _ Da) as Va. pose proof (dyad_value b _ _ Db) as Vb. pose proof (dyad_value c _ _ Dc) as Vc.
  rewrite (dy_norm_value ma ea e0) in Va by (unfold e0; lia).
  rewrite (dy_norm_value mb eb e0) in Vb by (unfold e0; lia).
  rewrite (dy_norm_value mc ec e0) in Vc by (unfold e0; lia).
  set (A0 := dy_norm ma ea e0) in *. set (B0 := dy_norm mb eb e0) in *. set (C0 := dy_norm mc ec e0) in *.
  (* exponents of moderate floats *)
  assert (Hea : -64 <= ea <= 16 /\ -64 <= eb <= 16 /\ -64 <= ec <= 16).
  { clear - Hm' H2 H3 Da Db Dc.
    destruct a as [s|s| |s m e Hb]; try discriminate. destruct b as [s'|s'| |s' m' e' Hb']; try discriminate.
    destruct c as [s''|s''| |s'' m'' e'' Hb'']; try discriminate.
    cbn [moderate] in *. cbn [dyad] in *. injection Da as _ <-. injection Db as _ <-. injection Dc as _ <-.
    apply andb_prop in Hm' as [? ?]. apply andb_prop in H2 as [? ?]. apply andb_prop in H3 as [? ?]. lia. }
  (* strip the common powers of two *)
  unfold tri_small in Hs.
  destruct (strip_twos_spec 300 (A0, B0, C0)) as (j & Hj & Hst).
  destruct (strip_twos 300 (A0, B0, C0)) as [[A B] C]. injection Hst as HA HB HC.
  repeat (apply andb_prop in Hs as [Hs ?]). apply Z.ltb_lt in Hs. 
  assert (HBs : B < 2048) by (apply Z.ltb_lt; assumption). assert (HCs : C < 2048) by (apply Z.ltb_lt; assumption).
  set (e := e0 + j).
  assert (P2 : forall z, (IZR (z * 2 ^ j) * bpow2 e0 = IZR z * bpow2 e)%R).
  { intros z. rewrite mult_IZR, (IZR_Zpower radix2) by lia. unfold e. rewrite bpow_plus. ring. }
  rewrite HA, P2 in Va. rewrite HB, P2 in Vb. rewrite HC, P2 in Vc.
  (* positivity and the range of e *)
  pose proof (fpos_R a ltac:(assumption) Fa) as Pa. pose proof (fpos_R b ltac:(assumption) Fb) as Pb.
  pose proof (fpos_R c ltac:(assumption) Fc) as Pc.
  assert (Kp : (0 < bpow2 e)%R) by apply bpow_gt_0.
  assert (PA : 0 < A). { apply lt_IZR. rewrite Va in Pa. apply (Rmult_lt_reg_r (bpow2 e)); [exact Kp|]. rewrite Rmult_0_l. exact Pa. }
  assert (PB : 0 < B). { apply lt_IZR. rewrite Vb in Pb. apply (Rmult_lt_reg_r (bpow2 e)); [exact Kp|]. rewrite Rmult_0_l. exact Pb. }
  assert (PC : 0 < C). { apply lt_IZR. rewrite Vc in Pc. apply (Rmult_lt_reg_r (bpow2 e)); [exact Kp|]. rewrite Rmult_0_l. exact Pc. }
  assert (He : -64 <= e <= 41).
  { split; [unfold e, e0; lia|].
    assert (L : (bpow2 e < bpow2 41)%R).
    { apply Rle_lt_trans with (IZR A * bpow2 e)%R; [|rewrite <- Va; apply Ra].
      rewrite <- (Rmult_1_l (bpow2 e)) at 1. apply Rmult_le_compat_r; [lra|]. apply IZR_le. lia. }
    apply lt_bpow in L. lia. }
  (* the triangle inequality on the stripped integers *)
  assert (Hex : Z.abs (A * A + B * B - C * C) <= 2 * A * B).
  { unfold tri_exists, tri_N, tri_D in Hx. apply Z.leb_le in Hx. rewrite HA, HB, HC in Hx.
    assert (S : 0 < 2 ^ j * 2 ^ j) by (apply Z.mul_pos_pos; apply Z.pow_pos_nonneg; lia).
    replace (A * 2 ^ j * (A * 2 ^ j) + B * 2 ^ j * (B * 2 ^ j) - C * 2 ^ j * (C * 2 ^ j))
      with ((2 ^ j * 2 ^ j) * (A * A + B * B - C * C)) in Hx by ring.
    replace (2 * (A * 2 ^ j) * (B * 2 ^ j)) with ((2 ^ j * 2 ^ j) * (2 * A * B)) in Hx by ring.
    rewrite Z.abs_mul, (Z.abs_eq (2 ^ j * 2 ^ j)) in Hx by lia.
    apply Z.mul_le_mono_pos_l in Hx; [exact Hx | exact S]. }
  apply (loc_exact_core a b c A B C e Fa Fb Fc Va Vb Vc); lia.
Qed.
