From Coq Require Import ZArith List Bool Lia ZifyBool.
Import ListNotations.
Require Import GV.Gen.Consts GV.Model.Outcome GV.Model.J1939 GV.Model.Governor GV.Model.Hcu GV.Model.Object
  GV.Model.HcuUnit GV.Model.Units GV.Model.Volvo GV.Model.Authority GV.Proofs.Units_proof.
Local Open Scope Z_scope.

Definition HEALTHY : Z * option Z := (ST_HEALTHY, None).
Definition TIMEOUT : Z * option Z := (ST_FAULTY, Some ERR_TIMEOUT).

Lemma status_eqb_refl s : status_eqb s s = true.
Proof. destruct s as [a [b|]]; unfold status_eqb; cbn; rewrite ?Z.eqb_refl; reflexivity. Qed.
Lemma status_eqb_eq a b : status_eqb a b = true -> a = b.
Proof.
  destruct a as [a1 [a2|]], b as [b1 [b2|]]; unfold status_eqb; cbn; intros H; try discriminate;
    apply andb_prop in H as [H1 H2]; f_equal; try f_equal; lia.
Qed.
Lemma healthy_ne_timeout : status_eqb HEALTHY TIMEOUT = false.
Proof. reflexivity. Qed.

(* what a cycle decides for one unit *)
Definition decided (it : ditem) (now : Z) : option (Z * option Z) :=
  if timed_out it now then Some TIMEOUT else if 0 <? rx_count (i_ctx it) then Some HEALTHY else None.

Lemma item_status_spec it tick now :
  let '(it', pub) := item_status it tick now in
  let d := decided it now in
  let changed := match d with Some s => match i_last it with Some l => negb (status_eqb l s) | None => true end | None => false end in
  i_last it' = (if changed then d else i_last it)
  /\ pub = (match i_last it' with Some s => if (tick mod status_refresh_cycles =? 0) || changed then Some s else None | None => None end)
  /\ i_kind it' = i_kind it /\ i_cfg it' = i_cfg it /\ i_ctx it' = i_ctx it /\ i_rx_time it' = i_rx_time it /\ i_timeout it' = i_timeout it.
Proof.
  unfold item_status, decided, HEALTHY, TIMEOUT. cbn [i_last i_kind i_cfg i_ctx i_rx_time i_timeout].
  destruct (timed_out it now); destruct (0 <? rx_count (i_ctx it)); repeat split; reflexivity.
Qed.

(* history invariant: the stored last status is Healthy only if the unit has been heard *)
Definition last_inv (it : ditem) : Prop :=
  i_last it = Some HEALTHY -> 0 < rx_count (i_ctx it).

Lemma item_status_inv it tick now : last_inv it -> last_inv (fst (item_status it tick now)).
Proof.
  intros H. pose proof (item_status_spec it tick now) as S. destruct (item_status it tick now) as [it' pub].
  cbn [fst]. destruct S as (L & _ & _ & _ & C & _). unfold last_inv. rewrite L, C. unfold decided.
  destruct (timed_out it now).
  - destruct (i_last it) as [l|] eqn:El.
    + destruct (negb (status_eqb l TIMEOUT)); [discriminate|]. intros E. apply H. rewrite El. exact E.
    + discriminate.
  - destruct (0 <? rx_count (i_ctx it)) eqn:R; [intros _; lia | exact H].
Qed.

(* Healthy is published only for a unit that has been heard and whose last message is fresh *)
Theorem healthy_sound : forall it tick now it',
  last_inv it -> item_status it tick now = (it', Some HEALTHY) -> 0 < rx_count (i_ctx it) /\ timed_out it now = false.
Proof.
  intros it tick now it' Hinv H.
  pose proof (item_status_spec it tick now) as S. rewrite H in S. destruct S as (L & P & _).
  unfold decided in *. destruct (timed_out it now) eqn:T.
  - exfalso. rewrite L in P.
    destruct (i_last it) as [l|] eqn:El.
    + destruct (negb (status_eqb l TIMEOUT)) eqn:C.
      * destruct ((tick mod status_refresh_cycles =? 0) || true); discriminate.
      * apply negb_false_iff, status_eqb_eq in C. subst l.
        destruct ((tick mod status_refresh_cycles =? 0) || false); discriminate.
    + destruct ((tick mod status_refresh_cycles =? 0) || true); discriminate.
  - split; [|reflexivity]. destruct (0 <? rx_count (i_ctx it)) eqn:R; [lia|]. exfalso.
    rewrite L in P. destruct (i_last it) as [l|] eqn:El; [|discriminate].
    destruct ((tick mod status_refresh_cycles =? 0) || false); [|discriminate].
    injection P as <-. specialize (Hinv El). lia.
Qed.

(* once silent longer than the timeout the cycle records Faulty/communication-timeout, and
   publishes it if that is a change (or on every tenth cycle) *)
Theorem timeout_published : forall it tick now,
  timed_out it now = true ->
  i_last (fst (item_status it tick now)) = Some TIMEOUT
  /\ (i_last it <> Some TIMEOUT -> snd (item_status it tick now) = Some TIMEOUT).
Proof.
  intros it tick now T. pose proof (item_status_spec it tick now) as S.
  destruct (item_status it tick now) as [it' pub]. cbn [fst snd]. destruct S as (L & P & _).
  unfold decided in *. rewrite T in *.
  destruct (i_last it) as [l|] eqn:El.
  - destruct (negb (status_eqb l TIMEOUT)) eqn:C.
    + split; [exact L|]. intros _. rewrite L in P. rewrite P, orb_true_r. reflexivity.
    + apply negb_false_iff, status_eqb_eq in C. subst l. split; [rewrite L; reflexivity | congruence].
  - split; [exact L|]. intros _. rewrite L in P. rewrite P, orb_true_r. reflexivity.
Qed.

(* when it speaks again (heard, fresh) Healthy is published again *)
Theorem recovers : forall it tick now,
  timed_out it now = false -> 0 < rx_count (i_ctx it) -> i_last it <> Some HEALTHY ->
  snd (item_status it tick now) = Some HEALTHY.
Proof.
  intros it tick now T R Hl. pose proof (item_status_spec it tick now) as S.
  destruct (item_status it tick now) as [it' pub]. cbn [snd]. destruct S as (L & P & _).
  unfold decided in *. rewrite T in *. assert (E : 0 <? rx_count (i_ctx it) = true) by lia. rewrite E in *.
  destruct (i_last it) as [l|] eqn:El.
  - destruct (negb (status_eqb l HEALTHY)) eqn:C.
    + rewrite L in P. rewrite P, orb_true_r. reflexivity.
    + apply negb_false_iff, status_eqb_eq in C. subst l. congruence.
  - rewrite L in P. rewrite P, orb_true_r. reflexivity.
Qed.

(* a status exists => it is published at every change and at every tenth cycle, and only then *)
Theorem published_iff : forall it tick now s,
  snd (item_status it tick now) = Some s <->
  i_last (fst (item_status it tick now)) = Some s
  /\ (tick mod status_refresh_cycles = 0 \/ i_last (fst (item_status it tick now)) <> i_last it).
Proof.
  intros it tick now s. pose proof (item_status_spec it tick now) as S.
  destruct (item_status it tick now) as [it' pub]. cbn [fst snd]. destruct S as (L & P & _).
  set (d := decided it now) in *.
  set (changed := match d with Some s0 => match i_last it with Some l => negb (status_eqb l s0) | None => true end | None => false end) in *.
  assert (Hc : changed = true <-> i_last it' <> i_last it).
  { rewrite L. split.
    - intros C. rewrite C. subst changed. destruct d as [s0|]; [|discriminate].
      destruct (i_last it) as [l|]; [|discriminate]. intros E. injection E as ->.
      rewrite status_eqb_refl in C. discriminate.
    - intros H. destruct changed; [reflexivity|]. exfalso. apply H. reflexivity. }
  rewrite P. destruct (i_last it') as [s'|]; [|split; [discriminate | intros [H _]; discriminate]].
  destruct (tick mod status_refresh_cycles =? 0) eqn:Et; cbn [orb].
  - split; [intros H; injection H as ->; split; [reflexivity | left; lia] | intros [H _]; exact H].
  - destruct changed eqn:C.
    + split; [intros H; injection H as ->; split; [reflexivity | right; apply Hc; reflexivity] | intros [H _]; exact H].
    + split; [discriminate|]. intros [_ [H|H]]; [lia | apply Hc in H; discriminate].
Qed.

(* nothing is published for a unit that has never been heard and has not yet timed out *)
Theorem silent_start : forall it tick now,
  rx_count (i_ctx it) = 0 -> timed_out it now = false -> i_last it = None ->
  item_status it tick now = (it, None).
Proof.
  intros it tick now R T Hl. unfold item_status. rewrite T, Hl. assert (E : 0 <? rx_count (i_ctx it) = false) by lia.
  rewrite E. destruct it; cbn in *; subst; reflexivity.
Qed.

(* receive bookkeeping: the scan marks exactly the accepting unit and stamps it with the time *)
Theorem scan_marks : forall its now f,
  Forall2 (fun it it' =>
     i_kind it' = i_kind it /\ i_cfg it' = i_cfg it /\ i_last it' = i_last it /\ i_timeout it' = i_timeout it
     /\ rx_count (i_ctx it) <= rx_count (i_ctx it')
     /\ (rx_count (i_ctx it') = rx_count (i_ctx it) -> i_rx_time it' = i_rx_time it)
     /\ (rx_count (i_ctx it) < rx_count (i_ctx it') -> i_rx_time it' = now /\ id_sa (f_id f) = u_da (i_cfg it)))
    its (fst (scan_items its now f)).
Proof.
  induction its as [|it its IH]; intros now f; cbn [scan_items]; [constructor|].
  set (r := unit_recv (i_kind it) (i_cfg it) (i_ctx it) f).
  destruct (Z.eq_dec (id_sa (f_id f)) (u_da (i_cfg it))) as [E|E].
  - assert (Hc : rx_count (i_ctx it) <= rx_count (r_ctx r)).
    { subst r. destruct (i_kind it); cbn [unit_recv];
        unfold hcu_recv, vcu_recv, ecu_recv, encoder_recv, inclino_recv, ems_recv, ignore, alive;
        split_ifs; cbn [r_ctx rx_mark set_rx rx_count]; lia. }
    destruct (r_sigs r) as [|s sigs] eqn:S.
    + specialize (IH now f). destruct (scan_items its now f) as [t' s']. cbn [fst] in *. constructor; [|exact IH].
      unfold with_ctx. cbn [i_kind i_cfg i_last i_timeout i_ctx i_rx_time].
      repeat split; auto.
      * intros Heq. assert (X : negb (rx_count (r_ctx r) =? rx_count (i_ctx it)) = false) by lia. rewrite X. reflexivity.
      * assert (X : negb (rx_count (r_ctx r) =? rx_count (i_ctx it)) = true) by lia. rewrite X. reflexivity.
    + cbn [fst]. constructor.
      * unfold with_ctx. cbn [i_kind i_cfg i_last i_timeout i_ctx i_rx_time rx_mark rx_count].
        repeat split; auto; lia.
      * clear. induction its as [|x xs IHx]; constructor; auto. repeat split; auto; lia.
  - assert (R : r = ignore (i_ctx it)) by (subst r; apply c11_foreign_ignore; exact E).
    rewrite R. cbn [ignore r_sigs r_ctx].
    specialize (IH now f). destruct (scan_items its now f) as [t' s']. cbn [fst] in *. constructor; [|exact IH].
    unfold with_ctx. cbn [i_kind i_cfg i_last i_timeout i_ctx i_rx_time]. rewrite Z.eqb_refl. cbn [negb].
    repeat split; auto; lia.
Qed.
