(* The model abstracts from time on the premise that this file uses exactly these kinds of timing / readiness primitives
   (codes: 1 timeout 2 sleep 3 try_lock 4 try_send 5 try_recv() 6 try_read/try_write 7 elapsed 8 Instant::now
   9 interval 10 select! 11 tick()), re-extracted from the source on every run (Gen/Consts.v).
   driver/net/engine.rs *)
From Coq Require Import ZArith List.
Import ListNotations.
Require Import GV.Gen.Consts.
Local Open Scope Z_scope.
Lemma w_engine : waits_engine = [].
Proof. reflexivity. Qed.
